package main

import (
	"fmt"
	"go/types"

	"golang.org/x/tools/go/ssa"

	"omnilint/core"
)

func aliasParam(v ssa.Value, seen map[ssa.Value]bool) *ssa.Parameter {
	if seen[v] {
		return nil
	}
	seen[v] = true
	switch x := v.(type) {
	case *ssa.Parameter:
		return x
	case *ssa.Phi:
		for _, e := range x.Edges {
			if p := aliasParam(e, seen); p != nil {
				return p
			}
		}
	case *ssa.ChangeType:
		return aliasParam(x.X, seen)
	}
	return nil
}

func main() {
	c, err := core.Load("/repo", core.Variant{Name: "default"})
	if err != nil {
		panic(err)
	}
	c.SSA()
	for _, f := range c.RepoFunctions() {
		if core.IsCLIOrSample(core.FuncPkg(f)) {
			continue
		}
		for _, b := range f.Blocks {
			for _, in := range b.Instrs {
				if mu, ok := in.(*ssa.MapUpdate); ok {
					if p := aliasParam(mu.Map, map[ssa.Value]bool{}); p != nil {
						fmt.Printf("MAPUPD %s %s param %s\n", c.Position(core.InstrPos(in)), core.FuncKey(f), p.Name())
					}
				}
				if st, ok := in.(*ssa.Store); ok {
					if ia, ok := st.Addr.(*ssa.IndexAddr); ok {
						if _, isSl := ia.X.Type().Underlying().(*types.Slice); isSl {
							if p := aliasParam(ia.X, map[ssa.Value]bool{}); p != nil {
								fmt.Printf("ELEMST %s %s param %s\n", c.Position(core.InstrPos(in)), core.FuncKey(f), p.Name())
							}
						}
					}
				}
			}
		}
	}
}
