package main

import (
	"fmt"
	"go/token"
	"strings"

	"golang.org/x/tools/go/ssa"

	"omnilint/core"
)

func main() {
	c, err := core.Load("/repo", core.Variant{Name: "default"})
	if err != nil {
		panic(err)
	}
	c.SSA()
	for _, f := range c.RepoFunctions() {
		if core.IsCLIOrSample(core.FuncPkg(f)) {
			continue
		}
		for _, b := range f.Blocks {
			for _, in := range b.Instrs {
				for _, op := range in.Operands(nil) {
					g, ok := (*op).(*ssa.Global)
					if !ok || !core.InRepo(g.Pkg.Pkg) || strings.HasSuffix(g.Name(), "$guard") {
						continue
					}
					switch x := in.(type) {
					case *ssa.UnOp:
						if x.Op == token.MUL {
							continue
						}
					case *ssa.Store:
						if x.Addr == ssa.Value(g) {
							continue
						}
					}
					fmt.Printf("%s %s: %T %s (global %s)\n", c.Position(core.InstrPos(in)), core.FuncKey(f), in, in, g.Name())
				}
			}
		}
	}
}
