package main

import (
	"fmt"
	"go/types"
	"reflect"
	"strings"

	"omnilint/core"
)

func main() {
	c, err := core.Load("/repo", core.Variant{Name: "default"})
	if err != nil {
		panic(err)
	}
	c.SSA()
	for _, f := range c.RepoFunctions() {
		if core.IsCLIOrSample(core.FuncPkg(f)) {
			continue
		}
		for _, w := range core.Writes(f) {
			if w.Field == nil || w.Owner == nil || !w.Field.Exported() {
				continue
			}
			st, ok := w.Owner.Underlying().(*types.Struct)
			if !ok {
				continue
			}
			tag := ""
			for i := 0; i < st.NumFields(); i++ {
				if st.Field(i) == w.Field {
					tag = reflect.StructTag(st.Tag(i)).Get("json")
				}
			}
			if tag == "" || !core.InRepo(w.Owner.Obj().Pkg()) {
				continue
			}
			fmt.Printf("%s\t%s.%s\t%s\tkind=%s fresh=%v\n", c.Position(w.Pos), w.Owner.Obj().Name(), w.Field.Name(), core.FuncKey(f), w.Kind, core.IsFresh(w.Root))
		}
	}
	_ = strings.Join
}
