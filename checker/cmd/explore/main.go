package main

import (
	"fmt"
	"go/token"

	"golang.org/x/tools/go/ssa"

	"omnilint/core"
)

func isLenLike(v ssa.Value) bool {
	cl, ok := v.(*ssa.Call)
	if !ok {
		return false
	}
	if bi, ok := cl.Call.Value.(*ssa.Builtin); ok && (bi.Name() == "len" || bi.Name() == "cap") {
		return true
	}
	if o := core.CalleeObj(cl); o != nil && o.Name() == "Len" {
		return true
	}
	return false
}

func main() {
	c, err := core.Load("/repo", core.Variant{Name: "default"})
	if err != nil {
		panic(err)
	}
	c.SSA()
	for _, f := range c.RepoFunctions() {
		if core.IsCLIOrSample(core.FuncPkg(f)) {
			continue
		}
		for _, b := range f.Blocks {
			for _, in := range b.Instrs {
				switch x := in.(type) {
				case *ssa.Slice:
					for _, bd := range []ssa.Value{x.Low, x.High, x.Max} {
						if bo, ok := bd.(*ssa.BinOp); ok && bo.Op == token.SUB {
							fmt.Printf("SLICE-SUB %s %s: %s  lenlike=%v\n", c.Position(core.InstrPos(in)), core.FuncKey(f), bo, isLenLike(bo.X))
						}
					}
				case *ssa.IndexAddr:
					if bo, ok := x.Index.(*ssa.BinOp); ok && bo.Op == token.SUB {
						fmt.Printf("INDEX-SUB %s %s: %s lenlike=%v\n", c.Position(core.InstrPos(in)), core.FuncKey(f), bo, isLenLike(bo.X))
					}
				case *ssa.Index:
					if bo, ok := x.Index.(*ssa.BinOp); ok && bo.Op == token.SUB {
						fmt.Printf("INDEX-SUB %s %s: %s lenlike=%v\n", c.Position(core.InstrPos(in)), core.FuncKey(f), bo, isLenLike(bo.X))
					}
				case *ssa.MakeSlice:
					_, lc := x.Len.(*ssa.Const)
					_, cc := x.Cap.(*ssa.Const)
					if !lc || !cc {
						fmt.Printf("MAKESLICE %s %s: len=%s cap=%s\n", c.Position(core.InstrPos(in)), core.FuncKey(f), x.Len, x.Cap)
					}
				}
			}
		}
	}
}
