// explore: throw-away inventory printer used while developing rules (not part of any check).
package main

import (
	"fmt"
	"os"
	"sort"

	"golang.org/x/tools/go/ssa"

	"omnilint/core"
)

func main() {
	c, err := core.Load("/repo", core.Variant{Name: "default"})
	if err != nil {
		fmt.Println(err)
		os.Exit(1)
	}
	c.SSA()
	roots := []*ssa.Function{c.Method("", "schema", "NewTransform"), c.Method("", "transform", "Read"), c.Method("", "transform", "RawRecord"),
		c.Method("extensions/omniv21", "rawRecord", "Raw"), c.Method("extensions/omniv21", "rawRecord", "Checksum")}
	for _, rel := range []string{"customfuncs", "extensions/omniv21/customfuncs"} {
		in := c.SSAPkg(rel).Func("init")
		for _, b := range in.Blocks {
			for _, i := range b.Instrs {
				if mu, ok := i.(*ssa.MapUpdate); ok {
					if mi, ok := mu.Value.(*ssa.MakeInterface); ok {
						if f, ok := mi.X.(*ssa.Function); ok {
							roots = append(roots, f)
						}
					}
				}
			}
		}
	}
	for _, r := range roots {
		fmt.Println("root", r)
	}
	run := c.Reachable(roots, nil)
	pathTo(c, roots, "omniparser.NewSchema")
	pathTo(c, roots, "cli/cmd.httpGetVersion")
	pathTo(c, roots, "cli/cmd.httpPostTransform")
	pathTo(c, roots, "extensions/omniv21/customfuncs.resetCaches")
	n := 0
	var lines []string
	for f := range run {
		if !core.InRepo(core.FuncPkg(f)) {
			continue
		}
		n++
		for _, b := range f.Blocks {
			for _, in := range b.Instrs {
				for _, op := range in.Operands(nil) {
					if g, ok := (*op).(*ssa.Global); ok {
						lines = append(lines, fmt.Sprintf("%s: %s in %s [%T]", g.String(), c.Position(core.InstrPos(in)), core.FuncKey(f), in))
					}
				}
			}
		}
	}
	sort.Strings(lines)
	fmt.Println("run-set repo functions:", n, "total:", len(run))
	for _, l := range lines {
		fmt.Println(l)
	}
}

func init() {
	pathTo = func(c *core.Ctx, roots []*ssa.Function, target string) {
		cg := c.CallGraph()
		prev := map[*ssa.Function]*ssa.Function{}
		var q []*ssa.Function
		for _, r := range roots {
			prev[r] = r
			q = append(q, r)
		}
		for len(q) > 0 {
			f := q[0]
			q = q[1:]
			if core.FuncKey(f) == target {
				for x := f; ; x = prev[x] {
					fmt.Println("   <-", x)
					if prev[x] == x {
						break
					}
				}
				return
			}
			if n := cg.Nodes[f]; n != nil {
				for _, e := range n.Out {
					if _, ok := prev[e.Callee.Func]; !ok {
						prev[e.Callee.Func] = f
						q = append(q, e.Callee.Func)
					}
				}
			}
		}
		fmt.Println("no path to", target)
	}
}

var pathTo func(c *core.Ctx, roots []*ssa.Function, target string)
