// omnilint: repository-specific static analyser deciding structural clauses of the omniparser
// properties C01..C20. It never executes omniparser code.
package main

import (
	"encoding/json"
	"flag"
	"fmt"
	"os"
	"os/exec"
	"path/filepath"
	"runtime/debug"
	"sort"
	"strconv"
	"strings"
	"sync"
	"time"

	"omnilint/core"
	"omnilint/rules"
)

var variants = map[string]core.Variant{
	"default":    {Name: "default"},
	"tags-verif": {Name: "tags-verif", Tags: "verif"},
	"arch-386":   {Name: "arch-386", Env: []string{"GOARCH=386", "CGO_ENABLED=0"}},
}

type runOutput struct {
	Property    string                    `json:"property"`
	Variant     string                    `json:"variant"`
	Repo        string                    `json:"repo"`
	Obligations []*core.Obligation        `json:"obligations"`
	Violations  []*core.Obligation        `json:"violations"`
	Known       []*core.Obligation        `json:"known"`
	Counts      map[string]int            `json:"counts"`
	PerRule     map[string]map[string]int `json:"per_rule"`
	Stats       map[string]int            `json:"stats"`
	Packages    int                       `json:"packages"`
	Files       int                       `json:"files"`
	Notes       []string                  `json:"notes"`
	Fatal       string                    `json:"fatal,omitempty"`
	WallS       float64                   `json:"wall_s"`
}

func analyse(prop, repo, verifRoot string, v core.Variant) (out *runOutput) {
	out = &runOutput{Property: prop, Variant: v.Name, Repo: repo, Counts: map[string]int{}}
	start := time.Now()
	defer func() {
		if r := recover(); r != nil {
			out.Fatal = fmt.Sprintf("analyser panic: %v\n%s", r, debug.Stack())
		}
		out.WallS = time.Since(start).Seconds()
	}()
	rs := rules.Registry[prop]
	if rs == nil {
		out.Fatal = "no rule set for property " + prop
		return
	}
	c, err := core.Load(repo, v)
	if err != nil {
		out.Fatal = err.Error()
		return
	}
	c.Prop = prop
	known, err := core.LoadKnown(filepath.Join(verifRoot, "known_findings.json"))
	if err != nil {
		out.Fatal = err.Error()
		return
	}
	rs.Run(c)
	res := c.Finish(known)
	out.Obligations = res.Obligations
	out.Violations = res.Violations
	out.Known = res.Known
	out.Counts = res.Counts
	out.PerRule = res.PerRule
	out.Stats = c.Stats
	out.Packages = len(c.Pkgs)
	out.Files = c.NFiles
	out.Notes = c.Notes
	return
}

// analyseMany loads the tree once and evaluates several rule sets on sub-contexts that share the program (used by the
// seed matrix and the benign-corpus tools; registered checks always run one property per process).
func analyseMany(props []string, repo, verifRoot string, v core.Variant, dir string) int {
	base, err := core.Load(repo, v)
	known, kerr := core.LoadKnown(filepath.Join(verifRoot, "known_findings.json"))
	code := 0
	for _, prop := range props {
		out := &runOutput{Property: prop, Variant: v.Name, Repo: repo, Counts: map[string]int{}}
		func() {
			start := time.Now()
			defer func() {
				if r := recover(); r != nil {
					out.Fatal = fmt.Sprintf("analyser panic: %v\n%s", r, debug.Stack())
				}
				out.WallS = time.Since(start).Seconds()
			}()
			rs := rules.Registry[prop]
			switch {
			case rs == nil:
				out.Fatal = "no rule set for property " + prop
				return
			case err != nil:
				out.Fatal = err.Error()
				return
			case kerr != nil:
				out.Fatal = kerr.Error()
				return
			}
			c := base.Sub()
			c.Prop = prop
			rs.Run(c)
			res := c.Finish(known)
			out.Obligations, out.Violations, out.Known, out.Counts, out.PerRule = res.Obligations, res.Violations, res.Known, res.Counts, res.PerRule
			out.Stats, out.Packages, out.Files, out.Notes = c.Stats, len(c.Pkgs), c.NFiles, c.Notes
		}()
		out.Obligations = nil // keep the files small: violations and known findings carry everything the tools need
		b, _ := json.MarshalIndent(out, "", " ")
		if werr := os.WriteFile(filepath.Join(dir, prop+".json"), b, 0o644); werr != nil {
			fmt.Fprintln(os.Stderr, werr)
			return 2
		}
		if out.Fatal != "" || len(out.Violations) > 0 {
			code = 1
		}
	}
	return code
}

func main() {
	prop := flag.String("prop", "", "property id (C01..C20)")
	props := flag.String("props", "", "comma-separated property ids: evaluate all of them on one loaded program, raw outputs to -rawdir (tools only)")
	rawDir := flag.String("rawdir", "", "directory for the raw outputs of -props")
	tier := flag.String("tier", "quick", "quick|thorough")
	repo := flag.String("repo", "/repo", "repository working tree to analyse")
	verif := flag.String("verif", "/verif", "verification root (known_findings.json, evidence/)")
	outDir := flag.String("out", "", "evidence directory (default <verif>/evidence)")
	variant := flag.String("variant", "default", "build variant")
	raw := flag.String("raw", "", "write the raw run output JSON to this file and print nothing else (internal)")
	only := flag.String("only", "", "print only obligations whose construct contains this text")
	listControls := flag.Bool("list-controls", false, "list positive controls")
	flag.Parse()
	// watchdog: an analysis that has not finished after 20 minutes is stuck (a rule looping); fail loudly instead of
	// eating the machine
	go func() {
		lim := 20 * time.Minute
		if *tier == "thorough" {
			lim = 3 * time.Hour
		}
		time.Sleep(lim)
		fmt.Printf("omnilint: FATAL: analysis of %s%s did not finish within %s\nVIOLATION property=%s replay=-\n", *prop, *props, lim, *prop)
		os.Exit(1)
	}()
	if *listControls {
		for _, c := range rules.Controls {
			fmt.Printf("%s\t%s\t%s\t%s\n", c.ID, c.Prop, c.Rule, c.File)
		}
		return
	}
	if *outDir == "" {
		*outDir = filepath.Join(*verif, "evidence")
	}
	seed := 0
	if s := os.Getenv("VERIF_SEED"); s != "" {
		seed, _ = strconv.Atoi(s)
	}
	v, ok := variants[*variant]
	if !ok {
		fmt.Fprintf(os.Stderr, "unknown variant %s\n", *variant)
		os.Exit(2)
	}
	if *props != "" {
		if *rawDir == "" {
			fmt.Fprintln(os.Stderr, "-props needs -rawdir")
			os.Exit(2)
		}
		os.Exit(analyseMany(strings.Split(*props, ","), *repo, *verif, v, *rawDir))
	}
	out := analyse(*prop, *repo, *verif, v)
	if *raw != "" {
		b, _ := json.MarshalIndent(out, "", " ")
		if err := os.WriteFile(*raw, b, 0o644); err != nil {
			fmt.Fprintln(os.Stderr, err)
			os.Exit(2)
		}
		if out.Fatal != "" || len(out.Violations) > 0 {
			os.Exit(1)
		}
		return
	}
	if *only != "" {
		for _, o := range out.Obligations {
			if strings.Contains(o.Construct, *only) || strings.Contains(o.Rule, *only) {
				fmt.Printf("%s: [%s/%s] %s: %s — %s\n", o.Pos, o.Property, o.Rule, o.Construct, o.Status, o.Detail)
			}
		}
	}

	var extra *thoroughResult
	if *tier == "thorough" && out.Fatal == "" {
		extra = thorough(*prop, *repo, *verif, seed)
	}
	os.Exit(finish(out, extra, *prop, *tier, *outDir, seed))
}

type variantSummary struct {
	Variant     string  `json:"variant"`
	Obligations int     `json:"obligations"`
	Violations  int     `json:"violations"`
	Fatal       string  `json:"fatal,omitempty"`
	WallS       float64 `json:"wall_s"`
}

type controlResult struct {
	ID      string `json:"id"`
	Kind    string `json:"kind"` // control | seeded
	Rule    string `json:"rule"`
	Outcome string `json:"outcome"` // fired | missed | skipped
	Detail  string `json:"detail,omitempty"`
}

type thoroughResult struct {
	Variants   []variantSummary
	Violations []*core.Obligation // from non-default variants
	Fatal      []string
	Controls   []controlResult
}

func self() string {
	p, err := os.Executable()
	if err != nil {
		return os.Args[0]
	}
	return p
}

func runSub(prop, repo, verif, variant string) (*runOutput, error) {
	f, err := os.CreateTemp("", "omnilint-raw-*.json")
	if err != nil {
		return nil, err
	}
	f.Close()
	defer os.Remove(f.Name())
	cmd := exec.Command(self(), "-prop", prop, "-repo", repo, "-verif", verif, "-variant", variant, "-raw", f.Name())
	cmd.Stderr = os.Stderr
	_ = cmd.Run()
	b, err := os.ReadFile(f.Name())
	if err != nil {
		return nil, err
	}
	var o runOutput
	if err := json.Unmarshal(b, &o); err != nil {
		return nil, fmt.Errorf("sub-run %s/%s produced no output: %v", prop, variant, err)
	}
	return &o, nil
}

func thorough(prop, repo, verif string, seed int) *thoroughResult {
	tr := &thoroughResult{}
	var mu sync.Mutex
	sem := make(chan struct{}, 4)
	var wg sync.WaitGroup
	for _, vn := range []string{"tags-verif", "arch-386"} {
		vn := vn
		wg.Add(1)
		go func() {
			defer wg.Done()
			sem <- struct{}{}
			defer func() { <-sem }()
			o, err := runSub(prop, repo, verif, vn)
			mu.Lock()
			defer mu.Unlock()
			if err != nil {
				tr.Fatal = append(tr.Fatal, err.Error())
				return
			}
			tr.Variants = append(tr.Variants, variantSummary{vn, len(o.Obligations), len(o.Violations), o.Fatal, o.WallS})
			if o.Fatal != "" {
				tr.Fatal = append(tr.Fatal, vn+": "+o.Fatal)
			}
			for _, v := range o.Violations {
				v.Construct = "[" + vn + "] " + v.Construct
				tr.Violations = append(tr.Violations, v)
			}
		}()
	}
	// positive controls and seeded changes
	type job struct {
		id, kind, rule, substr string
		apply                  func(dir string) (bool, string)
	}
	var jobs []job
	for _, ct := range rules.Controls {
		if ct.Prop != prop {
			continue
		}
		ct := ct
		jobs = append(jobs, job{ct.ID, "control", ct.Rule, ct.Substr, func(dir string) (bool, string) {
			p := filepath.Join(dir, ct.File)
			b, err := os.ReadFile(p)
			if err != nil {
				return false, "file missing: " + ct.File
			}
			if strings.Count(string(b), ct.Old) != 1 {
				return false, fmt.Sprintf("anchor text occurs %d times in %s", strings.Count(string(b), ct.Old), ct.File)
			}
			out := strings.Replace(string(b), ct.Old, ct.New, 1)
			if ct.Old2 != "" {
				if strings.Count(out, ct.Old2) != 1 {
					return false, fmt.Sprintf("second anchor text occurs %d times in %s", strings.Count(out, ct.Old2), ct.File)
				}
				out = strings.Replace(out, ct.Old2, ct.New2, 1)
			}
			if err := os.WriteFile(p, []byte(out), 0o644); err != nil {
				return false, err.Error()
			}
			return true, ""
		}})
	}
	seededAll := loadSeeded(verif, prop)
	// bound the cost of the tier: at most 16 seeded changes per run, chosen by rotation with VERIF_SEED so that repeated
	// runs with different seeds cover all of them
	if max := 16; len(seededAll) > max {
		var pick []seeded
		for i := 0; i < max; i++ {
			pick = append(pick, seededAll[(seed*max+i)%len(seededAll)])
		}
		seededAll = pick
	}
	for _, sd := range seededAll {
		sd := sd
		jobs = append(jobs, job{sd.ID, "seeded", sd.Rule, sd.Substr, func(dir string) (bool, string) {
			cmd := exec.Command("git", "apply", "--whitespace=nowarn", filepath.Join(verif, "seeded", sd.ID, "patch.diff"))
			cmd.Dir = dir
			if b, err := cmd.CombinedOutput(); err != nil {
				return false, "patch does not apply: " + strings.TrimSpace(string(b))
			}
			return true, ""
		}})
	}
	sort.SliceStable(jobs, func(i, j int) bool { return (i+seed)%len(jobs) < (j+seed)%len(jobs) })
	for _, j := range jobs {
		j := j
		wg.Add(1)
		go func() {
			defer wg.Done()
			sem <- struct{}{}
			defer func() { <-sem }()
			res := controlResult{ID: j.id, Kind: j.kind, Rule: j.rule}
			defer func() {
				mu.Lock()
				tr.Controls = append(tr.Controls, res)
				mu.Unlock()
			}()
			dir, err := scratchCopy(repo)
			if dir != "" {
				defer os.RemoveAll(dir)
			}
			if err != nil {
				res.Outcome, res.Detail = "skipped", "scratch copy failed: "+err.Error()
				return
			}
			if ok, why := j.apply(dir); !ok {
				res.Outcome, res.Detail = "skipped", why
				return
			}
			o, err := runSub(prop, dir, verif, "default")
			if err != nil {
				res.Outcome, res.Detail = "missed", err.Error()
				return
			}
			if o.Fatal != "" {
				res.Outcome, res.Detail = "skipped", "mutant does not load: "+firstLine(o.Fatal)
				return
			}
			for _, v := range o.Violations {
				if (j.rule == "" || v.Rule == j.rule) && strings.Contains(v.Construct, j.substr) {
					res.Outcome, res.Detail = "fired", v.Pos+": "+v.Construct
					return
				}
			}
			res.Outcome = "missed"
			res.Detail = fmt.Sprintf("%d violation(s), none of rule %s naming %q", len(o.Violations), j.rule, j.substr)
		}()
	}
	wg.Wait()
	sort.Slice(tr.Variants, func(i, j int) bool { return tr.Variants[i].Variant < tr.Variants[j].Variant })
	sort.Slice(tr.Controls, func(i, j int) bool { return tr.Controls[i].ID < tr.Controls[j].ID })
	return tr
}

func firstLine(s string) string {
	if i := strings.IndexByte(s, '\n'); i >= 0 {
		return s[:i]
	}
	return s
}

type seeded struct {
	ID, Rule, Substr string
}

func loadSeeded(verif, prop string) []seeded {
	ents, _ := os.ReadDir(filepath.Join(verif, "seeded"))
	var out []seeded
	for _, e := range ents {
		b, err := os.ReadFile(filepath.Join(verif, "seeded", e.Name(), "meta.json"))
		if err != nil {
			continue
		}
		var m struct {
			Property string `json:"property"`
			Caught   []struct {
				Property string `json:"property"`
				Rule     string `json:"rule"`
				Substr   string `json:"construct_contains"`
			} `json:"caught_by"`
		}
		if json.Unmarshal(b, &m) != nil {
			continue
		}
		for _, cb := range m.Caught {
			if cb.Property == prop {
				out = append(out, seeded{e.Name(), cb.Rule, cb.Substr})
				break
			}
		}
	}
	return out
}

// scratchCopy copies the working tree (without .git) to a fresh directory outside /repo and /verif.
func scratchCopy(repo string) (string, error) {
	dir, err := os.MkdirTemp("", "omnilint-ctl-")
	if err != nil {
		return "", err
	}
	cmd := exec.Command("rsync", "-a", "--exclude=.git", "--exclude=*.gif", "--exclude=*.png", repo+"/", dir+"/")
	if b, err := cmd.CombinedOutput(); err != nil {
		return dir, fmt.Errorf("%v: %s", err, b)
	}
	return dir, nil
}

// ---------------------------------------------------------------- evidence and exit code

func finish(out *runOutput, tr *thoroughResult, prop, tier, outDir string, seed int) int {
	rs := rules.Registry[prop]
	_ = os.MkdirAll(outDir, 0o755)
	viol := append([]*core.Obligation{}, out.Violations...)
	fatal := []string{}
	if out.Fatal != "" {
		fatal = append(fatal, out.Fatal)
	}
	if tr != nil {
		viol = append(viol, tr.Violations...)
		fatal = append(fatal, tr.Fatal...)
	}
	for _, k := range out.Known {
		fmt.Printf("KNOWN-FINDING: property=%s %s %s: %s (%s)\n", k.Property, k.Rule, k.Construct, k.Detail, k.Pos)
	}
	for _, v := range viol {
		fmt.Printf("%s: [%s/%s] %s: %s: %s\n", v.Pos, v.Property, v.Rule, v.Construct, v.Status, v.Detail)
	}
	for _, f := range fatal {
		fmt.Printf("omnilint: FATAL: %s\n", f)
	}
	replay := filepath.Join(outDir, prop+".violations.json")
	os.Remove(replay)
	code := 0
	if len(viol) > 0 || len(fatal) > 0 {
		b, _ := json.MarshalIndent(map[string]interface{}{"property": prop, "violations": viol, "fatal": fatal,
			"replay": fmt.Sprintf("omnilint -prop %s -only <construct>", prop)}, "", " ")
		_ = os.WriteFile(replay, b, 0o644)
		fmt.Printf("VIOLATION property=%s replay=%s\n", prop, replay)
		code = 1
	}

	// evidence
	samples := []interface{}{}
	perStatus := map[string]int{}
	for _, o := range out.Obligations {
		if perStatus[o.Rule+o.Status] < 3 || o.Status != core.Discharged {
			samples = append(samples, o)
		}
		perStatus[o.Rule+o.Status]++
	}
	if len(samples) > 120 {
		samples = samples[:120]
	}
	nOb := len(out.Obligations)
	nDis := out.Counts[core.Discharged]
	explanation := ""
	title := ""
	var trusted []string
	notDecided := ""
	if rs != nil {
		explanation, title, trusted, notDecided = rs.Explanation, rs.Title, rs.Trusted, rs.NotDecided
	}
	if explanation == "" {
		explanation = "no rule set"
	}
	cov := map[string]interface{}{
		"explanation":           explanation,
		"not_decided":           notDecided,
		"obligations":           nOb,
		"discharged":            nDis,
		"argued_only":           out.Counts[core.Argued],
		"violated_or_undecided": out.Counts[core.Violated] + out.Counts[core.Undecided],
		"known_findings":        len(out.Known),
		"per_rule":              out.PerRule,
		"packages_analysed":     out.Packages,
		"files_analysed":        out.Files,
		"program_stats":         out.Stats,
		"variants":              []string{out.Variant},
		"samples":               samples,
		"trusted_base":          trusted,
		"notes":                 out.Notes,
		"checker_cmd":           fmt.Sprintf("omnilint -prop %s -tier %s -repo %s", prop, tier, out.Repo),
		"exhaustive":            true,
		"rule":                  "every construct of the kinds named by the rules, enumerated from the type-checked program / SSA of the current working tree; an obligation is one rule instance at one construct",
	}
	if tr != nil {
		vs := []string{out.Variant}
		for _, v := range tr.Variants {
			vs = append(vs, v.Variant)
		}
		cov["variants"] = vs
		cov["variant_runs"] = tr.Variants
		cov["positive_controls"] = tr.Controls
		fired, missed, skipped := 0, 0, 0
		for _, c := range tr.Controls {
			switch c.Outcome {
			case "fired":
				fired++
			case "missed":
				missed++
				fmt.Printf("CONTROL-MISSED: property=%s %s %s (%s): %s\n", prop, c.Kind, c.ID, c.Rule, c.Detail)
			default:
				skipped++
			}
		}
		cov["controls_fired"] = fired
		cov["controls_missed"] = missed
		cov["controls_skipped"] = skipped
	}
	ev := map[string]interface{}{
		"property_id": prop,
		"title":       title,
		"tier":        tier,
		"seed":        seed,
		"level":       "other",
		"coverage":    cov,
		"assumptions": trusted,
		"wall_s":      out.WallS,
		"violations":  len(viol) + len(fatal),
	}
	if tr != nil {
		w := out.WallS
		for _, v := range tr.Variants {
			w += v.WallS
		}
		ev["wall_s"] = w
	}
	b, _ := json.MarshalIndent(ev, "", " ")
	if err := os.WriteFile(filepath.Join(outDir, prop+".json"), b, 0o644); err != nil {
		fmt.Fprintln(os.Stderr, "cannot write evidence:", err)
		return 2
	}
	fmt.Printf("omnilint: property=%s tier=%s obligations=%d discharged=%d argued=%d known=%d violations=%d wall=%.1fs\n",
		prop, tier, nOb, nDis, out.Counts[core.Argued], len(out.Known), len(viol)+len(fatal), out.WallS)
	return code
}
