package rules

// Shared analyses of the error-flow properties C01, C05, C16 (DESIGN §2.4):
//   - role resolution of the built-in format readers / ingesters / transform implementation,
//   - A8: a tiny abstract machine that executes loop-free SSA functions on symbolic tokens
//     (⟨dynamic type, is-io.EOF, is-nil⟩ for error values, abstract struct fields for C01),
//   - A3: the error-class analysis (classes NIL, EOF, FATAL(T), ETF, PLAIN, FOREIGN(f), PARAM(i), IFACE(I.M))
//     with branch narrowing (nil tests, io.EOF tests, IsErrX predicates via A8), bottom-up summaries over
//     repository functions, flow-insensitive error-typed fields, and symbolic interface calls resolved by wiring.
//
// Every package-level identifier in this file is prefixed `ec`.

import (
	"fmt"
	"go/constant"
	"go/token"
	"go/types"
	"sort"
	"strings"

	"golang.org/x/tools/go/ssa"

	"omnilint/core"
)

// ---------------------------------------------------------------- roles

type ecReader struct {
	T      *types.Named
	Key    string // position independent name: rel. package path + type name
	Pkg    *types.Package
	Read   *ssa.Function
	IsCont *ssa.Function
}

type ecRoles struct {
	c        *core.Ctx
	errT     types.Type
	eof      *ssa.Global
	etf      *types.Named
	plainDyn types.Type // dynamic type standing for "some error type not declared in the repository"
	nodeT    *types.Named

	fmtReaderIface *types.Named
	ingesterIface  *types.Named
	readers        []*ecReader // built-in format readers (non-sample implementors of fileformat.FormatReader)
	ingesters      []*ecReader // built-in ingesters (non-sample implementors of schemahandler.Ingester)
	ok             bool
}

func ecLookupNamed(c *core.Ctx, rel, name string) *types.Named {
	p := c.Pkg(rel)
	if p == nil {
		return nil
	}
	tn, _ := p.Types.Scope().Lookup(name).(*types.TypeName)
	if tn == nil {
		return nil
	}
	n, _ := tn.Type().(*types.Named)
	return n
}

func ecIsError(t types.Type) bool {
	return types.Identical(t, types.Universe.Lookup("error").Type())
}

// ecImplementors lists the named non-interface types of the repository (optionally excluding CLI/sample
// packages) whose pointer or value type implements the interface.
func ecImplementors(c *core.Ctx, iface *types.Named, includeSamples bool) []*types.Named {
	it, ok := iface.Underlying().(*types.Interface)
	if !ok {
		return nil
	}
	var out []*types.Named
	for _, p := range c.Pkgs {
		if !includeSamples && core.IsCLIOrSample(p.Types) {
			continue
		}
		sc := p.Types.Scope()
		for _, nm := range sc.Names() {
			tn, ok := sc.Lookup(nm).(*types.TypeName)
			if !ok || tn.IsAlias() {
				continue
			}
			n, ok := tn.Type().(*types.Named)
			if !ok || n.TypeParams().Len() > 0 {
				continue
			}
			if _, isI := n.Underlying().(*types.Interface); isI {
				continue
			}
			if types.Implements(n, it) || types.Implements(types.NewPointer(n), it) {
				out = append(out, n)
			}
		}
	}
	sort.Slice(out, func(i, j int) bool { return ecTypeKey(out[i]) < ecTypeKey(out[j]) })
	return out
}

func ecTypeKey(n *types.Named) string {
	if n.Obj().Pkg() == nil {
		return n.Obj().Name()
	}
	return core.Rel(n.Obj().Pkg().Path()) + "." + n.Obj().Name()
}

// ecMethod returns the declared (non-synthetic if possible) SSA function of method `name` of named type n.
func ecMethod(c *core.Ctx, n *types.Named, name string) *ssa.Function {
	c.SSA()
	for _, t := range []types.Type{types.NewPointer(n), n} {
		ms := c.Prog.MethodSets.MethodSet(t)
		for i := 0; i < ms.Len(); i++ {
			sel := ms.At(i)
			if sel.Obj().Name() != name {
				continue
			}
			if f, ok := sel.Obj().(*types.Func); ok {
				if fn := c.Prog.FuncValue(f); fn != nil && fn.Blocks != nil {
					return fn
				}
			}
			if fn := c.Prog.MethodValue(sel); fn != nil {
				return fn
			}
		}
	}
	return nil
}

var ecRolesCache = map[*core.Ctx]*ecRoles{}

// ecResolve resolves the roles shared by C01/C05/C16. Unresolvable anchors are reported under `rule`.
func ecResolve(c *core.Ctx, rule string) *ecRoles {
	if r, ok := ecRolesCache[c]; ok {
		return r
	}
	r := &ecRoles{c: c, errT: types.Universe.Lookup("error").Type()}
	ecRolesCache[c] = r
	c.SSA()
	if ip := c.AnyPkg("io"); ip != nil {
		if sp := c.Prog.Package(ip.Types); sp != nil {
			r.eof = sp.Var("EOF")
		}
	}
	if r.eof == nil {
		c.Unresolved(rule, "io.EOF", "package-level variable io.EOF not found in the loaded program")
		return r
	}
	if ep := c.AnyPkg("errors"); ep != nil {
		if tn, ok := ep.Types.Scope().Lookup("errorString").(*types.TypeName); ok {
			r.plainDyn = types.NewPointer(tn.Type())
		}
	}
	if r.plainDyn == nil {
		c.Unresolved(rule, "errors.errorString", "dynamic type of errors.New results not found")
		return r
	}
	r.etf = ecLookupNamed(c, "errs", "ErrTransformFailed")
	r.fmtReaderIface = ecLookupNamed(c, "extensions/omniv21/fileformat", "FormatReader")
	r.ingesterIface = ecLookupNamed(c, "schemahandler", "Ingester")
	r.nodeT = ecLookupNamed(c, "idr", "Node")
	if r.etf == nil || r.fmtReaderIface == nil || r.ingesterIface == nil || r.nodeT == nil {
		c.Unresolved(rule, "exported API", fmt.Sprintf("errs.ErrTransformFailed=%v fileformat.FormatReader=%v schemahandler.Ingester=%v idr.Node=%v",
			r.etf != nil, r.fmtReaderIface != nil, r.ingesterIface != nil, r.nodeT != nil))
		return r
	}
	mk := func(n *types.Named) *ecReader {
		rd := &ecReader{T: n, Key: ecTypeKey(n), Pkg: n.Obj().Pkg()}
		rd.Read = ecMethod(c, n, "Read")
		rd.IsCont = ecMethod(c, n, "IsContinuableError")
		return rd
	}
	for _, n := range ecImplementors(c, r.fmtReaderIface, false) {
		rd := mk(n)
		if rd.Read == nil || rd.IsCont == nil || rd.Read.Blocks == nil || rd.IsCont.Blocks == nil {
			c.Unresolved(rule, "methods of format reader "+rd.Key, "Read/IsContinuableError bodies not found")
			continue
		}
		r.readers = append(r.readers, rd)
	}
	for _, n := range ecImplementors(c, r.ingesterIface, false) {
		rd := mk(n)
		if rd.Read == nil || rd.IsCont == nil || rd.Read.Blocks == nil || rd.IsCont.Blocks == nil {
			c.Unresolved(rule, "methods of ingester "+rd.Key, "Read/IsContinuableError bodies not found")
			continue
		}
		r.ingesters = append(r.ingesters, rd)
	}
	r.ok = true
	return r
}

// ecErrorTypes: is n a named type declared in the repository that implements error?
func (r *ecRoles) repoErrType(t types.Type) *types.Named {
	n := core.NamedOf(t)
	if n == nil || n.Obj().Pkg() == nil || !core.InRepo(n.Obj().Pkg()) {
		return nil
	}
	et := r.errT.Underlying().(*types.Interface)
	if types.Implements(t, et) {
		return n
	}
	return nil
}

// ---------------------------------------------------------------- A8: abstract machine

type ecVKind int

const (
	ecvOpaque ecVKind = iota
	ecvBool
	ecvNil
	ecvTok
	ecvTuple
	ecvAddr
)

// ecTok is a symbolic run-time value with the attributes the predicates can observe.
type ecTok struct {
	Name     string
	Dyn      types.Type // dynamic type of a non-nil interface value (when DynKnown)
	DynKnown bool
	EOF      bool // the value is identical to io.EOF
	Nil      bool // nil interface / nil pointer
	IsObj    bool // pointer to a struct object whose fields are modelled in ecMachine.mem
}

type ecAddrKey struct {
	Obj   *ecTok
	Fld   *types.Var
	Alloc *ssa.Alloc
	G     *ssa.Global
}

type ecV struct {
	K    ecVKind
	B    bool
	Tok  *ecTok
	Tup  []ecV
	Addr ecAddrKey
}

func ecOpaque() ecV          { return ecV{K: ecvOpaque} }
func ecBoolV(b bool) ecV     { return ecV{K: ecvBool, B: b} }
func ecTokV(t *ecTok) ecV    { return ecV{K: ecvTok, Tok: t} }
func (v ecV) isNilish() bool { return v.K == ecvNil || (v.K == ecvTok && v.Tok.Nil) }
func (v ecV) String() string {
	switch v.K {
	case ecvBool:
		return fmt.Sprint(v.B)
	case ecvNil:
		return "nil"
	case ecvTok:
		return v.Tok.Name
	case ecvTuple:
		var s []string
		for _, x := range v.Tup {
			s = append(s, x.String())
		}
		return "(" + strings.Join(s, ", ") + ")"
	case ecvAddr:
		return "&addr"
	}
	return "?"
}

// ecHook interprets a call the machine cannot inline (interface method, function outside the repository).
// ok=false: the call is unknown to the hook (result opaque).
type ecHook func(m *ecMachine, call ssa.CallInstruction, callee *types.Func, recv ecV, args []ecV) (ecV, bool)

type ecEvent struct {
	Kind string // "call", "store"
	What string
}

type ecMachine struct {
	r        *ecRoles
	mem      map[ecAddrKey]ecV
	sub      map[ecAddrKey]*ecTok // object tokens of nested struct fields
	hook     ecHook
	eofTok   *ecTok
	steps    int
	depth    int
	nextFree []ecV
	fail     string
	events   []ecEvent
}

func ecNewMachine(r *ecRoles, hook ecHook) *ecMachine {
	return &ecMachine{r: r, mem: map[ecAddrKey]ecV{}, sub: map[ecAddrKey]*ecTok{}, hook: hook,
		eofTok: &ecTok{Name: "io.EOF", Dyn: r.plainDyn, DynKnown: true, EOF: true}}
}

func (m *ecMachine) failf(format string, a ...interface{}) {
	if m.fail == "" {
		m.fail = fmt.Sprintf(format, a...)
	}
}

// run executes fn on args. The result is the returned value (a tuple for several results).
// ok=false (with m.fail set) means the machine could not decide the execution.
func (m *ecMachine) run(fn *ssa.Function, args []ecV) (ecV, bool) {
	if fn.Blocks == nil {
		m.failf("%s has no body", core.FuncKey(fn))
		return ecOpaque(), false
	}
	if m.depth > 8 {
		m.failf("call depth exceeded at %s", core.FuncKey(fn))
		return ecOpaque(), false
	}
	m.depth++
	defer func() { m.depth-- }()
	env := map[ssa.Value]ecV{}
	for i, p := range fn.Params {
		if i < len(args) {
			env[p] = args[i]
		} else {
			env[p] = ecOpaque()
		}
	}
	// free variables of a closure / bound-method wrapper called through a local function value
	for i, fv := range fn.FreeVars {
		if i < len(m.nextFree) {
			env[fv] = m.nextFree[i]
		}
	}
	m.nextFree = nil
	val := func(v ssa.Value) ecV {
		if x, ok := env[v]; ok {
			return x
		}
		switch c := v.(type) {
		case *ssa.Const:
			if c.IsNil() {
				return ecV{K: ecvNil}
			}
			if c.Value != nil && c.Value.Kind() == constant.Bool {
				return ecBoolV(constant.BoolVal(c.Value))
			}
			return ecOpaque()
		case *ssa.Global:
			return ecV{K: ecvAddr, Addr: ecAddrKey{G: c}}
		}
		return ecOpaque()
	}
	visited := map[*ssa.BasicBlock]int{}
	var prev *ssa.BasicBlock
	blk := fn.Blocks[0]
	for {
		visited[blk]++
		if visited[blk] > 1 {
			m.failf("%s is not loop-free on this path (block %d revisited)", core.FuncKey(fn), blk.Index)
			return ecOpaque(), false
		}
		var next *ssa.BasicBlock
		for _, in := range blk.Instrs {
			m.steps++
			if m.steps > 5000 {
				m.failf("step budget exceeded")
				return ecOpaque(), false
			}
			switch x := in.(type) {
			case *ssa.DebugRef:
			case *ssa.Phi:
				idx := -1
				for i, p := range blk.Preds {
					if p == prev {
						idx = i
					}
				}
				if idx < 0 {
					m.failf("phi without predecessor")
					return ecOpaque(), false
				}
				env[x] = val(x.Edges[idx])
			case *ssa.UnOp:
				o := val(x.X)
				switch x.Op {
				case token.NOT:
					if o.K == ecvBool {
						env[x] = ecBoolV(!o.B)
					} else {
						env[x] = ecOpaque()
					}
				case token.MUL:
					env[x] = m.load(o, x.Type())
				default:
					env[x] = ecOpaque()
				}
			case *ssa.BinOp:
				env[x] = m.binop(x.Op, val(x.X), val(x.Y))
			case *ssa.ChangeInterface:
				env[x] = val(x.X)
			case *ssa.ChangeType:
				env[x] = val(x.X)
			case *ssa.Convert:
				env[x] = val(x.X)
			case *ssa.MakeInterface:
				o := val(x.X)
				t := &ecTok{Name: "make(" + types.TypeString(x.X.Type(), func(p *types.Package) string { return p.Name() }) + ")", Dyn: x.X.Type(), DynKnown: true}
				if o.K == ecvTok && !o.Tok.Nil {
					t.Name = "iface(" + o.Tok.Name + ")"
				}
				if o.K == ecvAddr {
					t.Name = "iface(&" + ecAddrName(o.Addr) + ")"
				}
				env[x] = ecTokV(t)
			case *ssa.TypeAssert:
				o := val(x.X)
				match, known := false, false
				staticOK := false
				if it, isI := x.AssertedType.Underlying().(*types.Interface); isI {
					if _, srcI := x.X.Type().Underlying().(*types.Interface); srcI && types.Implements(x.X.Type(), it) {
						staticOK = true // x.(I) where the static type already has I's methods: only a nil check
					}
				}
				switch {
				case o.isNilish():
					match, known = false, true
				case staticOK && !x.CommaOk:
					match, known = true, true
				case o.K == ecvTok && o.Tok.DynKnown:
					known = true
					if it, isI := x.AssertedType.Underlying().(*types.Interface); isI {
						match = types.Implements(o.Tok.Dyn, it)
					} else {
						match = types.Identical(o.Tok.Dyn, x.AssertedType)
					}
				}
				payload := ecOpaque()
				if known && match {
					if _, isI := x.AssertedType.Underlying().(*types.Interface); isI {
						payload = o
					}
				}
				if x.CommaOk {
					okv := ecOpaque()
					if known {
						okv = ecBoolV(match)
					}
					env[x] = ecV{K: ecvTuple, Tup: []ecV{payload, okv}}
				} else {
					if !known {
						m.failf("type assertion on a value of unknown dynamic type in %s", core.FuncKey(fn))
						return ecOpaque(), false
					}
					if !match {
						m.failf("type assertion panics in %s", core.FuncKey(fn))
						return ecOpaque(), false
					}
					env[x] = payload
				}
			case *ssa.Extract:
				t := val(x.Tuple)
				if t.K == ecvTuple && x.Index < len(t.Tup) {
					env[x] = t.Tup[x.Index]
				} else {
					env[x] = ecOpaque()
				}
			case *ssa.FieldAddr:
				o := val(x.X)
				fld := core.FieldOfAddr(x)
				switch {
				case o.K == ecvTok && o.Tok.IsObj && !o.Tok.Nil:
					env[x] = ecV{K: ecvAddr, Addr: ecAddrKey{Obj: o.Tok, Fld: fld}}
				case o.K == ecvAddr:
					t := m.sub[o.Addr]
					if t == nil {
						t = &ecTok{Name: ecAddrName(o.Addr), IsObj: true}
						m.sub[o.Addr] = t
					}
					env[x] = ecV{K: ecvAddr, Addr: ecAddrKey{Obj: t, Fld: fld}}
				default:
					env[x] = ecOpaque()
				}
			case *ssa.Alloc:
				k := ecAddrKey{Alloc: x}
				delete(m.mem, k)
				env[x] = ecV{K: ecvAddr, Addr: k}
			case *ssa.Store:
				a := val(x.Addr)
				if a.K != ecvAddr {
					m.failf("store through an address the machine does not model in %s", core.FuncKey(fn))
					return ecOpaque(), false
				}
				if a.Addr.G != nil {
					m.failf("store to package-level variable %s in %s", a.Addr.G.Name(), core.FuncKey(fn))
					return ecOpaque(), false
				}
				v := val(x.Val)
				m.mem[a.Addr] = v
				if a.Addr.Alloc == nil {
					m.events = append(m.events, ecEvent{"store", ecAddrName(a.Addr) + " = " + v.String()})
				}
			case ssa.CallInstruction:
				if _, isCall := in.(*ssa.Call); !isCall {
					m.failf("defer/go in %s", core.FuncKey(fn))
					return ecOpaque(), false
				}
				res, ok := m.call(x, val)
				if !ok {
					return ecOpaque(), false
				}
				env[in.(*ssa.Call)] = res
			case *ssa.If:
				c := val(x.Cond)
				if c.K != ecvBool {
					m.failf("branch condition in %s (block %d) does not evaluate on the abstract input", core.FuncKey(fn), blk.Index)
					return ecOpaque(), false
				}
				if c.B {
					next = blk.Succs[0]
				} else {
					next = blk.Succs[1]
				}
			case *ssa.Jump:
				next = blk.Succs[0]
			case *ssa.Return:
				if len(x.Results) == 1 {
					return val(x.Results[0]), true
				}
				var tup []ecV
				for _, rv := range x.Results {
					tup = append(tup, val(rv))
				}
				return ecV{K: ecvTuple, Tup: tup}, true
			case *ssa.Panic:
				m.failf("%s panics on this path", core.FuncKey(fn))
				return ecOpaque(), false
			case *ssa.RunDefers:
			default:
				if v, ok := in.(ssa.Value); ok {
					env[v] = ecOpaque()
				} else {
					m.failf("instruction %T in %s is outside the interpreted subset", in, core.FuncKey(fn))
					return ecOpaque(), false
				}
			}
		}
		if next == nil {
			m.failf("block %d of %s has no terminator the machine understands", blk.Index, core.FuncKey(fn))
			return ecOpaque(), false
		}
		prev, blk = blk, next
	}
}

func ecAddrName(a ecAddrKey) string {
	switch {
	case a.G != nil:
		return a.G.Name()
	case a.Alloc != nil:
		return "local"
	case a.Obj != nil && a.Fld != nil:
		return a.Obj.Name + "." + a.Fld.Name()
	}
	return "?"
}

func (m *ecMachine) load(addr ecV, t types.Type) ecV {
	if addr.K != ecvAddr {
		return ecOpaque()
	}
	if addr.Addr.G != nil {
		if addr.Addr.G == m.r.eof {
			return ecTokV(m.eofTok)
		}
		return ecOpaque()
	}
	if v, ok := m.mem[addr.Addr]; ok {
		return v
	}
	if addr.Addr.Alloc != nil {
		// zero value
		switch t.Underlying().(type) {
		case *types.Interface, *types.Pointer, *types.Slice, *types.Map:
			return ecV{K: ecvNil}
		case *types.Basic:
			if b := t.Underlying().(*types.Basic); b.Info()&types.IsBoolean != 0 {
				return ecBoolV(false)
			}
		}
	}
	return ecOpaque()
}

func (m *ecMachine) binop(op token.Token, a, b ecV) ecV {
	if op != token.EQL && op != token.NEQ {
		return ecOpaque()
	}
	eq, known := false, false
	switch {
	case a.K == ecvBool && b.K == ecvBool:
		eq, known = a.B == b.B, true
	case a.isNilish() && b.isNilish():
		eq, known = true, true
	case a.isNilish() && b.K == ecvTok, b.isNilish() && a.K == ecvTok:
		eq, known = false, true // exactly one side is nil (both-nil handled above)
	case a.K == ecvTok && b.K == ecvTok:
		switch {
		case a.Tok == b.Tok:
			eq, known = true, true
		case a.Tok == m.eofTok:
			eq, known = b.Tok.EOF, true
		case b.Tok == m.eofTok:
			eq, known = a.Tok.EOF, true
		}
	}
	if !known {
		return ecOpaque()
	}
	if op == token.NEQ {
		eq = !eq
	}
	return ecBoolV(eq)
}

func (m *ecMachine) call(ci ssa.CallInstruction, val func(ssa.Value) ecV) (ecV, bool) {
	cc := ci.Common()
	var args []ecV
	for _, a := range cc.Args {
		args = append(args, val(a))
	}
	if cc.IsInvoke() {
		recv := val(cc.Value)
		if m.hook != nil {
			if res, ok := m.hook(m, ci, cc.Method, recv, args); ok {
				return res, true
			}
		}
		m.escapeCheck(ci, append([]ecV{recv}, args...))
		return ecOpaque(), m.fail == ""
	}
	if _, isBuiltin := cc.Value.(*ssa.Builtin); isBuiltin {
		return ecOpaque(), true
	}
	callee := cc.StaticCallee()
	if callee == nil {
		m.failf("dynamic call %s", cc.String())
		return ecOpaque(), false
	}
	if callee.Blocks != nil && core.InRepo(core.FuncPkg(callee)) {
		m.nextFree = nil
		if mc, ok := cc.Value.(*ssa.MakeClosure); ok {
			for _, b := range mc.Bindings {
				m.nextFree = append(m.nextFree, val(b))
			}
		}
		return m.run(callee, args)
	}
	obj, _ := callee.Object().(*types.Func)
	if m.hook != nil {
		if res, ok := m.hook(m, ci, obj, ecOpaque(), args); ok {
			return res, true
		}
	}
	m.escapeCheck(ci, args)
	return ecOpaque(), m.fail == ""
}

// escapeCheck: an uninterpreted call that receives a modelled object could change its fields.
func (m *ecMachine) escapeCheck(ci ssa.CallInstruction, args []ecV) {
	for _, a := range args {
		if (a.K == ecvTok && a.Tok.IsObj) || (a.K == ecvAddr && a.Addr.Obj != nil) {
			m.failf("modelled object escapes into uninterpreted call %s", ci.Common().String())
		}
	}
}

// ---------------------------------------------------------------- A3: classes

type ecKind int

const (
	ecNIL ecKind = iota
	ecEOF
	ecFATAL
	ecETF
	ecPLAIN
	ecVAR
	ecFOREIGN
	ecPARAM
	ecIFACE
	ecTOP
)

// ecElem is one class an error value can take. It is a comparable value (map key).
type ecElem struct {
	Kind ecKind
	T    *types.Named // FATAL
	Fn   *types.Func  // FOREIGN: callee; IFACE: interface method
	Idx  int          // PARAM: parameter index; FOREIGN/IFACE: result index
	G    *ssa.Global  // VAR
	Why  string       // TOP: reason; FOREIGN: origin site
	// filters recorded on elements whose dynamic value is not known here
	NonNil bool
	NotEOF bool
	Preds  string // "fnKey=1;fnKey=0;" predicate outcomes known to hold
	// CondParam (1-based parameter index) on a NIL/EOF element of a summary: the function returns this class only
	// when that parameter itself is nil / io.EOF (the value is handed through, not manufactured).
	CondParam int
}

type ecSet map[ecElem]bool

func (e ecElem) String() string {
	suffix := ""
	if e.NonNil {
		suffix += "≠nil"
	}
	if e.NotEOF {
		suffix += "≠EOF"
	}
	switch e.Kind {
	case ecNIL:
		return "NIL"
	case ecEOF:
		return "EOF"
	case ecFATAL:
		return "FATAL(" + ecTypeKey(e.T) + ")"
	case ecETF:
		return "ETF"
	case ecPLAIN:
		return "PLAIN"
	case ecVAR:
		return "VAR(" + e.G.Name() + ")"
	case ecFOREIGN:
		return "FOREIGN(" + ecFuncName(e.Fn) + ")" + suffix
	case ecPARAM:
		return fmt.Sprintf("PARAM(%d)%s", e.Idx, suffix)
	case ecIFACE:
		return "IFACE(" + ecFuncName(e.Fn) + ")" + suffix
	}
	return "⊤(" + e.Why + ")"
}

func ecFuncName(f *types.Func) string {
	if f == nil {
		return "?"
	}
	n := core.FuncName(f)
	if strings.HasPrefix(n, "(interface).") {
		// interface method: qualify with the interface's named type when available
		if sig, ok := f.Type().(*types.Signature); ok && sig.Recv() != nil {
			if nt := core.NamedOf(sig.Recv().Type()); nt != nil {
				n = nt.Obj().Name() + "." + f.Name()
			}
		}
	}
	if f.Pkg() != nil {
		return core.Rel(f.Pkg().Path()) + "." + n
	}
	return n
}

func (s ecSet) String() string {
	var out []string
	seen := map[string]bool{}
	for e := range s {
		if str := e.String(); !seen[str] {
			seen[str] = true
			out = append(out, str)
		}
	}
	sort.Strings(out)
	return "{" + strings.Join(out, ", ") + "}"
}

func (s ecSet) sorted() []ecElem {
	var out []ecElem
	for e := range s {
		out = append(out, e)
	}
	sort.Slice(out, func(i, j int) bool { return out[i].String() < out[j].String() })
	return out
}

func (s ecSet) addAll(o ecSet) {
	for e := range o {
		s[e] = true
	}
}

func (s ecSet) has(k ecKind) bool {
	for e := range s {
		if e.Kind == k {
			return true
		}
	}
	return false
}

// ecFact is an atomic branch fact that holds at a program point.
type ecFact struct {
	Kind string // "nil", "eof", "pred", "bool", "cmp"
	V    ssa.Value
	Pos  bool
	Pred *ssa.Function
	Bin  *ssa.BinOp // "cmp": an integer comparison, Pos = outcome
}

type ecPoint struct {
	B    *ssa.BasicBlock
	Succ *ssa.BasicBlock // optional: the fact of edge B→Succ is included
}

func ecPointOf(in ssa.Instruction) ecPoint { return ecPoint{B: in.Block()} }

type ecRet struct {
	Instr *ssa.Return
	Cls   map[int]ecSet
}

type ecSummary struct {
	Fn   *ssa.Function
	Res  map[int]ecSet
	Rets []*ecRet
}

type ecEngine struct {
	r           *ecRoles
	sums        map[*ssa.Function]*ecSummary
	inprog      map[*ssa.Function]bool
	fieldW      map[*types.Var][]core.WriteSite
	structW     map[*types.Named][]core.WriteSite
	fieldMemo   map[*types.Var]ecSet
	fieldBusy   map[*types.Var]bool
	predFns     map[string]*ssa.Function
	predMemo    map[string][2]bool
	mkIface     map[*types.Package][]*ssa.MakeInterface
	views       [][2]types.Type // (view interface type, interface type of the value it was taken from)
	factsMemo   map[*ssa.BasicBlock][]ecFact
	factsBusy   map[*ssa.BasicBlock]bool
	inventoryd  bool
	inlineDepth int
	phiDepth    int
}

var ecEngineCache = map[*core.Ctx]*ecEngine{}

func ecNewEngine(r *ecRoles) *ecEngine {
	if e, ok := ecEngineCache[r.c]; ok {
		return e
	}
	e := &ecEngine{r: r, sums: map[*ssa.Function]*ecSummary{}, inprog: map[*ssa.Function]bool{},
		fieldW: map[*types.Var][]core.WriteSite{}, structW: map[*types.Named][]core.WriteSite{},
		fieldMemo: map[*types.Var]ecSet{}, fieldBusy: map[*types.Var]bool{},
		predFns: map[string]*ssa.Function{}, predMemo: map[string][2]bool{},
		mkIface: map[*types.Package][]*ssa.MakeInterface{}, factsMemo: map[*ssa.BasicBlock][]ecFact{}, factsBusy: map[*ssa.BasicBlock]bool{}}
	ecEngineCache[r.c] = e
	return e
}

func (e *ecEngine) inventory() {
	if e.inventoryd {
		return
	}
	e.inventoryd = true
	for _, f := range e.r.c.RepoFunctions() {
		for _, w := range core.Writes(f) {
			switch w.Kind {
			case "field":
				if w.Field != nil && ecIsError(w.Field.Type()) {
					e.fieldW[w.Field] = append(e.fieldW[w.Field], w)
				}
			case "struct":
				if w.Owner != nil {
					e.structW[w.Owner] = append(e.structW[w.Owner], w)
				}
			}
		}
		p := core.FuncPkg(f)
		for _, b := range f.Blocks {
			for _, in := range b.Instrs {
				if mi, ok := in.(*ssa.MakeInterface); ok {
					e.mkIface[p] = append(e.mkIface[p], mi)
				}
				if ci, ok := in.(*ssa.ChangeInterface); ok {
					if o := ecUnwrapIface(ci); !types.Identical(o.Type(), ci.Type()) {
						if _, isI := o.Type().Underlying().(*types.Interface); isI {
							e.views = append(e.views, [2]types.Type{ci.Type(), o.Type()})
						}
					}
				}
			}
		}
	}
}

// ---- facts

// ecOriginMethod: the interface method an invoke really dispatches on. A local interface *view* of a value
// (`var m recMatcher = r.r`, i.e. a ChangeInterface of a value of another interface type) has the same dynamic
// value, so the call is keyed by the method of the interface type the value originally had (the field's type):
// it then resolves to the same concrete implementations as a call through the field itself.
func ecOriginMethod(cc *ssa.CallCommon) *types.Func {
	if !cc.IsInvoke() {
		return nil
	}
	o := ecUnwrapIface(cc.Value)
	if o == cc.Value {
		return cc.Method
	}
	if it, ok := o.Type().Underlying().(*types.Interface); ok {
		for i := 0; i < it.NumMethods(); i++ {
			m := it.Method(i)
			if m.Name() == cc.Method.Name() && (m.Exported() || m.Pkg() == cc.Method.Pkg()) {
				return m
			}
		}
	}
	return cc.Method
}

// ecSameIfaceMethod: m is the interface method want, or the same-named method of an interface *view* of want's
// interface (an interface whose method set is a subset, e.g. a local `nodeSource` view of FormatReader).
func ecSameIfaceMethod(m, want *types.Func) bool {
	if m == want {
		return true
	}
	if m == nil || want == nil || m.Name() != want.Name() {
		return false
	}
	ms, ok1 := m.Type().(*types.Signature)
	ws, ok2 := want.Type().(*types.Signature)
	if !ok1 || !ok2 || ms.Recv() == nil || ws.Recv() == nil {
		return false
	}
	view, ok := ms.Recv().Type().Underlying().(*types.Interface)
	if !ok {
		return false
	}
	return types.Implements(ws.Recv().Type(), view) && types.Identical(types.NewSignatureType(nil, nil, nil, ms.Params(), ms.Results(), ms.Variadic()),
		types.NewSignatureType(nil, nil, nil, ws.Params(), ws.Results(), ws.Variadic()))
}

func ecUnwrapIface(v ssa.Value) ssa.Value {
	for {
		switch x := v.(type) {
		case *ssa.ChangeInterface:
			v = x.X
		default:
			return v
		}
	}
}

func (e *ecEngine) isEOFLoad(v ssa.Value) bool {
	u, ok := ecUnwrapIface(v).(*ssa.UnOp)
	return ok && u.Op == token.MUL && u.X == ssa.Value(e.r.eof)
}

// isPredicate: a repository function func(error) bool with a body.
func (e *ecEngine) isPredicate(f *ssa.Function) bool {
	if f == nil || f.Blocks == nil || !core.InRepo(core.FuncPkg(f)) || len(f.Params) != 1 {
		return false
	}
	sig := f.Signature
	if sig.Results().Len() != 1 || !ecIsError(f.Params[0].Type()) {
		return false
	}
	b, ok := sig.Results().At(0).Type().Underlying().(*types.Basic)
	return ok && b.Info()&types.IsBoolean != 0
}

func (e *ecEngine) decompose(cond ssa.Value, pos bool, out *[]ecFact) {
	switch x := cond.(type) {
	case *ssa.Phi:
		// a short-circuit `a && b` / `a || b` evaluated as a value (the guard of a tagless `switch { case a && b: }`,
		// `ok := a && b; if ok`): φ[p: false, q: b] is true only when control came through q and b held there, so the
		// facts of the edge q→φ and of b hold; dually for a φ that is false when every other edge is the constant true.
		if b, ok := x.Type().Underlying().(*types.Basic); ok && b.Info()&types.IsBoolean != 0 && e.phiDepth < 3 {
			cand, n := -1, 0
			for i, ed := range x.Edges {
				if k, ok := ed.(*ssa.Const); ok && k.Value != nil && k.Value.Kind() == constant.Bool && constant.BoolVal(k.Value) != pos {
					continue
				}
				n++
				cand = i
			}
			if n == 1 && cand < len(x.Block().Preds) {
				e.phiDepth++
				*out = append(*out, e.factsAt(ecPoint{B: x.Block().Preds[cand], Succ: x.Block()})...)
				if _, isConst := x.Edges[cand].(*ssa.Const); !isConst {
					e.decompose(x.Edges[cand], pos, out)
				}
				e.phiDepth--
			}
		}
	case *ssa.UnOp:
		if x.Op == token.NOT {
			e.decompose(x.X, !pos, out)
			return
		}
	case *ssa.BinOp:
		if x.Op == token.EQL || x.Op == token.NEQ {
			eq := pos
			if x.Op == token.NEQ {
				eq = !pos
			}
			for _, pr := range [][2]ssa.Value{{x.X, x.Y}, {x.Y, x.X}} {
				a, b := pr[0], pr[1]
				if !ecIsError(a.Type()) {
					continue
				}
				if core.IsNilConst(b) {
					*out = append(*out, ecFact{Kind: "nil", V: ecUnwrapIface(a), Pos: eq})
					return
				}
				if e.isEOFLoad(b) {
					*out = append(*out, ecFact{Kind: "eof", V: ecUnwrapIface(a), Pos: eq})
					return
				}
			}
		}
		switch x.Op {
		case token.LSS, token.LEQ, token.GTR, token.GEQ, token.EQL, token.NEQ:
			*out = append(*out, ecFact{Kind: "cmp", Bin: x, Pos: pos})
			return
		}
	case *ssa.Call:
		f := x.Call.StaticCallee()
		if e.isPredicate(f) {
			*out = append(*out, ecFact{Kind: "pred", V: ecUnwrapIface(x.Call.Args[0]), Pos: pos, Pred: f})
			return
		}
		// a one-block boolean helper of the repository (`func (d *T) tooMany() bool { return d.min() > d.max() }`):
		// the condition it returns holds/fails at the call. Facts about SSA values are then in the helper's value
		// space (they never match caller values); comparisons over struct fields and accessor calls keep their meaning.
		if f != nil && f.Blocks != nil && len(f.Blocks) == 1 && core.InRepo(core.FuncPkg(f)) && e.inlineDepth < 3 {
			if rets := ecReturns(f); len(rets) == 1 && len(rets[0].Results) == 1 {
				if b, ok := rets[0].Results[0].Type().Underlying().(*types.Basic); ok && b.Info()&types.IsBoolean != 0 {
					if _, isConst := rets[0].Results[0].(*ssa.Const); !isConst {
						var sub []ecFact
						e.inlineDepth++
						e.decompose(rets[0].Results[0], pos, &sub)
						e.inlineDepth--
						for _, ft := range sub {
							if prm, ok := ft.V.(*ssa.Parameter); ok && prm.Parent() == f {
								for i, q := range f.Params {
									if q == prm && i < len(x.Call.Args) {
										ft.V = ecUnwrapIface(x.Call.Args[i])
									}
								}
							}
							*out = append(*out, ft)
						}
						return
					}
				}
			}
		}
	}
	*out = append(*out, ecFact{Kind: "bool", V: cond, Pos: pos})
}

// edgeFacts: facts established by taking the edge p→s.
func (e *ecEngine) edgeFacts(p, s *ssa.BasicBlock, out *[]ecFact) {
	if len(p.Instrs) == 0 || len(p.Succs) != 2 || p.Succs[0] == p.Succs[1] {
		return
	}
	ifi, ok := p.Instrs[len(p.Instrs)-1].(*ssa.If)
	if !ok {
		return
	}
	e.decompose(ifi.Cond, p.Succs[0] == s, out)
}

// factsAt: the branch facts that hold whenever control is at the point (edges that dominate it).
func (e *ecEngine) factsAt(pt ecPoint) []ecFact {
	facts, ok := e.factsMemo[pt.B]
	if !ok {
		if e.factsBusy[pt.B] {
			return nil // a φ-condition inside a loop asks for the facts of its own region: cut the cycle (fewer facts)
		}
		e.factsBusy[pt.B] = true
		for s := pt.B; s != nil; s = s.Idom() {
			if len(s.Preds) == 1 {
				e.edgeFacts(s.Preds[0], s, &facts)
			}
		}
		delete(e.factsBusy, pt.B)
		e.factsMemo[pt.B] = facts
	}
	if pt.Succ != nil {
		facts = append([]ecFact{}, facts...)
		e.edgeFacts(pt.B, pt.Succ, &facts)
	}
	return facts
}

// ---- predicate evaluation on class elements (A8)

type ecInput struct {
	Dyn types.Type
	EOF bool
	Nil bool
}

func (e *ecEngine) inputsOf(el ecElem) ([]ecInput, bool) {
	switch el.Kind {
	case ecNIL:
		return []ecInput{{Nil: true}}, true
	case ecEOF:
		return []ecInput{{Dyn: e.r.plainDyn, EOF: true}}, true
	case ecFATAL:
		return []ecInput{{Dyn: el.T}}, true
	case ecETF:
		return []ecInput{{Dyn: e.r.etf}}, true
	case ecPLAIN, ecVAR:
		return []ecInput{{Dyn: e.r.plainDyn}}, true
	case ecFOREIGN:
		var in []ecInput
		if !el.NonNil {
			in = append(in, ecInput{Nil: true})
		}
		if !el.NotEOF {
			in = append(in, ecInput{Dyn: e.r.plainDyn, EOF: true})
		}
		in = append(in, ecInput{Dyn: e.r.plainDyn})
		return in, true
	}
	return nil, false
}

// evalPred runs predicate p on one abstract input. known=false: the machine could not decide.
func (e *ecEngine) evalPred(p *ssa.Function, in ecInput) (res, known bool, why string) {
	m := ecNewMachine(e.r, nil)
	var arg ecV
	switch {
	case in.Nil:
		arg = ecV{K: ecvNil}
	case in.EOF:
		arg = ecTokV(m.eofTok)
	default:
		arg = ecTokV(&ecTok{Name: "err", Dyn: in.Dyn, DynKnown: true})
	}
	v, ok := m.run(p, []ecV{arg})
	if !ok || v.K != ecvBool {
		if m.fail == "" {
			m.fail = "result is not a boolean constant on this input"
		}
		return false, false, m.fail
	}
	return v.B, true, ""
}

// predOutcomes: which outcomes (true, false) predicate p can have on a value of class el.
func (e *ecEngine) predOutcomes(p *ssa.Function, el ecElem) (canTrue, canFalse bool) {
	key := core.FuncKey(p) + "|" + el.String()
	if r, ok := e.predMemo[key]; ok {
		return r[0], r[1]
	}
	ins, ok := e.inputsOf(el)
	if !ok {
		return true, true
	}
	for _, in := range ins {
		res, known, _ := e.evalPred(p, in)
		if !known {
			canTrue, canFalse = true, true
			break
		}
		if res {
			canTrue = true
		} else {
			canFalse = true
		}
	}
	e.predMemo[key] = [2]bool{canTrue, canFalse}
	return
}

// ---- narrowing

func (e *ecEngine) predKey(p *ssa.Function) string {
	k := core.FuncKey(p)
	e.predFns[k] = p
	return k
}

// applyFact filters/refines one element under a fact about the value it classifies. keep=false drops it.
func (e *ecEngine) applyFact(el ecElem, f ecFact) (ecElem, bool) {
	symbolic := el.Kind == ecFOREIGN || el.Kind == ecPARAM || el.Kind == ecIFACE
	switch f.Kind {
	case "nil":
		if f.Pos { // value is nil
			switch {
			case el.Kind == ecNIL:
				return el, true
			case symbolic && !el.NonNil:
				return ecElem{Kind: ecNIL}, true
			case el.Kind == ecTOP:
				return el, true
			}
			return el, false
		}
		switch {
		case el.Kind == ecNIL:
			return el, false
		case symbolic:
			el.NonNil = true
		}
		return el, true
	case "eof":
		if f.Pos {
			switch {
			case el.Kind == ecEOF, el.Kind == ecTOP:
				return el, true
			case symbolic && !el.NotEOF:
				return ecElem{Kind: ecEOF}, true
			}
			return el, false
		}
		switch {
		case el.Kind == ecEOF:
			return el, false
		case symbolic:
			el.NotEOF = true
		}
		return el, true
	case "pred":
		if el.Kind == ecTOP {
			return el, true
		}
		if el.Kind == ecPARAM || el.Kind == ecIFACE {
			w := "0"
			if f.Pos {
				w = "1"
			}
			tag := e.predKey(f.Pred) + "=" + w + ";"
			if !strings.Contains(el.Preds, tag) {
				el.Preds += tag
			}
			return el, true
		}
		ct, cf := e.predOutcomes(f.Pred, el)
		if (f.Pos && !ct) || (!f.Pos && !cf) {
			return el, false
		}
		if el.Kind == ecFOREIGN {
			// refine nil/EOF knowledge when the predicate outcome pins it down
			var left []ecInput
			ins, _ := e.inputsOf(el)
			for _, in := range ins {
				if res, known, _ := e.evalPred(f.Pred, in); !known || res == f.Pos {
					left = append(left, in)
				}
			}
			anyNil, anyEOF, anyOther := false, false, false
			for _, in := range left {
				switch {
				case in.Nil:
					anyNil = true
				case in.EOF:
					anyEOF = true
				default:
					anyOther = true
				}
			}
			switch {
			case anyNil && !anyEOF && !anyOther:
				return ecElem{Kind: ecNIL}, true
			case anyEOF && !anyNil && !anyOther:
				return ecElem{Kind: ecEOF}, true
			}
			if !anyNil {
				el.NonNil = true
			}
			if !anyEOF {
				el.NotEOF = true
			}
		}
		return el, true
	}
	return el, true
}

func (e *ecEngine) narrow(s ecSet, v ssa.Value, facts []ecFact) ecSet {
	uv := ecUnwrapIface(v)
	var mine []ecFact
	for _, f := range facts {
		if (f.Kind == "nil" || f.Kind == "eof" || f.Kind == "pred") && f.V == uv {
			mine = append(mine, f)
		}
	}
	if len(mine) == 0 {
		return s
	}
	out := ecSet{}
	for el := range s {
		keep := true
		for _, f := range mine {
			if el, keep = e.applyFact(el, f); !keep {
				break
			}
		}
		if keep {
			out[el] = true
		}
	}
	return out
}

// applyFilters re-applies the filters recorded on a symbolic element to the concrete classes it resolves to.
func (e *ecEngine) applyFilters(sym ecElem, concrete ecSet) ecSet {
	out := ecSet{}
	for el := range concrete {
		keep := true
		if sym.NonNil {
			el, keep = e.applyFact(el, ecFact{Kind: "nil", Pos: false})
		}
		if keep && sym.NotEOF {
			el, keep = e.applyFact(el, ecFact{Kind: "eof", Pos: false})
		}
		if keep && sym.Preds != "" {
			for _, tag := range strings.Split(strings.TrimSuffix(sym.Preds, ";"), ";") {
				i := strings.LastIndex(tag, "=")
				p := e.predFns[tag[:i]]
				if p == nil {
					continue
				}
				if el, keep = e.applyFact(el, ecFact{Kind: "pred", Pos: tag[i+1:] == "1", Pred: p}); !keep {
					break
				}
			}
		}
		if keep {
			out[el] = true
		}
	}
	return out
}

// ---- class of a value at a point

type ecStack map[ssa.Value]bool

// classAt returns the classes the error-typed value v can take when control is at pt.
func (e *ecEngine) classAt(v ssa.Value, pt ecPoint) ecSet {
	return e.classRec(v, pt, ecStack{})
}

func ecTop(why string) ecSet { return ecSet{ecElem{Kind: ecTOP, Why: why}: true} }

func (e *ecEngine) classRec(v ssa.Value, pt ecPoint, stk ecStack) ecSet {
	if stk[v] {
		return ecSet{} // cycle through φ: contributes nothing new (least fixed point)
	}
	stk[v] = true
	defer delete(stk, v)
	base := e.baseClass(v, pt, stk)
	return e.narrow(base, v, e.factsAt(pt))
}

func (e *ecEngine) baseClass(v ssa.Value, pt ecPoint, stk ecStack) ecSet {
	switch x := v.(type) {
	case *ssa.Const:
		if x.IsNil() {
			return ecSet{ecElem{Kind: ecNIL}: true}
		}
		return ecTop("non-nil constant")
	case *ssa.ChangeInterface:
		return e.classRec(x.X, pt, stk)
	case *ssa.MakeInterface:
		t := x.X.Type()
		if n := e.r.repoErrType(t); n != nil {
			if types.Identical(n, e.r.etf) {
				return ecSet{ecElem{Kind: ecETF}: true}
			}
			return ecSet{ecElem{Kind: ecFATAL, T: n}: true}
		}
		return ecSet{ecElem{Kind: ecPLAIN}: true}
	case *ssa.Phi:
		out := ecSet{}
		for i, ed := range x.Edges {
			p := x.Block().Preds[i]
			out.addAll(e.classRec(ed, ecPoint{B: p, Succ: x.Block()}, stk))
		}
		return out
	case *ssa.Parameter:
		for i, p := range x.Parent().Params {
			if p == x {
				return ecSet{ecElem{Kind: ecPARAM, Idx: i}: true}
			}
		}
		return ecTop("parameter")
	case *ssa.Call:
		return e.callClasses(x, -1, stk)
	case *ssa.Extract:
		if call, ok := x.Tuple.(*ssa.Call); ok {
			return e.callClasses(call, x.Index, stk)
		}
		return ecTop("extract of non-call")
	case *ssa.TypeAssert:
		if !x.CommaOk {
			return e.classRec(x.X, pt, stk)
		}
		return ecTop("comma-ok assertion")
	case *ssa.UnOp:
		if x.Op != token.MUL {
			return ecTop("unary op")
		}
		switch a := x.X.(type) {
		case *ssa.Global:
			if a == e.r.eof {
				return ecSet{ecElem{Kind: ecEOF}: true}
			}
			return ecSet{ecElem{Kind: ecVAR, G: a}: true}
		case *ssa.FieldAddr:
			if f := core.FieldOfAddr(a); f != nil {
				return e.fieldClasses(f)
			}
		case *ssa.Alloc:
			out := ecSet{ecElem{Kind: ecNIL}: true}
			for _, u := range core.Referrers(a) {
				switch y := u.(type) {
				case *ssa.Store:
					if y.Addr != ssa.Value(a) {
						return ecTop("address of local escapes")
					}
					out.addAll(e.classRec(y.Val, ecPointOf(y), stk))
				case *ssa.UnOp, *ssa.DebugRef:
				default:
					return ecTop("address of local escapes")
				}
			}
			return out
		}
		return ecTop("load through unmodelled address")
	}
	return ecTop(fmt.Sprintf("%T", v))
}

// fieldClasses: flow-insensitive classes of an error-typed struct field: everything stored into it anywhere in
// the repository, plus the zero value.
func (e *ecEngine) fieldClasses(f *types.Var) ecSet {
	e.inventory()
	if s, ok := e.fieldMemo[f]; ok {
		return s
	}
	if e.fieldBusy[f] {
		return ecTop("recursive field " + f.Name())
	}
	e.fieldBusy[f] = true
	defer delete(e.fieldBusy, f)
	out := ecSet{ecElem{Kind: ecNIL}: true}
	for _, w := range e.fieldW[f] {
		out.addAll(e.classAt(w.Val, ecPointOf(w.Instr)))
	}
	for owner, ws := range e.structW {
		st, ok := owner.Underlying().(*types.Struct)
		if !ok {
			continue
		}
		for i := 0; i < st.NumFields(); i++ {
			if st.Field(i) == f && len(ws) > 0 {
				for _, w := range ws {
					if !core.IsZeroConst(w.Val) {
						out.addAll(ecTop("whole-struct store to " + owner.Obj().Name()))
					}
				}
			}
		}
	}
	e.fieldMemo[f] = out
	return out
}

func ecErrResultIdx(sig *types.Signature) []int {
	var out []int
	for i := 0; i < sig.Results().Len(); i++ {
		if ecIsError(sig.Results().At(i).Type()) {
			out = append(out, i)
		}
	}
	return out
}

func ecIsPlainCtor(f *types.Func) bool {
	if f == nil || f.Pkg() == nil {
		return false
	}
	switch f.Pkg().Path() + "." + f.Name() {
	case "errors.New", "fmt.Errorf":
		return f.Type().(*types.Signature).Recv() == nil
	}
	return false
}

// callClasses: classes of result idx (-1: the single result) of a call.
func (e *ecEngine) callClasses(call *ssa.Call, idx int, stk ecStack) ecSet {
	cc := &call.Call
	if idx < 0 {
		idx = 0
	}
	if cc.IsInvoke() {
		return ecSet{ecElem{Kind: ecIFACE, Fn: ecOriginMethod(cc), Idx: idx}: true}
	}
	callee := cc.StaticCallee()
	if callee == nil {
		return ecTop("dynamic call")
	}
	if callee.Blocks != nil && core.InRepo(core.FuncPkg(callee)) {
		sum := e.summary(callee)
		out := ecSet{}
		for el := range sum.Res[idx] {
			if (el.Kind == ecNIL || el.Kind == ecEOF) && el.CondParam > 0 {
				// returned only when the argument itself is nil / io.EOF
				if el.CondParam-1 >= len(cc.Args) {
					out[ecElem{Kind: el.Kind}] = true
					continue
				}
				arg := cc.Args[el.CondParam-1]
				can := false
				for a := range e.classRec(arg, ecPointOf(call), stk) {
					switch {
					case a.Kind == el.Kind, a.Kind == ecTOP:
						can = true
					case a.Kind == ecFOREIGN || a.Kind == ecPARAM || a.Kind == ecIFACE:
						if (el.Kind == ecNIL && !a.NonNil) || (el.Kind == ecEOF && !a.NotEOF) {
							can = true
						}
					}
				}
				if !can {
					continue
				}
				ne := ecElem{Kind: el.Kind}
				if prm, ok := ecUnwrapIface(arg).(*ssa.Parameter); ok {
					for i, q := range prm.Parent().Params {
						if q == prm {
							ne.CondParam = i + 1
						}
					}
				} else {
					ne.Why = ecPassThrough(arg)
				}
				out[ne] = true
				continue
			}
			if el.Kind == ecPARAM {
				if el.Idx < len(cc.Args) {
					out.addAll(e.applyFilters(el, e.classRec(cc.Args[el.Idx], ecPointOf(call), stk)))
				} else {
					out.addAll(ecTop("parameter index"))
				}
				continue
			}
			out[el] = true
		}
		return out
	}
	obj := ecCalleeObj(callee)
	if ecIsPlainCtor(obj) {
		return ecSet{ecElem{Kind: ecPLAIN}: true}
	}
	if obj == nil {
		return ecTop("callee without object: " + callee.String())
	}
	return ecSet{ecElem{Kind: ecFOREIGN, Fn: obj, Idx: idx}: true}
}

func ecCalleeObj(f *ssa.Function) *types.Func {
	if o, ok := f.Object().(*types.Func); ok {
		return o
	}
	if f.Origin() != nil {
		if o, ok := f.Origin().Object().(*types.Func); ok {
			return o
		}
	}
	return nil
}

// summary: classes of the error-typed results of a repository function.
func (e *ecEngine) summary(fn *ssa.Function) *ecSummary {
	if s, ok := e.sums[fn]; ok {
		return s
	}
	idxs := ecErrResultIdx(fn.Signature)
	if e.inprog[fn] {
		s := &ecSummary{Fn: fn, Res: map[int]ecSet{}}
		for _, i := range idxs {
			s.Res[i] = ecTop("recursion through " + core.FuncKey(fn))
		}
		return s
	}
	e.inprog[fn] = true
	defer delete(e.inprog, fn)
	s := &ecSummary{Fn: fn, Res: map[int]ecSet{}}
	for _, i := range idxs {
		s.Res[i] = ecSet{}
	}
	for _, b := range fn.Blocks {
		for _, in := range b.Instrs {
			rt, ok := in.(*ssa.Return)
			if !ok {
				continue
			}
			r := &ecRet{Instr: rt, Cls: map[int]ecSet{}}
			for _, i := range idxs {
				if i >= len(rt.Results) {
					continue
				}
				cls := e.condition(fn, e.classAt(rt.Results[i], ecPointOf(rt)), e.factsAt(ecPointOf(rt)))
				r.Cls[i] = cls
				s.Res[i].addAll(cls)
			}
			s.Rets = append(s.Rets, r)
		}
	}
	e.sums[fn] = s
	return s
}

// ecPassThrough tags a NIL/EOF class that exists only because the named value of the caller is itself nil/io.EOF.
func ecPassThrough(v ssa.Value) string { return "same-as:" + ecUnwrapIface(v).Name() }

// condition marks the NIL/EOF elements of a return that is dominated by a `param == nil` / `param == io.EOF`
// edge as conditional on that parameter.
func (e *ecEngine) condition(fn *ssa.Function, cls ecSet, facts []ecFact) ecSet {
	nilP, eofP := 0, 0
	for _, f := range facts {
		prm, ok := f.V.(*ssa.Parameter)
		if !ok || !f.Pos || prm.Parent() != fn {
			continue
		}
		for i, q := range prm.Parent().Params {
			if q != prm {
				continue
			}
			switch f.Kind {
			case "nil":
				nilP = i + 1
			case "eof":
				eofP = i + 1
			}
		}
	}
	if nilP == 0 && eofP == 0 {
		return cls
	}
	out := ecSet{}
	for el := range cls {
		if el.CondParam == 0 {
			switch {
			case el.Kind == ecNIL && nilP > 0:
				el.CondParam = nilP
			case el.Kind == ecEOF && eofP > 0:
				el.CondParam = eofP
			}
		}
		out[el] = true
	}
	return out
}

// ---- resolution of symbolic interface calls by wiring

// concreteFor: the concrete types converted to the interface type `iface` inside the given packages.
func (e *ecEngine) concreteFor(iface types.Type, pkgs []*types.Package) []*types.Named {
	return e.concreteForRec(iface, pkgs, 0)
}

func (e *ecEngine) concreteForRec(iface types.Type, pkgs []*types.Package, depth int) []*types.Named {
	e.inventory()
	seen := map[*types.Named]bool{}
	var out []*types.Named
	defer func() {
		sort.Slice(out, func(i, j int) bool { return ecTypeKey(out[i]) < ecTypeKey(out[j]) })
	}()
	if depth < 3 {
		// a view interface that no concrete type is converted to directly: the concrete types behind the interface
		// types its values are taken from (anywhere in the repository), restricted by the wiring of pkgs
		direct := false
		for _, p := range pkgs {
			for _, mi := range e.mkIface[p] {
				if types.Identical(mi.Type(), iface) {
					direct = true
				}
			}
		}
		if !direct {
			for _, vw := range e.views {
				if !types.Identical(vw[0], iface) {
					continue
				}
				for _, n := range e.concreteForRec(vw[1], pkgs, depth+1) {
					if !seen[n] {
						seen[n] = true
						out = append(out, n)
					}
				}
			}
			if len(out) > 0 {
				return out
			}
		}
	}
	for _, p := range pkgs {
		for _, mi := range e.mkIface[p] {
			if !types.Identical(mi.Type(), iface) {
				continue
			}
			if n := core.NamedOf(mi.X.Type()); n != nil && !seen[n] {
				seen[n] = true
				out = append(out, n)
			}
		}
	}
	sort.Slice(out, func(i, j int) bool { return ecTypeKey(out[i]) < ecTypeKey(out[j]) })
	return out
}

// resolve replaces IFACE(I.M) elements by the summary of the unique concrete implementation that the wiring
// packages convert to I. Elements that cannot be resolved stay (the consumer treats them as undecided).
func (e *ecEngine) resolve(s ecSet, wiring []*types.Package, depth int) ecSet {
	out := ecSet{}
	for el := range s {
		if el.Kind != ecIFACE || depth > 4 {
			out[el] = true
			continue
		}
		sig := el.Fn.Type().(*types.Signature)
		if sig.Recv() == nil {
			out[el] = true
			continue
		}
		cands := e.concreteFor(sig.Recv().Type(), wiring)
		if len(cands) != 1 {
			out[el] = true
			continue
		}
		m := ecMethod(e.r.c, cands[0], el.Fn.Name())
		if m == nil || m.Blocks == nil {
			out[el] = true
			continue
		}
		sub := e.summary(m).Res[el.Idx]
		if sub == nil {
			out[el] = true
			continue
		}
		out.addAll(e.resolve(e.applyFilters(el, sub), wiring, depth+1))
	}
	return out
}

// readSet: the fully resolved class set of a format reader's Read error result.
func (e *ecEngine) readSet(rd *ecReader) ecSet {
	idxs := ecErrResultIdx(rd.Read.Signature)
	if len(idxs) != 1 {
		return ecTop("Read has no single error result")
	}
	return e.resolve(e.summary(rd.Read).Res[idxs[0]], []*types.Package{rd.Pkg}, 0)
}

// ---- discovering the fatal types of a reader from the type tests in its predicate

// assertedTypes: named repository error types asserted in fn and its static repository callees.
func (e *ecEngine) assertedTypes(fn *ssa.Function, seen map[*ssa.Function]bool, out map[*types.Named]bool) {
	if fn == nil || fn.Blocks == nil || seen[fn] || !core.InRepo(core.FuncPkg(fn)) {
		return
	}
	seen[fn] = true
	for _, b := range fn.Blocks {
		for _, in := range b.Instrs {
			switch x := in.(type) {
			case *ssa.TypeAssert:
				if n := e.r.repoErrType(x.AssertedType); n != nil {
					out[n] = true
				}
			case ssa.CallInstruction:
				e.assertedTypes(x.Common().StaticCallee(), seen, out)
			}
		}
	}
}

// evalCont runs a reader's IsContinuableError on one abstract error input.
func (e *ecEngine) evalCont(rd *ecReader, in ecInput, hook ecHook) (res, known bool, why string) {
	m := ecNewMachine(e.r, hook)
	recv := ecTokV(&ecTok{Name: "recv", IsObj: true})
	var arg ecV
	switch {
	case in.Nil:
		arg = ecV{K: ecvNil}
	case in.EOF:
		arg = ecTokV(m.eofTok)
	default:
		arg = ecTokV(&ecTok{Name: "err", Dyn: in.Dyn, DynKnown: true})
	}
	v, ok := m.run(rd.IsCont, []ecV{recv, arg})
	if !ok || v.K != ecvBool {
		if m.fail == "" {
			m.fail = "result is not a boolean constant on this input"
		}
		return false, false, m.fail
	}
	return v.B, true, ""
}

// fatalTypes: the repository error types the reader's predicate classifies as non-continuable.
func (e *ecEngine) fatalTypes(rd *ecReader) (fatal []*types.Named, candidates []*types.Named) {
	set := map[*types.Named]bool{}
	e.assertedTypes(rd.IsCont, map[*ssa.Function]bool{}, set)
	for n := range set {
		candidates = append(candidates, n)
	}
	sort.Slice(candidates, func(i, j int) bool { return ecTypeKey(candidates[i]) < ecTypeKey(candidates[j]) })
	for _, n := range candidates {
		if res, known, _ := e.evalCont(rd, ecInput{Dyn: n}, nil); known && !res {
			fatal = append(fatal, n)
		}
	}
	return
}

// ---- helpers shared by the rule sets

// ecErrValueOf returns the SSA value holding result idx of a call (the call itself for single results),
// or nil when the result is never extracted (assigned to the blank identifier).
func ecErrValueOf(call *ssa.Call, idx int) ssa.Value {
	if call.Call.Signature().Results().Len() == 1 {
		return call
	}
	for _, u := range core.Referrers(call) {
		if ex, ok := u.(*ssa.Extract); ok && ex.Index == idx {
			return ex
		}
	}
	return nil
}

// ecCalleeName names the callee of a call position-independently.
func ecCalleeName(ci ssa.CallInstruction) string {
	cc := ci.Common()
	if cc.IsInvoke() {
		return ecFuncName(ecOriginMethod(cc))
	}
	if f := cc.StaticCallee(); f != nil {
		if o := ecCalleeObj(f); o != nil {
			return ecFuncName(o)
		}
		return core.FuncKey(f)
	}
	return "dynamic call"
}

// ecRegionClosed: every block reachable from start is dominated by start (the branch never re-joins the
// normal flow: all its exits are returns/panics inside the region).
func ecRegionClosed(start *ssa.BasicBlock) bool {
	for b := range core.ReachableBlocks(start, nil) {
		if !start.Dominates(b) {
			return false
		}
	}
	return true
}

// ecUsesThroughPhi collects the uses of v, following φ-nodes and interface changes.
func ecUsesThroughPhi(v ssa.Value) []ssa.Instruction {
	seen := map[ssa.Value]bool{}
	var out []ssa.Instruction
	var walk func(v ssa.Value)
	walk = func(v ssa.Value) {
		if seen[v] {
			return
		}
		seen[v] = true
		for _, u := range core.Referrers(v) {
			switch x := u.(type) {
			case *ssa.Phi:
				walk(x)
			case *ssa.ChangeInterface:
				walk(x)
			case *ssa.DebugRef:
			default:
				out = append(out, u)
			}
		}
	}
	walk(v)
	return out
}

// ecHandling describes how an error value is handled by the function that obtained it.
type ecHandling struct {
	NilTests   []*ssa.BasicBlock // non-nil successor blocks of `v != nil` / `v == nil` tests
	OpenRegion *ssa.BasicBlock   // a non-nil successor whose region re-joins the normal flow
	PassedUp   bool              // returned, stored, or handed to a repository function
	OnlyEOF    bool              // compared against io.EOF but never against nil
}

func (e *ecEngine) handlingOf(v ssa.Value) ecHandling {
	var h ecHandling
	eofCmp := false
	for _, u := range ecUsesThroughPhi(v) {
		switch x := u.(type) {
		case *ssa.BinOp:
			if x.Op != token.EQL && x.Op != token.NEQ {
				continue
			}
			other := x.Y
			if ecUnwrapIface(x.Y) == ecUnwrapIface(v) || !ecIsError(x.X.Type()) {
				other = x.X
			}
			if e.isEOFLoad(other) {
				eofCmp = true
				continue
			}
			if !core.IsNilConst(x.X) && !core.IsNilConst(x.Y) {
				continue
			}
			for _, r := range core.Referrers(x) {
				ifi, ok := r.(*ssa.If)
				if !ok {
					continue
				}
				b := ifi.Block()
				nonNil := b.Succs[0]
				if x.Op == token.EQL {
					nonNil = b.Succs[1]
				}
				h.NilTests = append(h.NilTests, nonNil)
				if len(nonNil.Preds) != 1 || !ecRegionClosed(nonNil) {
					if h.OpenRegion == nil && !ecOpenRegionPassesUp(nonNil, v) && !e.regionJoinsOnlyAtFailingReturns(nonNil, v) {
						h.OpenRegion = nonNil
					}
				}
			}
		case *ssa.Return, *ssa.Store:
			h.PassedUp = true
		case ssa.CallInstruction:
			if f := x.Common().StaticCallee(); f != nil && core.InRepo(core.FuncPkg(f)) && !e.isPredicate(f) {
				for _, a := range x.Common().Args {
					if a == v {
						h.PassedUp = true
					}
				}
			}
		}
	}
	h.OnlyEOF = eofCmp && len(h.NilTests) == 0 && !h.PassedUp
	return h
}

// ecOpenRegionPassesUp: the failure branch re-joins the normal flow, but the function cannot retry the call and
// every return it can still reach hands the value v itself (possibly merged with nil) to the caller.
func ecOpenRegionPassesUp(start *ssa.BasicBlock, v ssa.Value) bool {
	reach := core.ReachableBlocks(start, nil)
	if def, ok := v.(ssa.Instruction); ok && reach[def.Block()] {
		return false // loops back to the call: the failure is retried, not reported
	}
	var isV func(x ssa.Value, depth int) bool
	isV = func(x ssa.Value, depth int) bool {
		if ecUnwrapIface(x) == ecUnwrapIface(v) {
			return true
		}
		if phi, ok := x.(*ssa.Phi); ok && depth < 4 {
			any := false
			for _, ed := range phi.Edges {
				switch {
				case core.IsNilConst(ed):
				case isV(ed, depth+1):
					any = true
				default:
					return false
				}
			}
			return any
		}
		return false
	}
	n := 0
	for b := range reach {
		for _, in := range b.Instrs {
			rt, ok := in.(*ssa.Return)
			if !ok {
				continue
			}
			n++
			found := false
			for _, rv := range rt.Results {
				if ecIsError(rv.Type()) && isV(rv, 0) {
					found = true
				}
			}
			if !found {
				return false
			}
		}
	}
	return n > 0
}

// ecReturnOnly: the block does nothing but merge values and return (the single exit of a function whose results
// are assigned on the way: `return n, err` with φ-nodes for n and err).
func ecReturnOnly(b *ssa.BasicBlock) *ssa.Return {
	for i, in := range b.Instrs {
		switch x := in.(type) {
		case *ssa.Phi, *ssa.DebugRef:
		case *ssa.Return:
			if i == len(b.Instrs)-1 {
				return x
			}
			return nil
		default:
			return nil
		}
	}
	return nil
}

// ecResultOnEdge: the value result i of rt has when its block is entered through predecessor number edge
// (edge < 0: the result as written).
func ecResultOnEdge(rt *ssa.Return, i, edge int) ssa.Value {
	rv := rt.Results[i]
	if edge >= 0 {
		if phi, ok := rv.(*ssa.Phi); ok && phi.Block() == rt.Block() && edge < len(phi.Edges) {
			return phi.Edges[edge]
		}
	}
	return rv
}

func ecDefinitelyNonNil(s ecSet) bool {
	if len(s) == 0 {
		return false
	}
	for el := range s {
		switch el.Kind {
		case ecEOF, ecFATAL, ecETF, ecPLAIN, ecVAR:
		case ecFOREIGN, ecPARAM, ecIFACE:
			if !el.NonNil {
				return false
			}
		default:
			return false
		}
	}
	return true
}

// regionJoinsOnlyAtFailingReturns: the failure branch starting at `start` (entered only through the non-nil edge
// of a test of v) leaves the blocks it dominates only into return-only blocks (a single-exit function: the
// branch assigns the results and falls into the common `return`), it cannot get back to the call that produced v,
// and on every edge from the branch into such a block every error result is known to be non-nil. The failure
// then ends the call with an error exactly as an early `return` inside the branch would.
func (e *ecEngine) regionJoinsOnlyAtFailingReturns(start *ssa.BasicBlock, v ssa.Value) bool {
	if len(start.Preds) != 1 {
		return false
	}
	reach := core.ReachableBlocks(start, nil)
	if def, ok := v.(ssa.Instruction); ok && reach[def.Block()] {
		return false
	}
	idxs := ecErrResultIdx(start.Parent().Signature)
	if len(idxs) == 0 {
		return false
	}
	joins := 0
	for _, b := range start.Parent().Blocks { // deterministic order
		if !reach[b] || start.Dominates(b) {
			continue
		}
		rt := ecReturnOnly(b)
		if rt == nil {
			return false
		}
		for pi, p := range b.Preds {
			if !reach[p] || !start.Dominates(p) {
				continue
			}
			joins++
			for _, i := range idxs {
				if i >= len(rt.Results) {
					return false
				}
				if !ecDefinitelyNonNil(e.classAt(ecResultOnEdge(rt, i, pi), ecPoint{B: p, Succ: b})) {
					return false
				}
			}
		}
	}
	return joins > 0
}

// ecFailRet is a return a failure of v ends in: Edge < 0 when the return's block is dominated by the failure
// edge of v, otherwise the number of the predecessor through which the failure branch falls into a return-only
// block (results are then the φ-operands of that edge, see ecResultOnEdge; facts are those of Pt).
type ecFailRet struct {
	Rt   *ssa.Return
	Pt   ecPoint
	Edge int
}

// failureReturns lists the returns of fn reached while `cause` holds for the dominating facts: returns inside the
// failure branch and, for single-exit functions, the edges from the failure branch into the common return block.
func (e *ecEngine) failureReturns(fn *ssa.Function, cause func([]ecFact) bool) []ecFailRet {
	var out []ecFailRet
	for _, rt := range ecReturns(fn) {
		if cause(e.factsAt(ecPointOf(rt))) {
			out = append(out, ecFailRet{Rt: rt, Pt: ecPointOf(rt), Edge: -1})
			continue
		}
		b := rt.Block()
		if len(b.Preds) < 2 || ecReturnOnly(b) == nil {
			continue
		}
		for pi, p := range b.Preds {
			pt := ecPoint{B: p, Succ: b}
			if cause(e.factsAt(pt)) {
				out = append(out, ecFailRet{Rt: rt, Pt: pt, Edge: pi})
			}
		}
	}
	return out
}

// ecFailureCause: at pt the value v is known to be non-nil and not known to be io.EOF.
func ecFailureCause(facts []ecFact, v ssa.Value) bool {
	uv := ecUnwrapIface(v)
	nonNil, isEOF := false, false
	for _, f := range facts {
		if f.V != uv {
			continue
		}
		switch {
		case f.Kind == "nil" && !f.Pos:
			nonNil = true
		case f.Kind == "eof" && f.Pos:
			isEOF = true
		}
	}
	return nonNil && !isEOF
}

func ecReturns(fn *ssa.Function) []*ssa.Return {
	var out []*ssa.Return
	for _, b := range fn.Blocks {
		for _, in := range b.Instrs {
			if rt, ok := in.(*ssa.Return); ok {
				out = append(out, rt)
			}
		}
	}
	return out
}
