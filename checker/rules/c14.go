package rules

import (
	"fmt"
	"go/types"
	"sort"
	"strings"

	"golang.org/x/tools/go/ssa"

	"omnilint/core"
)

func init() {
	register(&RuleSet{
		Prop:  "C14",
		Title: "Schemas and process-wide state are safe to share between goroutines",
		Explanation: "A data race needs a write. R14a: the closure of types reachable from the Schema implementation's fields (through fields, elements, repo interfaces' implementers and the concrete types flowing into interface{} fields such as the format runtime) is computed; no SSA store / map update whose address chain passes through a field of such a shared type may occur in any repository function of the run set (VTA-reachable from NewTransform/Read/RawRecord/Raw/Checksum plus the reflect-called built-in custom funcs), unless the written object is a fresh allocation of that function. " +
			"R14b: no run-set function stores to memory rooted at a package-level variable; every package-level variable of the repository that the run set reads has writers only in package initialisers (or unexported functions called only from them); objects held in package-level variables are passed only to the allow-listed synchronised operations (sync.Pool Get/Put, caches.LoadingCache.Get, sync/atomic) or read. " +
			"R14c: on the process-wide cached *xpath.Expr only Select and String are called (Evaluate mutates the shared query). " +
			"R14d: node IDs come from a single atomic read-modify-write on the counter, which is accessed only through sync/atomic; reset dominates every Pool.Put; no use after release (= C12 R12b–d). R14e: a pooled JavaScript VM is handed back only after its globals were wiped, Put is ordered last and the VM is not used afterwards (= C20 R20a).",
		NotDecided: "races inside third-party packages beyond their documented contracts (goja, hashicorp LRU, regexp, xpath.Select cloning); equality of concurrent results with the serial run; callers sharing one transformctx.Ctx between transforms; writes through pointers obtained from shared objects by functions outside the repository.",
		Trusted:    append([]string{"sync.Pool, sync/atomic and hashicorp golang-lru are internally synchronised", "*regexp.Regexp and *goja.Program are safe for concurrent use; xpath.Expr.Select clones the compiled query"}, commonTrusted...),
		Run:        runC14,
	})
	control(Control{ID: "c14-memo-on-decl", Prop: "C14", File: "extensions/omniv21/transform/parse.go",
		Old:  "\tn, err := p.querySingleNodeFromXPath(n, decl)\n\tif err != nil {\n\t\treturn nil, err\n\t}\n\tif n == nil {\n\t\treturn nil, nil\n\t}\n\treturn normalizeAndReturnValue(decl, n.InnerText())",
		New:  "\tn, err := p.querySingleNodeFromXPath(n, decl)\n\tif err != nil {\n\t\treturn nil, err\n\t}\n\tif n == nil {\n\t\treturn nil, nil\n\t}\n\tdecl.fqdn = decl.fqdn + \"\"\n\treturn normalizeAndReturnValue(decl, n.InnerText())",
		Rule: "R14a", Substr: "parseField", Why: "evaluation writes into a shared declaration"})
	control(Control{ID: "c14-global-counter", Prop: "C14", File: "idr/query.go",
		Old: "func MatchAny(n *Node, expr *xpath.Expr) bool {\n", New: "var matchAnyCalls int\n\nfunc MatchAny(n *Node, expr *xpath.Expr) bool {\n\tmatchAnyCalls++\n",
		Rule: "R14b", Substr: "matchAnyCalls", Why: "unsynchronised process-wide counter"})
	control(Control{ID: "c14-expr-evaluate", Prop: "C14", File: "idr/query.go",
		Old: "\treturn QueryIter(n, expr).MoveNext()", New: "\t_, ok := expr.Evaluate(createNavigator(n)).(*xpath.NodeIterator)\n\treturn ok && QueryIter(n, expr).MoveNext()",
		Rule: "R14c", Substr: "Evaluate", Why: "Evaluate on a shared compiled expression"})
	control(Control{ID: "c14-lazy-regexp-in-decl", Prop: "C14", File: "extensions/omniv21/fileformat/flatfile/fixedlength/decl.go",
		Old:  "func (e *EnvelopeDecl) matchFooter(line []byte) bool {\n\tif e.footerRegexp == nil {\n\t\treturn true\n\t}",
		New:  "func (e *EnvelopeDecl) matchFooter(line []byte) bool {\n\tif e.footerRegexp == nil {\n\t\tif e.Footer == nil {\n\t\t\treturn true\n\t\t}\n\t\te.footerRegexp = regexp.MustCompile(*e.Footer)\n\t}",
		Rule: "R14a", Substr: "matchFooter", Why: "lazy initialisation inside a schema-owned declaration"})
}

type c14shared struct {
	named map[*types.TypeName]string // shared named struct types -> how reached
}

func (s *c14shared) has(n *types.Named) bool {
	if n == nil {
		return false
	}
	_, ok := s.named[n.Origin().Obj()]
	return ok
}

func runC14(c *core.Ctx) {
	e := entries(c, "R14")
	if e == nil {
		return
	}
	shared := c14SharedTypes(c)
	if shared == nil {
		return
	}
	var names []string
	for tn, how := range shared.named {
		names = append(names, core.Rel(tn.Pkg().Path())+"."+tn.Name()+" ("+how+")")
	}
	sort.Strings(names)
	c.Note("R14a shared types (%d): %s", len(names), strings.Join(names, "; "))
	c.Stats["shared_types"] = len(names)
	must := []string{"schemahandler.CreateCtx", "header.Header", "header.ParserSettings",
		"extensions/omniv21/transform.Decl", "extensions/omniv21/transform.CustomFuncDecl",
		"extensions/omniv21/fileformat/edi.FileDecl", "extensions/omniv21/fileformat/edi.SegDecl", "extensions/omniv21/fileformat/edi.Elem",
		"extensions/omniv21/fileformat/csv.FileDecl", "extensions/omniv21/fileformat/csv.Column",
		"extensions/omniv21/fileformat/fixedlength.FileDecl", "extensions/omniv21/fileformat/fixedlength.EnvelopeDecl", "extensions/omniv21/fileformat/fixedlength.ColumnDecl",
		"extensions/omniv21/fileformat/flatfile/csv.FileDecl", "extensions/omniv21/fileformat/flatfile/csv.RecordDecl", "extensions/omniv21/fileformat/flatfile/csv.ColumnDecl",
		"extensions/omniv21/fileformat/flatfile/fixedlength.FileDecl", "extensions/omniv21/fileformat/flatfile/fixedlength.EnvelopeDecl", "extensions/omniv21/fileformat/flatfile/fixedlength.ColumnDecl"}
	for _, m := range must {
		found := false
		for _, n := range names {
			if strings.HasPrefix(n, m+" ") {
				found = true
			}
		}
		c.Check(found, "R14a-closure", "shared type "+m, 0, "in the computed closure of schema-owned types", "hand-confirmed schema-owned type is missing from the computed closure: the read-only rule would not cover it")
	}

	// the Schema implementation and a SchemaHandler implementation (unexported names: resolved by role)
	roleIn := func(how string) bool {
		for _, h := range shared.named {
			if h == how {
				return true
			}
		}
		return false
	}
	c.Check(roleIn("Schema implementation"), "R14a-closure", "shared type <Schema implementation>", 0, "in the computed closure", "the Schema implementation is missing from the computed closure")
	c.Check(roleIn("implements SchemaHandler"), "R14a-closure", "shared type <SchemaHandler implementation>", 0, "in the computed closure", "no SchemaHandler implementation in the computed closure: handler-owned declarations would not be covered")

	// ---------------- R14a / R14b stores in the run set
	runFns := repoFuncsIn(e.run)
	nStores := c14SharedStores(c, runFns, shared, "R14a", "R14b")
	c.Stats["run_set_stores_inspected"] = nStores
	c.OK("R14a", "run-set store inventory", 0, fmt.Sprintf("%d stores in %d run-set repository functions inspected against %d shared types", nStores, len(runFns), len(names)))
	if nStores < 150 {
		c.Unknown("R14a", "run-set store inventory size", 0, fmt.Sprintf("only %d stores found in the run set (expected > 150): the run set is implausibly small", nStores))
	}

	// ---------------- R14b globals read by the run set have init-only writers; objects in globals only used
	// through synchronised operations
	c14Globals(c, e, runFns, "R14b")

	// ---------------- R14c xpath.Expr methods
	nExpr := 0
	for _, f := range c.RepoFunctions() {
		if core.IsCLIOrSample(core.FuncPkg(f)) {
			continue
		}
		for _, ci := range core.Calls(f) {
			o := core.CalleeObj(ci)
			if o == nil || o.Pkg() == nil || o.Pkg().Path() != "github.com/antchfx/xpath" {
				continue
			}
			name := core.FuncName(o)
			if !strings.HasPrefix(name, "Expr.") {
				continue
			}
			nExpr++
			key := core.FuncKey(f) + " calls xpath." + name
			if name == "Expr.Select" || name == "Expr.String" {
				c.OK("R14c", key, core.InstrPos(ci), "clone-on-use entry point")
			} else {
				c.Bad("R14c", key, core.InstrPos(ci), "method "+name+" evaluates the process-wide cached compiled expression in place; only Select (which clones) and String are safe on a shared *xpath.Expr")
			}
		}
	}
	c.Floor("R14c", 1, "QueryIter -> Expr.Select")

	// ---------------- R14d node pool and ID counter under races: the ID handed out is the result of one atomic
	// read-modify-write (not load/compute/store), reset precedes Put (= C12 R12b-d)
	if r12 := resolveC12(c); r12 != nil {
		c12PoolRules(c, r12, c.RepoFunctions(), c12AllowedWriters(r12), "R14d", "R14d", "R14d")
	}
	c.Floor("R14d", 15, "ID counter and node pool discipline")
	// ---------------- R14e JavaScript VM pool: a VM is returned to the pool only after its globals were wiped and is not
	// used afterwards (= C20 R20a), otherwise two goroutines share one VM
	c20VMPool(c, "R14e")
	poolTypestate(c, "R14e")
	if r12 := resolveC12(c); r12 != nil {
		runR12eAs(c, r12, c.RepoFunctions(), "R14d") // no node is released twice: another transform may own it by then
	}
	c.Floor("R14e", 7, "VM pool discipline")
}

func isStructAlloc(v ssa.Value) bool {
	a, ok := v.(*ssa.Alloc)
	if !ok {
		return false
	}
	p, ok := a.Type().Underlying().(*types.Pointer)
	if !ok {
		return false
	}
	_, isStruct := p.Elem().Underlying().(*types.Struct)
	return isStruct
}

// c14SharedTypes computes the closure of schema-owned named struct types.
func c14SharedTypes(c *core.Ctx) *c14shared {
	root := c.Pkg("")
	schemaI := lookupIface(root.Types, "Schema")
	impls := implementersIn(root.Types, schemaI)
	if len(impls) == 0 {
		c.Unresolved("R14a", "Schema implementation", "no type in the root package implements Schema")
		return nil
	}
	s := &c14shared{named: map[*types.TypeName]string{}}
	// interface{}-typed fields: concrete types stored into them
	ifaceFieldTypes := c14EmptyIfaceStores(c)
	var visit func(t types.Type, how string, depth int)
	visit = func(t types.Type, how string, depth int) {
		if depth > 12 {
			return
		}
		switch x := t.(type) {
		case *types.Alias:
			visit(types.Unalias(x), how, depth)
		case *types.Pointer:
			visit(x.Elem(), how, depth)
		case *types.Slice:
			visit(x.Elem(), how, depth)
		case *types.Array:
			visit(x.Elem(), how, depth)
		case *types.Map:
			visit(x.Key(), how, depth)
			visit(x.Elem(), how, depth)
		case *types.Named:
			obj := x.Origin().Obj()
			if obj.Pkg() == nil || !core.InRepo(obj.Pkg()) {
				return
			}
			switch u := x.Underlying().(type) {
			case *types.Struct:
				if _, seen := s.named[obj]; seen {
					return
				}
				s.named[obj] = how
				for i := 0; i < u.NumFields(); i++ {
					f := u.Field(i)
					visit(f.Type(), "field "+obj.Name()+"."+f.Name(), depth+1)
					if it, ok := f.Type().Underlying().(*types.Interface); ok && it.Empty() {
						for _, ct := range ifaceFieldTypes[f] {
							visit(ct, "stored into "+obj.Name()+"."+f.Name(), depth+1)
						}
					}
				}
			case *types.Interface:
				if u.Empty() || u.NumMethods() == 0 {
					return
				}
				// error-like interfaces are not schema-owned data
				if types.Identical(x, types.Universe.Lookup("error").Type()) {
					return
				}
				for _, p := range c.Pkgs {
					if core.IsCLIOrSample(p.Types) {
						continue
					}
					for _, it := range implementersIn(p.Types, u) {
						visit(it, "implements "+obj.Name(), depth+1)
					}
				}
			default:
				visit(x.Underlying(), how, depth+1)
			}
		}
	}
	for _, t := range impls {
		visit(t, "Schema implementation", 0)
	}
	// per-transform types that implement repo interfaces reachable from the schema (readers, ingester) must not be
	// counted as shared: they are created per NewTransform. They enter only through interface implementers; drop the
	// types that are constructed in the run set (allocated by run-set functions) and never stored into a shared type.
	e := entries(c, "R14")
	if e != nil {
		perTransform := map[*types.TypeName]bool{}
		for _, f := range repoFuncsIn(e.run) {
			for _, b := range f.Blocks {
				for _, in := range b.Instrs {
					if a, ok := in.(*ssa.Alloc); ok {
						if n := core.NamedOf(a.Type()); n != nil {
							perTransform[n.Origin().Obj()] = true
						}
					}
				}
			}
		}
		for tn, how := range s.named {
			if perTransform[tn] && strings.HasPrefix(how, "implements ") {
				delete(s.named, tn)
			}
		}
	}
	return s
}

// c14EmptyIfaceStores: for struct fields of type interface{}, the concrete types stored into them anywhere in
// the repository (directly, or as the result of an interface method call whose repo implementations are inspected).
func c14EmptyIfaceStores(c *core.Ctx) map[*types.Var][]types.Type {
	out := map[*types.Var][]types.Type{}
	add := func(f *types.Var, t types.Type) {
		for _, x := range out[f] {
			if types.Identical(x, t) {
				return
			}
		}
		out[f] = append(out[f], t)
	}
	var concrete func(v ssa.Value, depth int) []types.Type
	concrete = func(v ssa.Value, depth int) []types.Type {
		if depth > 5 {
			return nil
		}
		switch x := v.(type) {
		case *ssa.MakeInterface:
			return []types.Type{x.X.Type()}
		case *ssa.Phi:
			var ts []types.Type
			for _, e := range x.Edges {
				ts = append(ts, concrete(e, depth+1)...)
			}
			return ts
		case *ssa.Extract:
			call, ok := x.Tuple.(*ssa.Call)
			if !ok {
				return nil
			}
			var ts []types.Type
			for _, cf := range c.Callees(call) {
				if cf.Blocks == nil || !core.InRepo(core.FuncPkg(cf)) {
					continue
				}
				for _, b := range cf.Blocks {
					for _, in := range b.Instrs {
						if rt, ok := in.(*ssa.Return); ok && x.Index < len(rt.Results) {
							ts = append(ts, concrete(rt.Results[x.Index], depth+1)...)
						}
					}
				}
			}
			return ts
		case *ssa.Parameter:
			// the value is handed in by the callers (e.g. a constructor helper): follow every static call site
			fn := x.Parent()
			idx := -1
			for i, p := range fn.Params {
				if p == x {
					idx = i
				}
			}
			var ts []types.Type
			if idx >= 0 {
				for _, g := range c.RepoFunctions() {
					for _, ci := range core.Calls(g) {
						if ci.Common().StaticCallee() == fn && idx < len(ci.Common().Args) {
							ts = append(ts, concrete(ci.Common().Args[idx], depth+1)...)
						}
					}
				}
			}
			return ts
		case *ssa.Call:
			var ts []types.Type
			for _, cf := range c.Callees(x) {
				if cf.Blocks == nil || !core.InRepo(core.FuncPkg(cf)) {
					continue
				}
				for _, b := range cf.Blocks {
					for _, in := range b.Instrs {
						if rt, ok := in.(*ssa.Return); ok && len(rt.Results) == 1 {
							ts = append(ts, concrete(rt.Results[0], depth+1)...)
						}
					}
				}
			}
			return ts
		}
		return nil
	}
	for _, f := range c.RepoFunctions() {
		if core.IsCLIOrSample(core.FuncPkg(f)) {
			continue
		}
		for _, w := range core.Writes(f) {
			if w.Kind != "field" || w.Field == nil || w.Val == nil {
				continue
			}
			it, ok := w.Field.Type().Underlying().(*types.Interface)
			if !ok || !it.Empty() {
				continue
			}
			for _, t := range concrete(w.Val, 0) {
				add(w.Field, t)
			}
		}
	}
	return out
}

// c14Globals: every package-level variable of the repository read in the run set has init-only writers, and
// objects held in package-level variables are used only through synchronised operations.
func c14Globals(c *core.Ctx, e *entrySets, runFns []*ssa.Function, rule string) {
	c14GlobalsN(c, e, runFns, rule, 10)
}

func c14GlobalsN(c *core.Ctx, e *entrySets, runFns []*ssa.Function, rule string, floor int) {
	cg := c.CallGraph()
	// writers of each repo global, program wide (repo functions)
	writers := map[*ssa.Global][]*ssa.Function{}
	for _, f := range c.RepoFunctions() {
		for _, w := range core.Writes(f) {
			if w.Global != nil && core.InRepo(w.Global.Pkg.Pkg) {
				writers[w.Global] = append(writers[w.Global], f)
			}
		}
		// address of a global passed to a non-atomic call may also write it
	}
	var initOnly func(f *ssa.Function, depth int) bool
	initOnly = func(f *ssa.Function, depth int) bool {
		if f.Synthetic != "" && f.Name() == "init" {
			return true
		}
		if strings.HasPrefix(f.Name(), "init#") && f.Signature.Recv() == nil {
			return true
		}
		if p := f.Parent(); p != nil {
			return initOnly(p, depth+1)
		}
		if depth > 5 {
			return false
		}
		if obj := f.Object(); obj == nil || obj.Exported() {
			return false
		}
		n := cg.Nodes[f]
		if n == nil || len(n.In) == 0 {
			return false // address taken / unknown callers: cannot show init-only (unreachable unexported funcs have no callers: treat as not init-only)
		}
		for _, in := range n.In {
			if !initOnly(in.Caller.Func, depth+1) {
				return false
			}
		}
		return true
	}
	seen := map[*ssa.Global]bool{}
	for _, f := range runFns {
		for _, b := range f.Blocks {
			for _, in := range b.Instrs {
				for _, op := range in.Operands(nil) {
					g, ok := (*op).(*ssa.Global)
					if !ok || !core.InRepo(g.Pkg.Pkg) || strings.HasSuffix(g.Name(), "$guard") {
						continue
					}
					// use classification
					key := core.FuncKey(f) + " uses global " + g.Name()
					switch x := in.(type) {
					case *ssa.UnOp:
						// plain read of the variable; the loaded object's uses:
						c14ObjectUses(c, f, x, g, rule)
						c14AggregateReadOnly(c, f, x, g, rule)
					case ssa.CallInstruction:
						o := core.CalleeObj(x)
						if o != nil && o.Pkg() != nil && (o.Pkg().Path() == "sync/atomic" || (o.Pkg().Path() == "sync" && strings.HasPrefix(core.FuncName(o), "Pool."))) {
							c.OK(rule, key, core.InstrPos(in), "address passed to "+o.Pkg().Path()+"."+core.FuncName(o))
						} else {
							c.Bad(rule, key, core.InstrPos(in), "address of a package-level variable passed to a call that is not a sync/atomic or sync.Pool operation")
						}
					case *ssa.Store:
						// reported by the store inventory above
					default:
						c.Bad(rule, key, core.InstrPos(in), fmt.Sprintf("address of a package-level variable escapes through %T", in))
					}
					if seen[g] {
						continue
					}
					seen[g] = true
					wkey := "global " + core.Rel(g.Pkg.Pkg.Path()) + "." + g.Name() + " writers"
					bad := ""
					for _, wf := range writers[g] {
						if !initOnly(wf, 0) {
							bad = core.FuncKey(wf)
						}
					}
					if bad != "" {
						c.Bad(rule, wkey, g.Pos(), "variable read on the NewTransform/Read path is written by "+bad+", which can run after package initialisation: unsynchronised read/write pair")
					} else {
						c.OK(rule, wkey, g.Pos(), fmt.Sprintf("%d writer(s), all package initialisers", len(writers[g])))
					}
				}
			}
		}
	}
	c.Floor(rule, floor, "package-level variables used on the run path")
}

// c14ObjectUses: v = load of global g. If the loaded value is a pointer/struct with interior state (caches),
// every call it is passed to must be an allow-listed synchronised operation.
func c14ObjectUses(c *core.Ctx, f *ssa.Function, load *ssa.UnOp, g *ssa.Global, rule string) {
	t := load.Type()
	n := core.NamedOf(t)
	_, isPtr := t.Underlying().(*types.Pointer)
	it, isIface := t.Underlying().(*types.Interface)
	statefulIface := isIface && !types.Identical(t, types.Universe.Lookup("error").Type()) && it.NumMethods() > 0
	if !((isPtr && n != nil) || statefulIface) {
		return // plain data (bool, string, slice, map, func, error sentinel): reads are fine given init-only writers
	}
	for _, u := range core.Referrers(load) {
		ci, ok := u.(ssa.CallInstruction)
		if !ok {
			continue
		}
		o := core.CalleeObj(ci)
		key := core.FuncKey(f) + " uses object in global " + g.Name()
		if o != nil && o.Pkg() != nil {
			full := o.Pkg().Path() + "." + core.FuncName(o)
			switch full {
			case "github.com/jf-tech/go-corelib/caches.LoadingCache.Get":
				c.OK(rule, key, core.InstrPos(ci), "LoadingCache.Get (LRU is internally locked)")
				continue
			}
			if o.Pkg().Path() == "sync/atomic" || o.Pkg().Path() == "sync" {
				c.OK(rule, key, core.InstrPos(ci), full)
				continue
			}
			// objects documented as safe for concurrent use by multiple goroutines, used through their own methods
			if sig, ok := o.Type().(*types.Signature); ok && sig.Recv() != nil {
				if rn := core.NamedOf(sig.Recv().Type()); rn != nil && rn.Obj().Pkg() != nil {
					switch rn.Obj().Pkg().Path() + "." + rn.Obj().Name() {
					case "regexp.Regexp", "strings.Replacer", "time.Location":
						if !strings.HasPrefix(o.Name(), "Longest") {
							c.OK(rule, key, core.InstrPos(ci), full+" (documented safe for concurrent use)")
							continue
						}
					}
				}
			}
		}
		c.Bad(rule, key, core.InstrPos(ci), "object held in a package-level variable is passed to "+ci.Common().String()+", which is not one of the synchronised operations (sync.Pool, sync/atomic, LoadingCache.Get)")
	}
}

// c14SharedStores: no store through a field of a schema-owned type (ruleS) or rooted at a package-level variable
// (ruleG) in the given run-set functions, unless the written object is a fresh allocation of the function. Shared with
// C10/C15, for which a memo written into the shared schema is a cross-record / cross-transform channel.
func c14SharedStores(c *core.Ctx, runFns []*ssa.Function, shared *c14shared, ruleS, ruleG string) int {
	nStores := 0
	for _, f := range runFns {
		for _, w := range core.Writes(f) {
			nStores++
			key := core.FuncKey(f) + " writes "
			// R14b: rooted at a package-level variable
			if w.Global != nil && core.InRepo(w.Global.Pkg.Pkg) {
				c.Bad(ruleG, key+"global "+w.Global.Name(), w.Pos, "run-set function stores to memory rooted at package-level variable "+w.Global.Name()+" without synchronisation")
				continue
			}
			// R14a: chain through a shared type
			var hit *core.AddrStep
			fresh := core.IsFresh(w.Root)
			sharedFresh := false
			// walk from the root side: object stays fresh until a load step
			for i := len(w.Chain) - 1; i >= 0; i-- {
				st := w.Chain[i]
				if st.Kind == "load" {
					// loading the fresh local variable itself (Alloc of a pointer) keeps freshness only if the
					// loaded pointer was stored from a fresh allocation — not tracked: freshness ends.
					if _, isAlloc := w.Root.(*ssa.Alloc); isAlloc && i == len(w.Chain)-1 && !isStructAlloc(w.Root) {
						// local variable cell holding a pointer: unknown pointee
						fresh = false
					} else {
						fresh = false
					}
				}
				if st.Kind == "field" && shared.has(st.Owner) {
					if fresh {
						sharedFresh = true
						continue
					}
					s := st
					hit = &s
					break
				}
			}
			if w.Kind == "struct" && shared.has(w.Owner) && !core.IsFresh(w.Root) {
				c.Bad(ruleS, key+"*"+w.Owner.Obj().Name(), w.Pos, "run-set function overwrites a schema-owned "+w.Owner.Obj().Name()+" value")
				continue
			}
			if hit != nil {
				c.Bad(ruleS, key+hit.Owner.Obj().Name()+"."+hit.Field.Name(), w.Pos,
					"store through field "+hit.Field.Name()+" of schema-owned type "+core.Rel(hit.Owner.Obj().Pkg().Path())+"."+hit.Owner.Obj().Name()+
						" in a function reachable from NewTransform/Read: schemas are shared between goroutines and must be read-only after NewSchema")
				continue
			}
			if sharedFresh {
				c.OK(ruleS, key+"fresh local of shared type", w.Pos, "the written object is a fresh allocation of this function")
			}
		}
	}
	return nStores
}
