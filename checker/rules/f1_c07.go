package rules

// C07 helper: "is this code only executed when the optional delimiter is configured" decided by data flow rather than
// by the shape `if len(r.delim.b) != 0 { split }` inside one function.
//
//   - truth: a boolean value is read as a test "len(<declaration field>) != 0" wherever it was computed: directly
//     (a comparison of len() with a constant), negated, hoisted into a local or a struct field, passed as a parameter
//     (every call site inside the package must agree), returned by a helper of the package, or materialised as a phi of
//     constants selected by such a test.
//   - guardOf: a block is guarded by field F if a dominating branch whose condition is such a test of F leads to it on
//     the "length is non-zero" side; a function none of whose own branches guards the block is guarded if every one of
//     its call sites is (up to three levels).

import (
	"go/constant"
	"go/token"
	"go/types"

	"golang.org/x/tools/go/ssa"

	"omnilint/core"
)

type f1LenTests struct {
	res       *a5Resolver
	callersIn func(*ssa.Function) []*ssa.Call
	into      func(*ssa.Function) bool
}

type f1LenTruth struct {
	field   string // declaration field (leaf key of the resolver) whose length is tested
	nonZero bool   // the truth value of the boolean under which len(field) is certainly > 0
}

// agree merges the readings of several alternatives of one value: all must be the same test.
func f1agree(cur *f1LenTruth, n f1LenTruth, first *bool) bool {
	if *first {
		*cur, *first = n, false
		return true
	}
	return *cur == n
}

func f1isLenCall(v ssa.Value) (ssa.Value, bool) {
	call, ok := v.(*ssa.Call)
	if !ok || len(call.Call.Args) != 1 {
		return nil, false
	}
	if bi, ok := call.Call.Value.(*ssa.Builtin); !ok || bi.Name() != "len" {
		return nil, false
	}
	return call.Call.Args[0], true
}

// truth reads the boolean value v as a length test. ctx is the stack of calls the reading descended through (so that
// a parameter of a helper is bound to the argument of the call under consideration).
func (lt *f1LenTests) truth(v ssa.Value, ctx []*ssa.Call, depth int) (f1LenTruth, bool) {
	if depth > 8 || v == nil {
		return f1LenTruth{}, false
	}
	if b, ok := v.Type().Underlying().(*types.Basic); !ok || b.Info()&types.IsBoolean == 0 {
		return f1LenTruth{}, false
	}
	switch x := v.(type) {
	case *ssa.UnOp:
		switch x.Op {
		case token.NOT:
			t, ok := lt.truth(x.X, ctx, depth+1)
			t.nonZero = !t.nonZero
			return t, ok
		case token.MUL:
			return lt.loaded(x, ctx, depth)
		}
	case *ssa.ChangeType:
		return lt.truth(x.X, ctx, depth+1)
	case *ssa.BinOp:
		var lenArg ssa.Value
		for _, side := range []ssa.Value{x.X, x.Y} {
			if a, ok := f1isLenCall(side); ok {
				lenArg = a
			}
		}
		if lenArg == nil {
			return f1LenTruth{}, false
		}
		fl := lt.res.Resolve(lenArg).Fields()
		if len(fl) != 1 {
			return f1LenTruth{}, false
		}
		nonZeroSucc, _, okT := a5LenTest(x, func(y ssa.Value) bool {
			a, ok := f1isLenCall(y)
			return ok && a == lenArg
		})
		if !okT || nonZeroSucc < 0 {
			return f1LenTruth{}, false
		}
		return f1LenTruth{field: fl[0], nonZero: nonZeroSucc == 0}, true
	case *ssa.Parameter:
		fn := x.Parent()
		idx := -1
		for i, fp := range fn.Params {
			if fp == x {
				idx = i
			}
		}
		if idx < 0 {
			return f1LenTruth{}, false
		}
		if n := len(ctx); n > 0 && ctx[n-1].Call.StaticCallee() == fn && idx < len(ctx[n-1].Call.Args) {
			return lt.truth(ctx[n-1].Call.Args[idx], ctx[:n-1], depth+1)
		}
		if !f1onlyCalledInside(fn) {
			return f1LenTruth{}, false
		}
		cs := lt.callersIn(fn)
		if len(cs) == 0 {
			return f1LenTruth{}, false
		}
		var cur f1LenTruth
		first := true
		for _, call := range cs {
			if idx >= len(call.Call.Args) {
				return f1LenTruth{}, false
			}
			t, ok := lt.truth(call.Call.Args[idx], nil, depth+1)
			if !ok || !f1agree(&cur, t, &first) {
				return f1LenTruth{}, false
			}
		}
		return cur, true
	case *ssa.Call:
		cf := x.Call.StaticCallee()
		if cf == nil || cf.Blocks == nil || lt.into == nil || !lt.into(cf) || cf.Signature.Results().Len() != 1 || len(ctx) > 4 {
			return f1LenTruth{}, false
		}
		var cur f1LenTruth
		first := true
		n := 0
		c2 := append(append([]*ssa.Call{}, ctx...), x)
		for _, b := range cf.Blocks {
			rt, ok := b.Instrs[len(b.Instrs)-1].(*ssa.Return)
			if !ok {
				continue
			}
			n++
			t, ok := lt.truth(rt.Results[0], c2, depth+1)
			if !ok || !f1agree(&cur, t, &first) {
				return f1LenTruth{}, false
			}
		}
		return cur, n > 0
	case *ssa.Phi:
		return lt.phi(x, ctx, depth)
	}
	return f1LenTruth{}, false
}

// f1onlyCalledInside: the function cannot be called by code outside the repository packages under analysis with
// arguments the analysis does not see: it is unexported (or a method of an unexported type, or a closure).
func f1onlyCalledInside(fn *ssa.Function) bool {
	if fn.Parent() != nil {
		return true
	}
	o := fn.Object()
	if o == nil {
		return false
	}
	if !o.Exported() {
		return true
	}
	if sig, ok := o.Type().(*types.Signature); ok && sig.Recv() != nil {
		t := sig.Recv().Type()
		if p, ok := t.(*types.Pointer); ok {
			t = p.Elem()
		}
		if n, ok := types.Unalias(t).(*types.Named); ok && !n.Obj().Exported() {
			return true
		}
	}
	return false
}

// loaded: the boolean was hoisted into memory: a local cell (all stores into it must be the same test) or a struct
// field (all stores into that field, anywhere in the repository, must be the same test).
func (lt *f1LenTests) loaded(ld *ssa.UnOp, ctx []*ssa.Call, depth int) (f1LenTruth, bool) {
	var vals []ssa.Value
	switch a := ld.X.(type) {
	case *ssa.Alloc:
		for _, u := range core.Referrers(a) {
			switch y := u.(type) {
			case *ssa.Store:
				if y.Addr != ssa.Value(a) {
					return f1LenTruth{}, false // the address escapes
				}
				vals = append(vals, y.Val)
			case *ssa.UnOp, *ssa.DebugRef:
			default:
				return f1LenTruth{}, false
			}
		}
	case *ssa.FieldAddr:
		fld := core.FieldOfAddr(a)
		if fld == nil {
			return f1LenTruth{}, false
		}
		for _, i := range lt.res.byField[fld] {
			s := lt.res.stores[i]
			if len(s.chain) == 0 || s.chain[len(s.chain)-1] != fld {
				continue // a store into a part of / through the field, not of the field itself
			}
			vals = append(vals, s.val)
		}
		ctx = nil
	default:
		return f1LenTruth{}, false
	}
	if len(vals) == 0 {
		return f1LenTruth{}, false
	}
	var cur f1LenTruth
	first := true
	for _, sv := range vals {
		t, ok := lt.truth(sv, ctx, depth+1)
		if !ok || !f1agree(&cur, t, &first) {
			return f1LenTruth{}, false
		}
	}
	return cur, true
}

// phi: a materialised boolean. For the truth value T under which the length is claimed non-zero, every incoming edge
// must either be unable to carry T (the constant !T), be itself a test that is T only for a non-zero length, or be the
// constant T arriving from a block that is guarded by the same field.
func (lt *f1LenTests) phi(phi *ssa.Phi, ctx []*ssa.Call, depth int) (f1LenTruth, bool) {
	for _, T := range []bool{true, false} {
		var cur f1LenTruth
		first := true
		good := true
		for i, ed := range phi.Edges {
			if k, isK := ed.(*ssa.Const); isK && k.Value != nil && k.Value.Kind() == constant.Bool {
				if constant.BoolVal(k.Value) != T {
					continue
				}
				if len(ctx) > 0 {
					good = false
					break
				}
				g := lt.guardLocal(phi.Block().Preds[i], ctx, depth+1)
				if g == "" || !f1agree(&cur, f1LenTruth{field: g, nonZero: T}, &first) {
					good = false
					break
				}
				continue
			}
			t, ok := lt.truth(ed, ctx, depth+1)
			if !ok || t.nonZero != T || !f1agree(&cur, t, &first) {
				good = false
				break
			}
		}
		if good && !first {
			return cur, true
		}
	}
	return f1LenTruth{}, false
}

// guardLocal: the declaration field F such that a branch of b's own function that dominates b is a test of len(F)
// and leads to b on its non-zero side ("" if none).
func (lt *f1LenTests) guardLocal(b *ssa.BasicBlock, ctx []*ssa.Call, depth int) string {
	for x := b; x != nil && x.Idom() != nil; x = x.Idom() {
		p := x.Idom()
		ifi, ok := p.Instrs[len(p.Instrs)-1].(*ssa.If)
		if !ok || len(p.Succs) != 2 || p.Succs[0] == p.Succs[1] {
			continue
		}
		t, ok := lt.truth(ifi.Cond, ctx, depth+1)
		if !ok {
			continue
		}
		side := p.Succs[1]
		if t.nonZero {
			side = p.Succs[0]
		}
		if (side == x || side.Dominates(x)) && len(side.Preds) == 1 {
			return t.field
		}
		// b is on the zero-length side of this test, or not decided by it: keep looking upwards
	}
	return ""
}

// guardOf: guardLocal, or the common guard of all call sites of b's function.
func (lt *f1LenTests) guardOf(b *ssa.BasicBlock, hop int) string {
	if g := lt.guardLocal(b, nil, 0); g != "" {
		return g
	}
	fn := b.Parent()
	if hop >= 3 || !f1onlyCalledInside(fn) {
		return ""
	}
	cs := lt.callersIn(fn)
	if len(cs) == 0 {
		return ""
	}
	guard := ""
	for _, call := range cs {
		g := lt.guardOf(call.Block(), hop+1)
		if g == "" || (guard != "" && g != guard) {
			return ""
		}
		guard = g
	}
	return guard
}
