package rules

import (
	"fmt"
	"go/constant"
	"go/token"
	"go/types"
	"sort"

	"golang.org/x/tools/go/ssa"

	"omnilint/core"
)

// Inter-procedural view of WrapEncoding (R18a field role, R18b selection logic): the selection may be spread over
// helpers of package header (p.encoding(), encodingMappingOf(key), p.encodingMapping() ...). Values are followed
// through static calls into functions of the same package with their parameters bound to the caller's arguments, so
// the facts that are checked (which table, which key, which fallback, applied to which input) are the same as for
// the single-function form.

// g2Env binds the parameters of fn to argument values of the caller (nil parent = WrapEncoding itself).
type g2Env struct {
	fn     *ssa.Function
	args   []ssa.Value
	parent *g2Env
	depth  int
}

const g2MaxDepth = 6

// g2Resolve strips type changes and replaces bound parameters by the caller's value.
func g2Resolve(v ssa.Value, env *g2Env) (ssa.Value, *g2Env) {
	for i := 0; i < 32; i++ {
		switch x := v.(type) {
		case *ssa.ChangeType:
			v = x.X
			continue
		case *ssa.Parameter:
			if env != nil && env.parent != nil && x.Parent() == env.fn {
				idx := -1
				for j, p := range env.fn.Params {
					if p == x {
						idx = j
					}
				}
				if idx >= 0 && idx < len(env.args) {
					v, env = env.args[idx], env.parent
					continue
				}
			}
		case *ssa.UnOp:
			// load of a local that is stored exactly once (spilled value receiver / parameter)
			if al, ok := x.X.(*ssa.Alloc); ok && x.Op == token.MUL {
				if sv := g2SingleStore(al); sv != nil {
					v = sv
					continue
				}
			}
		}
		break
	}
	return v, env
}

// g2SingleStore: the only value ever stored into a local whose address does not escape (nil otherwise).
func g2SingleStore(al *ssa.Alloc) ssa.Value {
	var val ssa.Value
	for _, u := range core.Referrers(al) {
		switch x := u.(type) {
		case *ssa.Store:
			if x.Addr != ssa.Value(al) || val != nil {
				return nil
			}
			val = x.Val
		case *ssa.UnOp:
			if x.Op != token.MUL {
				return nil
			}
		case *ssa.FieldAddr:
			for _, uu := range core.Referrers(x) {
				if ld, ok := uu.(*ssa.UnOp); !ok || ld.Op != token.MUL {
					return nil
				}
			}
		case *ssa.DebugRef:
		default:
			return nil
		}
	}
	return val
}

// g2Callee: the static callee of a call when it is a function with a body in package pkg, else nil.
func g2Callee(call *ssa.Call, pkg *types.Package) *ssa.Function {
	if call.Call.IsInvoke() {
		return nil
	}
	h := call.Call.StaticCallee()
	if h == nil || h.Blocks == nil || core.FuncPkg(h) != pkg || len(h.Params) != len(call.Call.Args) || len(h.FreeVars) != 0 {
		return nil
	}
	return h
}

func g2Enter(call *ssa.Call, h *ssa.Function, env *g2Env) *g2Env {
	return &g2Env{fn: h, args: call.Call.Args, parent: env, depth: env.depth + 1}
}

func g2Returns(fn *ssa.Function) []*ssa.Return {
	var out []*ssa.Return
	for _, b := range fn.Blocks {
		for _, in := range b.Instrs {
			if rt, ok := in.(*ssa.Return); ok {
				out = append(out, rt)
			}
		}
	}
	return out
}

// g2HelperClosure: fn and the functions of pkg it reaches through static calls (deterministic order).
func g2HelperClosure(fn *ssa.Function, pkg *types.Package) []*ssa.Function {
	seen := map[*ssa.Function]bool{fn: true}
	out := []*ssa.Function{fn}
	for i := 0; i < len(out); i++ {
		for _, ci := range core.Calls(out[i]) {
			call, ok := ci.(*ssa.Call)
			if !ok {
				continue
			}
			if h := g2Callee(call, pkg); h != nil && !seen[h] {
				seen[h] = true
				out = append(out, h)
			}
		}
	}
	return out
}

// g2EncodingField: the single field of the settings struct read by WrapEncoding or the helpers it calls.
func g2EncodingField(wrap *ssa.Function, pkg *types.Package, owner *types.TypeName) (fld *types.Var, ambiguous bool) {
	for _, f := range g2HelperClosure(wrap, pkg) {
		for _, b := range f.Blocks {
			for _, in := range b.Instrs {
				var got *types.Var
				switch x := in.(type) {
				case *ssa.FieldAddr:
					if n := core.FieldOwner(x); n != nil && n.Obj() == owner {
						got = core.FieldOfAddr(x)
					}
				case *ssa.Field:
					if n := core.NamedOf(x.X.Type()); n != nil && n.Obj() == owner {
						if st, ok := n.Underlying().(*types.Struct); ok && x.Field < st.NumFields() {
							got = st.Field(x.Field)
						}
					}
				}
				if got == nil {
					continue
				}
				if fld != nil && fld != got {
					return nil, true
				}
				fld = got
			}
		}
	}
	return fld, false
}

type g2Lookup struct {
	l   *ssa.Lookup
	env *g2Env
}

// g2KeyLeaf is one alternative a lookup key may evaluate to.
type g2KeyLeaf struct {
	v    ssa.Value
	env  *g2Env
	site *ssa.BasicBlock // block that selects this alternative (return block / phi predecessor); nil if unknown
	to   *ssa.BasicBlock // for a phi alternative: the block of the phi (the alternative is chosen by the edge site -> to)
}

type g2Wrap struct {
	c        *core.Ctx
	wrap     *ssa.Function
	pkg      *types.Package
	table    *ssa.Global
	encField *types.Var
	identity map[string]bool
	lookups  []g2Lookup
}

func (w *g2Wrap) isIdentityConst(v ssa.Value) bool {
	k, ok := v.(*ssa.Const)
	return ok && k.Value != nil && k.Value.Kind() == constant.String && w.identity[constant.StringVal(k.Value)]
}

// isReceiver: v (after binding) is the receiver of WrapEncoding.
func (w *g2Wrap) isReceiver(v ssa.Value, env *g2Env) bool {
	v, env = g2Resolve(v, env)
	return env != nil && env.parent == nil && v == ssa.Value(w.wrap.Params[0])
}

// encFieldLoad: v is a load of the encoding field of WrapEncoding's receiver.
func (w *g2Wrap) encFieldLoad(v ssa.Value, env *g2Env) (ok bool, why string) {
	v, env = g2Resolve(v, env)
	var fld *types.Var
	var base ssa.Value
	switch x := v.(type) {
	case *ssa.UnOp:
		fa, isFA := x.X.(*ssa.FieldAddr)
		if x.Op != token.MUL || !isFA {
			return false, "lookup key is not derived from the encoding field of the receiver"
		}
		fld = core.FieldOfAddr(fa)
		base = fa.X
		if al, isAl := base.(*ssa.Alloc); isAl {
			base = g2SingleStore(al)
			if base == nil {
				return false, "encoding field is not read from the receiver"
			}
		}
	case *ssa.Field:
		if n := core.NamedOf(x.X.Type()); n != nil {
			if st, isSt := n.Underlying().(*types.Struct); isSt && x.Field < st.NumFields() {
				fld = st.Field(x.Field)
			}
		}
		base = x.X
	default:
		return false, "lookup key is not derived from the encoding field of the receiver"
	}
	if fld == nil || w.encField == nil || fld != w.encField {
		return false, "lookup key is not derived from the encoding field of the receiver"
	}
	if !w.isReceiver(base, env) {
		return false, "encoding field is not read from the receiver"
	}
	return true, ""
}

// collectFn records the table lookups a function value may come from; false if it may come from anything else.
func (w *g2Wrap) collectFn(v ssa.Value, env *g2Env, seen map[ssa.Value]bool) bool {
	v, env = g2Resolve(v, env)
	if seen[v] {
		return true
	}
	seen[v] = true
	switch x := v.(type) {
	case *ssa.Phi:
		for _, e := range x.Edges {
			if !w.collectFn(e, env, seen) {
				return false
			}
		}
		return true
	case *ssa.Extract:
		l, ok := x.Tuple.(*ssa.Lookup)
		if !ok || x.Index != 0 {
			return false
		}
		w.lookups = append(w.lookups, g2Lookup{l, env})
		return true
	case *ssa.Lookup:
		w.lookups = append(w.lookups, g2Lookup{x, env})
		return true
	case *ssa.Call:
		h := g2Callee(x, w.pkg)
		if h == nil || env.depth >= g2MaxDepth || h.Signature.Results().Len() != 1 {
			return false
		}
		rets := g2Returns(h)
		if len(rets) == 0 {
			return false
		}
		henv := g2Enter(x, h, env)
		for _, rt := range rets {
			// a fresh seen set per callee instance: values of h are distinct from the caller's
			if !w.collectFn(rt.Results[0], henv, map[ssa.Value]bool{}) {
				return false
			}
		}
		return true
	}
	return false
}

// keyLeaves enumerates the alternatives of a lookup key.
func (w *g2Wrap) keyLeaves(v ssa.Value, env *g2Env, site, to *ssa.BasicBlock, seen map[ssa.Value]bool, out *[]g2KeyLeaf) {
	rv, renv := g2Resolve(v, env)
	if renv != env {
		site, to = nil, nil
	}
	v, env = rv, renv
	if seen[v] {
		return
	}
	seen[v] = true
	switch x := v.(type) {
	case *ssa.Phi:
		for i, e := range x.Edges {
			w.keyLeaves(e, env, x.Block().Preds[i], x.Block(), seen, out)
		}
		return
	case *ssa.Call:
		if h := g2Callee(x, w.pkg); h != nil && env.depth < g2MaxDepth && h.Signature.Results().Len() == 1 {
			if rets := g2Returns(h); len(rets) > 0 {
				henv := g2Enter(x, h, env)
				for _, rt := range rets {
					w.keyLeaves(rt.Results[0], henv, rt.Block(), nil, map[ssa.Value]bool{}, out)
				}
				return
			}
		}
	}
	*out = append(*out, g2KeyLeaf{v, env, site, to})
}

// nilTest: the If at the end of b compares the encoding field of the receiver with nil; returns the successor taken
// when the field is nil and the one taken when it is not.
func (w *g2Wrap) nilTest(b *ssa.BasicBlock, env *g2Env) (nilSucc, nonNilSucc *ssa.BasicBlock) {
	if len(b.Instrs) == 0 || len(b.Succs) != 2 {
		return nil, nil
	}
	iff, ok := b.Instrs[len(b.Instrs)-1].(*ssa.If)
	if !ok {
		return nil, nil
	}
	bo, ok := iff.Cond.(*ssa.BinOp)
	if !ok || (bo.Op != token.EQL && bo.Op != token.NEQ) {
		return nil, nil
	}
	var other ssa.Value
	switch {
	case core.IsNilConst(bo.Y):
		other = bo.X
	case core.IsNilConst(bo.X):
		other = bo.Y
	default:
		return nil, nil
	}
	if ok, _ := w.encFieldLoad(other, env); !ok {
		return nil, nil
	}
	if bo.Op == token.EQL {
		return b.Succs[0], b.Succs[1]
	}
	return b.Succs[1], b.Succs[0]
}

// guarded: block b of env.fn is only entered through the nil (wantNil) resp. non-nil successor of a nil test of
// the encoding field.
func (w *g2Wrap) guarded(b *ssa.BasicBlock, env *g2Env, wantNil bool) bool {
	if b == nil {
		return false
	}
	for _, t := range env.fn.Blocks {
		n, nn := w.nilTest(t, env)
		if n == nil || n == nn {
			continue
		}
		s := nn
		if wantNil {
			s = n
		}
		if len(s.Preds) == 1 && s.Dominates(b) {
			return true
		}
	}
	return false
}

// guardedEdge: the control-flow edge from -> to is itself the nil (wantNil) resp. non-nil branch of a nil test of the
// encoding field at the end of `from` ("key := <default>; if p.<enc> != nil { key = *p.<enc> }": the default reaches the
// phi directly from the testing block).
func (w *g2Wrap) guardedEdge(from, to *ssa.BasicBlock, env *g2Env, wantNil bool) bool {
	if from == nil || to == nil {
		return false
	}
	n, nn := w.nilTest(from, env)
	if n == nil || n == nn {
		return false
	}
	if wantNil {
		return n == to
	}
	return nn == to
}

// checkKey decides whether a schema-keyed lookup key is "the encoding field of the receiver, or the utf-8 key when
// the field is absent": StrPtrOrElse(p.<enc>, utf-8), or the same spelled out with a nil test.
func (w *g2Wrap) checkKey(lk g2Lookup) (bool, string) {
	var leaves []g2KeyLeaf
	w.keyLeaves(lk.l.Index, lk.env, nil, nil, map[ssa.Value]bool{}, &leaves)
	derefs, consts := 0, 0
	for _, lf := range leaves {
		switch x := lf.v.(type) {
		case *ssa.Call:
			if !core.IsCallTo(x, c18StrsPkg, "StrPtrOrElse") || len(x.Call.Args) != 2 {
				return false, "lookup key is not StrPtrOrElse(<encoding field>, <default>)"
			}
			if len(leaves) != 1 {
				return false, "lookup key mixes StrPtrOrElse with other alternatives"
			}
			if ok, why := w.encFieldLoad(x.Call.Args[0], lf.env); !ok {
				return false, why
			}
			dv, _ := g2Resolve(x.Call.Args[1], lf.env)
			if !w.isIdentityConst(dv) {
				return false, "an absent encoding does not default to the utf-8 pass-through entry"
			}
		case *ssa.UnOp:
			// *p.<enc>, only where the field is known to be non-nil
			if x.Op != token.MUL {
				return false, "lookup key is not StrPtrOrElse(<encoding field>, <default>)"
			}
			if ok, why := w.encFieldLoad(x.X, lf.env); !ok {
				return false, why
			}
			if !w.guarded(x.Block(), lf.env, false) {
				return false, "the encoding field is dereferenced without a preceding nil test"
			}
			derefs++
		case *ssa.Const:
			if !w.isIdentityConst(x) {
				return false, "an absent encoding does not default to the utf-8 pass-through entry"
			}
			if lf.env == nil || !(w.guarded(lf.site, lf.env, true) || w.guardedEdge(lf.site, lf.to, lf.env, true)) {
				return false, "the default key is not selected exactly when the encoding field is absent"
			}
			consts++
		default:
			return false, "lookup key is not StrPtrOrElse(<encoding field>, <default>)"
		}
	}
	if len(leaves) == 0 {
		return false, "lookup key is not StrPtrOrElse(<encoding field>, <default>)"
	}
	if (derefs > 0) != (consts > 0) {
		return false, "lookup key is not the encoding field with the utf-8 default for an absent field"
	}
	if !lk.l.CommaOk {
		return false, "lookup with a schema-supplied key has no comma-ok fallback"
	}
	return true, ""
}

// g2WrapEncoding checks the selection logic of WrapEncoding (R18b), following helpers of package header.
func g2WrapEncoding(c *core.Ctx, wrap *ssa.Function, pkg *types.Package, table *ssa.Global, encField *types.Var, identity map[string]bool) {
	w := &g2Wrap{c: c, wrap: wrap, pkg: pkg, table: table, encField: encField, identity: identity}
	fk := core.FuncKey(wrap)
	root := &g2Env{fn: wrap}
	isInput := func(v ssa.Value, env *g2Env) bool {
		v, env = g2Resolve(core.Unwrap(v, true), env)
		v = core.Unwrap(v, true)
		v, env = g2Resolve(v, env)
		return env != nil && env.parent == nil && v == ssa.Value(wrap.Params[1])
	}
	nret, passThrough := 0, 0
	// evalRet classifies one returned value: "pass", "ok", "bad", "unknown"
	var evalRet func(v ssa.Value, env *g2Env) string
	evalRet = func(v ssa.Value, env *g2Env) string {
		if isInput(v, env) {
			return "pass"
		}
		v, env = g2Resolve(core.Unwrap(v, true), env)
		call, ok := v.(*ssa.Call)
		if !ok || call.Call.IsInvoke() {
			return "bad"
		}
		if h := g2Callee(call, pkg); h != nil {
			if env.depth >= g2MaxDepth || h.Signature.Results().Len() != 1 {
				return "unknown"
			}
			rets := g2Returns(h)
			if len(rets) == 0 {
				return "unknown"
			}
			henv := g2Enter(call, h, env)
			res := ""
			for _, rt := range rets {
				r := evalRet(rt.Results[0], henv)
				switch {
				case res == "" || res == r:
					res = r
				case r == "bad" || res == "bad":
					res = "bad"
				case r == "unknown" || res == "unknown":
					res = "unknown"
				default:
					res = "ok" // mixes pass-through and table function: both fine
				}
			}
			return res
		}
		if call.Call.StaticCallee() != nil || len(call.Call.Args) != 1 || !isInput(call.Call.Args[0], env) {
			return "bad"
		}
		if !w.collectFn(call.Call.Value, env, map[ssa.Value]bool{}) {
			return "unknown"
		}
		return "ok"
	}
	for _, rt := range g2Returns(wrap) {
		nret++
		switch evalRet(rt.Results[0], root) {
		case "pass":
			passThrough++
			c.OK("R18b", fk+" returns", core.InstrPos(rt), "returns its input unchanged (pass-through)")
		case "ok":
			c.OK("R18b", fk+" returns", core.InstrPos(rt), "selected table function applied to the input parameter")
		case "bad":
			c.Bad("R18b", fk+" returns", core.InstrPos(rt), "the result is not a function selected from the decoder table applied to the input parameter")
		default:
			c.Unknown("R18b", fk+" returns", core.InstrPos(rt), "the applied function value does not come from lookups in the decoder table only")
		}
	}
	if nret == 0 {
		c.Unresolved("R18b", fk+" returns", "no return found")
	}
	// one obligation per lookup instruction
	var lookups []g2Lookup
	seenL := map[*ssa.Lookup]bool{}
	for _, lk := range w.lookups {
		if !seenL[lk.l] {
			seenL[lk.l] = true
			lookups = append(lookups, lk)
		}
	}
	sort.SliceStable(lookups, func(i, j int) bool {
		a, b := lookups[i].l, lookups[j].l
		if ka, kb := core.FuncKey(a.Parent()), core.FuncKey(b.Parent()); ka != kb {
			return ka < kb
		}
		return a.Pos() < b.Pos()
	})
	dyn, fallback := 0, 0
	for _, lk := range lookups {
		l := lk.l
		tv, _ := g2Resolve(l.X, lk.env)
		if u, ok := tv.(*ssa.UnOp); !ok || u.Op != token.MUL || u.X != ssa.Value(table) {
			c.Bad("R18b", fk+" lookup", core.InstrPos(l), "function selected from a map other than the decoder table")
			continue
		}
		idx, _ := g2Resolve(l.Index, lk.env)
		if w.isIdentityConst(idx) {
			fallback++
			c.OK("R18b", fk+" fallback lookup", core.InstrPos(l), "constant key of the pass-through entry")
			continue
		}
		if _, isConst := idx.(*ssa.Const); isConst {
			c.Bad("R18b", fk+" fallback lookup", core.InstrPos(l), "fallback selects an entry other than the utf-8 pass-through")
			continue
		}
		dyn++
		good, why := w.checkKey(lk)
		c.Check(good, "R18b", fk+" lookup key", core.InstrPos(l), "table[<encoding field of the receiver, utf-8 key when absent>] with comma-ok", why)
	}
	if len(lookups) > 0 {
		c.Check(dyn == 1 && fallback+passThrough >= 1, "R18b", fk+" selection", wrap.Pos(),
			"one schema-keyed lookup with a pass-through fallback", fmt.Sprintf("expected one schema-keyed lookup and a pass-through fallback, found %d and %d", dyn, fallback+passThrough))
	}
}
