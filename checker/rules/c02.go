package rules

import (
	"fmt"
	"go/constant"
	"go/token"
	"go/types"
	"sort"
	"strings"

	"golang.org/x/tools/go/ssa"

	"omnilint/core"
)

func init() {
	register(&RuleSet{
		Prop:  "C02",
		Title: "Emitted JSON equals the documented evaluation of FINAL_OUTPUT",
		Explanation: "The full statement relates an evaluator to a reference semantics over runtime values and is not decided. Decided structural clauses, each a necessary condition: " +
			"R02a order preservation: the evaluation-order list of a declaration filled while ranging over a slice-typed field (array elements, custom_func args: positional) is not sorted in that function; filled while ranging over a map-typed field (object members) it is sorted before use. " +
			"R02b the value never depends on an internal cache hit (= C13 R13a result-cache key completeness incl. position links). " +
			"R02c normalisation is unavoidable: every non-nil value returned by a kind evaluator called from ParseNode is the result of the normaliser applied with the evaluator's own declaration. " +
			"R02d kind dispatch is exhaustive: every constant of the kind type is a case of the ParseNode dispatch, or is the template kind, which the validator replaces by its expansion before hashing. " +
			"R02e template expansion copies: a declaration looked up by a non-constant name in the template table is used only as the receiver of the deep copy. " +
			"R02f numeric casts are decimal/64-bit: the strconv.Parse* calls of the type-cast table take constant base 10 and bit size 64. " +
			"R02g the result cache lives for one record only (= C10 R10a). R02h the custom_func parameter cursor advances by one on every path round the argument loop (positional pairing). R02i in object/array evaluators a child value is handed only to the normalise-and-save function (per-child keep_empty_or_null / omission).",
		NotDecided: "xpath anchoring semantics, trimming and casting of values, custom-function argument values and zero-value substitution, keep_empty_or_null behaviour — everything that needs the value of an evaluation.",
		Trusted:    append([]string{"encoding/json; sort.Slice sorts by the given less function"}, commonTrusted...),
		Run:        runC02,
	})
	control(Control{ID: "c02-sort-array-children", Prop: "C02", File: "extensions/omniv21/transform/validate.go",
		Old:  "\t\tdecl.children = append(decl.children, childDecl)\n\t}\n\treturn nil\n}\n\nfunc (ctx *validateCtx) validateCustomFunc",
		New:  "\t\tdecl.children = append(decl.children, childDecl)\n\t}\n\tsort.Slice(decl.children, func(i, j int) bool { return decl.children[i].fqdn < decl.children[j].fqdn })\n\treturn nil\n}\n\nfunc (ctx *validateCtx) validateCustomFunc",
		Rule: "R02a", Substr: "validateArray", Why: "array elements reordered lexicographically (elem[10] before elem[2])"})
	control(Control{ID: "c02-unsorted-object-children", Prop: "C02", File: "extensions/omniv21/transform/validate.go",
		Old:  "\tif len(decl.children) > 0 {\n\t\tsort.Slice(decl.children, func(i, j int) bool { return decl.children[i].fqdn < decl.children[j].fqdn })\n\t}\n\treturn nil\n}\n\nfunc (ctx *validateCtx) validateArray",
		New:  "\tif len(decl.children) > 0 {\n\t\t_ = sort.SliceIsSorted(decl.children, func(i, j int) bool { return decl.children[i].fqdn < decl.children[j].fqdn })\n\t}\n\treturn nil\n}\n\nfunc (ctx *validateCtx) validateArray",
		Rule: "R02a", Substr: "validateObject", Why: "object members evaluated in map iteration order (which failing member is reported becomes random)"})
	control(Control{ID: "c02-raw-return", Prop: "C02", File: "extensions/omniv21/transform/parse.go",
		Old: "\treturn normalizeAndReturnValue(decl, n.InnerText())", New: "\treturn n.InnerText(), nil",
		Rule: "R02c", Substr: "parseField", Why: "field text bypasses trimming/casting/empty handling"})
	control(Control{ID: "c02-new-kind-no-case", Prop: "C02", File: "extensions/omniv21/transform/decl.go",
		Old: "\tkindTemplate    kind = \"template\"\n", New: "\tkindTemplate    kind = \"template\"\n\tkindLookup      kind = \"lookup\"\n",
		Rule: "R02d", Substr: "kindLookup", Why: "a declaration kind without an evaluator"})
	control(Control{ID: "c02-template-shared", Prop: "C02", File: "extensions/omniv21/transform/validate.go",
		Old: "\tdeclNew := templateDecl.deepCopy()", New: "\tdeclNew := templateDecl",
		Rule: "R02e", Substr: "validateTemplate", Why: "two reference sites share (and overwrite) one template object"})
	control(Control{ID: "c02-arg-cursor-skips", Prop: "C02", File: "extensions/omniv21/transform/invokeCustomFunc.go",
		Old:  "\t\tif val == nil {\n\t\t\targVals = append(argVals, reflect.Zero(getFuncArgType(fnType, fnArgIndex)))\n\t\t} else {\n\t\t\targVals = append(argVals, reflect.ValueOf(val))\n\t\t}\n\t\tfnArgIndex++",
		New:  "\t\tif val == nil {\n\t\t\targVals = append(argVals, reflect.Zero(getFuncArgType(fnType, fnArgIndex)))\n\t\t\tcontinue\n\t\t}\n\t\targVals = append(argVals, reflect.ValueOf(val))\n\t\tfnArgIndex++",
		Rule: "R02h", Substr: "prepArgValues", Why: "absent argument does not advance the parameter cursor"})
	control(Control{ID: "c02-array-drops-null", Prop: "C02", File: "extensions/omniv21/transform/parse.go",
		Old:  "\t\t\t_ = normalizeAndSaveValue(childDecl, childValue, func(normalizedValue interface{}) {\n\t\t\t\tarray = append(array, normalizedValue)\n\t\t\t})",
		New:  "\t\t\tif childValue != nil {\n\t\t\t\tarray = append(array, childValue)\n\t\t\t}",
		Rule: "R02i", Substr: "parseArray", Why: "keep_empty_or_null elements vanish from arrays"})
	control(Control{ID: "c02-int-cast-base0", Prop: "C02", File: "extensions/omniv21/transform/value.go",
		Old: "strconv.ParseInt(v.(string), 10, 64)", New: "strconv.ParseInt(v.(string), 0, 64)",
		Rule: "R02f", Substr: "ParseInt", Why: "type int cast of \"010\" yields 8"})
}

func runC02(c *core.Ctx) {
	r := c13Resolve(c, "R02")
	if r == nil {
		return
	}
	// ---------------- R02b
	c13KeyCompleteness(c, r, "R02b")
	c.Floor("R02b", 25, "result-cache key completeness")

	c02Order(c, r)
	c02Normalise(c, r)
	c02KindDispatch(c, r)
	c02TemplateCopy(c, r)
	c02Casts(c, r)
	c10FreshCtx(c, "R02g")
	c.Floor("R02g", 3, "fresh context per record")
	c02Positional(c, r)
	c.Floor("R02h", 1, "fnArgIndex in prepArgValues")
	c02ChildrenThroughNormaliser(c, r)
	c.Floor("R02i", 2, "object members and array elements")
}

// listField: the unexported []*Decl field of Decl (evaluation order list).
func c02ListField(r *c13roles) *types.Var {
	st := r.declT.Underlying().(*types.Struct)
	for i := 0; i < st.NumFields(); i++ {
		f := st.Field(i)
		if !f.Exported() && isSliceOfDecl(f.Type(), r.declT) {
			return f
		}
	}
	return nil
}

func c02Order(c *core.Ctx, r *c13roles) {
	list := c02ListField(r)
	if list == nil {
		c.Unresolved("R02a", "evaluation-order list", "no unexported []*Decl field in Decl")
		return
	}
	for _, f := range c.RepoFunctions() {
		if core.FuncPkg(f) != r.tp || f.Parent() != nil {
			continue
		}
		fills := false
		var fillPos token.Pos
		for _, w := range core.Writes(f) {
			if w.Kind == "field" && w.Field == list {
				if call, ok := w.Val.(*ssa.Call); ok {
					if b, ok := call.Call.Value.(*ssa.Builtin); ok && b.Name() == "append" {
						fills, fillPos = true, w.Pos
					}
				}
			}
		}
		if !fills {
			continue
		}
		key := core.FuncKey(f) + " fills " + list.Name()
		// what does the function range over?
		overMap, overSlice := false, false
		for _, b := range f.Blocks {
			for _, in := range b.Instrs {
				switch x := in.(type) {
				case *ssa.Range:
					if _, ok := x.X.Type().Underlying().(*types.Map); ok && loadedFromDeclField(x.X, r) {
						overMap = true
					}
				case *ssa.IndexAddr:
					if _, ok := x.X.Type().Underlying().(*types.Slice); ok && loadedFromDeclField(x.X, r) {
						overSlice = true
					}
				case *ssa.Index:
					if loadedFromDeclField(x.X, r) {
						overSlice = true
					}
				}
			}
		}
		// sorted?
		sorted := sortsListField(f, list, 0)
		switch {
		case overMap && !overSlice:
			c.Check(sorted.IsValid(), "R02a", key, fillPos, "filled from a map range and sorted afterwards (deterministic member order)",
				"the evaluation-order list is filled in map iteration order and never sorted: member evaluation order (and which failing member is reported) becomes random")
		case overSlice && !overMap:
			c.Check(!sorted.IsValid(), "R02a", key, fillPos, "filled in slice (declaration) order and left in that order",
				"the positional evaluation-order list (array elements / custom_func arguments) is re-sorted: elements beyond the 9th are reordered lexicographically")
		default:
			c.Unknown("R02a", key, fillPos, "cannot tell whether the list is filled from a map or a slice")
		}
	}
	c.Floor("R02a", 3, "validateObject, validateArray, validateCustomFunc")
}

func loadedFromDeclField(v ssa.Value, r *c13roles) bool {
	steps, _ := core.TraceAddr(v)
	for _, s := range steps {
		if s.Kind == "field" && s.Owner != nil && (types.Identical(s.Owner, r.declT) || types.Identical(s.Owner, r.cfT)) && s.Field.Exported() {
			return true
		}
	}
	return false
}

// c02Normalise: R02c.
func c02Normalise(c *core.Ctx, r *c13roles) {
	// normaliser: package function (decl *Decl, v interface{}) (interface{}, error)
	var norm *ssa.Function
	for _, f := range c.RepoFunctions() {
		if core.FuncPkg(f) != r.tp || f.Signature.Recv() != nil || f.Parent() != nil {
			continue
		}
		ps, rs := f.Signature.Params(), f.Signature.Results()
		if ps.Len() == 2 && rs.Len() == 2 && core.NamedOf(ps.At(0).Type()) == r.declT && isEmptyIface(ps.At(1).Type()) && isEmptyIface(rs.At(0).Type()) && isErrorT(rs.At(1).Type()) {
			norm = f
		}
	}
	if norm == nil {
		c.Unresolved("R02c", "normaliser", "no function (decl *Decl, v interface{}) (interface{}, error) in package transform")
		return
	}
	// evaluators: methods of the context called from ParseNode returning (interface{}, error) taking a *Decl
	evals := map[*ssa.Function]bool{}
	// (the evaluator may be called directly, or through a func value chosen by a selector helper: parse := p.parserFor(kind))
	for _, ci := range core.Calls(r.parseNode) {
		cfs, complete := g3Callees(ci, nil)
		if !complete && !ci.Common().IsInvoke() {
			if sig, ok := ci.Common().Value.Type().Underlying().(*types.Signature); ok && sig.Results().Len() == 2 && isEmptyIface(sig.Results().At(0).Type()) && isErrorT(sig.Results().At(1).Type()) {
				c.Unknown("R02c", core.FuncKey(r.parseNode)+" evaluator call", core.InstrPos(ci), "ParseNode calls an evaluator through a func value whose possible targets cannot be enumerated")
			}
		}
		for _, cf := range cfs {
			if cf == nil || core.FuncPkg(cf) != r.tp || cf == r.parseNode {
				continue
			}
			rs := cf.Signature.Results()
			takesDecl := false
			for _, p := range cf.Params {
				if core.NamedOf(p.Type()) == r.declT {
					takesDecl = true
				}
			}
			if takesDecl && rs.Len() == 2 && isEmptyIface(rs.At(0).Type()) && isErrorT(rs.At(1).Type()) {
				evals[cf] = true
			}
		}
	}
	// a callee that merely hands back the results of further evaluators (return p.parseX(...)) is a dispatcher, not an
	// evaluator: descend into what it delegates to
	for changed := true; changed; {
		changed = false
		for f := range evals {
			dels := delegates(f, r, norm)
			if len(dels) == 0 {
				continue
			}
			delete(evals, f)
			for _, d := range dels {
				if !evals[d] {
					evals[d] = true
				}
			}
			changed = true
		}
	}
	var es []*ssa.Function
	for f := range evals {
		es = append(es, f)
	}
	sort.Slice(es, func(i, j int) bool { return core.FuncKey(es[i]) < core.FuncKey(es[j]) })
	for _, f := range es {
		var declParam *ssa.Parameter
		for _, p := range f.Params {
			if core.NamedOf(p.Type()) == r.declT {
				declParam = p
			}
		}
		for _, b := range f.Blocks {
			for _, in := range b.Instrs {
				rt, ok := in.(*ssa.Return)
				if !ok {
					continue
				}
				v := rt.Results[0]
				key := core.FuncKey(f) + " result"
				if core.IsNilConst(v) {
					continue
				}
				ok2 := false
				if ex, isEx := v.(*ssa.Extract); isEx && ex.Index == 0 {
					if call, isCall := ex.Tuple.(*ssa.Call); isCall && call.Call.StaticCallee() == norm && declParam != nil && call.Call.Args[0] == ssa.Value(declParam) {
						ok2 = true
					}
				}
				c.Check(ok2, "R02c", key, core.InstrPos(rt), "non-nil result is "+core.FuncKey(norm)+"(decl, …)",
					"a kind evaluator returns a value that did not pass through the normaliser with its own declaration: trimming, type cast and empty/null handling are bypassed")
			}
		}
	}
	c.Floor("R02c", 7, "kind evaluators' non-nil returns")
}

func isEmptyIface(t types.Type) bool {
	i, ok := t.Underlying().(*types.Interface)
	return ok && i.Empty()
}
func isErrorT(t types.Type) bool { return types.Identical(t, types.Universe.Lookup("error").Type()) }

// c02KindDispatch: R02d.
func c02KindDispatch(c *core.Ctx, r *c13roles) {
	// the kind type: type of the unexported named-string field of Decl
	var kindT *types.Named
	st := r.declT.Underlying().(*types.Struct)
	for i := 0; i < st.NumFields(); i++ {
		if f := st.Field(i); !f.Exported() && isNamedString(f.Type(), r.tp) {
			kindT = f.Type().(*types.Named)
		}
	}
	if kindT == nil {
		c.Unresolved("R02d", "kind type", "no unexported named-string field in Decl")
		return
	}
	consts := map[string]*types.Const{}
	for _, n := range r.tp.Scope().Names() {
		if cst, ok := r.tp.Scope().Lookup(n).(*types.Const); ok && types.Identical(cst.Type(), kindT) {
			consts[constant.StringVal(cst.Val())] = cst
		}
	}
	comparedIn := func(f *ssa.Function) map[string]bool {
		out := map[string]bool{}
		for _, b := range f.Blocks {
			for _, in := range b.Instrs {
				bo, ok := in.(*ssa.BinOp)
				if !ok || bo.Op != token.EQL {
					continue
				}
				for _, op := range []ssa.Value{bo.X, bo.Y} {
					if cst, ok := op.(*ssa.Const); ok && types.Identical(cst.Type(), kindT) && cst.Value != nil {
						out[constant.StringVal(cst.Value)] = true
					}
				}
			}
		}
		return out
	}
	inDispatch := map[string]bool{}
	for _, f := range g3EvalPath(r) {
		// the dispatch may live in ParseNode or in a helper it delegates to
		if f == r.parseNode || delegatedFrom(r.parseNode, f, 0) {
			for k := range comparedIn(f) {
				inDispatch[k] = true
			}
			// ... or in a selector helper: a function whose result is the func value that the dispatcher calls and whose
			// results the dispatcher hands back (parse := p.parserFor(decl.kind); return parse(n, decl))
			for _, ci := range core.Calls(f) {
				call, ok := ci.(*ssa.Call)
				if !ok || call.Call.StaticCallee() != nil || call.Call.IsInvoke() || !g3ResultsHandedBack(call) {
					continue
				}
				selectors := map[*ssa.Function]bool{}
				g3Callees(call, selectors)
				for h := range selectors {
					for k := range comparedIn(h) {
						inDispatch[k] = true
					}
				}
			}
		}
	}
	// the validator: the function storing the hash field; kinds it replaces by an expansion
	expanded := map[string]bool{}
	for _, f := range c.RepoFunctions() {
		if core.FuncPkg(f) != r.tp {
			continue
		}
		storesHash := false
		for _, w := range core.Writes(f) {
			if w.Kind == "field" && w.Field == r.hashField {
				storesHash = true
			}
		}
		if !storesHash {
			continue
		}
		for k := range comparedIn(f) {
			// the branch must reassign the declaration from a call whose callee deep-copies
			for _, ci := range core.Calls(f) {
				cf := ci.Common().StaticCallee()
				if cf == nil || core.FuncPkg(cf) != r.tp {
					continue
				}
				if callsDeepCopy(cf, r) && returnsDecl(cf, r) {
					expanded[k] = true
				}
			}
		}
	}
	var names []string
	for k := range consts {
		names = append(names, k)
	}
	sort.Strings(names)
	for _, k := range names {
		key := "kind " + consts[k].Name()
		switch {
		case inDispatch[k]:
			c.OK("R02d", key, consts[k].Pos(), "a case of the ParseNode dispatch")
		case expanded[k] && !inDispatch[k]:
			c.OK("R02d", key, consts[k].Pos(), "replaced by its expansion in the validator before evaluation")
		default:
			c.Bad("R02d", key, consts[k].Pos(), "declaration kind "+consts[k].Name()+" has no evaluator in ParseNode and is not expanded away by the validator: such declarations fail (or are mis-evaluated) at run time only")
		}
	}
	c.Floor("R02d", 8, "kind constants")
}

// isTemplateKind: the kind constant is assigned by the kind resolver under a test of the exported Template field.
func isTemplateKind(c *core.Ctx, r *c13roles, k string) bool {
	for _, f := range c.RepoFunctions() {
		if core.FuncPkg(f) != r.tp {
			continue
		}
		for _, w := range core.Writes(f) {
			cst, ok := w.Val.(*ssa.Const)
			if !ok || cst.Value == nil || cst.Value.Kind() != constant.String || constant.StringVal(cst.Value) != k || w.Kind != "field" {
				continue
			}
			// block reached on the true edge of a test of an exported *string field named in the json tag "template"
			for _, p := range w.Instr.Block().Preds {
				ifi, ok := p.Instrs[len(p.Instrs)-1].(*ssa.If)
				if !ok {
					continue
				}
				bo, ok := ifi.Cond.(*ssa.BinOp)
				if !ok {
					continue
				}
				for _, op := range []ssa.Value{bo.X, bo.Y} {
					if u, ok := op.(*ssa.UnOp); ok {
						if fa, ok := u.X.(*ssa.FieldAddr); ok && core.FieldOfAddr(fa).Exported() {
							return true
						}
					}
				}
			}
		}
	}
	return false
}

func callsDeepCopy(f *ssa.Function, r *c13roles) bool {
	for _, ci := range core.Calls(f) {
		cf := ci.Common().StaticCallee()
		if cf != nil && cf.Signature.Recv() != nil && core.NamedOf(cf.Signature.Recv().Type()) == r.declT && cf.Signature.Params().Len() == 0 &&
			cf.Signature.Results().Len() == 1 && core.NamedOf(cf.Signature.Results().At(0).Type()) == r.declT {
			return true
		}
	}
	return false
}

func returnsDecl(f *ssa.Function, r *c13roles) bool {
	rs := f.Signature.Results()
	return rs.Len() >= 1 && core.NamedOf(rs.At(0).Type()) == r.declT
}

// c02TemplateCopy: R02e.
func c02TemplateCopy(c *core.Ctx, r *c13roles) {
	n := 0
	for _, f := range c.RepoFunctions() {
		if core.FuncPkg(f) != r.tp {
			continue
		}
		for _, b := range f.Blocks {
			for _, in := range b.Instrs {
				lk, ok := in.(*ssa.Lookup)
				if !ok {
					continue
				}
				mt, ok := lk.X.Type().Underlying().(*types.Map)
				if !ok || core.NamedOf(mt.Elem()) != r.declT || !isPointer(mt.Elem()) {
					continue
				}
				if _, isConst := lk.Index.(*ssa.Const); isConst {
					continue // the root declaration, looked up once by its constant name
				}
				// is the map a struct field (template table), not a local cache?
				steps, _ := core.TraceAddr(lk.X)
				isField := false
				for _, s := range steps {
					if s.Kind == "field" && !(s.Owner != nil && types.Identical(s.Owner, r.declT)) {
						isField = true
					}
				}
				if !isField {
					continue
				}
				n++
				key := core.FuncKey(f) + " uses looked-up template"
				var val ssa.Value = lk
				if lk.CommaOk {
					val = nil
					for _, u := range core.Referrers(lk) {
						if ex, ok := u.(*ssa.Extract); ok && ex.Index == 0 {
							val = ex
						}
					}
				}
				bad := ""
				if val != nil {
					for _, u := range core.Referrers(val) {
						switch x := u.(type) {
						case *ssa.DebugRef:
						case ssa.CallInstruction:
							cf := x.Common().StaticCallee()
							isCopy := cf != nil && cf.Signature.Recv() != nil && x.Common().Args[0] == val && cf.Signature.Params().Len() == 0 && returnsDecl(cf, r)
							if !isCopy {
								bad = "passed to " + x.Common().String()
							}
						case *ssa.BinOp:
						default:
							bad = fmt.Sprintf("used by %T", u)
						}
					}
				}
				c.Check(bad == "", "R02e", key, core.InstrPos(lk), "the shared template object is only deep-copied", "the template object itself ("+bad+") is used at the reference site instead of a copy: two reference sites share and overwrite one declaration")
			}
		}
	}
	if n == 0 {
		c.Unresolved("R02e", "template lookup", "no lookup by variable name in a map[string]*Decl field found")
	}
}

// c02Casts: R02f.
func c02Casts(c *core.Ctx, r *c13roles) {
	n := 0
	for _, f := range c.RepoFunctions() {
		if core.FuncPkg(f) != r.tp {
			continue
		}
		for _, ci := range core.Calls(f) {
			o := core.CalleeObj(ci)
			if o == nil || o.Pkg() == nil || o.Pkg().Path() != "strconv" || !strings.HasPrefix(o.Name(), "Parse") {
				continue
			}
			args := ci.Common().Args
			key := core.FuncKey(f) + " strconv." + o.Name()
			constInt := func(v ssa.Value) (int64, bool) {
				cst, ok := v.(*ssa.Const)
				if !ok || cst.Value == nil {
					return 0, false
				}
				i, ok := constant.Int64Val(cst.Value)
				return i, ok
			}
			n++
			switch o.Name() {
			case "ParseInt", "ParseUint":
				b, ok1 := constInt(args[1])
				s, ok2 := constInt(args[2])
				c.Check(ok1 && ok2 && b == 10 && s == 64, "R02f", key, core.InstrPos(ci), "base 10, 64 bit", "the documented int cast is decimal and 64-bit; another base (e.g. 0 = auto-detect: \"010\" becomes 8) or size changes emitted values")
			case "ParseFloat":
				s, ok := constInt(args[1])
				c.Check(ok && s == 64, "R02f", key, core.InstrPos(ci), "64 bit", "float cast is not 64-bit")
			default:
				c.OK("R02f", key, core.InstrPos(ci), "no radix/size parameter")
			}
		}
	}
	if n == 0 {
		c.Unresolved("R02f", "numeric casts", "no strconv.Parse* call found in package transform")
	}
	c.Floor("R02f", 3, "ParseInt, ParseFloat, ParseBool in the cast table")
}

// delegates: if every non-error-only return of f hands back the whole result tuple of a call to another context method
// with the same result signature, returns those callees (f is a dispatcher); otherwise nil.
func delegates(f *ssa.Function, r *c13roles, norm *ssa.Function) []*ssa.Function {
	var out []*ssa.Function
	seen := map[*ssa.Function]bool{}
	for _, b := range f.Blocks {
		for _, in := range b.Instrs {
			rt, ok := in.(*ssa.Return)
			if !ok || len(rt.Results) != 2 {
				continue
			}
			if core.IsNilConst(rt.Results[0]) {
				continue
			}
			ex0, ok0 := rt.Results[0].(*ssa.Extract)
			ex1, ok1 := rt.Results[1].(*ssa.Extract)
			if !ok0 || !ok1 || ex0.Tuple != ex1.Tuple || ex0.Index != 0 || ex1.Index != 1 {
				return nil
			}
			call, ok := ex0.Tuple.(*ssa.Call)
			if !ok {
				return nil
			}
			cf := call.Call.StaticCallee()
			if cf == nil || core.FuncPkg(cf) != r.tp || cf == f || cf == norm {
				return nil
			}
			rs := cf.Signature.Results()
			if !(rs.Len() == 2 && isEmptyIface(rs.At(0).Type()) && isErrorT(rs.At(1).Type())) {
				return nil
			}
			if !seen[cf] {
				seen[cf] = true
				out = append(out, cf)
			}
		}
	}
	return out
}

// g3ResultsHandedBack: a result of the call is returned by (or stored into the result cache of) the calling function.
func g3ResultsHandedBack(call *ssa.Call) bool {
	for _, u := range core.Referrers(call) {
		if ex, ok := u.(*ssa.Extract); ok {
			for _, u2 := range core.Referrers(ex) {
				if _, ok := u2.(*ssa.Return); ok {
					return true
				}
				if _, ok := u2.(*ssa.MapUpdate); ok {
					return true
				}
			}
		}
	}
	return false
}

// delegatedFrom: g is reached from f through a chain of dispatchers (f's results are g's results).
func delegatedFrom(f, g *ssa.Function, d int) bool {
	if d > 3 || f.Blocks == nil {
		return false
	}
	for _, ci := range core.Calls(f) {
		cf := ci.Common().StaticCallee()
		if cf == nil || cf == f {
			continue
		}
		// the call's results are returned by f
		call, ok := ci.(*ssa.Call)
		if !ok {
			continue
		}
		if !g3ResultsHandedBack(call) {
			continue
		}
		if cf == g || delegatedFrom(cf, g, d+1) {
			return true
		}
	}
	return false
}

// ---------------------------------------------------------------- R02h / R02i (added after seeds C02-4, C02-6)

// c02Positional (R02h): in the evaluation-path function that walks custom_func argument declarations, every loop-carried
// integer that is handed to a repository call inside the loop (the parameter cursor) advances by exactly one on every
// path round the loop — an iteration that skips the increment shifts all later absent-argument zero values to the wrong
// parameter type.
func c02Positional(c *core.Ctx, r *c13roles) {
	n := 0
	for _, f := range g3EvalPath(r) {
		// does f range over CustomFuncDecl.Args?
		walksArgs := false
		for _, b := range f.Blocks {
			for _, in := range b.Instrs {
				if fa, ok := in.(*ssa.FieldAddr); ok && core.FieldOwner(fa) != nil && types.Identical(core.FieldOwner(fa), r.cfT) && isSliceOfDecl(core.FieldOfAddr(fa).Type(), r.declT) {
					walksArgs = true
				}
			}
		}
		if !walksArgs {
			continue
		}
		// the cursor: an integer handed to a repository call inside a loop that is (loop-invariant offset) + (a loop-carried
		// counter of that loop): a running `idx++` variable, the range index plus a start offset, ...
		reported := map[*ssa.Phi]bool{}
		for _, ci := range core.Calls(f) {
			cf := ci.Common().StaticCallee()
			if cf == nil || !core.InRepo(core.FuncPkg(cf)) {
				continue
			}
			for _, a := range ci.Common().Args {
				if !isInt(a.Type()) {
					continue
				}
				phi, linear := g3CounterOf(a)
				if phi == nil {
					continue // no loop-carried part: not a cursor
				}
				key := core.FuncKey(f) + " parameter cursor"
				if !linear {
					n++
					c.Bad("R02h", key, core.InstrPos(ci), "the parameter index handed to "+core.FuncKey(cf)+" is not a loop counter plus a loop-invariant offset: arguments are no longer paired positionally with the function's parameters")
					continue
				}
				if reported[phi] {
					continue
				}
				reported[phi] = true
				n++
				b := phi.Block()
				okAll, back := true, 0
				for i, e := range phi.Edges {
					pred := b.Preds[i]
					if !b.Dominates(pred) {
						continue // entry edge
					}
					back++
					bo, isBo := e.(*ssa.BinOp)
					if !(isBo && bo.Op == token.ADD && ((bo.X == ssa.Value(phi) && isConstInt(bo.Y, 1)) || (bo.Y == ssa.Value(phi) && isConstInt(bo.X, 1)))) {
						okAll = false
					}
				}
				c.Check(okAll && back > 0, "R02h", key, phi.Pos(), "the cursor advances by one on every path round the argument loop",
					"an iteration of the argument loop can reach the next one without advancing the parameter cursor: arguments are no longer paired positionally with the function's parameters")
			}
		}
	}
	if n == 0 {
		c.Unresolved("R02h", "custom_func parameter cursor", "no loop-carried cursor found in the function that walks CustomFuncDecl.Args")
	}
}

// g3CounterOf decomposes an integer value into (loop-header phi) + (terms invariant in that phi's loop). Returns the
// phi (nil if the value has no loop-carried part) and whether the decomposition is exact (coefficient one, every other
// term invariant).
func g3CounterOf(v ssa.Value) (*ssa.Phi, bool) {
	var phi *ssa.Phi
	linear := true
	var terms []ssa.Value
	var walk func(v ssa.Value, positive bool, d int)
	walk = func(v ssa.Value, positive bool, d int) {
		switch x := v.(type) {
		case *ssa.Const, *ssa.Parameter, *ssa.FreeVar:
			return
		case *ssa.Phi:
			if g3IsLoopHeaderPhi(x) {
				if phi != nil || !positive {
					linear = false // two counters, or a negated one
				}
				if phi == nil {
					phi = x
				}
				return
			}
		case *ssa.BinOp:
			if d < 6 && (x.Op == token.ADD || x.Op == token.SUB) {
				walk(x.X, positive, d+1)
				walk(x.Y, positive == (x.Op == token.ADD), d+1)
				return
			}
		}
		terms = append(terms, v)
	}
	walk(v, true, 0)
	if phi == nil {
		// a non-affine expression may still hide a counter: look one level into its operands
		for _, t := range terms {
			if in, ok := t.(ssa.Instruction); ok {
				for _, op := range in.Operands(nil) {
					if op == nil || *op == nil {
						continue
					}
					if p, _ := g3CounterOf0(*op); p != nil {
						return p, false
					}
				}
			}
		}
		return nil, true
	}
	// every other term must be computed outside the counter's loop
	h := phi.Block()
	for _, t := range terms {
		in, ok := t.(ssa.Instruction)
		if !ok {
			continue
		}
		if tb := in.Block(); tb == h || !tb.Dominates(h) {
			linear = false
		}
	}
	return phi, linear
}

// g3CounterOf0: the affine decomposition without the look into non-affine operands (bounds the recursion).
func g3CounterOf0(v ssa.Value) (*ssa.Phi, bool) {
	switch x := v.(type) {
	case *ssa.Phi:
		if g3IsLoopHeaderPhi(x) {
			return x, true
		}
	case *ssa.BinOp:
		if p, _ := g3CounterOf0(x.X); p != nil {
			return p, true
		}
		return g3CounterOf0(x.Y)
	case *ssa.Convert:
		return g3CounterOf0(x.X)
	}
	return nil, true
}

// g3IsLoopHeaderPhi: the phi merges a value carried round a loop (one of its edges comes from a block it dominates).
func g3IsLoopHeaderPhi(phi *ssa.Phi) bool {
	b := phi.Block()
	for _, p := range b.Preds {
		if b.Dominates(p) {
			return true
		}
	}
	return false
}

func isConstInt(v ssa.Value, k int64) bool {
	cst, ok := v.(*ssa.Const)
	if !ok || cst.Value == nil {
		return false
	}
	i, ok := constant.Int64Val(cst.Value)
	return ok && i == k
}

// c02ChildrenThroughNormaliser (R02i): in the composite evaluators, the value obtained for a child declaration from
// ParseNode is used only as the value argument of the normalise-and-save function (whose callback performs the store
// into the parent container): the documented keep_empty_or_null / omission rules are applied per child, for objects
// and arrays alike.
func c02ChildrenThroughNormaliser(c *core.Ctx, r *c13roles) {
	var normSave *ssa.Function
	for _, f := range c.RepoFunctions() {
		if core.FuncPkg(f) != r.tp || f.Signature.Recv() != nil || f.Parent() != nil {
			continue
		}
		ps := f.Signature.Params()
		if ps.Len() == 3 && core.NamedOf(ps.At(0).Type()) == r.declT && isEmptyIface(ps.At(1).Type()) {
			if _, isFn := ps.At(2).Type().Underlying().(*types.Signature); isFn {
				normSave = f
			}
		}
	}
	if normSave == nil {
		c.Unresolved("R02i", "normalise-and-save function", "no function (decl *Decl, v interface{}, save func(interface{})) in package transform")
		return
	}
	n := 0
	for _, f := range g3EvalPath(r) {
		if f == r.parseNode || f.Parent() != nil {
			continue
		}
		// composite evaluators: functions that walk the evaluation-order list of a declaration
		list := c02ListField(r)
		walksList := false
		for _, b := range f.Blocks {
			for _, in := range b.Instrs {
				if fa, ok := in.(*ssa.FieldAddr); ok && core.FieldOfAddr(fa) == list {
					walksList = true
				}
			}
		}
		for _, ci := range core.Calls(f) {
			if ci.Common().StaticCallee() != r.parseNode {
				continue
			}
			call, ok := ci.(*ssa.Call)
			if !ok {
				continue
			}
			// only children evaluated in a loop (object members, array elements): the call sits on a cycle of a function that
			// walks the list, or in a helper that is handed one element of the list per iteration of its caller's loop (the
			// loop body of a composite evaluator extracted into a function)
			inLoop := walksList && blockOnCycle(call.Block())
			if !inLoop && !walksList {
				for _, a := range call.Call.Args {
					if core.NamedOf(a.Type()) == r.declT && c02ListElement(c, a, list, true, 0) {
						inLoop = true
					}
				}
			}
			if !inLoop {
				continue
			}
			for _, u := range core.Referrers(call) {
				ex, ok := u.(*ssa.Extract)
				if !ok || ex.Index != 0 {
					continue
				}
				n++
				key := core.FuncKey(f) + " child value"
				bad := ""
				for _, u2 := range core.Referrers(ex) {
					switch x := u2.(type) {
					case *ssa.DebugRef:
					case ssa.CallInstruction:
						if !(x.Common().StaticCallee() == normSave && len(x.Common().Args) == 3 && x.Common().Args[1] == ssa.Value(ex)) {
							bad = "passed to " + core.Rel(x.Common().String())
						}
					case *ssa.MakeClosure:
						// captured by the save callback: allowed only if that closure is the callback itself — a value captured
						// by a closure is stored outside the normaliser
						bad = "captured by a closure"
					default:
						bad = fmt.Sprintf("used by %T", u2)
					}
				}
				c.Check(bad == "", "R02i", key, core.InstrPos(call), "the child's value is only handed to "+core.FuncKey(normSave),
					"a child value is stored into its parent container without the per-child normalisation ("+bad+"): keep_empty_or_null / omission are not applied to it")
			}
		}
	}
	if n == 0 {
		c.Unresolved("R02i", "child evaluations", "no ParseNode call inside a loop found in the composite evaluators")
	}
}

// c02ListElement: v is an element of the evaluation-order list (a load through an index step of the list field), or a
// parameter of a helper with a closed, non-empty set of call sites every one of which passes such an element; with
// perIteration the element must be handed over inside a loop (of the helper's caller, or the helper's own).
func c02ListElement(c *core.Ctx, v ssa.Value, list *types.Var, perIteration bool, depth int) bool {
	if depth > 2 || list == nil {
		return false
	}
	v = core.Unwrap(v, true)
	if ld, ok := v.(*ssa.UnOp); ok && ld.Op == token.MUL {
		if cell, ok := ld.X.(*ssa.Alloc); ok {
			// per-iteration copy of the range variable (captured by a closure)
			sts := storesToCell(cell)
			if len(sts) != 1 {
				return false
			}
			return c02ListElement(c, sts[0].Val, list, perIteration, depth)
		}
	}
	if p, ok := v.(*ssa.Parameter); ok {
		sites, closed := f2CallSites(c, p.Parent())
		idx := f2ParamIndex(p)
		if !closed || len(sites) == 0 || idx < 0 {
			return false
		}
		for _, s := range sites {
			call, isCall := s.(*ssa.Call)
			if !isCall || idx >= len(call.Call.Args) {
				return false
			}
			if !c02ListElement(c, call.Call.Args[idx], list, perIteration && !blockOnCycle(call.Block()), depth+1) {
				return false
			}
		}
		return true
	}
	steps, _ := core.TraceAddr(v)
	indexed := false
	for _, s := range steps {
		if s.Kind == "index" {
			indexed = true
		}
		if s.Kind == "field" {
			if s.Field == list && indexed {
				if !perIteration {
					return true
				}
				in, ok := v.(ssa.Instruction)
				return ok && blockOnCycle(in.Block())
			}
			return false
		}
	}
	return false
}

// sortsListField: f (or a static repository callee, depth <= 2) calls sort.Slice/SliceStable/Sort/Stable on a value that
// derives from the given list field. Returns the position of the sort call.
func sortsListField(f *ssa.Function, list *types.Var, depth int) token.Pos {
	if depth > 2 || f.Blocks == nil {
		return token.NoPos
	}
	for _, ci := range core.Calls(f) {
		o := core.CalleeObj(ci)
		if o != nil && o.Pkg() != nil && o.Pkg().Path() == "sort" && (o.Name() == "Slice" || o.Name() == "SliceStable" || o.Name() == "Sort" || o.Name() == "Stable") {
			for _, a := range ci.Common().Args {
				if steps, _ := core.TraceAddr(core.Unwrap(a, true)); len(steps) > 0 {
					for _, s := range steps {
						if s.Kind == "field" && s.Field == list {
							return core.InstrPos(ci)
						}
					}
				}
			}
			continue
		}
		if cf := ci.Common().StaticCallee(); cf != nil && cf != f && core.InRepo(core.FuncPkg(cf)) && !reachesStatic(cf, f, 0, map[*ssa.Function]bool{}) {
			// a helper (not the recursive validator) that sorts the list of the declaration it is handed
			if p := sortsListField(cf, list, depth+1); p.IsValid() {
				return core.InstrPos(ci)
			}
		}
	}
	return token.NoPos
}

// reachesStatic: g (transitively, through static repository callees) calls target.
func reachesStatic(g, target *ssa.Function, d int, seen map[*ssa.Function]bool) bool {
	if d > 6 || seen[g] || g.Blocks == nil {
		return false
	}
	seen[g] = true
	for _, ci := range core.Calls(g) {
		cf := ci.Common().StaticCallee()
		if cf == nil {
			continue
		}
		if cf == target || (core.InRepo(core.FuncPkg(cf)) && reachesStatic(cf, target, d+1, seen)) {
			return true
		}
	}
	return false
}
