// Package rules holds one rule set per property.
package rules

import "omnilint/core"

// RuleSet is the static decision procedure of one property.
type RuleSet struct {
	Prop        string
	Title       string
	Explanation string   // the rules applied (goes to evidence coverage.explanation)
	NotDecided  string   // the part of the property the rules do not speak about
	Trusted     []string // trusted base
	Run         func(c *core.Ctx)
}

// Registry of rule sets by property id.
var Registry = map[string]*RuleSet{}

func register(r *RuleSet) { Registry[r.Prop] = r }

// Control is a positive-control mutation: a small source edit that must make a named rule fire.
type Control struct {
	ID     string
	Prop   string
	File   string // repo-relative
	Old    string // exact text, must occur exactly once (otherwise the control is skipped)
	New    string
	Old2   string // optional second replacement in the same file (e.g. an import the first one needs)
	New2   string
	Rule   string // rule expected to fire
	Substr string // substring expected in the construct of a violated/undecided obligation of that rule
	Why    string
}

// Controls is the positive-control corpus.
var Controls []Control

func control(c Control) { Controls = append(Controls, c) }

var commonTrusted = []string{
	"Go type checker, go/ssa construction, CHA+VTA call graph of golang.org/x/tools v0.29.0",
	"no unsafe/cgo in the repository (checked on every run)",
}

// importRules evaluates the rule set of another property on a sub-context and imports the obligations of the given
// rules under new rule names (a rule shared between properties is a necessary condition of both).
// importStack guards against import cycles (C11 imports rules of C04, whose extras import rules of C11): a rule set that
// is already being evaluated further up is not entered again; the rules wanted from it belong to its own body, which the
// outer evaluation provides.
var importStack []string

func importRules(c *core.Ctx, fromProp string, rename map[string]string) int {
	return importRulesIf(c, fromProp, rename, nil)
}

// importRulesIf imports only the obligations accepted by keep.
func importRulesIf(c *core.Ctx, fromProp string, rename map[string]string, keep func(o *core.Obligation) bool) int {
	for _, p := range importStack {
		if p == fromProp {
			return 0
		}
	}
	if len(importStack) == 0 {
		importStack = append(importStack, c.Prop)
		defer func() { importStack = importStack[:0] }()
	}
	importStack = append(importStack, fromProp)
	defer func() {
		if n := len(importStack); n > 0 && importStack[n-1] == fromProp {
			importStack = importStack[:n-1]
		}
	}()
	rs := Registry[fromProp]
	if rs == nil {
		for _, to := range rename {
			c.Unresolved(to, "rule set "+fromProp, "not registered")
		}
		return 0
	}
	sub := c.Sub()
	sub.Prop = fromProp
	rs.Run(sub)
	return c.ImportFromIf(sub, rename, keep)
}
