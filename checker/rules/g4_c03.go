package rules

// C03 helper (G4): relational facts up to linear arithmetic, and goals about the value of a non-loop phi decided per
// incoming edge (a clamp `if i > last { i = last }` makes the index a phi of the parameter and the bound).

import (
	"go/token"
	"go/types"
	"math"
	"sort"
	"strings"

	"golang.org/x/tools/go/ssa"

	"omnilint/core"
)

// c03relDiff brings `t op u` into the form (b - c) op k with b, c the linear bases of t and u.
func c03relDiff(a c03atom) (b, c *c03term, op token.Token, k int64, ok bool) {
	if a.kind != "rel" || a.t == nil || a.u == nil {
		return nil, nil, 0, 0, false
	}
	b1, o1 := c03linear(a.t)
	b2, o2 := c03linear(a.u)
	if b1 == nil || b2 == nil || !c03isSmall(o1) || !c03isSmall(o2) {
		return nil, nil, 0, 0, false
	}
	return b1, b2, a.op, o2 - o1, true
}

// c03relLinearImplies: the fact `have` (a relation between two integer terms) implies the relation `want` between
// the same two bases: x <= n-1 implies x < n, x == n-1 implies x < n, ... (small constants only, see c03linear).
func c03relLinearImplies(have, want c03atom) bool {
	hb, hc, hop, hk, ok1 := c03relDiff(have)
	wb, wc, wop, wk, ok2 := c03relDiff(want)
	if !ok1 || !ok2 {
		return false
	}
	switch {
	case c03eq(hb, wb) && c03eq(hc, wc):
	case c03eq(hb, wc) && c03eq(hc, wb):
		// have: (wc - wb) hop hk  <=>  (wb - wc) flip(hop) -hk
		hop, hk = c03flipOp(hop), -hk
	default:
		return false
	}
	lo, hi := int64(math.MinInt64), int64(math.MaxInt64)
	switch hop {
	case token.EQL:
		lo, hi = hk, hk
	case token.LSS:
		hi = hk - 1
	case token.LEQ:
		hi = hk
	case token.GTR:
		lo = hk + 1
	case token.GEQ:
		lo = hk
	default:
		return false
	}
	return c03intervalImplies(lo, hi, wop, wk)
}

// c03replaceTerm returns t with every subterm equal to `old` replaced by `by`.
func c03replaceTerm(t, old, by *c03term) *c03term {
	if t == nil {
		return nil
	}
	if c03eq(t, old) {
		return by
	}
	n := &c03term{op: t.op, idx: t.idx, name: t.name, fld: t.fld, typ: t.typ, vt: t.vt, v: t.v}
	for _, a := range t.args {
		n.args = append(n.args, c03replaceTerm(a, old, by))
	}
	return n
}

func c03memFree(ts ...*c03term) bool {
	for _, t := range ts {
		if t == nil {
			continue
		}
		f, o := t.memFields()
		if len(f) > 0 || len(o) > 0 {
			return false
		}
	}
	return true
}

// edgeFacts: the clauses that hold when control passes from p to its successor d: everything established on entry to
// p and p's own branch condition with the polarity of the edge.
func (e *c03eng) edgeFacts(p, d *ssa.BasicBlock) []c03clause {
	out := append([]c03clause{}, e.factsAtBlock(p)...)
	if ifi, ok := p.Instrs[len(p.Instrs)-1].(*ssa.If); ok && len(p.Succs) == 2 && p.Succs[0] != p.Succs[1] {
		out = append(out, e.condFacts(ifi.Cond, p.Succs[0] == d, 0)...)
	}
	return out
}

// provePhiSplit: an integer comparison that mentions the value of a phi of at.Parent() whose block has no back edge
// (a join of branches, not a loop variable) holds at `at` if, for every incoming edge, the comparison with the
// edge's value in place of the phi follows from the facts of that edge. Only facts and terms that do not read memory
// are used (SSA values are immutable, so what held on the edge still holds at `at`).
func (e *c03eng) provePhiSplit(g c03goal, at ssa.Instruction) (c03proof, bool) {
	if g.kind != "atom" || (g.atom.kind != "rel" && g.atom.kind != "cmp") {
		return c03proof{}, false
	}
	fn := at.Parent()
	var pt *c03term
	find := func(t *c03term) {
		if pt != nil || t.op != "val" {
			return
		}
		if p, ok := t.v.(*ssa.Phi); ok && p.Parent() == fn {
			pt = t
		}
	}
	g.atom.t.walk(find)
	g.atom.u.walk(find)
	if pt == nil || !c03memFree(g.atom.t, g.atom.u) {
		return c03proof{}, false
	}
	phi := pt.v.(*ssa.Phi)
	pb := phi.Block()
	if pb != at.Block() && !pb.Dominates(at.Block()) {
		return c03proof{}, false
	}
	if len(pb.Preds) != len(phi.Edges) || len(phi.Edges) > 4 {
		return c03proof{}, false
	}
	for _, p := range pb.Preds {
		if pb.Dominates(p) {
			return c03proof{}, false
		}
	}
	for i, ed := range phi.Edges {
		et := e.termOf(ed)
		if et == nil {
			return c03proof{}, false
		}
		ng := g
		ng.atom.t = c03replaceTerm(g.atom.t, pt, et)
		if g.atom.u != nil {
			ng.atom.u = c03replaceTerm(g.atom.u, pt, et)
		}
		ng.atom = c03normAtom(ng.atom)
		ng.t = ng.atom.t
		if !c03memFree(ng.atom.t, ng.atom.u) {
			return c03proof{}, false
		}
		cls := e.expand(e.edgeFacts(pb.Preds[i], pb), 0)
		ok, used, _, _ := e.decideLocal(ng, cls)
		if !ok {
			return c03proof{}, false
		}
		for _, cl := range used {
			for _, a := range cl.atoms {
				if !c03memFree(a.t, a.u) {
					return c03proof{}, false
				}
			}
		}
	}
	return c03proof{ok: true, how: "holds for every incoming value of the joined variable (each branch establishes " + g.atom.pretty() + ") in " + core.FuncKey(fn)}, true
}

func g4c03controls() {
	control(Control{ID: "c03-g4-argindex-clamp-off-by-one", Prop: "C03", File: "extensions/omniv21/transform/invokeCustomFunc.go",
		Old: "\tif argIndex >= fnType.NumIn() {", New: "\tif argIndex > fnType.NumIn() {",
		Rule: "K2", Substr: "getFuncArgType calls reflect.Type.In", Why: "clamp off by one: In(NumIn()) panics for the first surplus argument of a variadic call"})
}

// ---------------------------------------------------------------- K4: evaluation sites in iterator closures / helpers

func c03lexicalRoot(f *ssa.Function) *ssa.Function {
	for f != nil && f.Parent() != nil {
		f = f.Parent()
	}
	return f
}

func c03exportedRepoFunc(f *ssa.Function) bool {
	if f == nil || f.Parent() != nil || f.Synthetic != "" || f.Object() == nil || !f.Object().Exported() {
		return false
	}
	p := core.FuncPkg(f)
	return p != nil && core.InRepo(p)
}

// k4owners: f is a closure or an unexported function all of whose call sites (in the reachable program) lie in
// exported repository functions (or closures of them): these exported functions, sorted. nil if f is itself an
// exported function, has no resolvable caller, or has a caller that is not an exported function (then the construct
// stays keyed by f).
func (x *c03ctx) k4owners(f *ssa.Function) []*ssa.Function {
	if c03exportedRepoFunc(f) {
		return nil
	}
	if f.Parent() == nil && (f.Synthetic != "" || f.Object() == nil) {
		return nil
	}
	sites := x.e.callers[f]
	if len(sites) == 0 {
		return nil
	}
	seen := map[*ssa.Function]bool{}
	var out []*ssa.Function
	for _, s := range sites {
		w := c03lexicalRoot(s.Parent())
		if !c03exportedRepoFunc(w) {
			return nil
		}
		if !seen[w] {
			seen[w] = true
			out = append(out, w)
		}
	}
	sort.Slice(out, func(i, j int) bool { return core.FuncKey(out[i]) < core.FuncKey(out[j]) })
	return out
}

// k4unprotectedVia: a panic raised in f propagates through the exported owner w to the public API: f and w are
// reachable from the entry points without passing a deferred recover, and some call of f inside w (or a closure of
// w) is not dominated by a deferred recover of the function it sits in.
func (x *c03ctx) k4unprotectedVia(w, f *ssa.Function) bool {
	unprot := x.unprotected()
	if _, un := unprot[f]; !un {
		return false
	}
	if _, un := unprot[w]; !un {
		return false
	}
	for _, s := range x.e.callers[f] {
		if c03lexicalRoot(s.Parent()) != w {
			continue
		}
		if !c03deferRecoverDominates(s.Parent(), s) {
			return true
		}
	}
	return false
}

// ---------------------------------------------------------------- dispatch through a selector function

// selectorFacts: the call at s invokes fn through a function value returned by a selector `sel(args)` — a function
// whose every return yields a function, a closure, a bound method or nil. fn can only have been returned on the
// paths that return it, so the facts about the selector's parameters that hold on all of those returns hold for
// the selector's arguments. They are handed to the caller's frame only if they read no memory, or only struct fields
// that are not written between the caller's entry and the call at s.
func (e *c03eng) selectorFacts(s ssa.CallInstruction, fn *ssa.Function) []c03clause {
	cc := s.Common()
	if cc.IsInvoke() {
		return nil
	}
	sel, ok := cc.Value.(*ssa.Call)
	if !ok || sel.Parent() != s.Parent() {
		return nil
	}
	tf := sel.Call.StaticCallee()
	if tf == nil || tf.Blocks == nil || tf.Signature.Results().Len() != 1 {
		return nil
	}
	if _, isSig := tf.Signature.Results().At(0).Type().Underlying().(*types.Signature); !isSig {
		return nil
	}
	if _, isClosure := sel.Call.Value.(*ssa.MakeClosure); isClosure || len(tf.FreeVars) > 0 {
		return nil
	}
	var cur map[string]c03clause
	for _, b := range tf.Blocks {
		rt, ok := b.Instrs[len(b.Instrs)-1].(*ssa.Return)
		if !ok {
			continue
		}
		var rf *ssa.Function
		switch y := rt.Results[0].(type) {
		case *ssa.Function:
			rf = y
		case *ssa.MakeClosure:
			rf, _ = y.Fn.(*ssa.Function)
			if rf == nil {
				return nil
			}
		case *ssa.Const:
			if !y.IsNil() {
				return nil
			}
			continue
		default:
			return nil // a computed function value: nothing is known
		}
		if rf != fn {
			continue
		}
		m := map[string]c03clause{}
		for _, cl := range e.expand(e.factsAtBlock(b), 1) {
			okc := len(cl.atoms) > 0
			for _, a := range cl.atoms {
				if !a.paramRooted() || !c03memFree(a.t, a.u) {
					okc = false
				}
			}
			if okc {
				cl.at = nil
				m[cl.String()] = cl
			}
		}
		if cur == nil {
			cur = m
		} else {
			for key := range cur {
				if _, ok := m[key]; !ok {
					delete(cur, key)
				}
			}
		}
	}
	if len(cur) == 0 {
		return nil
	}
	args := e.siteArgs(sel, tf)
	if args == nil {
		return nil
	}
	var keys []string
	for key := range cur {
		keys = append(keys, key)
	}
	sort.Strings(keys)
	var out []c03clause
	for _, key := range keys {
		var atoms []c03atom
		okc := true
		for _, a := range cur[key].atoms {
			sa, ok := a.subst(args)
			if !ok {
				okc = false
				break
			}
			for _, t := range []*c03term{sa.t, sa.u} {
				if t == nil {
					continue
				}
				flds, other := t.memFields()
				if len(other) > 0 || !e.stableBetween(nil, s, flds) {
					okc = false
				}
				t.walk(func(st *c03term) {
					if st.op == "alloc" && strings.HasPrefix(st.name, "<inexpressible") {
						okc = false
					}
				})
			}
			atoms = append(atoms, sa)
		}
		if okc {
			out = append(out, c03clause{atoms: atoms})
		}
	}
	return out
}
