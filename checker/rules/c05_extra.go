package rules

import (
	"go/token"
	"go/types"
	"strings"

	"golang.org/x/tools/go/ssa"

	"omnilint/core"
)

// Extra C05 rules added after seeded changes C05-2 / C05-3 were missed by the first rule set.
//
// R05d — the maximum is consulted whenever an instance completes: in every "instance done" function of a
// hierarchical reader (the method that increments the occurrence counter of the top stack entry), every path from
// the increment to a return passes through a comparison of that counter with the declaration's maximum. A path that
// skips it (e.g. an early return for a filtered-out target) lets a declaration match beyond its max and starve the
// next declaration in line — the greedy matcher is no longer the documented one.
//
// R05e — only truly empty units are skipped: in the flat-file line readers, on every path that goes from the line
// source back to the line source without keeping the line (a skip), the only branch conditions that depend on the
// line's content are comparisons of len(line) (the direct result of the source) with zero.

func c05Extra(c *core.Ctx) {
	c05MaxConsulted(c)
	c.Floor("R05d", 2, "recDone (flat-file hierarchy reader) and segDone (EDI reader)")
	c05OnlyEmptySkipped(c)
	c.Floor("R05e", 2, "old fixed-length readLine, fixedlength2 readLine")
	c05MatcherState(c)
	c.Floor("R05f", 4, "recDone/recNext (flat-file hierarchy reader), segDone/segNext (EDI reader)")
}

func c05MaxConsulted(c *core.Ctx) {
	// occurrence counters: int fields that are compared with a maximum accessor somewhere in the repository
	counters := map[*types.Var]bool{}
	for _, f := range c.RepoFunctions() {
		for _, b := range f.Blocks {
			for _, in := range b.Instrs {
				bo, ok := in.(*ssa.BinOp)
				if !ok {
					continue
				}
				for _, pr := range [][2]ssa.Value{{bo.X, bo.Y}, {bo.Y, bo.X}} {
					u, ok := pr[0].(*ssa.UnOp)
					if !ok {
						continue
					}
					fa, ok := u.X.(*ssa.FieldAddr)
					if !ok {
						continue
					}
					if call, ok := pr[1].(*ssa.Call); ok {
						name := ""
						if call.Call.IsInvoke() {
							name = call.Call.Method.Name()
						} else if cf := call.Call.StaticCallee(); cf != nil {
							name = cf.Name()
						}
						if strings.Contains(strings.ToLower(name), "max") {
							counters[core.FieldOfAddr(fa)] = true
						}
					}
				}
			}
		}
	}
	for _, f := range c.RepoFunctions() {
		if core.IsCLIOrSample(core.FuncPkg(f)) || f.Signature.Recv() == nil {
			continue
		}
		// increment of an int field named via data flow: Store(FieldAddr(e, F), BinOp ADD(load FieldAddr(e,F), 1))
		var inc *ssa.Store
		var fld *types.Var
		for _, b := range f.Blocks {
			for _, in := range b.Instrs {
				st, ok := in.(*ssa.Store)
				if !ok {
					continue
				}
				fa, ok := st.Addr.(*ssa.FieldAddr)
				if !ok {
					continue
				}
				bo, ok := st.Val.(*ssa.BinOp)
				if !ok || bo.Op != token.ADD {
					continue
				}
				ld, ok := bo.X.(*ssa.UnOp)
				if !ok || !core.SameValue(ld.X, fa) {
					continue
				}
				if cst, ok := bo.Y.(*ssa.Const); !ok || cst.Value == nil || cst.Value.ExactString() != "1" {
					continue
				}
				// the struct must be a stack entry of a hierarchical matcher: it also has a *idr.Node field
				owner := core.FieldOwner(fa)
				if owner == nil {
					continue
				}
				st2, ok := owner.Underlying().(*types.Struct)
				if !ok {
					continue
				}
				hasNode := false
				for i := 0; i < st2.NumFields(); i++ {
					if n := core.NamedOf(st2.Field(i).Type()); n != nil && n.Obj().Name() == "Node" && strings.HasSuffix(n.Obj().Pkg().Path(), "/idr") {
						hasNode = true
					}
				}
				if !hasNode {
					continue
				}
				if !counters[core.FieldOfAddr(fa)] {
					continue
				}
				inc, fld = st, core.FieldOfAddr(fa)
			}
		}
		if inc == nil {
			continue
		}
		key := core.FuncKey(f) + " consults max after counting"
		// comparison blocks: BinOp comparing a load of the same field with a call whose name contains "max" (case-insens.)
		cmpBlocks := map[*ssa.BasicBlock]bool{}
		for _, b := range f.Blocks {
			for _, in := range b.Instrs {
				bo, ok := in.(*ssa.BinOp)
				if !ok {
					continue
				}
				switch bo.Op {
				case token.LSS, token.GEQ, token.GTR, token.LEQ:
				default:
					continue
				}
				isOcc := func(v ssa.Value) bool {
					u, ok := v.(*ssa.UnOp)
					if !ok {
						return false
					}
					fa, ok := u.X.(*ssa.FieldAddr)
					return ok && core.FieldOfAddr(fa) == fld
				}
				isMax := func(v ssa.Value) bool {
					call, ok := v.(*ssa.Call)
					if !ok {
						return false
					}
					name := ""
					if call.Call.IsInvoke() {
						name = call.Call.Method.Name()
					} else if cf := call.Call.StaticCallee(); cf != nil {
						name = cf.Name()
					}
					return strings.Contains(strings.ToLower(name), "max")
				}
				if (isOcc(bo.X) && isMax(bo.Y)) || (isOcc(bo.Y) && isMax(bo.X)) {
					cmpBlocks[b] = true
				}
			}
		}
		// the comparison may live in a small boolean helper (e.g. `cur.full()`): a call of a repository function that
		// compares the counter with the maximum counts at the calling block
		for _, ci := range core.Calls(f) {
			cf := ci.Common().StaticCallee()
			if cf == nil || cf == f || cf.Blocks == nil || !core.InRepo(core.FuncPkg(cf)) || len(cf.Blocks) > 3 {
				continue
			}
			for _, b := range cf.Blocks {
				for _, in := range b.Instrs {
					bo, ok := in.(*ssa.BinOp)
					if !ok {
						continue
					}
					occ := func(v ssa.Value) bool {
						u, ok := v.(*ssa.UnOp)
						if !ok {
							return false
						}
						fa, ok := u.X.(*ssa.FieldAddr)
						return ok && core.FieldOfAddr(fa) == fld
					}
					mx := func(v ssa.Value) bool {
						call, ok := v.(*ssa.Call)
						if !ok {
							return false
						}
						name := ""
						if call.Call.IsInvoke() {
							name = call.Call.Method.Name()
						} else if g := call.Call.StaticCallee(); g != nil {
							name = g.Name()
						}
						return strings.Contains(strings.ToLower(name), "max")
					}
					if (occ(bo.X) && mx(bo.Y)) || (occ(bo.Y) && mx(bo.X)) {
						cmpBlocks[ci.Block()] = true
					}
				}
			}
		}
		if len(cmpBlocks) == 0 {
			c.Bad("R05d", key, core.InstrPos(inc), "the occurrence counter is incremented but never compared with the declaration's maximum in this function")
			continue
		}
		// every path from the increment to a Return passes a comparison block (panics are not returns)
		bad := token.NoPos
		seen := map[*ssa.BasicBlock]bool{}
		var dfs func(b *ssa.BasicBlock, start int)
		dfs = func(b *ssa.BasicBlock, start int) {
			if cmpBlocks[b] {
				return
			}
			for i := start; i < len(b.Instrs); i++ {
				if rt, ok := b.Instrs[i].(*ssa.Return); ok && !bad.IsValid() {
					bad = core.InstrPos(rt)
				}
			}
			for _, s := range b.Succs {
				if !seen[s] {
					seen[s] = true
					dfs(s, 0)
				}
			}
		}
		dfs(inc.Block(), core.InstrIndex(inc)+1)
		c.Check(!bad.IsValid(), "R05d", key, core.InstrPos(inc), "every path from the occurrence increment to a return compares the counter with the maximum",
			"a path returns after counting an instance without comparing the counter with the declaration's maximum: the declaration can match beyond max_occurs and take units that belong to the next declaration")
	}
}

func c05OnlyEmptySkipped(c *core.Ctx) {
	for _, f := range c.RepoFunctions() {
		if core.IsCLIOrSample(core.FuncPkg(f)) || !strings.Contains(core.FuncPkg(f).Path(), "/fileformat/") {
			continue
		}
		for _, ci := range core.Calls(f) {
			o := core.CalleeObj(ci)
			if o == nil || o.Pkg() == nil || o.Pkg().Path() != "github.com/jf-tech/go-corelib/ios" || !(o.Name() == "ByteReadLine" || o.Name() == "ReadLine") {
				continue
			}
			call, ok := ci.(*ssa.Call)
			if !ok {
				continue
			}
			var line ssa.Value
			for _, u := range core.Referrers(call) {
				if ex, ok := u.(*ssa.Extract); ok && ex.Index == 0 {
					line = ex
				}
			}
			if line == nil {
				continue
			}
			key := core.FuncKey(f) + " skips only empty lines"
			// is the source in a loop? blocks on a cycle through the source block
			src := call.Block()
			onCycle := map[*ssa.BasicBlock]bool{}
			var canReach func(from *ssa.BasicBlock, seen map[*ssa.BasicBlock]bool) bool
			canReach = func(from *ssa.BasicBlock, seen map[*ssa.BasicBlock]bool) bool {
				if from == src {
					return true
				}
				if seen[from] {
					return false
				}
				seen[from] = true
				for _, s := range from.Succs {
					if canReach(s, seen) {
						return true
					}
				}
				return false
			}
			for _, b := range f.Blocks {
				for _, s := range b.Succs {
					if canReach(s, map[*ssa.BasicBlock]bool{}) && reachableFrom(src, b) {
						onCycle[b] = true
					}
				}
			}
			if len(onCycle) == 0 {
				c.OK("R05e", key, core.InstrPos(call), "the line source is not re-invoked in a loop here: nothing is skipped in this function")
				continue
			}
			// conditions on cycle blocks that depend on the line content
			bad := ""
			for b := range onCycle {
				ifi, ok := b.Instrs[len(b.Instrs)-1].(*ssa.If)
				if !ok {
					continue
				}
				// only branches with one successor leading back to the source (skip) and the other leaving
				if !dependsOn(ifi.Cond, line, 0) {
					continue
				}
				okShape := false
				if bo, ok := ifi.Cond.(*ssa.BinOp); ok {
					isLen := func(v ssa.Value) bool {
						cl, ok := v.(*ssa.Call)
						if !ok {
							return false
						}
						bn, ok := cl.Call.Value.(*ssa.Builtin)
						if !ok || bn.Name() != "len" {
							return false
						}
						a := cl.Call.Args[0]
						if a == line {
							return true
						}
						// loop-header form `for len(b) == 0 { b, err = read() }`: b is a phi of the raw line and its initial (nil) value
						if phi, ok := a.(*ssa.Phi); ok {
							for _, e := range phi.Edges {
								if e != line && !core.IsNilConst(e) {
									return false
								}
							}
							return true
						}
						return false
					}
					isZero := func(v ssa.Value) bool {
						cst, ok := v.(*ssa.Const)
						return ok && cst.Value != nil && cst.Value.ExactString() == "0"
					}
					isOne := func(v ssa.Value) bool {
						cst, ok := v.(*ssa.Const)
						return ok && cst.Value != nil && cst.Value.ExactString() == "1"
					}
					if (isLen(bo.X) && isZero(bo.Y)) || (isLen(bo.Y) && isZero(bo.X)) {
						okShape = true
					}
					if (bo.Op == token.LSS || bo.Op == token.GEQ) && isLen(bo.X) && isOne(bo.Y) {
						okShape = true // len(line) < 1 / >= 1
					}
				}
				if !okShape {
					bad = "a condition other than len(line) == 0 on the raw line decides whether the line is skipped"
				}
			}
			c.Check(bad == "", "R05e", key, core.InstrPos(call), "the only content-dependent condition on the re-read path is len(line) against 0", bad+": non-empty units (e.g. all-blank lines inside a multi-line record) would be silently dropped")
		}
	}
}

func reachableFrom(from, to *ssa.BasicBlock) bool {
	seen := map[*ssa.BasicBlock]bool{}
	var walk func(b *ssa.BasicBlock) bool
	walk = func(b *ssa.BasicBlock) bool {
		if b == to {
			return true
		}
		if seen[b] {
			return false
		}
		seen[b] = true
		for _, s := range b.Succs {
			if walk(s) {
				return true
			}
		}
		return false
	}
	return walk(from)
}

func dependsOn(v, src ssa.Value, d int) bool {
	if v == src {
		return true
	}
	if d > 8 {
		return false
	}
	in, ok := v.(ssa.Instruction)
	if !ok {
		return false
	}
	for _, op := range in.Operands(nil) {
		if *op != nil && dependsOn(*op, src, d+1) {
			return true
		}
	}
	return false
}

// R05f — the matcher's decisions depend on the declaration stack only (added after seed C05-5, which made recNext skip
// not-yet-visited siblings once an "input drained" flag was set). In the functions that advance the matcher (the
// occurrence-counting function and the `func() error` step it cooperates with) every branch condition may depend, among
// the reader's own fields, only on the declaration stack, the target holder (*Node) and the compiled target filter
// (*xpath.Expr). A decision that reads any other reader field couples matching to input/IO state, and the greedy
// matcher is no longer a function of the hierarchy and the unit sequence alone.
func c05MatcherState(c *core.Ctx) {
	n := 0
	for _, f := range c.RepoFunctions() {
		if core.IsCLIOrSample(core.FuncPkg(f)) || f.Signature.Recv() == nil || f.Parent() != nil {
			continue
		}
		recv := core.NamedOf(f.Signature.Recv().Type())
		if recv == nil {
			continue
		}
		st, ok := recv.Underlying().(*types.Struct)
		if !ok {
			continue
		}
		// hierarchical reader: has a slice-of-struct field whose element has a *Node field (the stack)
		var stackFld *types.Var
		for i := 0; i < st.NumFields(); i++ {
			if sl, ok := st.Field(i).Type().Underlying().(*types.Slice); ok {
				if es, ok := sl.Elem().Underlying().(*types.Struct); ok {
					for j := 0; j < es.NumFields(); j++ {
						if nn := core.NamedOf(es.Field(j).Type()); nn != nil && nn.Obj().Name() == "Node" && strings.HasSuffix(nn.Obj().Pkg().Path(), "/idr") {
							stackFld = st.Field(i)
						}
					}
				}
			}
		}
		if stackFld == nil {
			continue
		}
		// matcher step functions: no parameters besides the receiver, results () or (error), and they touch the stack
		sig := f.Signature
		if sig.Params().Len() != 0 || !(sig.Results().Len() == 0 || (sig.Results().Len() == 1 && isErrorT(sig.Results().At(0).Type()))) {
			continue
		}
		touchesStack := false
		for _, b := range f.Blocks {
			for _, in := range b.Instrs {
				if fa, ok := in.(*ssa.FieldAddr); ok && core.FieldOfAddr(fa) == stackFld {
					touchesStack = true
				}
				if ci, ok := in.(ssa.CallInstruction); ok {
					if cf := ci.Common().StaticCallee(); cf != nil && cf.Signature.Recv() != nil && core.NamedOf(cf.Signature.Recv().Type()) == recv {
						touchesStack = touchesStack || true
					}
				}
			}
		}
		if !touchesStack || f.Name() == "Read" {
			continue
		}
		// only functions that change the matcher state (write a stack entry field or the stack itself, or call such)
		writes := false
		for _, w := range core.Writes(f) {
			if w.Field != nil && (w.Field == stackFld || (w.Owner != nil && isStackEntry(w.Owner, stackFld))) {
				writes = true
			}
		}
		if !writes {
			continue
		}
		n++
		key := core.FuncKey(f) + " decisions depend on the stack only"
		bad := ""
		for _, b := range f.Blocks {
			ifi, ok := b.Instrs[len(b.Instrs)-1].(*ssa.If)
			if !ok {
				continue
			}
			for _, fld := range readerFieldsIn(ifi.Cond, recv, 0, map[ssa.Value]bool{}) {
				if fld == stackFld {
					continue
				}
				t := fld.Type()
				if nn := core.NamedOf(t); nn != nil && isPointer(t) {
					if nn.Obj().Name() == "Node" && strings.HasSuffix(nn.Obj().Pkg().Path(), "/idr") {
						continue // target holder
					}
					if nn.Obj().Name() == "Expr" && nn.Obj().Pkg().Path() == "github.com/antchfx/xpath" {
						continue // compiled target filter
					}
				}
				bad = fld.Name()
			}
		}
		c.Check(bad == "", "R05f", key, f.Pos(), "branch conditions read only the declaration stack, the target holder and the target filter",
			"a matcher decision depends on reader field "+bad+": matching is coupled to state outside the declaration stack (e.g. an end-of-input flag), so declarations can be skipped without their minimum being checked")
	}
	if n == 0 {
		c.Unresolved("R05f", "matcher step functions", "none found")
	}
}

func isStackEntry(owner *types.Named, stackFld *types.Var) bool {
	sl, ok := stackFld.Type().Underlying().(*types.Slice)
	return ok && types.Identical(sl.Elem(), owner)
}

// readerFieldsIn: fields of the receiver type loaded directly in the backward slice of v (within the function).
func readerFieldsIn(v ssa.Value, recv *types.Named, d int, seen map[ssa.Value]bool) []*types.Var {
	if v == nil || d > 12 || seen[v] {
		return nil
	}
	seen[v] = true
	var out []*types.Var
	if fa, ok := v.(*ssa.FieldAddr); ok {
		if o := core.FieldOwner(fa); o != nil && types.Identical(o, recv) {
			out = append(out, core.FieldOfAddr(fa))
		}
	}
	in, ok := v.(ssa.Instruction)
	if !ok {
		return out
	}
	for _, op := range in.Operands(nil) {
		if *op != nil {
			out = append(out, readerFieldsIn(*op, recv, d+1, seen)...)
		}
	}
	return out
}
