package rules

import (
	"fmt"
	"go/types"
	"sort"
	"strings"

	"golang.org/x/tools/go/ssa"

	"omnilint/core"
)

func init() {
	register(&RuleSet{
		Prop:  "C08",
		Title: "JSON and XML documents are represented faithfully in the node tree",
		Explanation: "Structural necessary conditions of the round trip, decided on the resolved program (SSA, types, backward value flow with access paths): " +
			"R08a scalar codec agreement: every (text, JSONType) pair the JSON stream reader can hand to CreateJSONNode(TextNode, …) is enumerated (jointly through Phi nodes, helper results and parameters); its text must be strconv.FormatFloat(tok.(float64), f, -1, 64) with f in e/E/f/g/G/x/X, strconv.FormatBool(tok.(bool)), tok.(string) itself, or a constant; for the pair's type flag the scalar decoder reached from J2NodeToInterface (the function that calls strconv.ParseFloat; helpers that can only hand out []interface{} / map[string]interface{} are container builders judged by R08c) is executed symbolically (loop-free abstract machine over the JSON predicates, bit masks and type assertions, typed mode = true) and every outcome must be the inverse: ParseFloat(Data,64), ParseBool(Data), Data itself, resp. nil; " +
			"R08b no transformation between decoder and tree: the data and XMLSpecific arguments of every CreateXMLNode/CreateJSONNode call of the stream readers, per call-site context of the node kind, are resolved backwards; element name = (StartElement).Name.Local, attribute name = (StartElement).Attr[].Name.Local, text = (CharData) or Attr[].Value, namespace URI = Space of the same Name (or empty), prefix = lookup of that Space in the reader's table (or Space itself / empty), JSON key = tok.(string), anonymous = \"\"; the namespace table is only updated with Attr[].Value -> Attr[].Name.Local or \"\"; any call, concatenation, arithmetic or lookup on the way is a violation; the node constructors store their own data parameter verbatim and nothing else in the repository writes Node.Data; " +
			"R08c order and pairing: every node created by a stream reader method is attached exactly by AddChild(<cursor field>, node) (possibly through a helper) and otherwise only stored into the cursor; every []interface{} returned by the converter (directly, or by a helper of package idr the converter hands its node to and whose result it returns - followed with the node parameter bound) is built by append in a loop whose cursor is the FirstChild/NextSibling walk of the converted node, each element being the conversion of that cursor; every object entry (stored by the converter or by such a helper) is stored under the name of the cursor node (Data for JSON nodes, symbolically executed) with the conversion of the same cursor; " +
			"R08d the copy function and JSONify2 return J2NodeToInterface(their own node parameter, true); " +
			"R08e every CharData token reaches the creation of a text node carrying it with no branch that depends on its content; " +
			"R08f the array/object decision for a typed JSON node is executed symbolically for every container flag combination and must be a function of the recorded flag alone.",
		NotDecided: "Not decided: that encoding/json and encoding/xml report the document correctly; which branch of the namespace-prefix selection is taken (lookup state of the URI->prefix table, scoping/shadowing of prefixes, the xmlns special case); float64 precision beyond the format/parse pair being inverse (strconv's shortest round-trip formatting is trusted); that isChildText separates scalars from containers for every tree shape; duplicate JSON keys; the cursor movements on '{' '[' '}' ']' (covered structurally by C04/C11 only); XML comments, processing instructions and directives (deliberately dropped by the reader); the non-typed mode of J2NodeToInterface.",
		Trusted:    append([]string{"strconv.FormatFloat(v,fmt,-1,64)/ParseFloat(s,64), FormatBool/ParseBool are mutually inverse on float64/bool", "encoding/json.Decoder.Token and encoding/xml.Decoder.Token report tokens in document order", "idr.AddChild appends as last child (C12 R12g)"}, commonTrusted...),
		Run:        runC08,
	})
	const jr = "idr/jsonreader.go"
	const xr = "idr/xmlreader.go"
	const m2 = "idr/marshal2.go"
	control(Control{ID: "c08-float-precision-6", Prop: "C08", File: jr,
		Old: "strconv.FormatFloat(v, 'f', -1, 64)", New: "strconv.FormatFloat(v, 'f', 6, 64)",
		Rule: "R08a", Substr: "JSONValueNum", Why: "numbers are rounded to 6 decimals in the tree"})
	control(Control{ID: "c08-float-format-32", Prop: "C08", File: jr,
		Old: "strconv.FormatFloat(v, 'f', -1, 64)", New: "strconv.FormatFloat(v, 'f', -1, 32)",
		Rule: "R08a", Substr: "JSONValueNum", Why: "numbers are formatted with float32 precision"})
	control(Control{ID: "c08-parsefloat-32", Prop: "C08", File: m2,
		Old: "strconv.ParseFloat(n.Data, 64)", New: "strconv.ParseFloat(n.Data, 32)",
		Rule: "R08a", Substr: "JSONValueNum", Why: "numbers are parsed back with float32 precision"})
	control(Control{ID: "c08-bool-tagged-str", Prop: "C08", File: jr,
		Old: "\t\tdata = strconv.FormatBool(v)\n\t\tjtype = JSONValueBool", New: "\t\tdata = strconv.FormatBool(v)\n\t\tjtype = JSONValueStr",
		Rule: "R08a", Substr: "JSONValueStr", Why: "booleans come back as strings"})
	control(Control{ID: "c08-reader-drops-null-case", Prop: "C08", File: m2,
		Old: "\tcase IsJSONValueNull(n):\n\t\treturn nil\n", New: "",
		Rule: "R08a", Substr: "JSONValueNull", Why: "null comes back as the empty string"})
	control(Control{ID: "c08-number-rounded", Prop: "C08", File: jr,
		Old: "strconv.FormatFloat(v, 'f', -1, 64)", New: "strconv.FormatFloat(float64(int64(v)), 'f', -1, 64)",
		Rule: "R08a", Substr: "JSONValueNum", Why: "the number is truncated before it is formatted"})
	control(Control{ID: "c08-chardata-trimmed", Prop: "C08", File: xr,
		Old: "sp.addTextChild(string(tok))", New: "sp.addTextChild(strings.TrimSpace(string(tok)))",
		Rule: "R08b", Substr: "TextNode", Why: "character data is trimmed"})
	control(Control{ID: "c08-element-name-lowered", Prop: "C08", File: xr,
		Old: "\tdata := name.Local\n", New: "\tdata := strings.ToLower(name.Local)\n",
		Rule: "R08b", Substr: "ElementNode", Why: "element names are lower-cased"})
	control(Control{ID: "c08-name-is-space", Prop: "C08", File: xr,
		Old: "\tdata := name.Local\n", New: "\tdata := name.Space\n",
		Rule: "R08b", Substr: "ElementNode", Why: "the namespace URI is used as element name"})
	control(Control{ID: "c08-attr-value-of-first", Prop: "C08", File: xr,
		Old: "sp.addTextChild(attr.Value)", New: "sp.addTextChild(attr.Name.Local)",
		Rule: "R08b", Substr: "TextNode", Why: "attribute value replaced by its name"})
	control(Control{ID: "c08-uri-is-prefix", Prop: "C08", File: xr,
		Old: "xmlSpecific.NamespaceURI = namespaceURI", New: "xmlSpecific.NamespaceURI = namespacePrefix",
		Rule: "R08b", Substr: "NamespaceURI", Why: "prefix stored as namespace URI"})
	control(Control{ID: "c08-nstable-key-local", Prop: "C08", File: xr,
		Old: "sp.space2prefix[attr.Value] = attr.Name.Local", New: "sp.space2prefix[attr.Name.Local] = attr.Value",
		Rule: "R08b", Substr: "namespace table", Why: "namespace table filled prefix->URI"})
	control(Control{ID: "c08-nstable-first-wins", Prop: "C08", File: xr,
		Old: "\t\tif attr.Name.Local == \"xmlns\" {\n\t\t\tsp.space2prefix[attr.Value] = \"\"", New: "\t\tif _, bound := sp.space2prefix[attr.Value]; bound {\n\t\t\tcontinue\n\t\t}\n\t\tif attr.Name.Local == \"xmlns\" {\n\t\t\tsp.space2prefix[attr.Value] = \"\"",
		Rule: "R08b", Substr: "independent of the table", Why: "the first declaration of a URI wins; later re-bindings are ignored (seed C08-1)"})
	control(Control{ID: "c08-int-fast-path", Prop: "C08", File: jr,
		Old: "\t\tdata = strconv.FormatFloat(v, 'f', -1, 64)\n", New: "\t\tif v == float64(int64(v)) {\n\t\t\tdata = strconv.FormatInt(int64(v), 10)\n\t\t} else {\n\t\t\tdata = strconv.FormatFloat(v, 'f', -1, 64)\n\t\t}\n",
		Rule: "R08a", Substr: "JSONValueNum", Why: "integral numbers beyond int64 are stored wrongly (seed C08-2)"})
	control(Control{ID: "c08-empty-text-skipped", Prop: "C08", File: xr,
		Old: "\tchild := CreateXMLNode(TextNode, text, XMLSpecific{})\n", New: "\tif text == \"\" {\n\t\treturn\n\t}\n\tchild := CreateXMLNode(TextNode, text, XMLSpecific{})\n",
		Rule: "R08e", Substr: "CharData", Why: "empty character data / attribute values get no text node (seed C08-3)"})
	control(Control{ID: "c08-json-key-upper", Prop: "C08", File: jr,
		Old: "sp.addElementChild(tok.(string), JSONProp)", New: "sp.addElementChild(strings.ToUpper(tok.(string)), JSONProp)",
		Rule: "R08b", Substr: "ElementNode", Why: "object keys are upper-cased"})
	control(Control{ID: "c08-createnode-trims", Prop: "C08", File: "idr/node.go",
		Old: "\tn := allocNode()\n\tn.Type = ntype\n\tn.Data = data", New: "\tn := allocNode()\n\tn.Type = ntype\n\tn.Data = strings.TrimSpace(data)",
		Rule: "R08b", Substr: "CreateNode", Why: "the node constructor alters the data"})
	control(Control{ID: "c08-text-attached-to-parent", Prop: "C08", File: xr,
		Old: "\tchild := CreateXMLNode(TextNode, text, XMLSpecific{})\n\tAddChild(sp.cur, child)", New: "\tchild := CreateXMLNode(TextNode, text, XMLSpecific{})\n\tAddChild(sp.root, child)",
		Rule: "R08c", Substr: "addTextChild", Why: "text nodes are attached to the root instead of the current element"})
	control(Control{ID: "c08-array-reversed", Prop: "C08", File: m2,
		Old: "\t\tarr := make([]interface{}, 0)\n\t\tfor c := n.FirstChild; c != nil; c = c.NextSibling {", New: "\t\tarr := make([]interface{}, 0)\n\t\tfor c := n.LastChild; c != nil; c = c.PrevSibling {",
		Rule: "R08c", Substr: "array", Why: "arrays are rebuilt in reverse order"})
	control(Control{ID: "c08-array-through-map", Prop: "C08", File: m2,
		Old:  "\t\t\tarr = append(arr, ctx.nodeToInterface(c))\n\t\t}\n\t\treturn arr",
		New:  "\t\t\tarr = append(arr, ctx.nodeToInterface(c))\n\t\t}\n\t\ttmp := map[int]interface{}{}\n\t\tfor i, v := range arr {\n\t\t\ttmp[i] = v\n\t\t}\n\t\tarr = arr[:0]\n\t\tfor _, v := range tmp {\n\t\t\tarr = append(arr, v)\n\t\t}\n\t\treturn arr",
		Rule: "R08c", Substr: "array", Why: "array elements pass through a map and come back in random order"})
	control(Control{ID: "c08-object-value-of-first-child", Prop: "C08", File: m2,
		Old: "\t\t\tname := ctx.j2NodeName(c)\n\t\t\tvalue := ctx.nodeToInterface(c)", New: "\t\t\tname := ctx.j2NodeName(c)\n\t\t\tvalue := ctx.nodeToInterface(n.FirstChild)",
		Rule: "R08c", Substr: "object", Why: "every key receives the value of the first child"})
	control(Control{ID: "c08-copy-untyped", Prop: "C08", File: "extensions/omniv21/customfuncs/customfuncs.go",
		Old: "return idr.J2NodeToInterface(n, true), nil", New: "return idr.J2NodeToInterface(n, false), nil",
		Rule: "R08d", Substr: "CopyFunc", Why: "copy returns every scalar as string"})
	control(Control{ID: "c08-copy-parent", Prop: "C08", File: "extensions/omniv21/customfuncs/customfuncs.go",
		Old: "return idr.J2NodeToInterface(n, true), nil", New: "return idr.J2NodeToInterface(n.Parent, true), nil",
		Rule: "R08d", Substr: "CopyFunc", Why: "copy returns another node"})
	control(Control{ID: "c08-blank-chardata-skipped", Prop: "C08", File: xr,
		Old: "\t\tcase xml.CharData:\n\t\t\tsp.addTextChild(string(tok))", New: "\t\tcase xml.CharData:\n\t\t\tif len(strings.TrimSpace(string(tok))) > 0 {\n\t\t\t\tsp.addTextChild(string(tok))\n\t\t\t}",
		Rule: "R08e", Substr: "CharData", Why: "white-space-only character data is dropped"})
	control(Control{ID: "c08-array-flag-ignored", Prop: "C08", File: m2,
		Old: "\tif ctx.useJSONType && IsJSONArr(n) {\n\t\treturn true\n\t}\n", New: "",
		Rule: "R08f", Substr: "array flag", Why: "arrays with differently shaped or no elements come back as objects"})
}

const c08Idr = "idr"

type c08roles struct {
	idr        *types.Package
	node       *types.Named
	nodeSt     *types.Struct
	dataFld    *types.Var
	fsFld      *types.Var
	firstChild *types.Var
	nextSib    *types.Var
	typeFld    *types.Var
	createNode *ssa.Function
	createXML  *ssa.Function
	createJSON *ssa.Function
	addChild   *ssa.Function
	j2         *ssa.Function
	jsonify2   *ssa.Function
	nodeTypes  map[string]string // exact constant value -> name (DocumentNode…)
	jsonTypes  map[string]string // exact constant value -> name (single flags)
	jsonTypeT  types.Type
	xmlSpecT   types.Type
	nsURI      *types.Var
	nsPrefix   *types.Var
	idrFns     []*ssa.Function
	xmlReader  *types.TypeName
	jsonReader *types.TypeName
	methods    map[*types.TypeName][]*ssa.Function
	stop       map[*ssa.Function]bool // functions whose parameters end a provenance walk (API boundary)
}

func c08LookupField(st *types.Struct, name string) *types.Var {
	for i := 0; i < st.NumFields(); i++ {
		if st.Field(i).Name() == name {
			return st.Field(i)
		}
	}
	return nil
}

// c08DeepFields: the fields of a struct and, recursively, of the struct-typed fields (embedded or named, by value or
// pointer) whose type is declared in the same package: state grouped into a nested struct keeps its role.
func c08DeepFields(st *types.Struct, home *types.Package, depth int) []*types.Var {
	var out []*types.Var
	for i := 0; i < st.NumFields(); i++ {
		f := st.Field(i)
		out = append(out, f)
		if depth >= 3 {
			continue
		}
		if n := core.NamedOf(f.Type()); n != nil && n.Obj().Pkg() == home {
			if inner, ok := n.Underlying().(*types.Struct); ok {
				out = append(out, c08DeepFields(inner, home, depth+1)...)
			}
		}
	}
	return out
}

// c08HasFieldOf: the struct has (possibly in a nested struct of its own package) a field whose type is a pointer to pkg.name.
func c08HasFieldOf(st *types.Struct, home *types.Package, pkg, name string) bool {
	for _, f := range c08DeepFields(st, home, 0) {
		if n := core.NamedOf(f.Type()); n != nil && n.Obj().Pkg() != nil && n.Obj().Pkg().Path() == pkg && n.Obj().Name() == name {
			return true
		}
	}
	return false
}

func resolveC08(c *core.Ctx) *c08roles {
	p := c.Pkg(c08Idr)
	if p == nil {
		c.Unresolved("R08", "package idr", "package idr not found")
		return nil
	}
	c.SSA()
	r := &c08roles{idr: p.Types, nodeTypes: map[string]string{}, jsonTypes: map[string]string{}, methods: map[*types.TypeName][]*ssa.Function{}, stop: map[*ssa.Function]bool{}}
	sc := p.Types.Scope()
	tn, _ := sc.Lookup("Node").(*types.TypeName)
	if tn == nil {
		c.Unresolved("R08", "type idr.Node", "exported type Node not found")
		return nil
	}
	r.node = tn.Type().(*types.Named)
	st, ok := r.node.Underlying().(*types.Struct)
	if !ok {
		c.Unresolved("R08", "type idr.Node", "Node is not a struct")
		return nil
	}
	r.nodeSt = st
	r.dataFld, r.fsFld = c08LookupField(st, "Data"), c08LookupField(st, "FormatSpecific")
	r.firstChild, r.nextSib, r.typeFld = c08LookupField(st, "FirstChild"), c08LookupField(st, "NextSibling"), c08LookupField(st, "Type")
	if r.dataFld == nil || r.fsFld == nil || r.firstChild == nil || r.nextSib == nil || r.typeFld == nil {
		c.Unresolved("R08", "idr.Node fields", "exported fields Data/FormatSpecific/FirstChild/NextSibling/Type not found")
		return nil
	}
	r.createNode, r.createXML, r.createJSON = c.Func(c08Idr, "CreateNode"), c.Func(c08Idr, "CreateXMLNode"), c.Func(c08Idr, "CreateJSONNode")
	r.addChild, r.j2, r.jsonify2 = c.Func(c08Idr, "AddChild"), c.Func(c08Idr, "J2NodeToInterface"), c.Func(c08Idr, "JSONify2")
	if r.createNode == nil || r.createXML == nil || r.createJSON == nil || r.addChild == nil || r.j2 == nil || r.jsonify2 == nil {
		c.Unresolved("R08", "idr node API", "one of CreateNode/CreateXMLNode/CreateJSONNode/AddChild/J2NodeToInterface/JSONify2 not found")
		return nil
	}
	for _, n := range []string{"DocumentNode", "ElementNode", "TextNode", "AttributeNode"} {
		k, ok := sc.Lookup(n).(*types.Const)
		if !ok {
			c.Unresolved("R08", "idr."+n, "exported node type constant not found")
			return nil
		}
		r.nodeTypes[k.Val().ExactString()] = n
	}
	jt, _ := sc.Lookup("JSONType").(*types.TypeName)
	xs, _ := sc.Lookup("XMLSpecific").(*types.TypeName)
	if jt == nil || xs == nil {
		c.Unresolved("R08", "idr.JSONType / idr.XMLSpecific", "exported types not found")
		return nil
	}
	r.jsonTypeT, r.xmlSpecT = jt.Type(), xs.Type()
	for _, n := range sc.Names() {
		if k, ok := sc.Lookup(n).(*types.Const); ok && k.Exported() && types.Identical(k.Type(), r.jsonTypeT) {
			r.jsonTypes[k.Val().ExactString()] = n
		}
	}
	if len(r.jsonTypes) < 8 {
		c.Unresolved("R08", "idr.JSONType flags", fmt.Sprintf("only %d exported JSONType constants found", len(r.jsonTypes)))
		return nil
	}
	if xst, ok := xs.Type().Underlying().(*types.Struct); ok {
		r.nsURI, r.nsPrefix = c08LookupField(xst, "NamespaceURI"), c08LookupField(xst, "NamespacePrefix")
	}
	if r.nsURI == nil || r.nsPrefix == nil {
		c.Unresolved("R08", "idr.XMLSpecific fields", "NamespaceURI/NamespacePrefix not found")
		return nil
	}
	for _, f := range c.RepoFunctions() {
		if core.FuncPkg(f) != r.idr {
			continue
		}
		r.idrFns = append(r.idrFns, f)
		root := f
		for root.Parent() != nil {
			root = root.Parent()
		}
		if recv := root.Signature.Recv(); recv != nil {
			if n := core.NamedOf(recv.Type()); n != nil {
				r.methods[n.Obj()] = append(r.methods[n.Obj()], f)
			}
		}
	}
	// stream readers: struct types of package idr holding the standard decoder
	for _, n := range sc.Names() {
		t, ok := sc.Lookup(n).(*types.TypeName)
		if !ok {
			continue
		}
		s, ok := t.Type().Underlying().(*types.Struct)
		if !ok {
			continue
		}
		// a reader hands out nodes: it has the exported method Read (a nested state struct has not)
		if c.MethodOfPkg(r.idr, t.Name(), "Read") == nil {
			continue
		}
		if c08HasFieldOf(s, r.idr, "encoding/xml", "Decoder") {
			if r.xmlReader != nil {
				c.Unresolved("R08", "XML stream reader", "more than one struct of package idr holds an *xml.Decoder")
				return nil
			}
			r.xmlReader = t
		}
		if c08HasFieldOf(s, r.idr, "encoding/json", "Decoder") {
			if r.jsonReader != nil {
				c.Unresolved("R08", "JSON stream reader", "more than one struct of package idr holds a *json.Decoder")
				return nil
			}
			r.jsonReader = t
		}
	}
	if r.xmlReader == nil || r.jsonReader == nil {
		c.Unresolved("R08", "stream readers", "no struct of package idr holds an *xml.Decoder / *json.Decoder")
		return nil
	}
	return r
}

// c08IsTokenCall: the call fetches the next token from the standard decoder of package pkg.
func c08IsTokenCall(call *ssa.Call, pkg string) bool {
	o := core.CalleeObj(call)
	if o == nil || o.Pkg() == nil || o.Pkg().Path() != pkg {
		return false
	}
	n := core.FuncName(o)
	return n == "Decoder.Token" || n == "Decoder.RawToken"
}

func (r *c08roles) newProv(c *core.Ctx) *c08Prov {
	p := c08NewProv(c)
	p.IsSource = func(call *ssa.Call) (string, bool) {
		if c08IsTokenCall(call, "encoding/xml") {
			return "xml.Token", true
		}
		if c08IsTokenCall(call, "encoding/json") {
			return "json.Token", true
		}
		return "", false
	}
	p.StopParam = func(x *ssa.Parameter) (string, bool) {
		fn := x.Parent()
		if fn == r.j2 || fn == r.createNode || fn == r.createXML || fn == r.createJSON || r.stop[fn] {
			return core.FuncKey(fn) + " parameter " + x.Name(), true
		}
		return "", false
	}
	p.Lookup = func(l *ssa.Lookup) (string, bool) {
		// a lookup in a map[string]string field of the XML stream reader: the namespace table
		if f, _ := c04FieldLoad(l.X); f != nil {
			if st, ok := r.xmlReader.Type().Underlying().(*types.Struct); ok {
				for _, sf := range c08DeepFields(st, r.idr, 0) {
					if sf == f {
						return "namespace table", true
					}
				}
			}
		}
		return "", false
	}
	return p
}

func runC08(c *core.Ctx) {
	r := resolveC08(c)
	if r == nil {
		return
	}
	prov := r.newProv(c)
	c08RuleB(c, r, prov)
	c.Floor("R08b", 16, "constructors (3+1), XML sinks by node kind (data, URI, prefix), namespace table updates, JSON element/document sinks")
	c08RuleA(c, r, prov)
	c.Floor("R08a", 6, "four scalar kinds of the writer, their coverage and the decoder anchor")
	c08RuleC(c, r, prov)
	c.Floor("R08c", 8, "attachment of every created node in both readers, array construction, object entries")
	c08RuleD(c, r, prov)
	c.Floor("R08d", 2, "copy custom function and JSONify2")
	c08RuleE(c, r, prov)
	c.Floor("R08e", 1, "CharData case of the XML token loop")
	c08RuleF(c, r, prov)
	c.Floor("R08f", 2, "array flags / non-array flags")
}

// ---------------------------------------------------------------- contexts

// c08Contexts enumerates call stacks (outermost first) under which value v of function f resolves to exactly one
// constant; the constant's exact string is returned with each stack. ok=false if that is impossible within 3 levels.
func c08Contexts(p *c08Prov, f *ssa.Function, v ssa.Value) (ctxs [][]*ssa.Call, consts []string, ok bool) {
	type item struct {
		ctx []*ssa.Call
		fn  *ssa.Function
	}
	work := []item{{nil, f}}
	for depth := 0; depth < 4 && len(work) > 0; depth++ {
		var next []item
		for _, it := range work {
			ts := p.Resolve(v, it.ctx)
			ks := ts.Kinds("const")
			if len(ks) == 1 && len(ts) == 1 {
				ctxs = append(ctxs, it.ctx)
				consts = append(consts, ts[ks[0]].Root)
				continue
			}
			cs := p.callers[it.fn]
			if len(cs) == 0 {
				return nil, nil, false
			}
			for _, call := range cs {
				next = append(next, item{append([]*ssa.Call{call}, it.ctx...), call.Parent()})
			}
		}
		work = next
	}
	if len(work) > 0 {
		return nil, nil, false
	}
	return ctxs, consts, true
}

func c08CtxString(ctx []*ssa.Call) string {
	if len(ctx) == 0 {
		return ""
	}
	var parts []string
	for _, call := range ctx {
		parts = append(parts, core.FuncKey(call.Parent()))
	}
	return " via " + strings.Join(parts, " > ")
}

// ---------------------------------------------------------------- R08b

// c08Subset checks that every term is accepted; returns the offending renderings.
func c08Subset(ts c08Terms, accept func(t c08Term) bool) []string {
	var bad []string
	for _, k := range ts.List() {
		if !accept(ts[k]) {
			bad = append(bad, k)
		}
	}
	return bad
}

func c08IsEmptyConst(t c08Term) bool {
	return (t.Kind == "const" && (t.Root == `""` || t.Root == "zero" || t.Root == "nil")) || t.Kind == "zero"
}

func c08RuleB(c *core.Ctx, r *c08roles, prov *c08Prov) {
	// (1) constructors are transparent and nothing else writes Node.Data
	for _, f := range c.RepoFunctions() {
		if core.IsCLIOrSample(core.FuncPkg(f)) {
			continue
		}
		for _, w := range core.Writes(f) {
			if w.Kind != "field" || w.Field != r.dataFld || w.Val == nil {
				continue
			}
			key := core.FuncKey(f) + " stores Node.Data"
			ts := prov.Resolve(w.Val, nil)
			if f == r.createNode {
				bad := c08Subset(ts, func(t c08Term) bool {
					return t.Kind == "param" && strings.HasSuffix(t.Root, "parameter data") && t.Path == ""
				})
				c.Check(len(bad) == 0, "R08b", key, w.Pos, "the constructor stores its data parameter verbatim", "the node constructor does not store its data parameter verbatim: "+strings.Join(bad, ", "))
				continue
			}
			bad := c08Subset(ts, c08IsEmptyConst)
			c.Check(len(bad) == 0, "R08b", key, w.Pos, "only the empty string is stored (blanking)", "Node.Data is written outside the node constructor with "+strings.Join(bad, ", ")+": the text delivered by the decoder can be altered after the node was built")
		}
	}
	for _, w := range []*ssa.Function{r.createXML, r.createJSON} {
		n := 0
		for _, ci := range core.Calls(w) {
			call, ok := ci.(*ssa.Call)
			if !ok || call.Call.StaticCallee() != r.createNode {
				continue
			}
			n++
			ts := prov.Resolve(call.Call.Args[1], nil)
			bad := c08Subset(ts, func(t c08Term) bool {
				return t.Kind == "param" && strings.HasPrefix(t.Root, core.FuncKey(w)+" ") && strings.HasSuffix(t.Root, "parameter data") && t.Path == ""
			})
			c.Check(len(bad) == 0, "R08b", core.FuncKey(w)+" passes data to CreateNode", call.Pos(), "data parameter handed on verbatim", "the format-specific constructor alters the data: "+strings.Join(bad, ", "))
		}
		if n == 0 {
			c.Bad("R08b", core.FuncKey(w)+" passes data to CreateNode", w.Pos(), "the format-specific constructor does not build its node through idr.CreateNode: the data flow into the node cannot be followed")
		}
	}

	// (2) XML sinks
	kindName := func(k string) string {
		if n, ok := r.nodeTypes[k]; ok {
			return n
		}
		return "NodeType(" + k + ")"
	}
	isTok := func(t c08Term, src string, suffixes ...string) bool {
		if t.Kind != "src" || t.Root != src+"#0" {
			return false
		}
		for _, s := range suffixes {
			if t.Path == s {
				return true
			}
		}
		return false
	}
	const (
		elName   = "(xml.StartElement).Name.Local"
		atName   = "(xml.StartElement).Attr[].Name.Local"
		atValue  = "(xml.StartElement).Attr[].Value"
		charData = "(xml.CharData)"
	)
	nXML := 0
	for _, f := range r.idrFns {
		for _, ci := range core.Calls(f) {
			call, ok := ci.(*ssa.Call)
			if !ok || call.Call.StaticCallee() != r.createXML || f == r.createXML {
				continue
			}
			ctxs, kinds, ok := c08Contexts(prov, f, call.Call.Args[0])
			if !ok {
				c.Unknown("R08b", core.FuncKey(f)+" CreateXMLNode kind", call.Pos(), "the node kind of this creation is not a constant under any call-site context (3 levels)")
				continue
			}
			type res struct{ data, uri, pfx c08Terms }
			byKind := map[string]*res{}
			for i, ctx := range ctxs {
				k := kindName(kinds[i])
				if byKind[k] == nil {
					byKind[k] = &res{c08Terms{}, c08Terms{}, c08Terms{}}
				}
				for s, t := range prov.Resolve(call.Call.Args[1], ctx) {
					byKind[k].data[s] = t
				}
				for s, t := range prov.ResolvePath(call.Call.Args[2], []c08Sel{{F: r.nsURI}}, ctx) {
					byKind[k].uri[s] = t
				}
				for s, t := range prov.ResolvePath(call.Call.Args[2], []c08Sel{{F: r.nsPrefix}}, ctx) {
					byKind[k].pfx[s] = t
				}
			}
			var ks []string
			for k := range byKind {
				ks = append(ks, k)
			}
			sort.Strings(ks)
			for _, k := range ks {
				nXML++
				rs := byKind[k]
				key := core.FuncKey(f) + " CreateXMLNode(" + k + ")"
				var want []string
				switch k {
				case "ElementNode":
					want = []string{elName}
				case "AttributeNode":
					want = []string{atName}
				case "TextNode":
					want = []string{charData, atValue}
				}
				if k == "DocumentNode" {
					bad := c08Subset(rs.data, func(t c08Term) bool { return t.Kind == "const" })
					c.Check(len(bad) == 0, "R08b", key+" data", call.Pos(), "constant", "document node data is not a constant: "+strings.Join(bad, ", "))
				} else {
					bad := c08Subset(rs.data, func(t c08Term) bool { return isTok(t, "xml.Token", want...) })
					c.Check(len(bad) == 0 && len(rs.data) > 0, "R08b", key+" data", call.Pos(), "data is "+rs.data.String(),
						fmt.Sprintf("the data of this %s is not exactly what the decoder reports (%s): it derives from %s", k, strings.Join(want, " or "), strings.Join(bad, ", ")))
				}
				// namespace URI / prefix relative to the data's Name
				spaces := map[string]bool{}
				for _, t := range rs.data {
					if t.Kind == "src" && strings.HasSuffix(t.Path, ".Local") {
						spaces[strings.TrimSuffix(t.Path, ".Local")+".Space"] = true
					}
				}
				isSpace := func(t c08Term) bool { return t.Kind == "src" && t.Root == "xml.Token#0" && spaces[t.Path] }
				if k == "TextNode" || k == "DocumentNode" {
					bu := c08Subset(rs.uri, c08IsEmptyConst)
					bp := c08Subset(rs.pfx, c08IsEmptyConst)
					c.Check(len(bu) == 0 && len(bp) == 0, "R08b", key+" NamespaceURI/NamespacePrefix", call.Pos(), "empty", "a text/document node carries namespace information from "+strings.Join(append(bu, bp...), ", "))
					continue
				}
				bu := c08Subset(rs.uri, func(t c08Term) bool { return c08IsEmptyConst(t) || isSpace(t) })
				c.Check(len(bu) == 0, "R08b", key+" NamespaceURI", call.Pos(), "URI is "+rs.uri.String(),
					"the namespace URI is not the Space of the name the decoder reports (or empty): "+strings.Join(bu, ", "))
				bp := c08Subset(rs.pfx, func(t c08Term) bool {
					if c08IsEmptyConst(t) || isSpace(t) {
						return true
					}
					if t.Kind == "table" && strings.HasPrefix(t.Root, "namespace table[") {
						inner := strings.TrimSuffix(strings.TrimPrefix(t.Root, "namespace table["), "]")
						for _, one := range strings.Split(inner, ",") {
							okOne := false
							for sp := range spaces {
								if one == "src:xml.Token#0"+sp {
									okOne = true
								}
							}
							if !okOne {
								return false
							}
						}
						return inner != ""
					}
					return false
				})
				c.Check(len(bp) == 0, "R08b", key+" NamespacePrefix", call.Pos(), "prefix is "+rs.pfx.String(),
					"the namespace prefix is neither the table entry of the name's Space, nor that Space, nor empty: "+strings.Join(bp, ", "))
			}
		}
	}
	if nXML == 0 {
		c.Unresolved("R08b", "XML node creations", "no CreateXMLNode call in package idr")
	}

	// (3) namespace table updates
	var tableFld *types.Var
	if st, ok := r.xmlReader.Type().Underlying().(*types.Struct); ok {
		for _, sf := range c08DeepFields(st, r.idr, 0) {
			if m, ok := sf.Type().Underlying().(*types.Map); ok && c08Textual(m.Key()) && c08Textual(m.Elem()) {
				if tableFld != nil && tableFld != sf {
					c.Unresolved("R08b", "namespace table", "more than one map[string]string field in the XML stream reader")
					return
				}
				tableFld = sf
			}
		}
	}
	if tableFld == nil {
		c.Unresolved("R08b", "namespace table", "no map[string]string field in the XML stream reader")
	} else {
		nUpd := 0
		for _, f := range r.idrFns {
			for _, b := range f.Blocks {
				for _, in := range b.Instrs {
					mu, ok := in.(*ssa.MapUpdate)
					if !ok {
						continue
					}
					fl, _ := c04FieldLoad(mu.Map)
					isLit := false
					if fl == nil {
						// map literal stored into the field by the constructor
						if mk, ok := mu.Map.(*ssa.MakeMap); ok {
							for _, u := range core.Referrers(mk) {
								if st, ok := u.(*ssa.Store); ok {
									if fa, ok := st.Addr.(*ssa.FieldAddr); ok && core.FieldOfAddr(fa) == tableFld {
										isLit = true
									}
								}
							}
						}
					}
					if fl != tableFld && !isLit {
						continue
					}
					nUpd++
					key := core.FuncKey(f) + " namespace table update"
					kt := prov.Resolve(mu.Key, nil)
					vt := prov.Resolve(mu.Value, nil)
					if isLit {
						bad := append(c08Subset(kt, func(t c08Term) bool { return t.Kind == "const" }), c08Subset(vt, func(t c08Term) bool { return t.Kind == "const" })...)
						c.Check(len(bad) == 0, "R08b", key, mu.Pos(), "constant initial binding", "initial namespace binding is not constant: "+strings.Join(bad, ", "))
						continue
					}
					bk := c08Subset(kt, func(t c08Term) bool { return isTok(t, "xml.Token", atValue) })
					bv := c08Subset(vt, func(t c08Term) bool { return c08IsEmptyConst(t) || isTok(t, "xml.Token", atName) })
					c.Check(len(bk) == 0 && len(bv) == 0 && len(kt) > 0, "R08b", key, mu.Pos(), "URI (attribute value) -> prefix (attribute local name) or \"\"",
						"the namespace table is not filled with attribute value -> attribute local name: key "+kt.String()+", value "+vt.String())
					// every declaration re-binds: no dominating condition consults the table itself
					stateDep := false
					for d := mu.Block().Idom(); d != nil; d = d.Idom() {
						if ifi, ok := d.Instrs[len(d.Instrs)-1].(*ssa.If); ok && c04DependsOn(ifi.Cond, func(v ssa.Value) bool {
							l, ok := v.(*ssa.Lookup)
							if !ok {
								return false
							}
							lf, _ := c04FieldLoad(l.X)
							return lf == tableFld
						}) {
							stateDep = true
						}
					}
					c.Check(!stateDep, "R08b", key+" is independent of the table's state", mu.Pos(), "every namespace declaration (re-)binds its URI",
						"whether a namespace declaration is recorded depends on what the table already holds: a later declaration that binds the same URI to another prefix is ignored and elements are reported with a prefix the document does not use for them")
				}
			}
		}
		if nUpd == 0 {
			c.Unresolved("R08b", "namespace table updates", "the namespace table is never written")
		}
		// bindings are only ever added or re-bound: the document's in-scope bindings are not modelled per element, so an
		// entry removed (delete/clear, or the table replaced) at an end tag also unbinds the declaration of an enclosing
		// element that uses the same URI (seed C08-8)
		nDel := 0
		for _, f := range r.idrFns {
			for _, ci := range core.Calls(f) {
				bi, ok := ci.Common().Value.(*ssa.Builtin)
				if !ok || (bi.Name() != "delete" && bi.Name() != "clear") || len(ci.Common().Args) == 0 {
					continue
				}
				if fl, _ := c04FieldLoad(ci.Common().Args[0]); fl == tableFld {
					nDel++
					c.Bad("R08b", core.FuncKey(f)+" removes namespace bindings", core.InstrPos(ci), "entries are removed from the namespace table ("+bi.Name()+"): the table is keyed by URI and does not record which element declared a binding, so removing the entry at the end of one element also removes the binding an enclosing element declared for the same URI — later names in that namespace lose their prefix or fail")
				}
			}
		}
		c.OK("R08b", "namespace bindings are never removed", 0, fmt.Sprintf("%d delete/clear call(s) on the namespace table", nDel))
	}

	// (4) JSON sinks (element / document nodes; text nodes are R08a)
	nJSON := 0
	for _, f := range r.idrFns {
		for _, ci := range core.Calls(f) {
			call, ok := ci.(*ssa.Call)
			if !ok || call.Call.StaticCallee() != r.createJSON || f == r.createJSON {
				continue
			}
			ctxs, kinds, ok := c08Contexts(prov, f, call.Call.Args[0])
			if !ok {
				c.Unknown("R08b", core.FuncKey(f)+" CreateJSONNode kind", call.Pos(), "the node kind of this creation is not a constant under any call-site context (3 levels)")
				continue
			}
			byKind := map[string]c08Terms{}
			for i, ctx := range ctxs {
				k := kindName(kinds[i])
				if byKind[k] == nil {
					byKind[k] = c08Terms{}
				}
				for s, t := range prov.Resolve(call.Call.Args[1], ctx) {
					byKind[k][s] = t
				}
			}
			var ks []string
			for k := range byKind {
				ks = append(ks, k)
			}
			sort.Strings(ks)
			for _, k := range ks {
				if k == "TextNode" {
					continue
				}
				nJSON++
				key := core.FuncKey(f) + " CreateJSONNode(" + k + ") data"
				ts := byKind[k]
				switch k {
				case "ElementNode":
					bad := c08Subset(ts, func(t c08Term) bool { return c08IsEmptyConst(t) || isTok(t, "json.Token", "(string)") })
					c.Check(len(bad) == 0 && len(ts) > 0, "R08b", key, call.Pos(), "key is "+ts.String(), "the name of a JSON element node is neither the key token itself nor \"\": "+strings.Join(bad, ", "))
				case "DocumentNode":
					bad := c08Subset(ts, func(t c08Term) bool { return t.Kind == "const" })
					c.Check(len(bad) == 0, "R08b", key, call.Pos(), "constant", "document node data is not a constant: "+strings.Join(bad, ", "))
				default:
					c.Bad("R08b", key, call.Pos(), "the JSON reader creates a node kind that JSON trees do not have")
				}
			}
		}
	}
	if nJSON == 0 {
		c.Unresolved("R08b", "JSON node creations", "no CreateJSONNode call for element nodes in package idr")
	}
}
