package rules

import (
	"fmt"
	"go/types"

	"golang.org/x/tools/go/ssa"

	"omnilint/core"
)

// R09i local retention across a refill. R09a follows borrowed slices into reader state; a borrowed slice can equally be
// parked in a local aggregate of one function ([][]byte of the rows of an envelope, a map, an element store) while the
// same function goes on reading. When a refill of the decoder (a borrow source, or a repository function that returns
// a borrowed slice) is reachable after the slice was put into the aggregate, and the aggregate is used after that
// refill, the parked slice may already have been overwritten by later input — whether it was depends on where the
// buffer boundaries fall, i.e. on how the input is delivered (seeds C06-6, C15-8: "read all rows first, then extract").
func c09LocalRetention(c *core.Ctx, t *c09Taint, rule string) {
	isRefill := func(in ssa.Instruction) bool {
		call, ok := in.(*ssa.Call)
		if !ok {
			return false
		}
		if i, _ := t.sourceIndex(call); i >= 0 {
			return true
		}
		if cf := call.Call.StaticCallee(); cf != nil {
			for _, tk := range t.tret[cf] {
				if len(tk) > 0 {
					return true
				}
			}
		}
		return false
	}
	nRet := 0
	for _, f := range t.fns {
		hasRefill := false
		for _, b := range f.Blocks {
			for _, in := range b.Instrs {
				if isRefill(in) {
					hasRefill = true
				}
			}
		}
		if !hasRefill {
			continue
		}
		for _, b := range f.Blocks {
			for _, in := range b.Instrs {
				var agg ssa.Value
				what := ""
				switch x := in.(type) {
				case *ssa.Call:
					bi, ok := x.Call.Value.(*ssa.Builtin)
					if !ok || bi.Name() != "append" || len(x.Call.Args) != 2 {
						continue
					}
					sl, ok := x.Type().Underlying().(*types.Slice)
					if !ok || !c09CanRef(sl.Elem()) {
						continue // element-wise copy of bytes/strings: the copy ends the borrow
					}
					// the appended elements: args[1] is the variadic slice built from the element values
					if len(t.tok(x.Call.Args[1])) == 0 {
						continue
					}
					if isFieldRooted(x.Call.Args[0]) {
						continue // reader state: R09a
					}
					agg, what = x, "appended to a local slice"
				case *ssa.Store:
					ia, ok := x.Addr.(*ssa.IndexAddr)
					if !ok || len(t.tok(x.Val)) == 0 || !c09CanRef(x.Val.Type()) {
						continue
					}
					// the variadic temporary of append(...) is an array alloc: skip (handled through append)
					if _, isAlloc := ia.X.(*ssa.Alloc); isAlloc {
						continue
					}
					if isFieldRooted(ia.X) {
						continue
					}
					agg, what = ia.X, "stored into an element of a local slice"
				case *ssa.MapUpdate:
					if len(t.tok(x.Value)) == 0 || !c09CanRef(x.Value.Type()) || isFieldRooted(x.Map) {
						continue
					}
					agg, what = x.Map, "stored into a local map"
				default:
					continue
				}
				nRet++
				key := core.FuncKey(f) + " keeps a borrowed slice in a local aggregate"
				// lineage of the aggregate: phis, reslices, later appends
				lin := map[ssa.Value]bool{}
				var grow func(v ssa.Value)
				grow = func(v ssa.Value) {
					if lin[v] {
						return
					}
					lin[v] = true
					for _, r := range core.Referrers(v) {
						switch y := r.(type) {
						case *ssa.Phi:
							grow(y)
						case *ssa.Slice:
							grow(y)
						case *ssa.Call:
							if bi, ok := y.Call.Value.(*ssa.Builtin); ok && bi.Name() == "append" && len(y.Call.Args) > 0 && y.Call.Args[0] == v {
								grow(y)
							}
						}
					}
				}
				grow(agg)
				bad := false
				var refillPos, usePos ssa.Instruction
				core.WalkAfter(in, func(r ssa.Instruction) bool {
					if bad || !isRefill(r) {
						return true
					}
					core.WalkAfter(r, func(u ssa.Instruction) bool {
						if bad {
							return false
						}
						if u == in {
							// the retention itself re-executed in a loop: it uses the lineage as its first operand
						}
						for _, op := range u.Operands(nil) {
							if *op != nil && lin[*op] {
								if _, dbg := u.(*ssa.DebugRef); dbg {
									continue
								}
								bad, refillPos, usePos = true, r, u
								return false
							}
						}
						return true
					})
					return true
				})
				if bad {
					c.Bad(rule, key, core.InstrPos(in), fmt.Sprintf("a slice that aliases the decoder's buffer is %s; the decoder is refilled afterwards (%s) and the aggregate is used after that (%s): the parked bytes may have been overwritten by later input, depending on where the buffer boundaries fall", what, c.Position(core.InstrPos(refillPos)), c.Position(core.InstrPos(usePos))))
				} else {
					c.OK(rule, key, core.InstrPos(in), "no refill of the decoder is reachable between parking the slice and the last use of the aggregate")
				}
			}
		}
	}
	c.OK(rule, "local retention of borrowed slices", 0, fmt.Sprintf("%d site(s) where a borrowed slice is parked in a local aggregate of a function that also refills the decoder", nRet))
}

// isFieldRooted: the aggregate is loaded from a struct field (reader state; covered by R09a).
func isFieldRooted(v ssa.Value) bool {
	steps, _ := core.TraceAddr(v)
	for _, s := range steps {
		if s.Kind == "field" {
			return true
		}
	}
	return false
}
