package rules

import (
	"fmt"
	"go/constant"
	"go/token"
	"go/types"
	"strings"

	"golang.org/x/tools/go/ssa"

	"omnilint/core"
)

func init() {
	register(&RuleSet{
		Prop:  "C15",
		Title: "Results and checksums are a deterministic function of schema and input",
		Explanation: "Determinism fails only through a hidden input; the hidden inputs of this code base are enumerable. " +
			"R15a/b history-dependent identifiers are keys only: every value derived (forward data flow through conversions, formatting, concatenation, local and captured variables) from a load of Node.ID or of the random declaration hash ends in a map key, a cache-key argument or a comparison — never in a return value, a stored field, an error text or an emitted value. " +
			"R15c clock, randomness and process identity (time.Now, math/rand, crypto/rand, os.Getpid/Hostname/Getenv, uuid.New*) are called on the run path only by the function registered as the documented now custom function; random UUIDs only by the load-time hashing function (or a helper all of whose enumerable callers are that function). " +
			"R15d every range over a map in run-set or load-set code has an order-insensitive body: only map updates/deletes, VM global set/delete, pure calls, or appends to a list that is sorted in the same function; an early return inside such a loop is allowed only at load time with a non-nil error. " +
			"R15e checksum provenance: nothing reachable from RawRecord.Checksum reads Node.ID or calls a source of R15c. " +
			"R15f process history: a node taken from the pool is blank (reset stores every field; = C12 R12b/R12d), so results do not depend on what earlier transforms left in pooled nodes. R15g the same for pooled JavaScript VMs: globals defined for one call are wiped (deferred, before Put) on every path (= C20 R20a).",
		NotDecided: "'checksums differ when any ingested value differs' (injectivity of the JSON rendering on runtime trees); determinism of third-party decoders and of goja; scripts that draw randomness and the now function (excluded by the statement).",
		Trusted:    append([]string{"encoding/json sorts map keys; uuid.NewMD5 is a pure function"}, commonTrusted...),
		Run:        runC15,
	})
	control(Control{ID: "c15-hash-in-error", Prop: "C15", File: "extensions/omniv21/transform/parse.go",
		Old: "\t\treturn nil, fmt.Errorf(\"unexpected decl kind '%s' on '%s'\", decl.kind, decl.fqdn)", New: "\t\treturn nil, fmt.Errorf(\"unexpected decl kind '%s' on '%s' (%s)\", decl.kind, decl.fqdn, decl.hash)",
		Rule: "R15b", Substr: "hash", Why: "random hash leaks into an error text"})
	control(Control{ID: "c15-id-in-output", Prop: "C15", File: "extensions/omniv21/transform/parse.go",
		Old: "\treturn normalizeAndReturnValue(decl, n.InnerText())", New: "\tif n.ID < 0 {\n\t\treturn normalizeAndReturnValue(decl, strconv.FormatInt(n.ID, 10))\n\t}\n\treturn normalizeAndReturnValue(decl, n.InnerText())",
		Rule: "R15b", Substr: "ID", Why: "node ID flows into an emitted value"})
	control(Control{ID: "c15-random-in-checksum", Prop: "C15", File: "customfuncs/customFuncs.go",
		Old: "return uuid.NewMD5(uuid.Nil, []byte(s)).String(), nil", New: "return uuid.NewMD5(uuid.New(), []byte(s)).String(), nil",
		Rule: "R15c", Substr: "uuid.New", Why: "random namespace makes checksums differ between runs"})
	control(Control{ID: "c15-map-order-output", Prop: "C15", File: "customfuncs/customFuncs.go",
		Old:  "func Concat(_ *transformctx.Ctx, strs ...string) (string, error) {\n\tvar w strings.Builder\n",
		New:  "func Concat(ctx *transformctx.Ctx, strs ...string) (string, error) {\n\tvar w strings.Builder\n\tif ctx != nil && len(strs) == 0 {\n\t\tfor _, v := range ctx.ExternalProperties {\n\t\t\tw.WriteString(v)\n\t\t}\n\t}\n",
		Rule: "R15d", Substr: "Concat", Why: "output built in map iteration order"})
	control(Control{ID: "c15-reset-keeps-data", Prop: "C15", File: "idr/node.go",
		Old: "\tn.FormatSpecific = nil\n}", New: "}", Rule: "R15f", Substr: "FormatSpecific", Why: "results depend on what an earlier transform left in a pooled node"})
}

var c15NondetPkgs = map[string]bool{"math/rand": true, "crypto/rand": true, "math/rand/v2": true}

func c15IsNondetCall(ci ssa.CallInstruction) string {
	o := core.CalleeObj(ci)
	if o == nil || o.Pkg() == nil {
		return ""
	}
	p, n := o.Pkg().Path(), core.FuncName(o)
	switch {
	case p == "time" && (n == "Now" || n == "Since" || n == "Until"):
		return "time." + n
	case c15NondetPkgs[p]:
		return p + "." + n
	case p == "os" && (n == "Getpid" || n == "Getppid" || n == "Hostname" || n == "Environ" || n == "Getenv" || n == "LookupEnv"):
		return "os." + n
	case p == "github.com/google/uuid" && (n == "New" || n == "NewString" || n == "NewRandom" || n == "NewUUID" || n == "NewRandomFromReader"):
		return "uuid." + n
	}
	return ""
}

func runC15(c *core.Ctx) {
	r := c13Resolve(c, "R15")
	if r == nil {
		return
	}
	// resolve ID / hash fields through the cache key (as in C13)
	srcs := map[*types.Var]bool{}
	keySources(r.lookup.Index, r.parseNode, map[ssa.Value]bool{}, srcs)
	var idField, hashField *types.Var
	for f := range srcs {
		if f.Name() == "ID" && f.Pkg() != nil && strings.HasSuffix(f.Pkg().Path(), "/idr") {
			idField = f
		}
		if !f.Exported() && f.Pkg() == r.tp && isString(f.Type()) {
			hashField = f
		}
	}
	if idField == nil {
		if p := c.Pkg("idr"); p != nil {
			if tn, ok := p.Types.Scope().Lookup("Node").(*types.TypeName); ok {
				st := tn.Type().Underlying().(*types.Struct)
				for i := 0; i < st.NumFields(); i++ {
					if st.Field(i).Name() == "ID" {
						idField = st.Field(i)
					}
				}
			}
		}
	}
	if idField == nil {
		c.Unresolved("R15a", "Node.ID", "field not found")
		return
	}
	e := entries(c, "R15")
	if e == nil {
		return
	}
	r12 := resolveC12(c)

	// ---------------- R15a/b taint
	nSrc := 0
	for _, f := range c.RepoFunctions() {
		if core.IsCLIOrSample(core.FuncPkg(f)) {
			continue
		}
		if r12 != nil && c12AllowedWriters(r12)[f] {
			continue
		}
		for _, b := range f.Blocks {
			for _, in := range b.Instrs {
				fa, ok := in.(*ssa.FieldAddr)
				if !ok {
					continue
				}
				fld := core.FieldOfAddr(fa)
				if fld != idField && (hashField == nil || fld != hashField) {
					continue
				}
				for _, u := range core.Referrers(fa) {
					ld, ok := u.(*ssa.UnOp)
					if !ok || ld.Op != token.MUL {
						continue
					}
					nSrc++
					what := "Node.ID"
					if fld == hashField {
						what = "declaration hash"
					}
					key := core.FuncKey(f) + " uses " + what
					if bad, pos := c15Taint(c, ld); bad != "" {
						c.Bad("R15b", key, pos, "a value derived from the "+what+" (process-history dependent / random) flows into "+bad+": output would differ between runs")
					} else {
						c.OK("R15b", key, core.InstrPos(ld), "used only as map/cache key or in comparisons")
					}
				}
			}
		}
	}
	c.Floor("R15b", 2, "Node.ID and hash reads in ParseNode")
	// writers of the hash field: value comes from the hashing function only
	if hashField != nil {
		for _, f := range c.RepoFunctions() {
			for _, w := range core.Writes(f) {
				if w.Kind == "field" && w.Field == hashField {
					_, isCall := w.Val.(*ssa.Call)
					c.Check(isCall, "R15a", core.FuncKey(f)+" assigns hash", w.Pos, "hash assigned from the hashing function", "the declaration hash is assigned from something other than the hashing function")
				}
			}
		}
	}

	// ---------------- R15c nondeterministic calls
	nowFns := map[*ssa.Function]bool{}
	for _, rel := range []string{"customfuncs", "extensions/omniv21/customfuncs"} {
		sp := c.SSAPkg(rel)
		if sp == nil || sp.Func("init") == nil {
			continue
		}
		for _, b := range sp.Func("init").Blocks {
			for _, in := range b.Instrs {
				if mu, ok := in.(*ssa.MapUpdate); ok {
					if k, ok := mu.Key.(*ssa.Const); ok && k.Value != nil && k.Value.Kind() == constant.String && constant.StringVal(k.Value) == "now" {
						if mi, ok := mu.Value.(*ssa.MakeInterface); ok {
							if fn, ok := mi.X.(*ssa.Function); ok {
								nowFns[fn] = true
							}
						}
					}
				}
			}
		}
	}
	hashers := map[*ssa.Function]bool{}
	if hashField != nil {
		for _, f := range c.RepoFunctions() {
			for _, w := range core.Writes(f) {
				if w.Kind == "field" && w.Field == hashField {
					if call, ok := w.Val.(*ssa.Call); ok && call.Call.StaticCallee() != nil {
						hashers[call.Call.StaticCallee()] = true
					}
				}
			}
		}
	}
	// hasherOnly: f is the hashing function, or a helper all of whose callers are (the random id drawn on a table miss
	// may come from `newHash()` instead of an inline uuid.New()). The callers must be enumerable: unexported, never
	// used as a value, only plain static calls.
	hasherOnlyMemo := map[*ssa.Function]bool{}
	var hasherOnly func(f *ssa.Function, d int) bool
	hasherOnly = func(f *ssa.Function, d int) bool {
		if hashers[f] {
			return true
		}
		if v, done := hasherOnlyMemo[f]; done {
			return v
		}
		hasherOnlyMemo[f] = false // cycles: no
		if d > 3 {
			return false
		}
		sites, closed := f2CallSites(c, f)
		if !closed || len(sites) == 0 {
			return false
		}
		for _, s := range sites {
			if _, isCall := s.(*ssa.Call); !isCall || !hasherOnly(s.Parent(), d+1) {
				return false
			}
		}
		hasherOnlyMemo[f] = true
		return true
	}
	nCalls := 0
	for _, f := range c.RepoFunctions() {
		if core.IsCLIOrSample(core.FuncPkg(f)) {
			continue
		}
		inRun, inLoad := e.run[f], e.load[f]
		if !inRun && !inLoad {
			continue
		}
		for _, ci := range core.Calls(f) {
			name := c15IsNondetCall(ci)
			if name == "" {
				continue
			}
			nCalls++
			key := core.FuncKey(f) + " calls " + name
			switch {
			case nowFns[f] && strings.HasPrefix(name, "time."):
				c.OK("R15c", key, core.InstrPos(ci), "the documented now custom function (excluded by the property)")
			case hasherOnly(f, 0) && strings.HasPrefix(name, "uuid.") && !inRun:
				c.OK("R15c", key, core.InstrPos(ci), "load-time declaration hash (used as a cache key only, see R15b)")
			default:
				c.Bad("R15c", key, core.InstrPos(ci), "a source of non-determinism ("+name+") is called on the schema-load/transform path outside the documented now function and the load-time hash")
			}
		}
	}
	c.Floor("R15c", 2, "time.Now in Now, uuid.New in computeDeclHash")

	// ---------------- R15d map ranges
	c15MapRanges(c, e)

	// ---------------- R15e checksum
	if shp := c.Pkg("schemahandler"); shp != nil {
		rrI := lookupIface(shp.Types, "RawRecord")
		var roots []*ssa.Function
		for _, p := range c.Pkgs {
			if core.IsCLIOrSample(p.Types) {
				continue
			}
			for _, t := range implementersIn(p.Types, rrI) {
				if f := methodFn(c, t, "Checksum"); f != nil {
					roots = append(roots, f)
				}
			}
		}
		if len(roots) == 0 {
			c.Unresolved("R15e", "Checksum implementation", "none found")
		}
		reach := c.Reachable(roots, nil)
		for _, root := range roots {
			bad := ""
			for _, f := range repoFuncsIn(reach) {
				for _, b := range f.Blocks {
					for _, in := range b.Instrs {
						if fa, ok := in.(*ssa.FieldAddr); ok && core.FieldOfAddr(fa) == idField {
							if r12 == nil || !c12AllowedWriters(r12)[f] {
								bad = core.FuncKey(f) + " reads Node.ID"
							}
						}
						if ci, ok := in.(ssa.CallInstruction); ok {
							if n := c15IsNondetCall(ci); n != "" {
								bad = core.FuncKey(f) + " calls " + n
							}
						}
					}
				}
			}
			c.Check(bad == "", "R15e", core.FuncKey(root)+" provenance", root.Pos(), fmt.Sprintf("no history-dependent source among the %d repository functions reachable from Checksum", len(repoFuncsIn(reach))), "the checksum depends on a hidden input: "+bad)
		}
	}

	// ---------------- R15f pooled nodes are blank
	if r12 != nil {
		c12PoolRules(c, r12, c.RepoFunctions(), c12AllowedWriters(r12), "R15f", "R15f", "R15f")
	}
	c.Floor("R15f", 15, "reset exhaustiveness and pool discipline")
	// ---------------- R15g pooled JavaScript VMs carry nothing from earlier transforms (= C20 R20a)
	c20VMPool(c, "R15g")
	c.Floor("R15g", 7, "VM pool discipline")
	// ---------------- R15h nothing is memoised into the shared schema on the run path (= C14 R14a): a second transform of
	// the same Schema must not see what the first one computed
	if shared := c14SharedTypes(c); shared != nil {
		n := c14SharedStores(c, repoFuncsIn(e.run), shared, "R15h", "R15h")
		c.OK("R15h", "run-set store inventory against schema-owned types", 0, fmt.Sprintf("%d stores inspected", n))
	}
	// ---------------- R15i no dependence on the process's local time zone
	c15LocalZone(c, e)
	// ---------------- R15j process-wide caches are keyed by what their loaders read (= C13 R13b): a value cached by an
	// earlier transform is only served for an identical key
	var libFns []*ssa.Function
	for _, f := range c.RepoFunctions() {
		if !core.IsCLIOrSample(core.FuncPkg(f)) {
			libFns = append(libFns, f)
		}
	}
	c20LoaderPurity(c, "R15j", libFns)
	c.Floor("R15j", 1, "getProgram")
}

// c15Taint follows a history-dependent value forward; returns a description of the first disallowed sink.
func c15Taint(c *core.Ctx, src ssa.Value) (string, token.Pos) {
	seen := map[ssa.Value]bool{}
	work := []ssa.Value{src}
	for len(work) > 0 {
		v := work[len(work)-1]
		work = work[:len(work)-1]
		if seen[v] {
			continue
		}
		seen[v] = true
		for _, u := range core.Referrers(v) {
			pos := core.InstrPos(u)
			switch x := u.(type) {
			case *ssa.DebugRef:
			case *ssa.BinOp:
				switch x.Op {
				case token.EQL, token.NEQ, token.LSS, token.GTR, token.LEQ, token.GEQ:
				default:
					work = append(work, x)
				}
			case *ssa.Convert:
				work = append(work, x)
			case *ssa.ChangeType:
				work = append(work, x)
			case *ssa.MakeInterface:
				work = append(work, x)
			case *ssa.Phi:
				work = append(work, x)
			case *ssa.Lookup:
				if x.Index != v {
					return "a map operand", pos
				}
			case *ssa.MapUpdate:
				if x.Key != v {
					return "a stored map value", pos
				}
			case *ssa.Slice:
				work = append(work, x)
			case *ssa.IndexAddr:
				// addressing an element of a (tainted) variadic argument array: the array is followed through its Slice
			case *ssa.Store:
				if x.Val != v {
					continue
				}
				switch a := x.Addr.(type) {
				case *ssa.Alloc:
					// local (possibly captured) variable: all loads of the cell
					for _, ld := range loadsOfCell(a) {
						work = append(work, ld)
					}
				case *ssa.FreeVar:
					if b, ok := closureBinding(x.Parent(), a).(*ssa.Alloc); ok {
						for _, ld := range loadsOfCell(b) {
							work = append(work, ld)
						}
					} else {
						return "a captured variable", pos
					}
				case *ssa.IndexAddr:
					// element of a variadic argument array
					if al, ok := a.X.(*ssa.Alloc); ok {
						work = append(work, al)
					} else {
						return "a stored slice element", pos
					}
				default:
					return "a stored field/heap location", pos
				}
			case *ssa.Return:
				// the result of a helper whose callers are all known (unexported, never used as a value, not reachable
				// through an interface) is followed to its use at every call site; anything else leaves the analysed code
				fn := x.Parent()
				sites, closed := f2CallSites(c, fn)
				if !closed || len(sites) == 0 {
					return "a return value", pos
				}
				for i, res := range x.Results {
					if res != v {
						continue
					}
					for _, s := range sites {
						call, isCall := s.(*ssa.Call)
						if !isCall {
							continue // go/defer: the result is discarded
						}
						if len(x.Results) == 1 {
							work = append(work, call)
							continue
						}
						for _, r := range core.Referrers(call) {
							if ex, ok := r.(*ssa.Extract); ok && ex.Index == i {
								work = append(work, ex)
							}
						}
					}
				}
			case ssa.CallInstruction:
				o := core.CalleeObj(x)
				full := ""
				if o != nil && o.Pkg() != nil {
					full = o.Pkg().Path() + "." + core.FuncName(o)
				}
				switch {
				case strings.HasPrefix(full, "strconv.Format") || full == "strconv.Itoa":
					if val := x.Value(); val != nil {
						work = append(work, val)
					}
				case full == "fmt.Sprintf" || full == "fmt.Sprint":
					if val := x.Value(); val != nil {
						work = append(work, val)
					}
				case full == "github.com/jf-tech/go-corelib/caches.LoadingCache.Get" && len(x.Common().Args) > 1 && core.Unwrap(x.Common().Args[1], true) == core.Unwrap(v, true):
				default:
					if full == "" {
						full = x.Common().String()
					}
					return "a call of " + core.Rel(full), pos
				}
			default:
				return fmt.Sprintf("%T", u), pos
			}
		}
	}
	return "", token.NoPos
}

func loadsOfCell(a *ssa.Alloc) []ssa.Value {
	var out []ssa.Value
	fn := a.Parent()
	for _, g := range append([]*ssa.Function{fn}, fn.AnonFuncs...) {
		for _, b := range g.Blocks {
			for _, in := range b.Instrs {
				u, ok := in.(*ssa.UnOp)
				if !ok || u.Op != token.MUL {
					continue
				}
				if u.X == ssa.Value(a) {
					out = append(out, u)
				} else if fv, ok := u.X.(*ssa.FreeVar); ok && closureBinding(g, fv) == ssa.Value(a) {
					out = append(out, u)
				}
			}
		}
	}
	return out
}

// c15MapRanges: R15d.
func c15MapRanges(c *core.Ctx, e *entrySets) {
	n := 0
	for _, f := range c.RepoFunctions() {
		if core.IsCLIOrSample(core.FuncPkg(f)) {
			continue
		}
		top := f
		for top.Parent() != nil {
			top = top.Parent()
		}
		inRun, inLoad := e.run[f] || e.run[top], e.load[f] || e.load[top]
		if !inRun && !inLoad {
			continue
		}
		for _, b := range f.Blocks {
			for _, in := range b.Instrs {
				rg, ok := in.(*ssa.Range)
				if !ok {
					continue
				}
				if _, isMap := rg.X.Type().Underlying().(*types.Map); !isMap {
					continue
				}
				n++
				key := core.FuncKey(f) + " ranges over a map"
				// loop body: blocks dominated by the block holding the Next's true successor
				var next *ssa.Next
				for _, u := range core.Referrers(rg) {
					if nx, ok := u.(*ssa.Next); ok {
						next = nx
					}
				}
				if next == nil {
					c.Unknown("R15d", key, core.InstrPos(rg), "range without next")
					continue
				}
				hdr := next.Block()
				ifi, ok := hdr.Instrs[len(hdr.Instrs)-1].(*ssa.If)
				if !ok {
					c.Unknown("R15d", key, core.InstrPos(rg), "unrecognised loop shape")
					continue
				}
				body := hdr.Succs[0]
				_ = ifi
				bad, pos := "", token.NoPos
				sortedNeeded := false
				for _, bb := range f.Blocks {
					if !body.Dominates(bb) {
						continue
					}
					for _, bi := range bb.Instrs {
						switch x := bi.(type) {
						case *ssa.MapUpdate:
						case *ssa.Store:
							if _, root := core.TraceAddr(x.Addr); core.IsFresh(root) {
								if hasLoad := func() bool {
									steps, _ := core.TraceAddr(x.Addr)
									for _, s := range steps {
										if s.Kind == "load" {
											return true
										}
									}
									return false
								}(); !hasLoad {
									continue // store into a local array/variable (e.g. a variadic argument slice)
								}
							}
							// append to a list that is sorted later
							if call, ok := x.Val.(*ssa.Call); ok {
								if bn, ok := call.Call.Value.(*ssa.Builtin); ok && bn.Name() == "append" {
									sortedNeeded = true
									continue
								}
							}
							if bad == "" {
								bad, pos = "a store to heap memory", core.InstrPos(bi)
							}
						case *ssa.Return:
							last := x.Results
							okRet := !inRun && len(last) > 0 && isErrorT(last[len(last)-1].Type()) && !core.IsNilConst(last[len(last)-1])
							if !okRet && bad == "" {
								bad, pos = "an early return", core.InstrPos(bi)
							}
						case *ssa.Send, *ssa.Go:
							if bad == "" {
								bad, pos = fmt.Sprintf("%T", bi), core.InstrPos(bi)
							}
						case ssa.CallInstruction:
							if c15CallCommutes(x) {
								continue
							}
							if cf := x.Common().StaticCallee(); cf != nil && core.InRepo(core.FuncPkg(cf)) {
								if w, _ := firstEffect(cf, 0, map[*ssa.Function]bool{}); w == nil {
									continue // pure
								}
								// validator recursion: table entry — accepted only if the list it feeds is sorted afterwards
								if !inRun {
									sortedNeeded = true
									continue
								}
							}
							if bad == "" {
								bad, pos = "a call of "+core.Rel(x.Common().String())+" with effects", core.InstrPos(bi)
							}
						}
					}
				}
				if bad == "" && sortedNeeded {
					sorted := callsSort(f, 0)
					if !sorted {
						bad, pos = "an append whose list is never sorted", core.InstrPos(rg)
					}
				}
				if bad != "" {
					c.Bad("R15d", key, pos, "the body of a range over a map performs "+bad+": the effect depends on Go's randomised map iteration order")
				} else {
					c.OK("R15d", key, core.InstrPos(rg), "loop body is order-insensitive (map updates, VM set/delete, pure calls, or appends sorted afterwards)")
				}
			}
		}
	}
	c.Floor("R15d", 4, "deepCopy, validateObject, execProgram and its deferred cleanup")
}

func c15CallCommutes(ci ssa.CallInstruction) bool {
	if b, ok := ci.Common().Value.(*ssa.Builtin); ok {
		switch b.Name() {
		case "append", "len", "cap", "delete":
			return true
		}
	}
	o := core.CalleeObj(ci)
	if o == nil || o.Pkg() == nil {
		return false
	}
	p, n := o.Pkg().Path(), core.FuncName(o)
	switch {
	case p == gojaPath && (n == "Runtime.Set" || n == "Object.Delete" || n == "Runtime.GlobalObject"):
		return true
	case p == "github.com/jf-tech/go-corelib/strs":
		return true
	case p == "fmt" && (n == "Sprintf" || n == "Errorf"):
		return true
	case (p == "strings" || p == "strconv") && !strings.Contains(n, "."):
		return true // package-level pure functions; methods (e.g. Builder.WriteString) are effects
	}
	return false
}

// callsSort: f or a static repository callee (depth <= 2) calls a sorting function of package sort.
func callsSort(f *ssa.Function, depth int) bool {
	if depth > 2 || f.Blocks == nil {
		return false
	}
	for _, ci := range core.Calls(f) {
		if o := core.CalleeObj(ci); o != nil && o.Pkg() != nil && o.Pkg().Path() == "sort" && (o.Name() == "Slice" || o.Name() == "SliceStable" || o.Name() == "Sort" || o.Name() == "Stable" || o.Name() == "Strings") {
			return true
		}
		if cf := ci.Common().StaticCallee(); cf != nil && cf != f && core.InRepo(core.FuncPkg(cf)) && !reachesStatic(cf, f, 0, map[*ssa.Function]bool{}) && callsSort(cf, depth+1) {
			return true
		}
	}
	return false
}

// c15LocalZone (R15i): time.Unix / UnixMilli / UnixMicro and time.Now return a Time in the process's LOCAL zone. At every
// zone-dependent sink in run-set library code (Format, AppendFormat, String, Marshal*, and the calendar accessors Date,
// Clock, Year, Month, Day, Hour, Minute, Weekday, YearDay, Zone) the receiver must not derive from such a call unless it
// passed through (Time).In(loc) or (Time).UTC() — otherwise the emitted text depends on TZ / /etc/localtime of the
// process. The derivation is followed backwards through phis, local variables, parameters (to all call sites), results
// of repository functions and of closures (VTA-resolved). Also no use of the time.Local variable / (Time).Local().
func c15LocalZone(c *core.Ctx, e *entrySets) {
	n := 0
	sinks := map[string]bool{"Time.Format": true, "Time.AppendFormat": true, "Time.String": true, "Time.GoString": true, "Time.MarshalJSON": true, "Time.MarshalText": true,
		"Time.Date": true, "Time.Clock": true, "Time.Year": true, "Time.Month": true, "Time.Day": true, "Time.Hour": true, "Time.Minute": true, "Time.Weekday": true, "Time.YearDay": true, "Time.Zone": true, "Time.ISOWeek": true}
	for _, f := range repoFuncsIn(e.run) {
		if core.IsCLIOrSample(core.FuncPkg(f)) {
			continue
		}
		for _, b := range f.Blocks {
			for _, in := range b.Instrs {
				for _, op := range in.Operands(nil) {
					if g, ok := (*op).(*ssa.Global); ok && g.Pkg.Pkg.Path() == "time" && g.Name() == "Local" {
						n++
						c.Bad("R15i", core.FuncKey(f)+" uses time.Local", core.InstrPos(in), "the process's local time zone is read on the transform path")
					}
				}
				ci, ok := in.(ssa.CallInstruction)
				if !ok {
					continue
				}
				o := core.CalleeObj(ci)
				if o == nil || o.Pkg() == nil || o.Pkg().Path() != "time" {
					continue
				}
				name := core.FuncName(o)
				if name == "Time.Local" {
					n++
					c.Bad("R15i", core.FuncKey(f)+" calls Time.Local", core.InstrPos(in), "a time is converted to the process's local zone")
					continue
				}
				if !sinks[name] {
					continue
				}
				n++
				key := core.FuncKey(f) + " zone at time." + name
				recv := ci.Common().Args[0]
				if src := c15LocalOrigin(c, recv, map[ssa.Value]bool{}, 0); src != "" {
					c.Bad("R15i", key, core.InstrPos(in), "the formatted time can be the raw result of "+src+" (process-local zone) without (Time).In(loc) or (Time).UTC() in between: the emitted text depends on the process's time zone")
				} else {
					c.OK("R15i", key, core.InstrPos(in), "every origin of the formatted time is zone-normalised or has an explicit zone")
				}
			}
		}
	}
	if n == 0 {
		c.Unresolved("R15i", "zone-dependent time sinks", "no Time.Format-like call found on the run path")
	}
	c.Floor("R15i", 1, "Time.Format in the RFC3339 formatter")
}

// c15LocalOrigin walks backwards from a time value; returns the name of a local-zone source that can reach it
// un-normalised, or "".
func c15LocalOrigin(c *core.Ctx, v ssa.Value, seen map[ssa.Value]bool, d int) string {
	if v == nil || seen[v] || d > 12 {
		return ""
	}
	seen[v] = true
	switch x := v.(type) {
	case *ssa.Call:
		o := core.CalleeObj(x)
		if o != nil && o.Pkg() != nil && o.Pkg().Path() == "time" {
			switch core.FuncName(o) {
			case "Time.In", "Time.UTC":
				return ""
			case "Unix", "UnixMilli", "UnixMicro", "Now":
				return "time." + core.FuncName(o)
			case "Time.Add", "Time.AddDate", "Time.Round", "Time.Truncate":
				return c15LocalOrigin(c, x.Call.Args[0], seen, d+1)
			}
			return ""
		}
		for _, cf := range c.Callees(x) {
			if cf.Blocks == nil || !core.InRepo(core.FuncPkg(cf)) {
				continue
			}
			for _, b := range cf.Blocks {
				for _, in := range b.Instrs {
					if rt, ok := in.(*ssa.Return); ok && len(rt.Results) == 1 {
						if s := c15LocalOrigin(c, rt.Results[0], seen, d+1); s != "" {
							return s
						}
					}
				}
			}
		}
	case *ssa.Extract:
		call, ok := x.Tuple.(*ssa.Call)
		if !ok {
			return ""
		}
		for _, cf := range c.Callees(call) {
			if cf.Blocks == nil || !core.InRepo(core.FuncPkg(cf)) {
				continue
			}
			for _, b := range cf.Blocks {
				for _, in := range b.Instrs {
					if rt, ok := in.(*ssa.Return); ok && x.Index < len(rt.Results) {
						if s := c15LocalOrigin(c, rt.Results[x.Index], seen, d+1); s != "" {
							return s
						}
					}
				}
			}
		}
	case *ssa.Phi:
		for _, e := range x.Edges {
			if s := c15LocalOrigin(c, e, seen, d+1); s != "" {
				return s
			}
		}
	case *ssa.UnOp:
		if x.Op == token.MUL {
			switch a := x.X.(type) {
			case *ssa.Alloc:
				for _, st := range storesToCell(a) {
					if s := c15LocalOrigin(c, st.Val, seen, d+1); s != "" {
						return s
					}
				}
			case *ssa.FreeVar:
				if b, ok := closureBinding(x.Parent(), a).(*ssa.Alloc); ok {
					for _, st := range storesToCell(b) {
						if s := c15LocalOrigin(c, st.Val, seen, d+1); s != "" {
							return s
						}
					}
				}
			}
		}
	case *ssa.Alloc:
		// address of a spilled local used as receiver
		for _, st := range storesToCell(x) {
			if s := c15LocalOrigin(c, st.Val, seen, d+1); s != "" {
				return s
			}
		}
	case *ssa.Parameter:
		fn := x.Parent()
		idx := -1
		for i, p := range fn.Params {
			if p == x {
				idx = i
			}
		}
		if node := c.CallGraph().Nodes[fn]; node != nil && idx >= 0 {
			for _, in := range node.In {
				args := in.Site.Common().Args
				if in.Site.Common().IsInvoke() {
					continue
				}
				if idx < len(args) {
					if s := c15LocalOrigin(c, args[idx], seen, d+1); s != "" {
						return s
					}
				}
			}
		}
	}
	return ""
}
