package rules

import (
	"fmt"
	"go/token"
	"go/types"
	"strings"

	"golang.org/x/tools/go/ssa"

	"omnilint/core"
)

// Aggregates held in package-level variables (maps, slices, pointers to plain data) are shared by every reader,
// transform and goroutine of the process. Reading them is fine (their writers are package initialisers, checked
// by c14Globals); what must not happen on the run path is
//   - mutation through the loaded reference (map update, element store, append into the backing array, delete, sort), or
//   - the reference escaping into per-instance state (a field, a map, a returned value that is stored), because every
//     later write through that state then lands in the one shared object: two instances alias one table.
//
// aggUse walks the uses of a value that refers to such shared memory and reports the first use that is neither a read
// nor a hand-over to code that only reads.

type aggWalker struct {
	c      *core.Ctx
	seen   map[ssa.Value]bool
	fields map[*types.Var]bool
	calls  int
}

func fieldVarOf(fa *ssa.FieldAddr) *types.Var {
	pt, ok := fa.X.Type().Underlying().(*types.Pointer)
	if !ok {
		return nil
	}
	st, ok := pt.Elem().Underlying().(*types.Struct)
	if !ok || fa.Field >= st.NumFields() {
		return nil
	}
	return st.Field(fa.Field)
}

var fieldAddrMemo = map[*ssa.Program]map[*types.Var][]*ssa.FieldAddr{}

// fieldAddrIndex: every FieldAddr instruction of the program (dependencies included), by field.
func fieldAddrIndex(c *core.Ctx) map[*types.Var][]*ssa.FieldAddr {
	prog := c.SSA()
	if m, ok := fieldAddrMemo[prog]; ok {
		return m
	}
	m := map[*types.Var][]*ssa.FieldAddr{}
	for f := range c.AllFunctions() {
		for _, b := range f.Blocks {
			for _, in := range b.Instrs {
				if fa, ok := in.(*ssa.FieldAddr); ok {
					if fv := fieldVarOf(fa); fv != nil {
						m[fv] = append(m[fv], fa)
					}
				}
			}
		}
	}
	fieldAddrMemo[prog] = m
	return m
}

// cell: a is the address of a variable (struct field) that may hold the shared reference. Assigning the variable is
// not a write to the shared object; reading it yields a value to follow.
func (w *aggWalker) cell(a ssa.Value, depth int) (string, token.Pos) {
	for _, in := range core.Referrers(a) {
		switch x := in.(type) {
		case *ssa.UnOp:
			if x.Op == token.MUL {
				if bad, p := w.sub(x, depth); bad != "" {
					return bad, p
				}
			}
		case *ssa.Store:
			if x.Addr == a {
				continue
			}
			return "the address of that field is stored", core.InstrPos(in)
		case *ssa.DebugRef:
		default:
			return fmt.Sprintf("the address of that field is used by %T", in), core.InstrPos(in)
		}
	}
	return "", 0
}

func isRefType(t types.Type) bool {
	switch u := t.Underlying().(type) {
	case *types.Map, *types.Slice, *types.Chan:
		return true
	case *types.Pointer:
		_ = u
		return true
	}
	return false
}

// externRefOK: pointer types whose methods are documented safe for concurrent use; they are not walked.
func externRefOK(t types.Type) bool {
	p, ok := t.Underlying().(*types.Pointer)
	if !ok {
		return false
	}
	n := core.NamedOf(p.Elem())
	if n == nil || n.Obj().Pkg() == nil {
		return false
	}
	switch n.Obj().Pkg().Path() + "." + n.Obj().Name() {
	case "regexp.Regexp", "sync.Pool", "sync.Mutex", "sync.RWMutex", "sync.Once", "sync.Map",
		"github.com/jf-tech/go-corelib/caches.LoadingCache", "time.Location", "math/big.Int":
		return true
	}
	return false
}

// readOnlyExtern: functions of other modules that only read the aggregates passed to them.
func readOnlyExtern(o *types.Func) bool {
	if o == nil || o.Pkg() == nil {
		return false
	}
	name := core.FuncName(o)
	switch o.Pkg().Path() {
	case "fmt", "errors", "strings", "unicode/utf8", "unicode", "strconv", "reflect", "encoding/json":
		return true
	case "bytes":
		return !strings.HasPrefix(name, "Buffer.")
	case "github.com/jf-tech/go-corelib/strs":
		return true
	case "sort":
		return strings.HasPrefix(name, "Search")
	}
	return false
}

func (w *aggWalker) use(v ssa.Value, depth int) (string, token.Pos) {
	if w.seen[v] {
		return "", 0
	}
	w.seen[v] = true
	if externRefOK(v.Type()) {
		return "", 0
	}
	for _, in := range core.Referrers(v) {
		if bad, pos := w.instr(v, in, depth); bad != "" {
			return bad, pos
		}
	}
	return "", 0
}

func (w *aggWalker) sub(v ssa.Value, depth int) (string, token.Pos) {
	if !isRefType(v.Type()) {
		if _, isIface := v.Type().Underlying().(*types.Interface); !isIface {
			return "", 0
		}
	}
	return w.use(v, depth)
}

func (w *aggWalker) instr(v ssa.Value, in ssa.Instruction, depth int) (string, token.Pos) {
	pos := core.InstrPos(in)
	switch x := in.(type) {
	case *ssa.UnOp:
		if x.Op == token.MUL {
			return w.sub(x, depth)
		}
		return "", 0
	case *ssa.FieldAddr, *ssa.IndexAddr:
		return w.use(x.(ssa.Value), depth)
	case *ssa.Field:
		return w.sub(x, depth)
	case *ssa.Lookup:
		if x.X == v {
			if x.CommaOk {
				for _, r := range core.Referrers(x) {
					if e, ok := r.(*ssa.Extract); ok && e.Index == 0 {
						if b, p := w.sub(e, depth); b != "" {
							return b, p
						}
					}
				}
				return "", 0
			}
			return w.sub(x, depth)
		}
		return "", 0 // used as the key of another map's lookup
	case *ssa.Index:
		if x.X == v {
			return w.sub(x, depth)
		}
		return "", 0
	case *ssa.Range:
		// keys/values obtained by ranging: follow reference-typed ones
		for _, r := range core.Referrers(x) {
			nx, ok := r.(*ssa.Next)
			if !ok {
				continue
			}
			for _, r2 := range core.Referrers(nx) {
				if e, ok := r2.(*ssa.Extract); ok && e.Index > 0 {
					if b, p := w.sub(e, depth); b != "" {
						return b, p
					}
				}
			}
		}
		return "", 0
	case *ssa.Slice:
		return w.use(x, depth)
	case *ssa.Phi:
		return w.use(x, depth)
	case *ssa.ChangeType:
		return w.use(x, depth)
	case *ssa.Convert:
		if isRefType(x.Type()) {
			return w.use(x, depth)
		}
		return "", 0 // e.g. []byte -> string copies
	case *ssa.BinOp, *ssa.If, *ssa.TypeAssert, *ssa.DebugRef:
		if ta, ok := in.(*ssa.TypeAssert); ok {
			if ta.CommaOk {
				for _, r := range core.Referrers(ta) {
					if e, ok := r.(*ssa.Extract); ok && e.Index == 0 {
						if b, p := w.sub(e, depth); b != "" {
							return b, p
						}
					}
				}
				return "", 0
			}
			return w.sub(ta, depth)
		}
		return "", 0
	case *ssa.MakeInterface:
		return w.use(x, depth)
	case *ssa.ChangeInterface:
		return w.use(x, depth)
	case *ssa.Extract:
		return w.sub(x, depth)
	case *ssa.Store:
		if x.Addr == v {
			switch v.(type) {
			case *ssa.Alloc, *ssa.FreeVar:
				return "", 0 // assignment to the local variable cell itself
			}
			return "is written through (" + x.String() + ")", pos
		}
		// the reference itself is stored somewhere
		if a, ok := x.Addr.(*ssa.Alloc); ok && !a.Heap {
			return w.use(a, depth) // local variable cell: follow its loads
		}
		if a, ok := x.Addr.(*ssa.Alloc); ok && a.Heap {
			// captured or escaping local variable: follow the cell
			return w.use(a, depth)
		}
		if fa, ok := x.Addr.(*ssa.FieldAddr); ok {
			// stored into a struct field: every read of that field, anywhere, may yield the shared reference
			if fv := fieldVarOf(fa); fv != nil {
				if w.fields[fv] {
					return "", 0
				}
				w.fields[fv] = true
				for _, fa2 := range fieldAddrIndex(w.c)[fv] {
					if bad, p := w.cell(fa2, depth); bad != "" {
						return "is stored into field " + fv.Name() + " (" + w.c.Position(pos) + ") and then " + bad, p
					}
				}
				return "", 0
			}
		}
		return "is stored into per-instance memory (" + x.String() + "): later writes through that memory land in the shared object", pos
	case *ssa.MapUpdate:
		if x.Map == v {
			return "is updated (" + x.String() + ")", pos
		}
		return "is stored into a map (" + x.String() + ")", pos
	case *ssa.Send:
		return "is sent on a channel", pos
	case *ssa.MakeClosure:
		fn, _ := x.Fn.(*ssa.Function)
		if fn == nil {
			return "is captured by an unresolved closure", pos
		}
		for i, b := range x.Bindings {
			if b == v && i < len(fn.FreeVars) {
				if bad, p := w.use(fn.FreeVars[i], depth+1); bad != "" {
					return bad, p
				}
			}
		}
		return "", 0
	case *ssa.Return:
		f := in.Parent()
		idx := -1
		for i, r := range x.Results {
			if r == v {
				idx = i
			}
		}
		if depth > 6 {
			return "is returned through more than 6 frames", pos
		}
		n := w.c.CallGraph().Nodes[f]
		if n == nil {
			return "", 0
		}
		for _, e := range n.In {
			if e.Site == nil {
				continue
			}
			cv := e.Site.Value()
			if cv == nil {
				if _, isDefer := e.Site.(*ssa.Defer); isDefer {
					continue
				}
				if _, isGo := e.Site.(*ssa.Go); isGo {
					continue
				}
				continue
			}
			if f.Signature.Results().Len() > 1 {
				for _, r := range core.Referrers(cv) {
					if ex, ok := r.(*ssa.Extract); ok && ex.Index == idx {
						if bad, p := w.sub(ex, depth+1); bad != "" {
							return bad, p
						}
					}
				}
			} else if bad, p := w.sub(cv, depth+1); bad != "" {
				return bad, p
			}
		}
		return "", 0
	case ssa.CallInstruction:
		return w.call(v, x, depth)
	}
	return fmt.Sprintf("is used by %T, which the read-only walker does not model", in), pos
}

func (w *aggWalker) call(v ssa.Value, ci ssa.CallInstruction, depth int) (string, token.Pos) {
	pos := core.InstrPos(ci)
	com := ci.Common()
	if b, ok := com.Value.(*ssa.Builtin); ok {
		switch b.Name() {
		case "len", "cap", "print", "println", "min", "max":
			return "", 0
		case "append":
			if len(com.Args) > 0 && com.Args[0] == v {
				return "is appended to (the shared backing array may be written)", pos
			}
			if _, isSlice := v.Type().Underlying().(*types.Slice); isSlice {
				if s, ok := v.Type().Underlying().(*types.Slice); ok && isRefType(s.Elem()) {
					if cv := ci.Value(); cv != nil {
						return w.use(cv, depth) // references copied into another slice
					}
				}
			}
			return "", 0
		case "copy":
			if len(com.Args) > 0 && com.Args[0] == v {
				return "is the destination of copy", pos
			}
			return "", 0
		case "delete", "clear":
			return "is modified by " + b.Name(), pos
		}
		return "is passed to builtin " + b.Name(), pos
	}
	// position(s) of v among receiver+args
	var args []ssa.Value
	if com.IsInvoke() {
		args = append([]ssa.Value{com.Value}, com.Args...)
	} else {
		args = com.Args
	}
	o := core.CalleeObj(ci)
	if readOnlyExtern(o) {
		return "", 0
	}
	callees := w.c.Callees(ci)
	if len(callees) == 0 {
		if com.Value == v && !com.IsInvoke() {
			return "", 0 // calling a function value held in the global: reads the variable only
		}
		return "is passed to " + com.String() + ", whose callees could not be resolved", pos
	}
	if depth > 6 {
		return "is passed down more than 6 frames", pos
	}
	w.calls++
	for _, callee := range callees {
		if callee.Blocks == nil {
			if readOnlyExtern(calleeFunc(callee)) {
				continue
			}
			return "is passed to " + core.FuncKey(callee) + " (no source: cannot show it only reads)", pos
		}
		if !core.InRepo(core.FuncPkg(callee)) {
			if readOnlyExtern(calleeFunc(callee)) {
				continue
			}
		}
		for i, a := range args {
			if a != v {
				continue
			}
			pi := i
			if pi >= len(callee.Params) {
				continue
			}
			if bad, p := w.use(callee.Params[pi], depth+1); bad != "" {
				return bad + " [via " + core.FuncKey(callee) + "]", p
			}
		}
	}
	return "", 0
}

// c14AggregateReadOnly: load is a read of package-level variable g inside run-set function f.
func c14AggregateReadOnly(c *core.Ctx, f *ssa.Function, load *ssa.UnOp, g *ssa.Global, rule string) {
	if !isRefType(load.Type()) || externRefOK(load.Type()) {
		return
	}
	w := &aggWalker{c: c, seen: map[ssa.Value]bool{}, fields: map[*types.Var]bool{}}
	key := core.FuncKey(f) + " shares aggregate in global " + g.Name()
	if bad, pos := w.use(load, 0); bad != "" {
		if pos == token.NoPos {
			pos = core.InstrPos(load)
		}
		c.Bad(rule, key, pos, "the "+load.Type().String()+" held in package-level variable "+g.Name()+" "+bad+": every reader/transform of the process shares this one object")
		return
	}
	c.OK(rule, key, core.InstrPos(load), fmt.Sprintf("all uses of the shared %s are reads (%d values followed, %d calls entered)", load.Type().String(), len(w.seen), w.calls))
}

func calleeFunc(f *ssa.Function) *types.Func {
	o, _ := f.Object().(*types.Func)
	return o
}
