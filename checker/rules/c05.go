package rules

import (
	"fmt"
	"go/constant"
	"go/token"
	"go/types"
	"sort"
	"strings"

	"golang.org/x/tools/go/ssa"

	"omnilint/core"
)

func init() {
	register(&RuleSet{
		Prop:  "C05",
		Title: "Hierarchical segment/record structure is matched greedily and completely",
		Explanation: "Hierarchical readers are resolved by role (struct types with Read() (*idr.Node, error) and a stack field []S where S holds an *idr.Node). " +
			"R05a.i every return of a literal io.EOF in their Read is dominated by an edge on which the unit source reported exhaustion (false edge of the `more` result of a (bool, error) source call, or true edge of `err == io.EOF` on a source call's error) and by an edge implying len(stack) <= 1; every return dominated by a stack-exhausted edge but not by an exhaustion edge returns only typed (fatal) errors; " +
			"R05a.ii every implementation of the (bool, error) unit-source method returns true, or len(buf) > 0 on its own line buffer, or false only together with a non-nil error; " +
			"R05a.iii the flags constant passed to go-corelib ios.NewScannerByDelim* contains ScannerByDelimFlagEofAsDelim (otherwise the split function discards a final unterminated token); " +
			"R05b the error of the matcher's advance function (method func() error of a hierarchical reader) is tested and returned at every call site, except discarded calls that are dominated by `occurred >= max` while every error return of the advance function is dominated by `occurred < min` on the same fields/accessors, which is a proof only if min <= max: for every declaration type behind those accessors a function reachable from the package's ValidateSchema (statically resolved calls; calls of function values - tables of validator method values - resolved through the VTA call graph) compares min() > max() on the same value and returns a non-nil error on that edge (or both accessors are constants with min <= max); " +
			"R05c the error-class analysis (A3, with IsErrX narrowing and the RecReader wiring of each package) shows that Read of every format reader built on a hierarchical reader returns only NIL, io.EOF or its own fatal type(s) (the types its IsContinuableError classifies non-continuable).",
		NotDecided: "that the greedy matcher agrees with the declarative meaning of min/max/group (which instance a unit is attached to, occurrence counting, completeness of a target) — a state-machine property over all hierarchies; that `more == false` / io.EOF from the unit source is truthful beyond R05a.ii/iii (buffer bookkeeping inside readLine, bufio.Scanner internals); units consumed twice.",
		Trusted:    append([]string{"bufio.Scanner discards, at end of input, data for which the split function returns (0, nil, nil) (the split function's own behaviour is re-derived from the go-corelib source on every run)"}, commonTrusted...),
		Run:        runC05,
	})
	control(Control{ID: "c05-eof-without-asking-source", Prop: "C05", File: "extensions/omniv21/fileformat/flatfile/hierarchyReader.go",
		Old: "\t\tmore, err := r.r.MoreUnprocessedData()\n", New: "\t\tif len(r.stack) <= 1 {\n\t\t\treturn nil, io.EOF\n\t\t}\n\t\tmore, err := r.r.MoreUnprocessedData()\n",
		Rule: "R05a.i", Substr: "HierarchyReader).Read", Why: "EOF reported from an exhausted declaration stack without consulting the unit source: remaining data silently dropped"})
	control(Control{ID: "c05-edi-eof-on-exhausted-stack", Prop: "C05", File: "extensions/omniv21/fileformat/edi/reader.go",
		Old: "\t\t\tif len(r.stack) <= 1 {\n\t\t\t\treturn nil, ErrInvalidEDI(r.fmtErrStr2(", New: "\t\t\tif len(r.stack) <= 1 {\n\t\t\t\treturn nil, io.EOF\n\t\t\t}\n\t\t\tif false {\n\t\t\t\treturn nil, ErrInvalidEDI(r.fmtErrStr2(",
		Rule: "R05a.i", Substr: "ediReader).Read", Why: "undeclared trailing segment ends the stream with EOF instead of an error"})
	control(Control{ID: "c05-more-false-with-buffer", Prop: "C05", File: "extensions/omniv21/fileformat/flatfile/fixedlength/reader.go",
		Old: "\treturn len(r.linesBuf) > 0, nil\n", New: "\treturn false, nil\n",
		Rule: "R05a.ii", Substr: "flatfile/fixedlength.reader).MoreUnprocessedData", Why: "a just-read last line is reported as 'no more data'"})
	control(Control{ID: "c05-scanner-flags-not-constant", Prop: "C05", File: "extensions/omniv21/fileformat/edi/reader2.go",
		Old: "releaseChar.b, scannerFlags, make(", New: "releaseChar.b, ios.ScannerByDelimFlag(len(lfBytes)-1), make(",
		Rule: "R05a.iii", Substr: "NewNonValidatingReader", Why: "scanner flags no longer a constant the rule can read"})
	control(Control{ID: "c05-recnext-error-dropped", Prop: "C05", File: "extensions/omniv21/fileformat/flatfile/hierarchyReader.go",
		Old: "\t\t\terr = r.recNext() // move onto the decl's next instance.\n\t\t\tif err != nil {\n\t\t\t\treturn nil, err\n\t\t\t}\n", New: "\t\t\t_ = r.recNext() // move onto the decl's next instance.\n",
		Rule: "R05b", Substr: "HierarchyReader).Read", Why: "unmet minimum ignored when the next unit does not match"})
	control(Control{ID: "c05-edi-min-max-unvalidated", Prop: "C05", File: "extensions/omniv21/fileformat/edi/validate.go",
		Old: "\tif segDecl.minOccurs() > segDecl.maxOccurs() {\n\t\treturn fmt.Errorf(\n\t\t\t\"segment '%s' has 'min' value %d > 'max' value %d\", segFQDN, segDecl.minOccurs(), segDecl.maxOccurs())\n\t}\n", New: "",
		Rule: "R05b", Substr: "edi.SegDecl", Why: "min > max accepted: segDone discards a segNext error that can now happen"})
	control(Control{ID: "c05-csv2-min-max-unvalidated", Prop: "C05", File: "extensions/omniv21/fileformat/flatfile/csv/validate.go",
		Old: "\tif decl.MinOccurs() > decl.MaxOccurs() {", New: "\tif decl.MinOccurs() > decl.MaxOccurs() && false {",
		Rule: "R05b", Substr: "flatfile/csv.RecordDecl", Why: "min > max validation disabled"})
	control(Control{ID: "c05-csv2-raw-unexpected-data", Prop: "C05", File: "extensions/omniv21/fileformat/flatfile/csv/reader.go",
		Old: "\t\treturn nil, ErrInvalidCSV(r.fmtErrStr(r.unprocessedLineNum(), \"unexpected data\"))", New: "\t\treturn nil, err",
		Rule: "R05c", Substr: "flatfile/csv.reader.Read", Why: "generic ErrUnexpectedData escapes unconverted (continuable for the csv2 reader)"})
}

type c05H struct {
	T       *types.Named
	Key     string
	Read    *ssa.Function
	stack   *types.Var
	entry   *types.Struct
	nextFns []*ssa.Function
}

type c05ctx struct {
	c  *core.Ctx
	r  *ecRoles
	e  *ecEngine
	hs []*c05H
}

func c05IsNodePtr(t types.Type, node *types.Named) bool {
	p, ok := t.(*types.Pointer)
	return ok && types.Identical(p.Elem(), node)
}

func (x *c05ctx) resolveHierarchical() {
	c, r := x.c, x.r
	for _, p := range c.Pkgs {
		if core.IsCLIOrSample(p.Types) {
			continue
		}
		sc := p.Types.Scope()
		for _, nm := range sc.Names() {
			tn, ok := sc.Lookup(nm).(*types.TypeName)
			if !ok || tn.IsAlias() {
				continue
			}
			n, ok := tn.Type().(*types.Named)
			if !ok {
				continue
			}
			st, ok := n.Underlying().(*types.Struct)
			if !ok {
				continue
			}
			var stacks []*types.Var
			var entry *types.Struct
			for i := 0; i < st.NumFields(); i++ {
				sl, ok := st.Field(i).Type().Underlying().(*types.Slice)
				if !ok {
					continue
				}
				es, ok := sl.Elem().Underlying().(*types.Struct)
				if !ok {
					continue
				}
				for j := 0; j < es.NumFields(); j++ {
					if c05IsNodePtr(es.Field(j).Type(), r.nodeT) {
						stacks = append(stacks, st.Field(i))
						entry = es
						break
					}
				}
			}
			if len(stacks) == 0 {
				continue
			}
			read := ecMethod(c, n, "Read")
			if read == nil || read.Blocks == nil {
				continue
			}
			res := read.Signature.Results()
			if read.Signature.Params().Len() != 0 || res.Len() != 2 || !c05IsNodePtr(res.At(0).Type(), r.nodeT) || !ecIsError(res.At(1).Type()) {
				continue
			}
			if len(stacks) != 1 {
				c.Unresolved("R05a.i", "stack field of "+ecTypeKey(n), fmt.Sprintf("%d candidate stack fields", len(stacks)))
				continue
			}
			h := &c05H{T: n, Key: ecTypeKey(n), Read: read, stack: stacks[0], entry: entry}
			// advance functions: methods func() error
			ms := c.Prog.MethodSets.MethodSet(types.NewPointer(n))
			for i := 0; i < ms.Len(); i++ {
				f, ok := ms.At(i).Obj().(*types.Func)
				if !ok {
					continue
				}
				sig := f.Type().(*types.Signature)
				if sig.Params().Len() == 0 && sig.Results().Len() == 1 && ecIsError(sig.Results().At(0).Type()) {
					if fn := c.Prog.FuncValue(f); fn != nil && fn.Blocks != nil {
						h.nextFns = append(h.nextFns, fn)
					}
				}
			}
			x.hs = append(x.hs, h)
		}
	}
	sort.Slice(x.hs, func(i, j int) bool { return x.hs[i].Key < x.hs[j].Key })
}

// ---- integer comparison facts

// c05LenOf: v is len(load(&recv.fld)) for a slice field; returns the field.
func c05LenOf(v ssa.Value) *types.Var {
	call, ok := v.(*ssa.Call)
	if !ok {
		return nil
	}
	b, ok := call.Call.Value.(*ssa.Builtin)
	if !ok || b.Name() != "len" || len(call.Call.Args) != 1 {
		return nil
	}
	ld, ok := call.Call.Args[0].(*ssa.UnOp)
	if !ok || ld.Op != token.MUL {
		return nil
	}
	fa, ok := ld.X.(*ssa.FieldAddr)
	if !ok {
		return nil
	}
	return core.FieldOfAddr(fa)
}

func c05IntConst(v ssa.Value) (int64, bool) {
	k, ok := v.(*ssa.Const)
	if !ok || k.Value == nil || k.Value.Kind() != constant.Int {
		return 0, false
	}
	return k.Int64(), true
}

func c05Flip(op token.Token) token.Token {
	switch op {
	case token.LSS:
		return token.GTR
	case token.LEQ:
		return token.GEQ
	case token.GTR:
		return token.LSS
	case token.GEQ:
		return token.LEQ
	}
	return op
}

func c05Negate(op token.Token) token.Token {
	switch op {
	case token.LSS:
		return token.GEQ
	case token.LEQ:
		return token.GTR
	case token.GTR:
		return token.LEQ
	case token.GEQ:
		return token.LSS
	case token.EQL:
		return token.NEQ
	case token.NEQ:
		return token.EQL
	}
	return op
}

// c05LenFact: the fact is `len(fld) op c` (normalised, polarity applied).
func c05LenFact(f ecFact) (fld *types.Var, op token.Token, k int64, ok bool) {
	if f.Kind != "cmp" || f.Bin == nil {
		return
	}
	op = f.Bin.Op
	if fl := c05LenOf(f.Bin.X); fl != nil {
		if kk, isC := c05IntConst(f.Bin.Y); isC {
			fld, k, ok = fl, kk, true
		}
	} else if fl := c05LenOf(f.Bin.Y); fl != nil {
		if kk, isC := c05IntConst(f.Bin.X); isC {
			fld, k, ok = fl, kk, true
			op = c05Flip(op)
		}
	}
	if !ok {
		return
	}
	if !f.Pos {
		op = c05Negate(op)
	}
	return
}

func c05StackExhausted(facts []ecFact, stack *types.Var) bool {
	for _, f := range facts {
		fld, op, k, ok := c05LenFact(f)
		if !ok || fld != stack {
			continue
		}
		switch {
		case op == token.LEQ && k <= 1, op == token.LSS && k <= 2, op == token.EQL && k <= 1:
			return true
		}
	}
	return false
}

// c05CallOf: the call whose result v is (directly, or through Extract).
func c05CallOf(v ssa.Value) *ssa.Call {
	switch y := v.(type) {
	case *ssa.Call:
		return y
	case *ssa.Extract:
		if call, ok := y.Tuple.(*ssa.Call); ok {
			return call
		}
	}
	return nil
}

func c05IsBoolErrSig(sig *types.Signature) bool {
	if sig.Results().Len() != 2 || !ecIsError(sig.Results().At(1).Type()) {
		return false
	}
	b, ok := sig.Results().At(0).Type().Underlying().(*types.Basic)
	return ok && b.Info()&types.IsBoolean != 0
}

// c05SourceExhausted: a dominating edge on which the unit source reported "no more".
func c05SourceExhausted(facts []ecFact) (bool, string) {
	for _, f := range facts {
		switch f.Kind {
		case "bool":
			if ex, ok := f.V.(*ssa.Extract); ok && !f.Pos && ex.Index == 0 {
				if call := c05CallOf(ex); call != nil && c05IsBoolErrSig(call.Call.Signature()) {
					return true, "`more` result of " + ecCalleeName(call) + " is false"
				}
			}
		case "eof":
			if call := c05CallOf(f.V); call != nil && f.Pos {
				return true, "error of " + ecCalleeName(call) + " == io.EOF"
			}
		}
	}
	return false, ""
}

func runC05(c *core.Ctx) {
	r := ecResolve(c, "R05")
	if !r.ok {
		return
	}
	x := &c05ctx{c: c, r: r, e: ecNewEngine(r)}
	x.resolveHierarchical()
	if len(x.hs) < 2 {
		c.Unresolved("R05a.i", "hierarchical readers", fmt.Sprintf("expected 2 (flat-file hierarchy reader, EDI reader), found %d", len(x.hs)))
	}
	x.ruleEOF()
	c.Floor("R05a.i", 4, "2 literal io.EOF returns + 2 stack-exhausted-with-data returns")
	x.ruleMore()
	c.Floor("R05a.ii", 6, "returns of the 2 MoreUnprocessedData implementations")
	x.ruleScannerFlags()
	c.Floor("R05a.iii", 2, "ios.NewScannerByDelim* call in the EDI reader + premise derived from the split function")
	x.ruleNext()
	c.Floor("R05b", 9, "4 checked + 2 exempt call sites, 3 validated declaration types (+ constant root declaration)")
	x.ruleClasses()
	c.Floor("R05c", 3, "csv2, fixedlength2, edi")
	c05Extra(c)
}

// ---------------------------------------------------------------- R05a.i

func (x *c05ctx) ruleEOF() {
	c, e := x.c, x.e
	for _, h := range x.hs {
		key := core.FuncKey(h.Read)
		nEOF := 0
		for _, rt := range ecReturns(h.Read) {
			rv := rt.Results[1]
			var pts []ecPoint
			if e.isEOFLoad(rv) {
				pts = append(pts, ecPointOf(rt))
			} else if phi, ok := rv.(*ssa.Phi); ok {
				for i, ed := range phi.Edges {
					if e.isEOFLoad(ed) {
						pts = append(pts, ecPoint{B: phi.Block().Preds[i], Succ: phi.Block()})
					}
				}
			}
			for _, pt := range pts {
				nEOF++
				facts := e.factsAt(pt)
				exh, how := c05SourceExhausted(facts)
				done := c05StackExhausted(facts, h.stack)
				switch {
				case exh && done:
					c.OK("R05a.i", key+" returns io.EOF", core.InstrPos(rt), "dominated by: "+how+"; len("+h.stack.Name()+") <= 1")
				case !exh:
					c.Bad("R05a.i", key+" returns io.EOF", core.InstrPos(rt), "io.EOF is returned on a path on which the unit source has not reported exhaustion: unread input units would be dropped silently")
				default:
					c.Bad("R05a.i", key+" returns io.EOF", core.InstrPos(rt), "io.EOF is returned while the declaration stack may still hold unfinished declarations (no dominating len("+h.stack.Name()+") <= 1 edge): unmet minimums would go unreported")
				}
			}
			// data left, stack exhausted
			facts := e.factsAt(ecPointOf(rt))
			if exh, _ := c05SourceExhausted(facts); !exh && c05StackExhausted(facts, h.stack) {
				cls := e.classAt(rv, ecPointOf(rt))
				allFatal := len(cls) > 0
				for el := range cls {
					if el.Kind != ecFATAL {
						allFatal = false
					}
				}
				c.Check(allFatal, "R05a.i", key+" data left with exhausted stack", core.InstrPos(rt),
					"returns a typed error "+cls.String(),
					"with unprocessed data and an exhausted declaration stack the reader must fail with a typed error; it returns "+cls.String())
			}
		}
		// helpers: static repository callees whose error result Read returns (EOF / leftover-data decisions that were
		// extracted into a method); facts of the helper's return and of the call site / caller return are combined.
		x.helperLeaves(h.Read, func(lf c05Leaf) {
			inner := lf.via[len(lf.via)-1]
			exh, how := c05SourceExhausted(lf.facts)
			done := c05StackExhausted(lf.facts, h.stack)
			if e.isEOFLoad(lf.val) {
				if !lf.mayEOF {
					return // the caller only returns this result on a path where it is not io.EOF
				}
				nEOF++
				k := key + " returns io.EOF via " + core.FuncKey(inner)
				switch {
				case exh && done:
					c.OK("R05a.i", k, core.InstrPos(lf.rt), "dominated (helper return + call site) by: "+how+"; len("+h.stack.Name()+") <= 1")
				case !exh:
					c.Bad("R05a.i", k, core.InstrPos(lf.rt), "io.EOF is returned on a path on which the unit source has not reported exhaustion: unread input units would be dropped silently")
				default:
					c.Bad("R05a.i", k, core.InstrPos(lf.rt), "io.EOF is returned while the declaration stack may still hold unfinished declarations (no dominating len("+h.stack.Name()+") <= 1 edge): unmet minimums would go unreported")
				}
				return
			}
			if !exh && done && c05StackExhausted(lf.local, h.stack) {
				cls := ecSet{}
				for el := range e.classAt(lf.val, lf.pt) {
					if el.Kind == ecNIL && lf.nonNil {
						continue
					}
					cls[el] = true
				}
				if len(cls) == 0 {
					return
				}
				allFatal := true
				for el := range cls {
					if el.Kind != ecFATAL {
						allFatal = false
					}
				}
				c.Check(allFatal, "R05a.i", key+" data left with exhausted stack via "+core.FuncKey(inner), core.InstrPos(lf.rt),
					"returns a typed error "+cls.String(),
					"with unprocessed data and an exhausted declaration stack the reader must fail with a typed error; it returns "+cls.String())
			}
		})
		if nEOF == 0 {
			c.Bad("R05a.i", key+" returns io.EOF", h.Read.Pos(), "the hierarchical reader has no return of io.EOF of its own: the end-of-input protocol the rule checks is gone")
		}
	}
}

// c05Leaf is a returned value of a helper whose error result the hierarchical Read hands to its caller.
type c05Leaf struct {
	rt     *ssa.Return
	pt     ecPoint
	val    ssa.Value
	local  []ecFact // facts at the helper's return
	facts  []ecFact // local facts + facts at every call site / caller return on the chain
	nonNil bool     // the chain only returns the value when it is non-nil
	mayEOF bool     // the chain can return the value when it is io.EOF
	via    []*ssa.Function
}

type c05Src struct {
	v  ssa.Value
	pt ecPoint
}

// c05Sources expands a returned value through phi-nodes into (value, program point) pairs.
func c05Sources(v ssa.Value, pt ecPoint, seen map[ssa.Value]bool, out *[]c05Src) {
	if seen[v] {
		return
	}
	seen[v] = true
	if phi, ok := v.(*ssa.Phi); ok {
		for i, ed := range phi.Edges {
			c05Sources(ed, ecPoint{B: phi.Block().Preds[i], Succ: phi.Block()}, seen, out)
		}
		return
	}
	*out = append(*out, c05Src{ecUnwrapIface(v), pt})
}

func c05HasNonNil(facts []ecFact, v ssa.Value) bool {
	for _, f := range facts {
		if f.Kind == "nil" && !f.Pos && f.V == ecUnwrapIface(v) {
			return true
		}
	}
	return false
}

// helperLeaves visits the returns of the static repository callees (transitively, depth 3) whose error result is
// returned by top. Facts of a helper that speak about one of its parameters are translated to the call's argument,
// so a helper that receives the unit source's `more` / error value keeps the exhaustion evidence.
func (x *c05ctx) helperLeaves(top *ssa.Function, visit func(c05Leaf)) {
	e := x.e
	type subst func([]ecFact) []ecFact
	ident := func(f []ecFact) []ecFact { return f }
	mkSubst := func(g *ssa.Function, call *ssa.Call, outer subst) subst {
		return func(fs []ecFact) []ecFact {
			out := make([]ecFact, 0, len(fs))
			for _, f := range fs {
				if prm, ok := f.V.(*ssa.Parameter); ok && prm.Parent() == g {
					for i, q := range g.Params {
						if q == prm && i < len(call.Call.Args) {
							f.V = ecUnwrapIface(call.Call.Args[i])
						}
					}
				}
				out = append(out, f)
			}
			return outer(out)
		}
	}
	var descend func(g *ssa.Function, idx int, sb subst, outer []ecFact, nonNil, mayEOF bool, via []*ssa.Function)
	follow := func(sb subst, src c05Src, outer []ecFact, nonNil, mayEOF bool, via []*ssa.Function) {
		call := c05CallOf(src.v)
		if call == nil || call.Call.IsInvoke() {
			return
		}
		g := call.Call.StaticCallee()
		if g == nil || g.Blocks == nil || !core.InRepo(core.FuncPkg(g)) || len(via) >= 3 {
			return
		}
		for _, w := range via {
			if w == g {
				return
			}
		}
		idx := 0
		if ex, ok := src.v.(*ssa.Extract); ok {
			idx = ex.Index
		}
		if idx >= g.Signature.Results().Len() || !ecIsError(g.Signature.Results().At(idx).Type()) {
			return
		}
		here := append(append([]ecFact{}, e.factsAt(src.pt)...), e.factsAt(ecPointOf(call))...)
		facts := append(append([]ecFact{}, outer...), sb(here)...)
		cls := e.classAt(src.v, src.pt)
		descend(g, idx, mkSubst(g, call, sb), facts, nonNil || c05HasNonNil(here, src.v), mayEOF && (cls.has(ecEOF) || cls.has(ecTOP)), append(append([]*ssa.Function{}, via...), g))
	}
	descend = func(g *ssa.Function, idx int, sb subst, outer []ecFact, nonNil, mayEOF bool, via []*ssa.Function) {
		for _, rt := range ecReturns(g) {
			if idx >= len(rt.Results) {
				continue
			}
			var srcs []c05Src
			c05Sources(rt.Results[idx], ecPointOf(rt), map[ssa.Value]bool{}, &srcs)
			for _, s := range srcs {
				local := e.factsAt(s.pt)
				visit(c05Leaf{rt: rt, pt: s.pt, val: s.v, local: local, facts: append(sb(local), outer...),
					nonNil: nonNil, mayEOF: mayEOF, via: via})
				follow(sb, s, outer, nonNil, mayEOF, via)
			}
		}
	}
	idxs := ecErrResultIdx(top.Signature)
	for _, rt := range ecReturns(top) {
		for _, i := range idxs {
			if i >= len(rt.Results) {
				continue
			}
			var srcs []c05Src
			c05Sources(rt.Results[i], ecPointOf(rt), map[ssa.Value]bool{}, &srcs)
			for _, s := range srcs {
				follow(ident, s, nil, false, true, nil)
			}
		}
	}
}

// ---------------------------------------------------------------- R05a.ii

func (x *c05ctx) ruleMore() {
	c, e := x.c, x.e
	// unit-source interfaces: interface methods with signature () (bool, error) invoked in a hierarchical Read
	seen := map[*types.Func]bool{}
	var methods []*types.Func
	for _, h := range x.hs {
		for _, fn := range x.readClosure(h) {
			for _, ci := range core.Calls(fn) {
				cc := ci.Common()
				if !c05IsBoolErrSig(cc.Signature()) || cc.Signature().Params().Len() != 0 {
					continue
				}
				m, recv := c05IfaceCall(cc)
				if m == nil || seen[m] {
					continue
				}
				if fn != h.Read {
					// in a helper of Read the unit source must be the reader's own interface-typed field
					fld, _ := c05FieldLoad(recv)
					if fld == nil || !c05FieldOf(h.T, fld) {
						continue
					}
				}
				seen[m] = true
				methods = append(methods, m)
			}
		}
	}
	if len(methods) == 0 {
		c.Unresolved("R05a.ii", "unit-source method", "no interface method () (bool, error) is invoked by a hierarchical reader's Read or by the same-package functions it calls")
		return
	}
	for _, m := range methods {
		in := core.NamedOf(m.Type().(*types.Signature).Recv().Type())
		if in == nil {
			c.Unresolved("R05a.ii", "interface of "+m.Name(), "unnamed interface")
			continue
		}
		impls := ecImplementors(c, in, false)
		if len(impls) == 0 {
			c.Unresolved("R05a.ii", "implementations of "+ecFuncName(m), "none in the repository")
		}
		for _, n := range impls {
			fn := ecMethod(c, n, m.Name())
			if fn == nil || fn.Blocks == nil {
				c.Unresolved("R05a.ii", ecTypeKey(n)+"."+m.Name(), "no body")
				continue
			}
			key := core.FuncKey(fn)
			// the line buffer: the unique receiver slice field measured with len() in this function or in the
			// boolean helpers of the repository it returns
			bufs := map[*types.Var]bool{}
			c05LenFields(fn, bufs)
			for _, rt := range ecReturns(fn) {
				if call, ok := rt.Results[0].(*ssa.Call); ok {
					if g := call.Call.StaticCallee(); g != nil && g.Blocks != nil && core.InRepo(core.FuncPkg(g)) {
						c05LenFields(g, bufs)
					}
				}
			}
			if len(bufs) != 1 {
				c.Unknown("R05a.ii", key, fn.Pos(), fmt.Sprintf("cannot identify the line buffer: %d slice fields are measured", len(bufs)))
				continue
			}
			var buf *types.Var
			for f := range bufs {
				buf = f
			}
			for _, rt := range ecReturns(fn) {
				r0 := rt.Results[0]
				k := key + " returns more"
				switch c05MoreExpr(r0, buf, 0) {
				case "true":
					c.OK("R05a.ii", k, core.InstrPos(rt), "true")
				case "nonempty":
					c.OK("R05a.ii", k, core.InstrPos(rt), "len("+buf.Name()+") > 0")
				case "false":
					cls := e.classAt(rt.Results[1], ecPointOf(rt))
					c.Check(len(cls) > 0 && !cls.has(ecNIL) && !cls.has(ecTOP), "R05a.ii", k, core.InstrPos(rt), "false only together with a non-nil error "+cls.String(),
						"returns (false, nil-able error "+cls.String()+") without looking at the line buffer: buffered lines would be reported as 'no more data' and dropped")
				default:
					c.Unknown("R05a.ii", k, core.InstrPos(rt), "the `more` result is neither a constant nor len("+buf.Name()+") > 0")
				}
			}
		}
	}
}

// readClosure: Read and the same-package repository functions it statically calls (depth 3), in deterministic order.
func (x *c05ctx) readClosure(h *c05H) []*ssa.Function {
	seen := map[*ssa.Function]bool{h.Read: true}
	out := []*ssa.Function{h.Read}
	level := []*ssa.Function{h.Read}
	for d := 0; d < 3; d++ {
		var next []*ssa.Function
		for _, f := range level {
			var cs []*ssa.Function
			for _, ci := range core.Calls(f) {
				g := ci.Common().StaticCallee()
				if g == nil || g.Blocks == nil || seen[g] || core.FuncPkg(g) != core.FuncPkg(h.Read) {
					continue
				}
				seen[g] = true
				cs = append(cs, g)
			}
			sort.Slice(cs, func(i, j int) bool { return core.FuncKey(cs[i]) < core.FuncKey(cs[j]) })
			next = append(next, cs...)
		}
		out = append(out, next...)
		level = next
	}
	return out
}

// c05IfaceCall: the interface method (keyed by the interface type the receiver value originally had) and the
// receiver of a dynamic dispatch: a direct invoke, or a call of a bound-method value of an interface method
// (`more := r.r.MoreUnprocessedData; more()`).
func c05IfaceCall(cc *ssa.CallCommon) (*types.Func, ssa.Value) {
	if cc.IsInvoke() {
		return ecOriginMethod(cc), cc.Value
	}
	mc, ok := cc.Value.(*ssa.MakeClosure)
	if !ok || len(mc.Bindings) != 1 {
		return nil, nil
	}
	fn, ok := mc.Fn.(*ssa.Function)
	if !ok || fn.Synthetic == "" {
		return nil, nil
	}
	obj, ok := fn.Object().(*types.Func)
	if !ok {
		return nil, nil
	}
	sig := obj.Type().(*types.Signature)
	if sig.Recv() == nil {
		return nil, nil
	}
	if _, isI := sig.Recv().Type().Underlying().(*types.Interface); !isI {
		return nil, nil
	}
	o := ecUnwrapIface(mc.Bindings[0])
	if it, ok := o.Type().Underlying().(*types.Interface); ok {
		for i := 0; i < it.NumMethods(); i++ {
			if m := it.Method(i); m.Name() == obj.Name() && (m.Exported() || m.Pkg() == obj.Pkg()) {
				return m, mc.Bindings[0]
			}
		}
	}
	return obj, mc.Bindings[0]
}

func c05FieldOf(n *types.Named, fld *types.Var) bool {
	st, ok := n.Underlying().(*types.Struct)
	if !ok {
		return false
	}
	for i := 0; i < st.NumFields(); i++ {
		if st.Field(i) == fld {
			return true
		}
	}
	return false
}

func c05LenFields(fn *ssa.Function, out map[*types.Var]bool) {
	for _, b := range fn.Blocks {
		for _, in := range b.Instrs {
			if v, ok := in.(ssa.Value); ok {
				if f := c05LenOf(v); f != nil {
					out[f] = true
				}
			}
		}
	}
}

// c05MoreExpr classifies a `more` result: "true", "false", "nonempty" (true iff len(buf) > 0, possibly computed by a
// boolean helper all of whose returns are true/nonempty), or "" (unknown).
func c05MoreExpr(v ssa.Value, buf *types.Var, depth int) string {
	switch y := v.(type) {
	case *ssa.Const:
		if y.Value != nil && y.Value.Kind() == constant.Bool {
			if constant.BoolVal(y.Value) {
				return "true"
			}
			return "false"
		}
	case *ssa.BinOp:
		fld, op, kk, ok := c05LenFact(ecFact{Kind: "cmp", Bin: y, Pos: true})
		if ok && fld == buf && ((op == token.GTR && kk == 0) || (op == token.GEQ && kk == 1) || (op == token.NEQ && kk == 0)) {
			return "nonempty"
		}
	case *ssa.UnOp:
		if y.Op == token.NOT {
			if bo, ok := y.X.(*ssa.BinOp); ok {
				fld, op, kk, ok := c05LenFact(ecFact{Kind: "cmp", Bin: bo, Pos: false})
				if ok && fld == buf && ((op == token.GTR && kk == 0) || (op == token.GEQ && kk == 1) || (op == token.NEQ && kk == 0)) {
					return "nonempty"
				}
			}
		}
	case *ssa.Call:
		g := y.Call.StaticCallee()
		if g == nil || g.Blocks == nil || !core.InRepo(core.FuncPkg(g)) || depth > 1 || g.Signature.Results().Len() != 1 {
			return ""
		}
		res := ""
		for _, rt := range ecReturns(g) {
			switch c05MoreExpr(rt.Results[0], buf, depth+1) {
			case "true":
				if res == "" {
					res = "true"
				}
			case "nonempty":
				res = "nonempty"
			default:
				return ""
			}
		}
		return res
	}
	return ""
}

// ---------------------------------------------------------------- R05a.iii

func (x *c05ctx) ruleScannerFlags() {
	c := x.c
	const iosPath = "github.com/jf-tech/go-corelib/ios"
	ip := c.AnyPkg(iosPath)
	if ip == nil {
		c.Unresolved("R05a.iii", "package go-corelib/ios", "not loaded")
		return
	}
	flagConst, _ := ip.Types.Scope().Lookup("ScannerByDelimFlagEofAsDelim").(*types.Const)
	if flagConst == nil {
		c.Unresolved("R05a.iii", "ios.ScannerByDelimFlagEofAsDelim", "constant not found")
		return
	}
	bit, _ := constant.Int64Val(flagConst.Val())
	premised := map[*ssa.Function]bool{}
	callers := h4CallersIndex(c)
	for _, fn := range x.c.RepoFunctions() {
		p := core.FuncPkg(fn)
		if p == nil || core.IsCLIOrSample(p) {
			continue
		}
		for _, ci := range core.Calls(fn) {
			o := core.CalleeObj(ci)
			if o == nil || o.Pkg() == nil || o.Pkg().Path() != iosPath || !strings.HasPrefix(o.Name(), "NewScannerByDelim") {
				continue
			}
			// the obligation belongs to the function that puts the scanner to use (a helper that only returns it hands
			// the role to its callers); a flags argument that is a parameter is followed to the call sites
			sig := o.Type().(*types.Signature)
			for _, owner := range h4Owners(ci, callers) {
				key := core.FuncKey(owner) + " " + ecFuncName(o) + " flags"
				found := false
				for i := 0; i < sig.Params().Len(); i++ {
					if !types.Identical(sig.Params().At(i).Type(), flagConst.Type()) || i >= len(ci.Common().Args) {
						continue
					}
					found = true
					vals, ok := h4IntConsts(ci.Common().Args[i], callers)
					var lacking *int64
					for k := range vals {
						if vals[k]&bit == 0 {
							lacking = &vals[k]
						}
					}
					switch {
					case !ok:
						c.Unknown("R05a.iii", key, core.InstrPos(ci), "scanner flags are not a compile-time constant")
					case lacking != nil:
						c.Bad("R05a.iii", key, core.InstrPos(ci), fmt.Sprintf("flags = %d do not contain ScannerByDelimFlagEofAsDelim (%d): the split function returns (0, nil, nil) for a final token without delimiter, so a trailing unterminated segment is dropped and Read reports io.EOF", *lacking, bit))
					default:
						c.OK("R05a.iii", key, core.InstrPos(ci), "flags contain EofAsDelim")
					}
				}
				if !found {
					c.Unknown("R05a.iii", key, core.InstrPos(ci), "no parameter of type ScannerByDelimFlag")
				}
			}
			if f := ci.Common().StaticCallee(); f != nil && !premised[f] {
				premised[f] = true
				x.scannerPremise(f, bit)
			}
		}
	}
}

// scannerPremise re-derives from the dependency's source what R05a.iii relies on: in the split function installed
// by the scanner constructor, a non-nil token is returned only when a delimiter was found or under the captured
// variable that is bound to `flags & EofAsDelim != 0`.
func (x *c05ctx) scannerPremise(ctor *ssa.Function, bit int64) {
	c, e := x.c, x.e
	key := ecFuncName(ecCalleeObj(ctor)) + " split function keeps a final token only under EofAsDelim"
	// find the closure with signature (data []byte, atEOF bool) (int, []byte, error), following static calls
	var mc *ssa.MakeClosure
	seen := map[*ssa.Function]bool{}
	var find func(f *ssa.Function, depth int)
	find = func(f *ssa.Function, depth int) {
		if f == nil || f.Blocks == nil || seen[f] || depth > 3 || mc != nil {
			return
		}
		seen[f] = true
		for _, b := range f.Blocks {
			for _, in := range b.Instrs {
				switch y := in.(type) {
				case *ssa.MakeClosure:
					sig := y.Fn.(*ssa.Function).Signature
					if sig.Params().Len() == 2 && sig.Results().Len() == 3 && ecIsError(sig.Results().At(2).Type()) {
						if _, ok := sig.Results().At(1).Type().Underlying().(*types.Slice); ok && mc == nil {
							mc = y
						}
					}
				case ssa.CallInstruction:
					if g := y.Common().StaticCallee(); g != nil && core.FuncPkg(g) == core.FuncPkg(ctor) {
						find(g, depth+1)
					}
				}
			}
		}
	}
	find(ctor, 0)
	if mc == nil {
		c.Unknown("R05a.iii", key, ctor.Pos(), "split closure not found in the scanner constructor")
		return
	}
	split := mc.Fn.(*ssa.Function)
	flagVar := func(fv *ssa.FreeVar) bool {
		for i, q := range split.FreeVars {
			if q != fv || i >= len(mc.Bindings) {
				continue
			}
			al, ok := mc.Bindings[i].(*ssa.Alloc)
			if !ok {
				return false
			}
			n, good := 0, true
			for _, u := range core.Referrers(al) {
				st, ok := u.(*ssa.Store)
				if !ok || st.Addr != ssa.Value(al) {
					continue
				}
				n++
				ne, ok := st.Val.(*ssa.BinOp)
				if !ok || ne.Op != token.NEQ {
					good = false
					continue
				}
				and, ok := ne.X.(*ssa.BinOp)
				z, zok := c05IntConst(ne.Y)
				if !ok || and.Op != token.AND || !zok || z != 0 {
					good = false
					continue
				}
				m1, ok1 := c05IntConst(and.X)
				m2, ok2 := c05IntConst(and.Y)
				if !((ok1 && m1 == bit) || (ok2 && m2 == bit)) {
					good = false
				}
			}
			return good && n == 1
		}
		return false
	}
	nTok, nFlag := 0, 0
	for _, rt := range ecReturns(split) {
		if core.IsNilConst(rt.Results[1]) {
			continue
		}
		nTok++
		delimFound, underFlag := false, false
		for _, f := range e.factsAt(ecPointOf(rt)) {
			switch f.Kind {
			case "cmp":
				call, ok := f.Bin.X.(*ssa.Call)
				k, kok := c05IntConst(f.Bin.Y)
				op := f.Bin.Op
				if !f.Pos {
					op = c05Negate(op)
				}
				if ok && kok && call.Call.StaticCallee() != nil && strings.Contains(call.Call.StaticCallee().Name(), "Index") &&
					((op == token.GEQ && k == 0) || (op == token.GTR && k == -1)) {
					delimFound = true
				}
			case "bool":
				if ld, ok := f.V.(*ssa.UnOp); ok && ld.Op == token.MUL && f.Pos {
					if fv, ok := ld.X.(*ssa.FreeVar); ok && flagVar(fv) {
						underFlag = true
					}
				}
			}
		}
		switch {
		case delimFound:
		case underFlag:
			nFlag++
		default:
			c.Unknown("R05a.iii", key, core.InstrPos(rt), "a token is returned on a path that is neither 'delimiter found' nor guarded by the EofAsDelim flag: the premise of the rule cannot be derived")
			return
		}
	}
	c.Check(nTok >= 2 && nFlag >= 1, "R05a.iii", key, split.Pos(),
		"derived from the dependency source: every token return is dominated by 'delimiter found' or by the variable bound to flags&EofAsDelim != 0",
		"the split function has no token return guarded by the EofAsDelim flag: the premise of the rule no longer matches the dependency")
}

// ---------------------------------------------------------------- R05b

// c05OccFact: the fact is `load(&e.occ) op call()` — normalised with the field load on the left.
type c05Occ struct {
	occ   *types.Var
	base  ssa.Value // the stack-entry pointer the field is read from
	op    token.Token
	call  *ssa.Call
	recvF *types.Var // field the accessor's receiver is loaded from
	recvB ssa.Value
}

func c05FieldLoad(v ssa.Value) (*types.Var, ssa.Value) {
	ld, ok := ecUnwrapIface(v).(*ssa.UnOp)
	if !ok || ld.Op != token.MUL {
		return nil, nil
	}
	fa, ok := ld.X.(*ssa.FieldAddr)
	if !ok {
		return nil, nil
	}
	return core.FieldOfAddr(fa), fa.X
}

func c05OccFact(f ecFact) (c05Occ, bool) {
	var o c05Occ
	if f.Kind != "cmp" || f.Bin == nil {
		return o, false
	}
	op := f.Bin.Op
	l, r := f.Bin.X, f.Bin.Y
	if _, isCall := l.(*ssa.Call); isCall {
		l, r = r, l
		op = c05Flip(op)
	}
	fld, base := c05FieldLoad(l)
	call, ok := r.(*ssa.Call)
	if fld == nil || !ok {
		return o, false
	}
	if b, ok := fld.Type().Underlying().(*types.Basic); !ok || b.Info()&types.IsInteger == 0 {
		return o, false
	}
	var recv ssa.Value
	if call.Call.IsInvoke() {
		recv = call.Call.Value
	} else if len(call.Call.Args) == 1 && call.Call.StaticCallee() != nil {
		recv = call.Call.Args[0]
	} else {
		return o, false
	}
	rf, rb := c05FieldLoad(recv)
	if rf == nil {
		return o, false
	}
	if !f.Pos {
		op = c05Negate(op)
	}
	return c05Occ{occ: fld, base: base, op: op, call: call, recvF: rf, recvB: rb}, true
}

func (x *c05ctx) ruleNext() {
	c, e := x.c, x.e
	type accessorPair struct {
		min, max *ssa.Call
		site     ssa.Instruction
		fn       *ssa.Function
	}
	var pairs []accessorPair
	for _, h := range x.hs {
		if len(h.nextFns) == 0 {
			c.Unresolved("R05b", "advance function of "+h.Key, "no method func() error")
		}
		for _, next := range h.nextFns {
			// guard of the error returns of next: occurred < min
			var minFact *c05Occ
			guarded := true
			for _, rt := range ecReturns(next) {
				cls := e.classAt(rt.Results[0], ecPointOf(rt))
				if len(cls) == 1 && cls.has(ecNIL) {
					continue
				}
				found := false
				for _, f := range e.factsAt(ecPointOf(rt)) {
					if of, ok := c05OccFact(f); ok && of.op == token.LSS && of.base == of.recvB {
						o := of
						if minFact == nil {
							minFact = &o
						}
						if minFact.occ == of.occ && minFact.recvF == of.recvF {
							found = true
						}
					}
				}
				if !found {
					guarded = false
				}
			}
			for _, fn := range c.RepoFunctions() {
				for _, ci := range core.Calls(fn) {
					if ci.Common().StaticCallee() != next {
						continue
					}
					call, isCall := ci.(*ssa.Call)
					key := core.FuncKey(fn) + " calls " + core.FuncKey(next)
					if !isCall {
						c.Unknown("R05b", key, core.InstrPos(ci), "deferred / go call")
						continue
					}
					if len(ecUsesThroughPhi(call)) > 0 {
						ok, how := x.resultChecked(fn, call, 0)
						c.Check(ok, "R05b", key, core.InstrPos(call), how,
							"the matcher's error (unmet minimum) is not tested and returned at this call site ("+how+")")
						continue
					}
					// discarded: exemption proof
					var maxFact *c05Occ
					for _, f := range e.factsAt(ecPointOf(call)) {
						if of, ok := c05OccFact(f); ok && (of.op == token.GEQ || of.op == token.GTR) && of.base == of.recvB {
							o := of
							maxFact = &o
						}
					}
					switch {
					case maxFact == nil:
						c.Bad("R05b", key, core.InstrPos(call), "the matcher's error is discarded at a site that is not dominated by `occurred >= max`: an unmet minimum would go unreported")
					case minFact == nil || !guarded:
						c.Bad("R05b", key, core.InstrPos(call), "the matcher's error is discarded, but not every error return of "+core.FuncKey(next)+" is guarded by `occurred < min`")
					case minFact.occ != maxFact.occ || minFact.recvF != maxFact.recvF:
						c.Bad("R05b", key, core.InstrPos(call), "the `occurred >= max` guard and the `occurred < min` guard do not read the same fields")
					default:
						c.OK("R05b", key, core.InstrPos(call), fmt.Sprintf("discarded under %s >= %s while errors need %s < %s: impossible when min <= max (validated below)",
							maxFact.occ.Name(), ecCalleeName(maxFact.call), minFact.occ.Name(), ecCalleeName(minFact.call)))
						pairs = append(pairs, accessorPair{min: minFact.call, max: maxFact.call, site: call, fn: fn})
					}
				}
			}
		}
	}
	// validators for every declaration type behind the accessor pairs
	done := map[string]bool{}
	for _, p := range pairs {
		var decls []*types.Named
		minName, maxName := "", ""
		if p.min.Call.IsInvoke() != p.max.Call.IsInvoke() {
			c.Unknown("R05b", core.FuncKey(p.fn)+" accessors", core.InstrPos(p.site), "min/max accessors are not of the same kind (interface vs. static)")
			continue
		}
		if p.min.Call.IsInvoke() {
			in := core.NamedOf(ecUnwrapIface(p.min.Call.Value).Type())
			in2 := core.NamedOf(ecUnwrapIface(p.max.Call.Value).Type())
			if in == nil || in2 == nil || !types.Identical(in, in2) {
				c.Unknown("R05b", core.FuncKey(p.fn)+" accessors", core.InstrPos(p.site), "accessors are invoked on different interfaces")
				continue
			}
			minName, maxName = p.min.Call.Method.Name(), p.max.Call.Method.Name()
			decls = ecImplementors(c, in, false)
		} else {
			mf, xf := p.min.Call.StaticCallee(), p.max.Call.StaticCallee()
			n1, n2 := core.NamedOf(mf.Params[0].Type()), core.NamedOf(xf.Params[0].Type())
			if n1 == nil || n2 == nil || !types.Identical(n1, n2) {
				c.Unknown("R05b", core.FuncKey(p.fn)+" accessors", core.InstrPos(p.site), "accessors have different receiver types")
				continue
			}
			minName, maxName = mf.Name(), xf.Name()
			decls = []*types.Named{n1}
		}
		for _, d := range decls {
			k := ecTypeKey(d) + " validated " + minName + " <= " + maxName
			if done[k] {
				continue
			}
			done[k] = true
			x.checkValidated(d, minName, maxName, k)
		}
	}
}

// resultChecked: the error result of call (made in fn) is tested against nil with a failure branch that returns it
// (or a non-nil error), or it is handed unchanged to fn's callers, all of which check it in the same sense.
func (x *c05ctx) resultChecked(fn *ssa.Function, call *ssa.Call, depth int) (bool, string) {
	e := x.e
	idxs := ecErrResultIdx(call.Call.Signature())
	if len(idxs) != 1 {
		return false, "callee has no single error result"
	}
	v := ecErrValueOf(call, idxs[0])
	if v == nil || len(ecUsesThroughPhi(v)) == 0 {
		return false, "result discarded"
	}
	h2 := e.handlingOf(v)
	if len(h2.NilTests) > 0 && h2.OpenRegion == nil {
		okRet, n := true, 0
		for _, rt := range ecReturns(fn) {
			if !ecFailureCause(e.factsAt(ecPointOf(rt)), v) {
				continue
			}
			n++
			same := false
			for i, rv := range rt.Results {
				if ecIsError(fn.Signature.Results().At(i).Type()) && (ecUnwrapIface(rv) == ecUnwrapIface(v) || !e.classAt(rv, ecPointOf(rt)).has(ecNIL)) {
					same = true
				}
			}
			if !same {
				okRet = false
			}
		}
		if okRet && n > 0 {
			return true, "result tested against nil and returned on the failure branch"
		}
		return false, "failure branch does not return the error"
	}
	// handed up unchanged: every use is a return of fn
	fnIdx := ecErrResultIdx(fn.Signature)
	if depth >= 3 || len(fnIdx) != 1 || fn.Parent() != nil {
		return false, "result neither tested against nil nor handed to a checking caller"
	}
	for _, u := range ecUsesThroughPhi(v) {
		if _, ok := u.(*ssa.Return); !ok {
			return false, "result neither tested against nil nor only returned"
		}
	}
	if obj := ecCalleeObj(fn); obj == nil || obj.Exported() {
		return false, "result is returned by an exported function whose callers cannot all be seen"
	}
	n := 0
	for _, g := range x.c.RepoFunctions() {
		for _, ci := range core.Calls(g) {
			if ci.Common().StaticCallee() != fn {
				continue
			}
			c2, ok := ci.(*ssa.Call)
			if !ok {
				return false, "helper " + core.FuncKey(fn) + " is deferred / started as goroutine"
			}
			n++
			if ok2, why := x.resultChecked(g, c2, depth+1); !ok2 {
				return false, "returned by " + core.FuncKey(fn) + ", whose caller " + core.FuncKey(g) + " does not check it: " + why
			}
		}
	}
	if n == 0 {
		return false, "returned by " + core.FuncKey(fn) + ", which has no static caller"
	}
	return true, "handed unchanged to the caller(s) of " + core.FuncKey(fn) + ", which test it against nil and return it"
}

func c05ConstResult(fn *ssa.Function) (int64, bool) {
	var val int64
	n := 0
	for _, rt := range ecReturns(fn) {
		if len(rt.Results) != 1 {
			return 0, false
		}
		k, ok := c05IntConst(rt.Results[0])
		if !ok || (n > 0 && k != val) {
			return 0, false
		}
		val = k
		n++
	}
	return val, n > 0
}

func (x *c05ctx) checkValidated(d *types.Named, minName, maxName, key string) {
	c := x.c
	minFn, maxFn := ecMethod(c, d, minName), ecMethod(c, d, maxName)
	if minFn == nil || maxFn == nil || minFn.Blocks == nil || maxFn.Blocks == nil {
		c.Unresolved("R05b", key, "accessor bodies not found")
		return
	}
	if a, ok := c05ConstResult(minFn); ok {
		if b, ok := c05ConstResult(maxFn); ok {
			c.Check(a <= b, "R05b", key, minFn.Pos(), fmt.Sprintf("constant accessors %d <= %d", a, b), fmt.Sprintf("constant accessors with min %d > max %d", a, b))
			return
		}
	}
	// functions statically reachable from ValidateSchema methods of the declaration's package
	pkg := d.Obj().Pkg()
	reach := map[*ssa.Function]bool{}
	var work []*ssa.Function
	for _, f := range c.RepoFunctions() {
		if core.FuncPkg(f) == pkg && f.Name() == "ValidateSchema" && f.Signature.Recv() != nil {
			work = append(work, f)
		}
	}
	// closure over statically resolved calls; with dyn, calls of function values (method values / closures kept in
	// variables, slices of checks) are resolved through the VTA call graph as well
	grow := func(dyn bool) {
		for len(work) > 0 {
			f := work[len(work)-1]
			work = work[:len(work)-1]
			if reach[f] || f.Blocks == nil {
				continue
			}
			reach[f] = true
			work = append(work, f.AnonFuncs...)
			for _, ci := range core.Calls(f) {
				if g := ci.Common().StaticCallee(); g != nil {
					if core.InRepo(core.FuncPkg(g)) {
						work = append(work, g)
					}
					continue
				}
				if !dyn || ci.Common().IsInvoke() {
					continue
				}
				for _, g := range c.Callees(ci) {
					if g != nil && core.InRepo(core.FuncPkg(g)) {
						work = append(work, g)
					}
				}
			}
		}
	}
	grow(false)
	if x.rejectsMinGtMax(reach, nil, minFn, maxFn, key) {
		return
	}
	// the validators may be run from a table of function values: follow those calls too
	static := map[*ssa.Function]bool{}
	for f := range reach {
		static[f] = true
		work = append(work, f)
	}
	reach = map[*ssa.Function]bool{}
	grow(true)
	if x.rejectsMinGtMax(reach, static, minFn, maxFn, key) {
		return
	}
	c.Bad("R05b", key, minFn.Pos(), "no function reachable from this package's ValidateSchema rejects "+minName+"() > "+maxName+"() with an error: the discarded matcher error in the done-function can then occur (an unmet minimum goes unreported)")
}

// rejectsMinGtMax: some function of reach (not in skip) compares minFn(v) > maxFn(v) on the same value and returns a
// non-nil error on that edge; records the OK obligation.
func (x *c05ctx) rejectsMinGtMax(reach, skip map[*ssa.Function]bool, minFn, maxFn *ssa.Function, key string) bool {
	c, e := x.c, x.e
	for _, f := range core.SortedFuncs(reach) {
		if skip[f] {
			continue
		}
		for _, b := range f.Blocks {
			if len(b.Succs) != 2 {
				continue
			}
			ifi, ok := b.Instrs[len(b.Instrs)-1].(*ssa.If)
			if !ok {
				continue
			}
			for si, s := range b.Succs {
				var facts []ecFact
				e.decompose(ifi.Cond, si == 0, &facts)
				for _, ft := range facts {
					if ft.Kind != "cmp" || ft.Bin == nil {
						continue
					}
					l, lok := ft.Bin.X.(*ssa.Call)
					rr, rok := ft.Bin.Y.(*ssa.Call)
					if !lok || !rok {
						continue
					}
					op := ft.Bin.Op
					if !ft.Pos {
						op = c05Negate(op)
					}
					if l.Call.StaticCallee() == maxFn && rr.Call.StaticCallee() == minFn {
						l, rr = rr, l
						op = c05Flip(op)
					}
					if l.Call.StaticCallee() != minFn || rr.Call.StaticCallee() != maxFn || op != token.GTR {
						continue
					}
					if len(l.Call.Args) != 1 || len(rr.Call.Args) != 1 || l.Call.Args[0] != rr.Call.Args[0] {
						continue
					}
					// edge b→s is taken exactly when min > max: it must end in returns of a non-nil error
					if len(s.Preds) != 1 || !ecRegionClosed(s) {
						continue
					}
					okRet, n := true, 0
					for blk := range core.ReachableBlocks(s, nil) {
						for _, in := range blk.Instrs {
							rt, ok := in.(*ssa.Return)
							if !ok {
								continue
							}
							n++
							any := false
							for i, rv := range rt.Results {
								if ecIsError(f.Signature.Results().At(i).Type()) {
									any = true
									if cls := e.classAt(rv, ecPointOf(rt)); cls.has(ecNIL) || cls.has(ecTOP) {
										okRet = false
									}
								}
							}
							if !any {
								okRet = false
							}
						}
					}
					if okRet && n > 0 {
						c.OK("R05b", key, core.InstrPos(ifi), "rejected at load time in "+core.FuncKey(f)+" (reachable from ValidateSchema)")
						return true
					}
				}
			}
		}
	}
	return false
}

// ---------------------------------------------------------------- R05c

func (x *c05ctx) ruleClasses() { x.ruleClassesAs("R05c") }

func (x *c05ctx) ruleClassesAs(rule string) {
	c, e := x.c, x.e
	isH := map[*types.Named]bool{}
	for _, h := range x.hs {
		isH[h.T] = true
	}
	for _, rd := range x.r.readers {
		built := isH[rd.T]
		if st, ok := rd.T.Underlying().(*types.Struct); ok {
			for i := 0; i < st.NumFields(); i++ {
				if n := core.NamedOf(st.Field(i).Type()); n != nil && isH[n] {
					built = true
				}
			}
		}
		if !built {
			continue
		}
		key := rd.Key + ".Read classes"
		fatal, _ := e.fatalTypes(rd)
		own := map[*types.Named]bool{}
		var names []string
		for _, n := range fatal {
			own[n] = true
			names = append(names, ecTypeKey(n))
		}
		set := e.readSet(rd)
		var bad, und []string
		for _, el := range set.sorted() {
			switch el.Kind {
			case ecNIL, ecEOF:
			case ecFATAL:
				if !own[el.T] {
					bad = append(bad, el.String())
				}
			case ecTOP, ecIFACE, ecPARAM:
				und = append(und, el.String())
			default:
				bad = append(bad, el.String())
			}
		}
		switch {
		case len(bad) > 0:
			c.Bad(rule, key, rd.Read.Pos(), fmt.Sprintf("Read can return %s, which is not NIL, io.EOF or the reader's fatal type %v: a structural failure (unmet minimum, unexpected data, I/O) would be continuable", strings.Join(bad, ", "), names))
		case len(und) > 0:
			c.Unknown(rule, key, rd.Read.Pos(), "error classes of Read not fully resolved: "+strings.Join(und, "; "))
		default:
			c.OK(rule, key, rd.Read.Pos(), set.String()+" ⊆ {NIL, EOF, FATAL"+fmt.Sprint(names)+"}")
		}
	}
}
