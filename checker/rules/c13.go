package rules

import (
	"fmt"
	"go/token"
	"go/types"
	"reflect"
	"sort"
	"strings"

	"golang.org/x/tools/go/ssa"

	"omnilint/core"
)

func init() {
	register(&RuleSet{
		Prop:  "C13",
		Title: "Caches and pools are semantically invisible",
		Explanation: "A cache changes a result only if a hit returns what a miss would not compute, i.e. if the key determines less than the computation reads. " +
			"R13a result-cache key completeness: the key of the per-record result cache is built from Node.ID and the declaration hash (both found by data flow from the map lookup in ParseNode, through key-building helpers of the repository with parameter binding, and required on every path that builds the key: Phi edges, helper returns and assignments of the key variable are intersected); (i) the hash covers every exported field of Decl/CustomFuncDecl (deepCopy stores each one, each has a json tag that encodes it; the hashing function encodes json.Marshal(deepCopy(its own parameter)), directly or through helpers of its package followed by return value and parameter binding, the copy is not written on the way, and every interning key is that encoding through injective steps); (ii) every read of an unexported Decl/CustomFuncDecl field on the evaluation path is classified: the hash itself, content-determined fields (kind: its writer reads only exported fields; children: filled only from Object/Array/Args), path-name strings whose uses are result-neutral (error texts) or in the enumerated table (object member name, root test), and position links (parent) whose every value-affecting read is reported; (iii) no tree surgery (AddChild/RemoveAndReleaseTree) is reachable from ParseNode; (iv) the cache store is control-dependent on err == nil; (v) no exported field of a Decl is written after its hash was computed; (vi) lookup and store use the same key value. " +
			"R13b loader purity for every caches.LoadingCache.Get in the repository and in go-corelib/caches: the loader's free variables are the key itself or immutable. " +
			"R13d pools: node pool — reset exhaustive and blank, ID from the atomic counter, reset dominates Put, no use after release (= C12 R12b–d); VM pool — set/delete symmetry, cleanup deferred and ordered before Put (= C20 R20a). " +
			"R13e the cache switches (package-level flags read on the run path, the context's disable flag) have no writer outside package initialisers / the constructor. " +
			"R13f the result cache lives for one record only (= C10 R10a).",
		NotDecided: "equality of whole-run transcripts; LRU eviction behaviour; goja program re-use semantics. The compiled-xpath cache (DisableXPathCache for dynamic expressions) only bounds memory and is not a necessary condition of result equality, so DESIGN's R13c is not part of this check.",
		Trusted:    append([]string{"encoding/json marshals every exported struct field that has a non-\"-\" tag and sorts map keys", "go-corelib caches.LoadingCache / hashicorp LRU return the loaded value for a key"}, commonTrusted...),
		Run:        runC13,
	})
	control(Control{ID: "c13-deepcopy-forgets-field", Prop: "C13", File: "extensions/omniv21/transform/decl.go",
		Old: "\tdest.NoTrim = d.NoTrim\n", New: "", Rule: "R13a", Substr: "NoTrim", Why: "two declarations differing only in no_trim share a hash and therefore cached values"})
	control(Control{ID: "c13-cache-errors", Prop: "C13", File: "extensions/omniv21/transform/parse.go",
		Old: "\t\t\tif err != nil {\n\t\t\t\treturn value, err\n\t\t\t}\n\t\t\tp.transformCache[cacheKey] = value", New: "\t\t\tp.transformCache[cacheKey] = value",
		Rule: "R13a", Substr: "cache store", Why: "a failed evaluation is cached as a nil value; the second evaluation returns nil without error"})
	control(Control{ID: "c13-key-hash-only", Prop: "C13", File: "extensions/omniv21/transform/parse.go",
		Old: "cacheKey = strconv.FormatInt(n.ID, 16) + \"/\" + decl.hash", New: "cacheKey = strconv.FormatInt(16, 16) + \"/\" + decl.hash",
		Rule: "R13a", Substr: "key", Why: "result cache keyed by the declaration only: every node shares one value"})
	control(Control{ID: "c13-loader-captures-node", Prop: "C13", File: "extensions/omniv21/customfuncs/javascript.go",
		Old:  "func getNodeJSON(n *idr.Node) string {\n\treturn idr.JSONify2(n)\n}",
		New:  "func getNodeJSON(n *idr.Node) string {\n\tj, _ := NodeToJSONCache.Get(n.ID, func(interface{}) (interface{}, error) {\n\t\treturn idr.JSONify2(n), nil\n\t})\n\treturn j.(string)\n}",
		Rule: "R13b", Substr: "getNodeJSON", Why: "loader reads a mutable subtree that the key (node ID) does not determine"})
	control(Control{ID: "c13-switch-setter", Prop: "C13", File: "idr/node.go",
		Old: "var nodePool sync.Pool\n", New: "var nodePool sync.Pool\n\n// SetNodeCaching turns node pooling on/off.\nfunc SetNodeCaching(on bool) { nodeCaching = on }\n",
		Rule: "R13e", Substr: "nodeCaching", Why: "a production setter for a cache switch (racy, and makes the disabled configuration reachable)"})
	control(Control{ID: "c13-mutate-after-hash", Prop: "C13", File: "extensions/omniv21/transform/validate.go",
		Old: "\t\tdecl.Array[i] = childDecl\n", New: "\t\tchildDecl.NoTrim = childDecl.NoTrim || decl.NoTrim\n\t\tdecl.Array[i] = childDecl\n",
		Rule: "R13a", Substr: "after hash", Why: "a declaration is modified after its hash was computed: the hash no longer covers what evaluation reads"})
	control(Control{ID: "c13-reset-keeps-formatspecific", Prop: "C13", File: "idr/node.go",
		Old: "\tn.FormatSpecific = nil\n}", New: "}", Rule: "R13d", Substr: "FormatSpecific", Why: "pooled node differs from a fresh one"})
}

type c13roles struct {
	tp        *types.Package
	declT     *types.Named
	cfT       *types.Named
	ctxT      *types.Named
	parseNode *ssa.Function
	hashField *types.Var
	idField   *types.Var
	cacheFld  *types.Var
	lookup    *ssa.Lookup
	update    *ssa.MapUpdate
	updateFn  *ssa.Function
}

// c13Resolve finds the evaluation entry, the result cache and the fields its key is built from.
func c13Resolve(c *core.Ctx, rule string) *c13roles {
	c.SSA()
	p := c.Pkg("extensions/omniv21/transform")
	if p == nil {
		c.Unresolved(rule, "package transform", "not loaded")
		return nil
	}
	r := &c13roles{tp: p.Types}
	newCtx := c.Func("extensions/omniv21/transform", "NewParseCtx")
	if newCtx == nil {
		c.Unresolved(rule, "NewParseCtx", "not found")
		return nil
	}
	r.ctxT = core.NamedOf(newCtx.Signature.Results().At(0).Type())
	r.parseNode = c.MethodOfPkg(p.Types, r.ctxT.Obj().Name(), "ParseNode")
	if r.parseNode == nil {
		c.Unresolved(rule, "ParseNode", "evaluation entry point not found")
		return nil
	}
	if tn, ok := p.Types.Scope().Lookup("Decl").(*types.TypeName); ok {
		r.declT = tn.Type().(*types.Named)
	}
	if tn, ok := p.Types.Scope().Lookup("CustomFuncDecl").(*types.TypeName); ok {
		r.cfT = tn.Type().(*types.Named)
	}
	if r.declT == nil || r.cfT == nil {
		c.Unresolved(rule, "Decl/CustomFuncDecl", "exported declaration types not found")
		return nil
	}
	// the cache lookup in ParseNode: Lookup on a map-typed field of the context
	for _, b := range r.parseNode.Blocks {
		for _, in := range b.Instrs {
			if lk, ok := in.(*ssa.Lookup); ok {
				if steps, _ := core.TraceAddr(lk.X); len(steps) > 0 {
					for _, s := range steps {
						if s.Kind == "field" && s.Owner != nil && types.Identical(s.Owner, r.ctxT) {
							r.lookup, r.cacheFld = lk, s.Field
						}
					}
				}
			}
		}
	}
	if r.lookup == nil {
		c.Unresolved(rule, "result-cache lookup", "no lookup in a map field of the parse context found in ParseNode")
		return nil
	}
	for _, f := range append([]*ssa.Function{r.parseNode}, r.parseNode.AnonFuncs...) {
		for _, b := range f.Blocks {
			for _, in := range b.Instrs {
				if mu, ok := in.(*ssa.MapUpdate); ok {
					steps, _ := core.TraceAddr(mu.Map)
					for _, s := range steps {
						if s.Kind == "field" && s.Field == r.cacheFld {
							r.update, r.updateFn = mu, f
						}
					}
				}
			}
		}
	}
	if r.update == nil {
		c.Unresolved(rule, "result-cache store", "no update of the cache map found in ParseNode or its closures")
		return nil
	}
	return r
}

// keySources: the struct fields whose loads flow into v (through string concatenation, conversions, pure format
// calls, local variable cells incl. captured ones, and repository helpers: the results of a statically resolved callee
// with a body are followed into the callee, its parameters are bound back to the arguments of that very call).
func keySources(v ssa.Value, fn *ssa.Function, seen map[ssa.Value]bool, out map[*types.Var]bool) {
	w := &keyWalk{seen: map[keyAt]bool{}, ctxs: map[keyAt]*keyCtx{}, out: out}
	w.walk(v, nil)
}

// keyCtx is the chain of calls through which the walk descended into the current function.
type keyCtx struct {
	call  *ssa.Call
	up    *keyCtx
	depth int
}

type keyAt struct {
	v   ssa.Value
	ctx *keyCtx
}

type keyWalk struct {
	seen map[keyAt]bool
	ctxs map[keyAt]*keyCtx
	out  map[*types.Var]bool
}

func (w *keyWalk) enter(call *ssa.Call, up *keyCtx) *keyCtx {
	k := keyAt{call, up}
	if c := w.ctxs[k]; c != nil {
		return c
	}
	d := 1
	if up != nil {
		d = up.depth + 1
	}
	c := &keyCtx{call: call, up: up, depth: d}
	w.ctxs[k] = c
	return c
}

func (w *keyWalk) walk(v ssa.Value, ctx *keyCtx) {
	if v == nil || w.seen[keyAt{v, ctx}] {
		return
	}
	w.seen[keyAt{v, ctx}] = true
	switch x := v.(type) {
	case *ssa.BinOp:
		w.walk(x.X, ctx)
		w.walk(x.Y, ctx)
	case *ssa.Phi:
		for _, e := range x.Edges {
			w.walk(e, ctx)
		}
	case *ssa.Extract:
		if call, ok := x.Tuple.(*ssa.Call); ok {
			w.call(call, x.Index, ctx)
		}
	case *ssa.Call:
		w.call(x, 0, ctx)
	case *ssa.Parameter:
		// bound to the argument of the call the walk came through
		if ctx == nil || ctx.call.Call.StaticCallee() != x.Parent() {
			return
		}
		for i, p := range x.Parent().Params {
			if p == x && i < len(ctx.call.Call.Args) {
				w.walk(ctx.call.Call.Args[i], ctx.up)
			}
		}
	case *ssa.Convert:
		w.walk(x.X, ctx)
	case *ssa.ChangeType:
		w.walk(x.X, ctx)
	case *ssa.MakeInterface:
		w.walk(x.X, ctx)
	case *ssa.Slice:
		// variadic argument array: the values stored into its elements
		if a, ok := x.X.(*ssa.Alloc); ok {
			for _, r := range core.Referrers(a) {
				if ia, ok := r.(*ssa.IndexAddr); ok {
					for _, r2 := range core.Referrers(ia) {
						if st, ok := r2.(*ssa.Store); ok && st.Addr == ssa.Value(ia) {
							w.walk(st.Val, ctx)
						}
					}
				}
			}
		} else {
			w.walk(x.X, ctx)
		}
	case *ssa.UnOp:
		if x.Op != token.MUL {
			w.walk(x.X, ctx)
			return
		}
		switch a := x.X.(type) {
		case *ssa.FieldAddr:
			w.out[core.FieldOfAddr(a)] = true
		case *ssa.Alloc:
			for _, st := range storesToCell(a) {
				w.walk(st.Val, ctx)
			}
		case *ssa.FreeVar:
			if b := closureBinding(x.Parent(), a); b != nil {
				if al, ok := b.(*ssa.Alloc); ok {
					for _, st := range storesToCell(al) {
						w.walk(st.Val, ctx)
					}
				}
			}
		}
	}
}

// call: result #idx of a call. A repository function with a body is entered (its returned values, parameters bound to
// this call's arguments); anything else (library formatters, dynamic calls) is treated as a pure function of its arguments.
func (w *keyWalk) call(x *ssa.Call, idx int, ctx *keyCtx) {
	callee := x.Call.StaticCallee()
	if callee != nil && callee.Blocks != nil && core.InRepo(core.FuncPkg(callee)) && (ctx == nil || ctx.depth < 4) {
		in := w.enter(x, ctx)
		for _, b := range callee.Blocks {
			if ret, ok := b.Instrs[len(b.Instrs)-1].(*ssa.Return); ok && idx < len(ret.Results) {
				w.walk(ret.Results[idx], in)
			}
		}
		return
	}
	for _, a := range x.Call.Args {
		w.walk(a, ctx)
	}
}

// keyMustSources: the struct fields whose loads flow into v on EVERY path (the key "includes" them whatever branch built
// it): concatenation and pure formatters take the union of their operands, a Phi, the returns of a followed helper and
// the assignments of a variable cell take the intersection. A key that carries Node.ID on one path only (a wildcard
// on the other) is therefore not node-dependent.
func keyMustSources(v ssa.Value) map[*types.Var]bool {
	w := &keyWalk{seen: map[keyAt]bool{}, ctxs: map[keyAt]*keyCtx{}}
	set, _ := w.must(v, nil)
	if set == nil {
		set = map[*types.Var]bool{}
	}
	return set
}

func keyUnion(a, b map[*types.Var]bool) map[*types.Var]bool {
	out := map[*types.Var]bool{}
	for f := range a {
		out[f] = true
	}
	for f := range b {
		out[f] = true
	}
	return out
}

// keyMeet intersects the sets of the alternatives; alternatives on a cycle under evaluation (top) are neutral.
type keyMeet struct {
	set map[*types.Var]bool
	any bool
}

func (m *keyMeet) add(s map[*types.Var]bool, top bool) {
	if top {
		return
	}
	if !m.any {
		m.any, m.set = true, keyUnion(s, nil)
		return
	}
	for f := range m.set {
		if !s[f] {
			delete(m.set, f)
		}
	}
}

func (m *keyMeet) result() (map[*types.Var]bool, bool) {
	if !m.any {
		return nil, true
	}
	return m.set, false
}

// must returns the fields included on every path; top == true means "no information yet" (a value on a cycle that is
// being evaluated), which is neutral for intersections and ignored by unions.
func (w *keyWalk) must(v ssa.Value, ctx *keyCtx) (map[*types.Var]bool, bool) {
	if v == nil {
		return nil, false
	}
	k := keyAt{v, ctx}
	if w.seen[k] {
		return nil, true
	}
	w.seen[k] = true
	defer delete(w.seen, k)
	pass := func(x ssa.Value) (map[*types.Var]bool, bool) { return w.must(x, ctx) }
	cell := func(a *ssa.Alloc) (map[*types.Var]bool, bool) {
		var m keyMeet
		sts := storesToCell(a)
		if len(sts) == 0 {
			return nil, false
		}
		for _, st := range sts {
			m.add(w.must(st.Val, ctx))
		}
		return m.result()
	}
	switch x := v.(type) {
	case *ssa.BinOp:
		if x.Op != token.ADD {
			return nil, false
		}
		a, ta := w.must(x.X, ctx)
		b, tb := w.must(x.Y, ctx)
		if ta && tb {
			return nil, true
		}
		return keyUnion(a, b), false
	case *ssa.Phi:
		var m keyMeet
		for _, e := range x.Edges {
			m.add(w.must(e, ctx))
		}
		return m.result()
	case *ssa.Extract:
		if call, ok := x.Tuple.(*ssa.Call); ok {
			return w.mustCall(call, x.Index, ctx)
		}
	case *ssa.Call:
		return w.mustCall(x, 0, ctx)
	case *ssa.Parameter:
		if ctx == nil || ctx.call.Call.StaticCallee() != x.Parent() {
			return nil, false
		}
		for i, p := range x.Parent().Params {
			if p == x && i < len(ctx.call.Call.Args) {
				return w.must(ctx.call.Call.Args[i], ctx.up)
			}
		}
	case *ssa.Convert:
		return pass(x.X)
	case *ssa.ChangeType:
		return pass(x.X)
	case *ssa.MakeInterface:
		return pass(x.X)
	case *ssa.Slice:
		a, ok := x.X.(*ssa.Alloc)
		if !ok {
			return pass(x.X)
		}
		out := map[*types.Var]bool{}
		for _, r := range core.Referrers(a) {
			if ia, ok := r.(*ssa.IndexAddr); ok {
				for _, r2 := range core.Referrers(ia) {
					if st, ok := r2.(*ssa.Store); ok && st.Addr == ssa.Value(ia) {
						s, _ := w.must(st.Val, ctx)
						out = keyUnion(out, s)
					}
				}
			}
		}
		return out, false
	case *ssa.UnOp:
		if x.Op != token.MUL {
			return nil, false
		}
		switch a := x.X.(type) {
		case *ssa.FieldAddr:
			return map[*types.Var]bool{core.FieldOfAddr(a): true}, false
		case *ssa.Alloc:
			return cell(a)
		case *ssa.FreeVar:
			if al, ok := closureBinding(x.Parent(), a).(*ssa.Alloc); ok {
				return cell(al)
			}
		}
	}
	return nil, false
}

func (w *keyWalk) mustCall(x *ssa.Call, idx int, ctx *keyCtx) (map[*types.Var]bool, bool) {
	callee := x.Call.StaticCallee()
	if callee != nil && callee.Blocks != nil && core.InRepo(core.FuncPkg(callee)) && (ctx == nil || ctx.depth < 4) {
		in := w.enter(x, ctx)
		var m keyMeet
		for _, b := range callee.Blocks {
			if ret, ok := b.Instrs[len(b.Instrs)-1].(*ssa.Return); ok && idx < len(ret.Results) {
				m.add(w.must(ret.Results[idx], in))
			}
		}
		return m.result()
	}
	if callee != nil && callee.Blocks != nil && core.InRepo(core.FuncPkg(callee)) {
		return nil, false // too deep: nothing shown
	}
	out := map[*types.Var]bool{}
	for _, a := range x.Call.Args {
		s, _ := w.must(a, ctx)
		out = keyUnion(out, s)
	}
	return out, false
}

// storesToCell: stores into an Alloc cell from its function and the closures that capture it.
func storesToCell(a *ssa.Alloc) []*ssa.Store {
	var out []*ssa.Store
	fn := a.Parent()
	for _, g := range append([]*ssa.Function{fn}, fn.AnonFuncs...) {
		for _, b := range g.Blocks {
			for _, in := range b.Instrs {
				st, ok := in.(*ssa.Store)
				if !ok {
					continue
				}
				if st.Addr == ssa.Value(a) {
					out = append(out, st)
				} else if fv, ok := st.Addr.(*ssa.FreeVar); ok && closureBinding(g, fv) == ssa.Value(a) {
					out = append(out, st)
				}
			}
		}
	}
	return out
}

// cellOrValue normalises a key operand: a load of a (captured) variable cell is represented by the cell.
func cellOrValue(v ssa.Value) ssa.Value {
	if u, ok := v.(*ssa.UnOp); ok && u.Op == token.MUL {
		switch a := u.X.(type) {
		case *ssa.Alloc:
			return a
		case *ssa.FreeVar:
			if b := closureBinding(u.Parent(), a); b != nil {
				return b
			}
		}
	}
	return v
}

func runC13(c *core.Ctx) {
	r := c13Resolve(c, "R13a")
	if r == nil {
		return
	}
	c13KeyCompleteness(c, r, "R13a")
	c.Floor("R13a", 25, "key sources, deepCopy coverage, internal-field reads, error/immutability clauses")

	// ---------------- R13b loader purity everywhere
	var fns []*ssa.Function
	for _, f := range c.RepoFunctions() {
		if !core.IsCLIOrSample(core.FuncPkg(f)) {
			fns = append(fns, f)
		}
	}
	n := c20LoaderPurity(c, "R13b", fns)
	// go-corelib caches
	var dep []*ssa.Function
	for f := range c.AllFunctions() {
		if p := core.FuncPkg(f); p != nil && p.Path() == "github.com/jf-tech/go-corelib/caches" && f.Blocks != nil {
			dep = append(dep, f)
		}
	}
	sort.Slice(dep, func(i, j int) bool { return dep[i].String() < dep[j].String() })
	n += c20LoaderPurity(c, "R13b", dep)
	if n == 0 {
		c.Unresolved("R13b", "LoadingCache.Get sites", "none found")
	}
	c.Floor("R13b", 3, "getProgram + corelib xpath/regex/time-zone caches")

	// ---------------- R13d pools
	if r12 := resolveC12(c); r12 != nil {
		c12PoolRules(c, r12, c.RepoFunctions(), c12AllowedWriters(r12), "R13d", "R13d", "R13d")
	}
	c20VMPool(c, "R13d")
	poolTypestate(c, "R13d")
	if r12 := resolveC12(c); r12 != nil {
		runR12eAs(c, r12, c.RepoFunctions(), "R13d") // a node is released (pooled) once: holders cleared on every release path
	}
	c.Floor("R13d", 25, "node pool and VM pool discipline")

	// ---------------- R13e switches
	if e := entries(c, "R13e"); e != nil {
		c14Globals(c, e, repoFuncsIn(e.run), "R13e")
	}
	for _, f := range c.RepoFunctions() {
		for _, w := range core.Writes(f) {
			if w.Kind != "field" || w.Owner == nil || !types.Identical(w.Owner, r.ctxT) {
				continue
			}
			if b, ok := w.Field.Type().Underlying().(*types.Basic); !ok || b.Kind() != types.Bool {
				continue
			}
			key := core.FuncKey(f) + " sets switch " + w.Field.Name()
			cst, isConst := w.Val.(*ssa.Const)
			ok := isConst && cst.Value != nil && cst.Value.ExactString() == "false" && core.IsFresh(w.Root)
			c.Check(ok, "R13e", key, w.Pos, "switch set to its constant default on a fresh context", "a cache switch of the evaluation context is set in non-test code: the cache-disabled configuration becomes reachable in production")
		}
	}

	// ---------------- R13f
	c10FreshCtx(c, "R13f")
	c.Floor("R13f", 3, "fresh context per record")
}

// c13KeyCompleteness implements R13a (also used as C02-R02b).
func c13KeyCompleteness(c *core.Ctx, r *c13roles, rule string) {
	// (vi) key sources and key identity
	srcs := map[*types.Var]bool{}
	keySources(r.lookup.Index, r.parseNode, map[ssa.Value]bool{}, srcs)
	// the fields are resolved from what may flow into the key; the key "includes" a field only if it does so on every
	// path that builds it (a key that drops the node ID for some declarations is not node-dependent)
	must := keyMustSources(r.lookup.Index)
	var idOK, hashOK bool
	for f := range srcs {
		if f.Name() == "ID" && f.Pkg() != nil && strings.HasSuffix(f.Pkg().Path(), "/idr") {
			idOK = idOK || must[f]
			r.idField = f
		}
		if !f.Exported() && f.Pkg() == r.tp {
			if b, ok := f.Type().Underlying().(*types.Basic); ok && b.Kind() == types.String {
				hashOK = hashOK || must[f]
				r.hashField = f
			}
		}
	}
	key := core.FuncKey(r.parseNode) + " cache key"
	c.Check(idOK, rule, key+" includes node ID", core.InstrPos(r.lookup), "the key depends on Node.ID of the context node", "the result-cache key does not depend on the context node: one node's value would be served for another")
	c.Check(hashOK, rule, key+" includes declaration hash", core.InstrPos(r.lookup), "the key depends on the declaration hash", "the result-cache key does not depend on the declaration: one declaration's value would be served for another")
	same := sameKey(cellOrValue(r.lookup.Index), cellOrValue(r.update.Key))
	c.Check(same, rule, key+" lookup/store identity", core.InstrPos(r.update), "lookup and store use the same key variable", "the cache is filled under a different key than it is queried with")
	// the key variable is assigned once
	if cell, ok := cellOrValue(r.lookup.Index).(*ssa.Alloc); ok {
		n := len(storesToCell(cell))
		c.Check(n == 1, rule, key+" assigned once", cell.Pos(), "the key variable has a single assignment", fmt.Sprintf("the key variable is assigned %d times: lookup and store may see different keys", n))
	}
	if !hashOK {
		return
	}

	// (iv) errors are not cached
	errOK := false
	for _, u := range r.updateFn.Blocks {
		ifi, ok := u.Instrs[len(u.Instrs)-1].(*ssa.If)
		if !ok {
			continue
		}
		bo, ok := ifi.Cond.(*ssa.BinOp)
		if !ok || !(core.IsNilConst(bo.X) || core.IsNilConst(bo.Y)) {
			continue
		}
		other := bo.X
		if core.IsNilConst(bo.X) {
			other = bo.Y
		}
		if !types.Identical(other.Type(), types.Universe.Lookup("error").Type()) {
			continue
		}
		nilIdx := 1
		if bo.Op == token.EQL {
			nilIdx = 0
		}
		s := u.Succs[nilIdx]
		if len(s.Preds) == 1 && s.Dominates(r.update.Block()) {
			errOK = true
		}
	}
	c.Check(errOK, rule, core.FuncKey(r.updateFn)+" cache store on success only", core.InstrPos(r.update), "the cache store is dominated by the err == nil edge", "evaluation failures are cached too: a second evaluation of the same declaration on the same node returns a nil value without error")

	// (i) the hash covers every exported field
	c13DeepCopyCoverage(c, r, rule)

	// (ii) unexported field reads on the evaluation path
	c13InternalReads(c, r, rule)

	// (iii) no tree surgery reachable from ParseNode
	idrp := c.Pkg("idr")
	if idrp != nil {
		add, rem := c.Func("idr", "AddChild"), c.Func("idr", "RemoveAndReleaseTree")
		roots := []*ssa.Function{r.parseNode}
		roots = append(roots, builtinCustomFuncs(c)...)
		reach := c.Reachable(roots, nil)
		bad := ""
		if reach[add] {
			bad = "AddChild"
		}
		if reach[rem] {
			bad = "RemoveAndReleaseTree"
		}
		c.Check(bad == "", rule, core.FuncKey(r.parseNode)+" evaluation does not restructure the tree", r.parseNode.Pos(),
			"neither AddChild nor RemoveAndReleaseTree is reachable from ParseNode or the built-in custom functions",
			"idr."+bad+" is reachable from the evaluation: a cached value for a node could be invalidated while the cache is live")
	}

	// (v) immutable after hash
	c13ImmutableAfterHash(c, r, rule)
}

func jsonTagName(tag string) (string, bool) {
	v, ok := reflect.StructTag(tag).Lookup("json")
	if !ok {
		return "", true
	}
	name := strings.Split(v, ",")[0]
	return name, name != "-"
}

func c13DeepCopyCoverage(c *core.Ctx, r *c13roles, rule string) {
	for _, nt := range []*types.Named{r.declT, r.cfT} {
		dc := c.MethodOfPkg(r.tp, nt.Obj().Name(), "deepCopy")
		if dc == nil {
			// role: method without parameters returning *T that allocates a T
			for _, f := range c.RepoFunctions() {
				if core.FuncPkg(f) == r.tp && f.Signature.Recv() != nil && core.NamedOf(f.Signature.Recv().Type()) == nt &&
					f.Signature.Params().Len() == 0 && f.Signature.Results().Len() == 1 && core.NamedOf(f.Signature.Results().At(0).Type()) == nt {
					dc = f
				}
			}
		}
		if dc == nil {
			c.Unresolved(rule, "deep copy of "+nt.Obj().Name(), "no copying method found")
			continue
		}
		st := nt.Underlying().(*types.Struct)
		stored := map[*types.Var]bool{}
		for _, w := range core.Writes(dc) {
			if (w.Kind == "field" || w.Kind == "map" || w.Kind == "index") && w.Field != nil && w.Owner != nil && types.Identical(w.Owner, nt) && core.IsFresh(w.Root) {
				// the innermost field on the fresh copy
				for _, s := range w.Chain {
					if s.Kind == "field" && s.Owner != nil && types.Identical(s.Owner, nt) {
						stored[s.Field] = true
					}
				}
			}
		}
		for i := 0; i < st.NumFields(); i++ {
			f := st.Field(i)
			if !f.Exported() {
				continue
			}
			key := "hash covers " + nt.Obj().Name() + "." + f.Name()
			_, enc := jsonTagName(st.Tag(i))
			if !enc {
				c.Bad(rule, key, f.Pos(), "exported field is excluded from JSON encoding: the declaration hash does not cover it although evaluation may read it")
				continue
			}
			c.Check(stored[f], rule, key, f.Pos(), "copied by "+core.FuncKey(dc)+" and JSON-encoded",
				"exported field "+f.Name()+" is not copied by "+core.FuncKey(dc)+": two declarations differing only in it get the same hash and share cached values (and template expansion loses it)")
		}
		// the hashing function marshals the deep copy
	}
	// hashing: the value stored into the hash field derives from json.Marshal(deepCopy(decl))
	found := false
	for _, f := range c.RepoFunctions() {
		if core.FuncPkg(f) != r.tp {
			continue
		}
		for _, w := range core.Writes(f) {
			if w.Kind == "field" && w.Field == r.hashField {
				found = true
				call, ok := w.Val.(*ssa.Call)
				var hashing *c13Hashing
				if ok && call.Call.StaticCallee() != nil {
					hashing = marshalsDeepCopy(c, call.Call.StaticCallee(), r)
				}
				c.Check(hashing != nil, rule, core.FuncKey(f)+" computes hash", w.Pos, "hash = f(json.Marshal(deepCopy(decl)))", "the hash is not computed from the JSON encoding of the declaration's deep copy")
				if hashing != nil {
					hashKeyInjective(c, hashing, rule)
					hashCopyUnmodified(c, hashing, r, rule)
				}
			}
		}
	}
	if !found {
		c.Unresolved(rule, "hash assignment", "no store to the hash field found")
	}
}

// c13Hashing describes how a hashing function f obtains the stable encoding: the json.Marshal call (in f or in a helper
// of f's package that f reaches through static calls), the deep-copy call whose result it encodes, and the parameter
// binding between f and the helpers (so that `stableEncoding(decl)` = string(json.Marshal(decl.deepCopy())) is seen
// exactly like the inlined form).
type c13Hashing struct {
	f       *ssa.Function
	cone    []*ssa.Function // f and its helpers (the copying methods and what they call are not part of it)
	bind    *f2Binder
	marshal *ssa.Call   // json.Marshal(copy)
	copies  []*ssa.Call // the deep-copy call(s) the marshalled value stands for
	aliases []ssa.Value // parameters through which the copy is handed from the copying function to the marshalling one
}

// isCopyMethod: role of deepCopy — a parameterless method of Decl (receiver only).
func isCopyMethod(cf *ssa.Function, r *c13roles) bool {
	return cf != nil && cf.Signature.Recv() != nil && (core.NamedOf(cf.Signature.Recv().Type()) == r.declT || core.NamedOf(cf.Signature.Recv().Type()) == r.cfT) && cf.Signature.Params().Len() == 0
}

// c13ResolveHashing finds the json.Marshal(deepCopy(p)) of hashing function f, p being f's own declaration parameter;
// nil if there is none.
func c13ResolveHashing(c *core.Ctx, f *ssa.Function, r *c13roles) *c13Hashing {
	if f == nil || f.Blocks == nil {
		return nil
	}
	h := &c13Hashing{f: f}
	h.cone = f2Cone(f, func(g *ssa.Function) bool { return isCopyMethod(g, r) })
	h.bind = f2NewBinder(c, h.cone)
	for _, g := range h.cone {
		for _, ci := range core.Calls(g) {
			m, isCall := ci.(*ssa.Call)
			if !isCall || !core.IsCallTo(ci, "encoding/json", "Marshal") {
				continue
			}
			origins, aliases, ok := h.bind.origins(m.Call.Args[0])
			if !ok || len(origins) == 0 {
				continue
			}
			var copies []*ssa.Call
			good := true
			for _, o := range origins {
				call, isCall := o.(*ssa.Call)
				if !isCall || !isCopyMethod(call.Call.StaticCallee(), r) || core.NamedOf(call.Call.StaticCallee().Signature.Recv().Type()) != r.declT {
					good = false
					break
				}
				// the copied declaration is the hashing function's own parameter
				recvs, _, ok := h.bind.origins(call.Call.Args[0])
				if !ok || len(recvs) == 0 {
					good = false
					break
				}
				for _, rv := range recvs {
					if p, isParam := rv.(*ssa.Parameter); !isParam || p.Parent() != f {
						good = false
					}
				}
				copies = append(copies, call)
			}
			if good {
				h.marshal, h.copies, h.aliases = m, copies, aliases
				return h
			}
		}
	}
	return nil
}

func marshalsDeepCopy(c *core.Ctx, f *ssa.Function, r *c13roles) *c13Hashing {
	return c13ResolveHashing(c, f, r)
}

// hashCopyUnmodified: the hash covers a field only if the encoded copy still carries it. Between deepCopy and
// json.Marshal the copy must not be written (seed C13-9 cleared keep_empty_or_null on the copy "because it does not
// take part in the value": two declarations differing only in it then share a cache entry). The copy is followed
// through the helpers it is handed to: a store rooted at the copy call, at a parameter it is passed through on the
// way to json.Marshal, or at the parameter of any other repository function that receives it, counts.
func hashCopyUnmodified(c *core.Ctx, h *c13Hashing, r *c13roles, rule string) {
	bad := token.NoPos
	what := ""
	unknown := ""
	seen := map[ssa.Value]bool{}
	var check func(v ssa.Value, d int)
	check = func(v ssa.Value, d int) {
		if seen[v] {
			return
		}
		seen[v] = true
		var fn *ssa.Function
		switch x := v.(type) {
		case *ssa.Call:
			fn = x.Parent()
		case *ssa.Parameter:
			fn = x.Parent()
		}
		if fn == nil {
			return
		}
		for _, w := range core.Writes(fn) {
			if w.Root == v {
				bad = w.Pos
				if w.Field != nil {
					what = w.Field.Name()
				}
			}
		}
		// the copy handed on to another function (not the encoder)
		for _, u := range core.Referrers(v) {
			ci, ok := u.(ssa.CallInstruction)
			if !ok || ci == ssa.CallInstruction(h.marshal) {
				continue
			}
			for i, a := range ci.Common().Args {
				if a != v {
					continue
				}
				g := ci.Common().StaticCallee()
				if g == nil || !core.InRepo(core.FuncPkg(g)) {
					continue // library calls (json.Marshal through MakeInterface is not a direct referrer) / dynamic: not the rule's business
				}
				if g.Blocks == nil || i >= len(g.Params) || d > 3 {
					unknown = core.FuncKey(g)
					continue
				}
				check(g.Params[i], d+1)
			}
		}
	}
	for _, cp := range h.copies {
		check(cp, 0)
	}
	for _, a := range h.aliases {
		check(a, 0)
	}
	key := core.FuncKey(h.marshal.Parent()) + " encodes the deep copy unmodified"
	switch {
	case bad.IsValid():
		c.Bad(rule, key, bad, "the deep copy is modified (field "+what+") before it is encoded: the hash no longer covers that field, so two declarations differing only in it share a hash and are served each other's cached values")
	case unknown != "":
		c.Unknown(rule, key, core.InstrPos(h.marshal), "the deep copy is handed to "+unknown+" before it is encoded; whether that modifies it is not decided")
	default:
		c.OK(rule, key, core.InstrPos(h.marshal), "no store into the copy between deepCopy and json.Marshal")
	}
}

// hashKeyInjective: equal hashes must mean equal encodings. Inside the hashing function (and the helpers of its package
// it calls) every key used with the interning table (map lookup / update), and the hash itself when it is computed
// rather than interned, must be the json.Marshal result through injective steps only (conversions between []byte and
// string, tuple extraction, hex/base64 text encodings, cryptographic digests, helpers that return such a value,
// parameters bound to such a value). A non-cryptographic digest (hash/*), a length, or a truncating slice makes
// two different declarations share a hash, and therefore cached values (seed C02-7).
func hashKeyInjective(c *core.Ctx, h *c13Hashing, rule string) {
	f := h.f
	marshal := h.marshal
	inCone := h.bind.inCone
	// verdict of a backward walk from v to the marshal result: "" = injective, else the first lossy/unknown step
	var walk func(v ssa.Value, seen map[ssa.Value]bool) (reached bool, lossy string, unknown string)
	merge := func(vals []ssa.Value, seen map[ssa.Value]bool) (bool, string, string) {
		reached, lossy, unknown := false, "", ""
		for _, e := range vals {
			r, l, u := walk(e, seen)
			reached = reached || r
			if lossy == "" {
				lossy = l
			}
			if unknown == "" {
				unknown = u
			}
		}
		return reached, lossy, unknown
	}
	// results of a helper of the cone: what it returns at position idx
	returned := func(g *ssa.Function, idx int) []ssa.Value {
		var out []ssa.Value
		for _, rt := range c19Returns(g) {
			if idx < len(rt.Results) {
				out = append(out, rt.Results[idx])
			}
		}
		return out
	}
	walk = func(v ssa.Value, seen map[ssa.Value]bool) (bool, string, string) {
		if seen[v] {
			return false, "", ""
		}
		seen[v] = true
		switch x := v.(type) {
		case *ssa.Extract:
			if x.Tuple == ssa.Value(marshal) {
				return true, "", ""
			}
			if call, ok := x.Tuple.(*ssa.Call); ok {
				if g := call.Call.StaticCallee(); g != nil && inCone[g] && g != f {
					return merge(returned(g, x.Index), seen)
				}
			}
			return walk(x.Tuple, seen)
		case *ssa.Parameter:
			if as, ok := h.bind.args(x); ok {
				return merge(as, seen)
			}
			return false, "", ""
		case *ssa.Convert:
			return walk(x.X, seen)
		case *ssa.ChangeType:
			return walk(x.X, seen)
		case *ssa.MakeInterface:
			return walk(x.X, seen)
		case *ssa.Slice:
			r, l, u := walk(x.X, seen)
			if r && (x.Low != nil || x.High != nil) && l == "" {
				l = "a truncating slice expression"
			}
			return r, l, u
		case *ssa.Phi:
			return merge(x.Edges, seen)
		case *ssa.UnOp:
			if x.Op == token.MUL {
				if a, ok := x.X.(*ssa.Alloc); ok {
					var vals []ssa.Value
					for _, r := range core.Referrers(a) {
						if st, ok := r.(*ssa.Store); ok && st.Addr == a {
							vals = append(vals, st.Val)
						}
					}
					return merge(vals, seen)
				}
			}
			return false, "", ""
		case *ssa.Call:
			if g := x.Call.StaticCallee(); g != nil && inCone[g] && g != f && g.Signature.Results().Len() == 1 {
				// a helper of the hashing function: as injective as what it returns
				return merge(returned(g, 0), seen)
			}
			reached, lossy, unknown := false, "", ""
			args := x.Call.Args
			if x.Call.IsInvoke() {
				args = append([]ssa.Value{x.Call.Value}, args...)
			}
			for _, a := range args {
				r, l, u := walk(a, seen)
				reached = reached || r
				if lossy == "" {
					lossy = l
				}
				if unknown == "" {
					unknown = u
				}
			}
			// receivers that were fed the encoding earlier (h.Write(b); h.Sum32())
			if !reached && len(args) > 0 {
				for _, r := range core.Referrers(args[0]) {
					if ci, ok := r.(ssa.CallInstruction); ok && ci != ssa.CallInstruction(x) {
						for _, a := range ci.Common().Args {
							if rr, _, _ := walk(a, map[ssa.Value]bool{}); rr {
								reached = true
							}
						}
					}
				}
			}
			if !reached {
				return false, "", ""
			}
			name := x.Call.String()
			pkg := ""
			if o := core.CalleeObj(x); o != nil && o.Pkg() != nil {
				pkg = o.Pkg().Path()
				name = pkg + "." + core.FuncName(o)
			} else if b, ok := x.Call.Value.(*ssa.Builtin); ok {
				pkg = "builtin"
				name = b.Name()
			}
			switch {
			case strings.HasPrefix(pkg, "hash/") || pkg == "hash" || name == "len" || name == "cap":
				if lossy == "" {
					lossy = name
				}
			case strings.HasPrefix(pkg, "crypto/") || pkg == "encoding/hex" || pkg == "encoding/base64" || pkg == "encoding/base32":
			case pkg == "strconv" || pkg == "fmt":
				// textual rendering of whatever went in: as injective as its argument
			default:
				if unknown == "" {
					unknown = name
				}
			}
			return reached, lossy, unknown
		}
		return false, "", ""
	}
	judge := func(what string, v ssa.Value, pos token.Pos) {
		reached, lossy, unknown := walk(v, map[ssa.Value]bool{})
		key := what
		switch {
		case !reached:
			c.Bad(rule, key, pos, "does not derive from the JSON encoding of the declaration: equal keys no longer mean equal declarations")
		case lossy != "":
			c.Bad(rule, key, pos, "derives from the JSON encoding through "+lossy+", which is not injective: two different declarations can share a hash and are then served each other's cached values")
		case unknown != "":
			c.Unknown(rule, key, pos, "derives from the JSON encoding through "+unknown+", which is not in the rule's table of injective steps (conversions, hex/base64, cryptographic digests)")
		default:
			c.OK(rule, key, pos, "the JSON encoding itself (through conversions only)")
		}
	}
	n := 0
	for _, g := range h.cone {
		for _, b := range g.Blocks {
			for _, in := range b.Instrs {
				switch x := in.(type) {
				case *ssa.Lookup:
					if _, isMap := x.X.Type().Underlying().(*types.Map); isMap {
						judge(core.FuncKey(g)+" interning lookup key", x.Index, core.InstrPos(in))
						n++
					}
				case *ssa.MapUpdate:
					judge(core.FuncKey(g)+" interning store key", x.Key, core.InstrPos(in))
					n++
					hashIDUnique(c, rule, g, x, walk)
				}
			}
		}
	}
	if n == 0 {
		// no interning table: the returned hash itself must be injective in the encoding
		for _, rt := range c19Returns(f) {
			if len(rt.Results) == 1 {
				judge(core.FuncKey(f)+" returned hash", rt.Results[0], core.InstrPos(rt))
			}
		}
	}
}

// hashIDUnique: the id handed out for a new encoding: distinct encodings must get distinct ids — the stored value is
// injective in the encoding, or a fresh random UUID (seed C13-11 stored a CRC-32 of the encoding; seeds C15-10/C20-10 a
// decimal running number, whose varying width makes the composed cache key ambiguous once the separator is dropped).
func hashIDUnique(c *core.Ctx, rule string, g *ssa.Function, x *ssa.MapUpdate, walk func(v ssa.Value, seen map[ssa.Value]bool) (bool, string, string)) {
	reached, lossy, unknown := walk(x.Value, map[ssa.Value]bool{})
	vkey := core.FuncKey(g) + " interned hash value"
	pos := core.InstrPos(x)
	switch {
	case reached && lossy != "":
		c.Bad(rule, vkey, pos, "the id stored for a new encoding derives from the encoding through "+lossy+", which is not injective: two different declarations get the same hash and are served each other's cached values")
	case reached && unknown != "":
		c.Unknown(rule, vkey, pos, "the id stored for a new encoding derives from it through "+unknown+", which is not in the rule's table of injective steps")
	case reached:
		c.OK(rule, vkey, pos, "injective in the encoding")
	default:
		fresh := false
		seenV := map[ssa.Value]bool{}
		var scan func(v ssa.Value, d int)
		scan = func(v ssa.Value, d int) {
			if v == nil || seenV[v] || d > 8 {
				return
			}
			seenV[v] = true
			if call, ok := v.(*ssa.Call); ok {
				if o := core.CalleeObj(call); o != nil && o.Pkg() != nil && (o.Pkg().Path() == "github.com/google/uuid" || o.Pkg().Path() == "crypto/rand") {
					fresh = true
				}
				if cf := call.Call.StaticCallee(); cf != nil && cf.Blocks != nil && core.InRepo(core.FuncPkg(cf)) {
					for _, rt := range c19Returns(cf) {
						for _, r := range rt.Results {
							scan(r, d+1)
						}
					}
				}
			}
			if ins, ok := v.(ssa.Instruction); ok {
				for _, op := range ins.Operands(nil) {
					if *op != nil {
						scan(*op, d+1)
					}
				}
			}
		}
		scan(x.Value, 0)
		if fresh {
			c.OK(rule, vkey, pos, "a fresh random UUID per new encoding (fixed width, unique)")
		} else {
			c.Unknown(rule, vkey, pos, "the id stored for a new encoding is neither injective in the encoding nor a fresh UUID: uniqueness of the ids (and, for ids of varying width, unambiguity of the composed cache key) is not shown")
		}
	}
}

// evalPath: repository functions reachable from ParseNode (package transform) through static calls, closures and
// functions referenced as values (a dispatch through a func value keeps its evaluators on the evaluation path).
func evalPath(r *c13roles) []*ssa.Function { return g3EvalPath(r) }

func c13InternalReads(c *core.Ctx, r *c13roles, rule string) {
	isDeclT := func(n *types.Named) bool {
		return n != nil && (types.Identical(n, r.declT) || types.Identical(n, r.cfT))
	}
	for _, f := range evalPath(r) {
		reported := map[*types.Var]bool{}
		for _, b := range f.Blocks {
			for _, in := range b.Instrs {
				fa, ok := in.(*ssa.FieldAddr)
				if !ok || !isDeclT(core.FieldOwner(fa)) {
					continue
				}
				fld := core.FieldOfAddr(fa)
				if fld.Exported() {
					continue
				}
				if isPointer(fld.Type()) {
					// position links: one obligation per function and field
					if reported[fld] {
						continue
					}
					reported[fld] = true
				}
				for _, u := range core.Referrers(fa) {
					ld, ok := u.(*ssa.UnOp)
					if !ok || ld.Op != token.MUL {
						continue
					}
					key := core.FuncKey(f) + " reads " + core.FieldOwner(fa).Obj().Name() + "." + fld.Name()
					switch {
					case fld == r.hashField:
						c.OK(rule, key, core.InstrPos(ld), "the key itself")
					case core.NamedOf(fld.Type()) != nil && types.Identical(core.NamedOf(fld.Type()), r.declT) && isPointer(fld.Type()):
						// position link
						c.Bad(rule, key, core.InstrPos(ld), "evaluation reads the position link "+fld.Name()+" of a declaration; the position of a declaration is not covered by the result-cache key (node ID, content hash), so two textually equal declarations at different positions evaluated on the same node share a cached value")
					case isSliceOfDecl(fld.Type(), r.declT):
						c.OK(rule, key, core.InstrPos(ld), "child list: filled at load time from the hashed Object/Array/Args content (writers checked by C14-R14a / C02-R02a)")
					case isNamedString(fld.Type(), r.tp):
						ok, why := kindWriterReadsExportedOnly(c, r, fld)
						c.Check(ok, rule, key, core.InstrPos(ld), "content-determined: every writer derives it from exported (hashed) fields only", why)
					case isString(fld.Type()):
						if bad := pathNameUse(ld); bad != "" {
							c.Bad(rule, key, core.InstrPos(ld), "the path name of a declaration (position dependent, not in the cache key) flows into "+bad)
						} else {
							c.OK(rule, key, core.InstrPos(ld), "path name used only in error texts / enumerated result-neutral uses")
						}
					default:
						c.Unknown(rule, key, core.InstrPos(ld), "unexported declaration field of an unclassified kind is read during evaluation: it is not covered by the hash")
					}
				}
			}
		}
	}
}

func isPointer(t types.Type) bool { _, ok := t.Underlying().(*types.Pointer); return ok }
func isString(t types.Type) bool {
	b, ok := t.(*types.Basic)
	return ok && b.Kind() == types.String
}
func isNamedString(t types.Type, p *types.Package) bool {
	n, ok := t.(*types.Named)
	if !ok || n.Obj().Pkg() != p {
		return false
	}
	b, ok := n.Underlying().(*types.Basic)
	return ok && b.Kind() == types.String
}
func isSliceOfDecl(t types.Type, d *types.Named) bool {
	s, ok := t.Underlying().(*types.Slice)
	return ok && core.NamedOf(s.Elem()) != nil && types.Identical(core.NamedOf(s.Elem()), d)
}

// kindWriterReadsExportedOnly: every function storing the field reads, of Decl, only exported fields.
func kindWriterReadsExportedOnly(c *core.Ctx, r *c13roles, fld *types.Var) (bool, string) {
	n := 0
	for _, f := range c.RepoFunctions() {
		if core.FuncPkg(f) != r.tp {
			continue
		}
		writes := false
		for _, w := range core.Writes(f) {
			if w.Kind == "field" && w.Field == fld {
				writes = true
				if _, isConst := w.Val.(*ssa.Const); !isConst {
					// or the result of a helper that returns only constants and reads only exported fields
					call, isCall := w.Val.(*ssa.Call)
					if !isCall || call.Call.StaticCallee() == nil || !returnsConstsFromExported(call.Call.StaticCallee(), r, fld) {
						return false, "field " + fld.Name() + " is assigned a non-constant value in " + core.FuncKey(f)
					}
				}
			}
		}
		if !writes {
			continue
		}
		n++
		for _, b := range f.Blocks {
			for _, in := range b.Instrs {
				if fa, ok := in.(*ssa.FieldAddr); ok && core.FieldOwner(fa) != nil && types.Identical(core.FieldOwner(fa), r.declT) {
					g := core.FieldOfAddr(fa)
					if !g.Exported() && g != fld {
						return false, core.FuncKey(f) + " derives " + fld.Name() + " from unexported field " + g.Name()
					}
				}
			}
		}
	}
	if n == 0 {
		return false, "no writer of " + fld.Name() + " found"
	}
	return true, ""
}

// pathNameUse classifies the uses of a loaded path-name string; returns "" if all are result neutral.
func pathNameUse(v ssa.Value) string {
	seen := map[ssa.Value]bool{}
	var walk func(v ssa.Value) string
	walk = func(v ssa.Value) string {
		if seen[v] {
			return ""
		}
		seen[v] = true
		for _, u := range core.Referrers(v) {
			switch x := u.(type) {
			case *ssa.DebugRef:
			case *ssa.MakeInterface:
				if bad := walk(x); bad != "" {
					return bad
				}
			case *ssa.Store:
				// element of a variadic argument slice
				if ia, ok := x.Addr.(*ssa.IndexAddr); ok {
					if bad := walk(ia.X); bad != "" {
						return bad
					}
					continue
				}
				return "a store at " + x.Parent().Prog.Fset.Position(x.Pos()).String()
			case *ssa.Slice:
				if bad := walk(x); bad != "" {
					return bad
				}
			case *ssa.IndexAddr:
				// addressing another element of the same variadic argument array
			case *ssa.BinOp:
				if x.Op == token.EQL || x.Op == token.NEQ {
					if _, isConst := x.X.(*ssa.Const); isConst {
						continue // comparison with a constant name (root test): table entry
					}
					if _, isConst := x.Y.(*ssa.Const); isConst {
						continue
					}
				}
				return "a computation (" + x.Op.String() + ")"
			case ssa.CallInstruction:
				o := core.CalleeObj(x)
				if o == nil {
					return "a dynamic call"
				}
				full := o.Pkg().Path() + "." + core.FuncName(o)
				switch full {
				case "fmt.Errorf", "errors.New":
					continue
				case "github.com/jf-tech/go-corelib/strs.LastNameletOfFQDNWithEsc":
					continue // object member name = key of the parent's Object map, which is in the parent's hash: table entry
				}
				return "a call of " + core.Rel(full)
			case *ssa.Return:
				return "a return value"
			default:
				return fmt.Sprintf("%T", u)
			}
		}
		return ""
	}
	return walk(v)
}

// c13ImmutableAfterHash: no exported field of a Decl is stored through a pointer that derives from the result of
// a hashing function (a function that stores the hash field on the Decl it returns).
func c13ImmutableAfterHash(c *core.Ctx, r *c13roles, rule string) {
	hashers := map[*ssa.Function]bool{}
	for _, f := range c.RepoFunctions() {
		if core.FuncPkg(f) != r.tp {
			continue
		}
		for _, w := range core.Writes(f) {
			if w.Kind == "field" && w.Field == r.hashField {
				hashers[f] = true
			}
		}
	}
	// functions returning the result of a hasher are hashers too (one level)
	for _, f := range c.RepoFunctions() {
		if core.FuncPkg(f) != r.tp || hashers[f] {
			continue
		}
		for _, b := range f.Blocks {
			for _, in := range b.Instrs {
				if rt, ok := in.(*ssa.Return); ok {
					for _, v := range rt.Results {
						if fromHasher(v, hashers, 0) && core.NamedOf(v.Type()) == r.declT {
							hashers[f] = true
						}
					}
				}
			}
		}
	}
	n := 0
	for _, f := range c.RepoFunctions() {
		if core.FuncPkg(f) != r.tp {
			continue
		}
		for _, w := range core.Writes(f) {
			if w.Field == nil || w.Owner == nil || !(types.Identical(w.Owner, r.declT) || types.Identical(w.Owner, r.cfT)) || !w.Field.Exported() {
				continue
			}
			n++
			if fromHasher(w.Root, hashers, 0) {
				c.Bad(rule, core.FuncKey(f)+" writes "+w.Owner.Obj().Name()+"."+w.Field.Name()+" after hash", w.Pos,
					"an exported (hash-covered) field is modified on a declaration that was already returned by the hashing function: the cache key no longer determines what evaluation reads")
			}
		}
	}
	c.OK(rule, "declarations immutable after hash", 0, fmt.Sprintf("%d stores to exported declaration fields inspected; none on a declaration returned by %d hashing function(s)", n, len(hashers)))
}

func fromHasher(v ssa.Value, hashers map[*ssa.Function]bool, d int) bool {
	if d > 6 || v == nil {
		return false
	}
	switch x := v.(type) {
	case *ssa.Extract:
		return fromHasher(x.Tuple, hashers, d+1)
	case *ssa.Call:
		cf := x.Call.StaticCallee()
		return cf != nil && hashers[cf]
	case *ssa.Phi:
		for _, e := range x.Edges {
			if fromHasher(e, hashers, d+1) {
				return true
			}
		}
	case *ssa.UnOp:
		if x.Op == token.MUL {
			if a, ok := x.X.(*ssa.Alloc); ok {
				for _, st := range storesToCell(a) {
					if fromHasher(st.Val, hashers, d+1) {
						return true
					}
				}
			}
		}
	}
	return false
}

// sameKey: the store key is the lookup key, or a Phi whose non-constant edges all are the lookup key (the constant edge
// belongs to the cache-disabled path on which the store is not executed).
func sameKey(lookup, store ssa.Value) bool {
	if lookup == store {
		return true
	}
	if phi, ok := store.(*ssa.Phi); ok {
		n := 0
		for _, e := range phi.Edges {
			if _, isConst := e.(*ssa.Const); isConst {
				continue
			}
			if cellOrValue(e) != lookup {
				return false
			}
			n++
		}
		return n > 0
	}
	return false
}

// returnsConstsFromExported: every return of g is a constant, and g reads only exported fields of Decl.
func returnsConstsFromExported(g *ssa.Function, r *c13roles, fld *types.Var) bool {
	if g.Blocks == nil || core.FuncPkg(g) != r.tp {
		return false
	}
	for _, b := range g.Blocks {
		for _, in := range b.Instrs {
			switch x := in.(type) {
			case *ssa.Return:
				for _, v := range x.Results {
					if _, ok := v.(*ssa.Const); !ok {
						return false
					}
				}
			case *ssa.FieldAddr:
				if core.FieldOwner(x) != nil && types.Identical(core.FieldOwner(x), r.declT) && !core.FieldOfAddr(x).Exported() {
					return false
				}
			case ssa.CallInstruction:
				return false
			}
		}
	}
	return true
}
