package rules

import (
	"fmt"
	"go/types"
	"sort"

	"golang.org/x/tools/go/ssa"

	"omnilint/core"
)

// R08h: the tree -> value conversion is a pure function of the node. The converters of package idr (exported functions
// that take a *Node and return interface{}, called from another library package) and everything they reach in the repository write only memory they
// allocated themselves: no store through the node, through the conversion context or any other parameter, and none
// rooted at a package-level variable. A counter, cache or flag kept in the context or in the tree makes the value
// produced for one node depend on how many / which nodes were converted before it.

func init() {
	wrapRun("C08", func(c *core.Ctx) {
		if c.CountRule("R08h") == 0 {
			c08Purity(c, "R08h")
			c.Floor("R08h", 3, "converters and their helpers")
		}
	})
	control(Control{ID: "c08-converter-keeps-state", Prop: "C08", File: "idr/marshal2.go",
		Old:  "func (ctx *ctx) nodeToInterface(n *Node) interface{} {\n",
		New:  "func (ctx *ctx) nodeToInterface(n *Node) interface{} {\n\tif n.Type == DocumentNode {\n\t\tctx.useJSONType = false\n\t}\n",
		Rule: "R08h", Substr: "nodeToInterface", Why: "the conversion context is modified while converting: later nodes are converted differently"})
}

func c08Purity(c *core.Ctx, rule string) {
	var idrPkg *types.Package
	for _, p := range c.Pkgs {
		if core.Rel(p.PkgPath) == "idr" {
			idrPkg = p.Types
		}
	}
	if idrPkg == nil {
		c.Unresolved(rule, "package idr", "not loaded")
		return
	}
	var nodeT *types.Named
	if tn, ok := idrPkg.Scope().Lookup("Node").(*types.TypeName); ok {
		nodeT, _ = tn.Type().(*types.Named)
	}
	if nodeT == nil {
		c.Unresolved(rule, "idr.Node", "type not found")
		return
	}
	var roots []*ssa.Function
	for _, f := range c.RepoFunctions() {
		if core.FuncPkg(f) != idrPkg || f.Object() == nil || !f.Object().Exported() || f.Signature.Recv() != nil {
			continue
		}
		sig := f.Signature
		if sig.Results().Len() != 1 {
			continue
		}
		if it, ok := sig.Results().At(0).Type().Underlying().(*types.Interface); !ok || it.NumMethods() != 0 {
			continue
		}
		takesNode := false
		for i := 0; i < sig.Params().Len(); i++ {
			if pt, ok := sig.Params().At(i).Type().(*types.Pointer); ok && types.Identical(pt.Elem(), nodeT) {
				takesNode = true
			}
		}
		// only converters the library itself uses (a debugging dump used by tests alone is not part of the claim)
		usedOutside := false
		if n := c.CallGraph().Nodes[f]; n != nil {
			for _, e := range n.In {
				if p := core.FuncPkg(e.Caller.Func); p != nil && p != idrPkg && core.InRepo(p) && !core.IsCLIOrSample(p) {
					usedOutside = true
				}
			}
		}
		if takesNode && usedOutside {
			roots = append(roots, f)
		}
	}
	if len(roots) == 0 {
		c.Unresolved(rule, "converters", "no exported function of package idr takes a *Node and returns interface{}")
		return
	}
	reach := c.Reachable(roots, nil)
	var fns []*ssa.Function
	for f := range reach {
		if f.Blocks != nil && core.InRepo(core.FuncPkg(f)) {
			fns = append(fns, f)
		}
	}
	sort.Slice(fns, func(i, j int) bool { return core.FuncKey(fns[i]) < core.FuncKey(fns[j]) })
	for _, f := range fns {
		bad := 0
		for _, w := range core.Writes(f) {
			fresh := core.IsFresh(w.Root) && w.Global == nil
			if fresh {
				// a load step means the written object was reached through a pointer held in a local: only fine if that
				// local is itself the root allocation (variable cell) of a fresh object
				for _, st := range w.Chain {
					if st.Kind == "load" {
						if _, isAlloc := w.Root.(*ssa.Alloc); !isAlloc {
							fresh = false
						}
					}
				}
			}
			if fresh && c08LocalCellHoldsOnlyFresh(w) {
				continue
			}
			bad++
			what := "memory it did not allocate"
			if w.Global != nil {
				what = "package-level variable " + w.Global.Name()
			} else if p, ok := w.Root.(*ssa.Parameter); ok {
				what = "its parameter " + p.Name()
			}
			key := core.FuncKey(f) + " writes " + w.Kind
			if w.Field != nil {
				key += " " + w.Field.Name()
			}
			c.Bad(rule, key, w.Pos, "a function on the conversion path stores into "+what+": the value produced for a node then depends on what was converted before it")
		}
		if bad == 0 {
			c.OK(rule, core.FuncKey(f)+" is pure", f.Pos(), fmt.Sprintf("%d stores, all into memory allocated by the function itself", len(core.Writes(f))))
		}
	}
}

// c08LocalCellHoldsOnlyFresh: when the write goes through a pointer loaded from a local variable cell, every value
// stored into that cell must be a fresh allocation.
func c08LocalCellHoldsOnlyFresh(w core.WriteSite) bool {
	hasLoad := false
	for _, st := range w.Chain {
		if st.Kind == "load" {
			hasLoad = true
		}
	}
	if !hasLoad {
		return true
	}
	a, ok := w.Root.(*ssa.Alloc)
	if !ok {
		return false
	}
	for _, r := range core.Referrers(a) {
		if st, ok := r.(*ssa.Store); ok && st.Addr == a {
			if !core.IsFresh(st.Val) {
				if _, isCall := st.Val.(*ssa.Call); isCall {
					if b, ok := st.Val.(*ssa.Call).Call.Value.(*ssa.Builtin); ok && b.Name() == "append" {
						continue
					}
				}
				if core.IsNilConst(st.Val) {
					continue
				}
				return false
			}
		}
	}
	return true
}
