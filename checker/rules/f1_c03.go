package rules

// C03 helper (K1 robustness): deciding a panic's guard at one call site when the guard is not a plain comparison of
// the callee's parameters:
//
//   - linear normal form of comparisons: `n := len(s)-1; if n < 0` reads as `len(s) < 1`;
//   - call-site binding: a phi in the callee (`nth := 0; if len(frame) == 1 { nth = frame[0] }`) is resolved to the
//     incoming values of the edges that are feasible for the arguments of the call under consideration;
//   - disjunctive predicate summaries: `inRange(i, lo, hi)` returning false implies `i < lo || i > hi`; a necessary
//     condition of the panic that is a disjunction is refuted by refuting every disjunct at the call site;
//   - store epochs: a fact about `len(r.stack)` read before `r.stack = r.stack[:depth-1]` is carried across the store by
//     evaluating loads that follow the store to the stored value;
//   - a guard computed by a helper (`t, ok := classify(x); if !ok { panic }`) is named by the helper's deciding branch.
//
// None of this accepts anything without proof: whatever is not refuted stays an obligation that needs a reviewed entry.

import (
	"fmt"
	"go/constant"
	"go/token"
	"go/types"
	"os"
	"sort"
	"strconv"
	"strings"

	"golang.org/x/tools/go/ssa"

	"omnilint/core"
)

type c03sumKey struct {
	f   *ssa.Function
	idx int
}

// c03bind: the call under consideration: fn's parameters are bound to args (terms of the caller's frame; only their
// constant content is used, to decide which incoming edges of a phi in fn are feasible).
type c03bind struct {
	fn   *ssa.Function
	args []*c03term
	busy map[*ssa.Phi]bool
}

// c03epoch: inside st's function, loads of base.fld that execute after the store st read the stored value vterm
// (a term over the state before the store).
type c03epoch struct {
	fld   *types.Var
	base  *c03term
	st    *ssa.Store
	vterm *c03term
}

// ---------------------------------------------------------------- linear normal form

func c03constInt(t *c03term) (int64, bool) {
	if t == nil || t.op != "const" {
		return 0, false
	}
	v, err := strconv.ParseInt(t.name, 10, 64)
	if err != nil {
		return 0, false
	}
	return v, true
}

func c03intTerm(k int64) *c03term { return &c03term{op: "const", name: strconv.FormatInt(k, 10)} }

const c03small = int64(1) << 40

func c03isSmall(k int64) bool { return k > -c03small && k < c03small }

func c03signedInt(t types.Type) bool {
	if t == nil {
		return false
	}
	b, ok := t.Underlying().(*types.Basic)
	return ok && b.Info()&types.IsInteger != 0 && b.Info()&types.IsUnsigned == 0
}

// c03linear splits an integer term into base + off (base nil: a constant). Only signed arithmetic with small constants
// is folded (wrap-around of machine integers is outside the claim, see NotDecided).
func c03linear(t *c03term) (base *c03term, off int64) {
	if k, ok := c03constInt(t); ok && c03isSmall(k) {
		return nil, k
	}
	switch t.op {
	case "bin":
		if !c03signedInt(t.vt) || len(t.args) != 2 || (t.name != "+" && t.name != "-") {
			return t, 0
		}
		b1, o1 := c03linear(t.args[0])
		b2, o2 := c03linear(t.args[1])
		if !c03isSmall(o1) || !c03isSmall(o2) {
			return t, 0
		}
		switch {
		case t.name == "+" && b2 == nil:
			return b1, o1 + o2
		case t.name == "+" && b1 == nil:
			return b2, o1 + o2
		case t.name == "-" && b2 == nil:
			return b1, o1 - o2
		case t.name == "-" && b1 != nil && c03eq(b1, b2):
			return nil, o1 - o2
		}
	case "len":
		if len(t.args) != 1 {
			return t, 0
		}
		a := t.args[0]
		if a.op == "const" && a.name == "nil" {
			return nil, 0
		}
		if a.op == "slice" && len(a.args) == 3 {
			// len(x[lo:hi]) = hi - lo, len(x[lo:]) = len(x) - lo
			lob, loo := (*c03term)(nil), int64(0)
			if a.args[1].op != "none" {
				lob, loo = c03linear(a.args[1])
			}
			var hib *c03term
			var hio int64
			if a.args[2].op != "none" {
				hib, hio = c03linear(a.args[2])
			} else {
				hib, hio = c03linear(&c03term{op: "len", args: []*c03term{a.args[0]}})
			}
			switch {
			case lob == nil:
				return hib, hio - loo
			case hib != nil && c03eq(lob, hib):
				return nil, hio - loo
			}
		}
	}
	return t, 0
}

// c03normAtom brings a comparison into the form `base op constant` where the arithmetic allows it.
func c03normAtom(a c03atom) c03atom {
	switch a.kind {
	case "cmp":
		if a.t == nil || !c03isSmall(a.k) {
			return a
		}
		b, off := c03linear(a.t)
		if b == a.t && off == 0 {
			return a
		}
		if b == nil {
			a.t = c03intTerm(off)
			return a
		}
		a.t, a.k = b, a.k-off
		return a
	case "rel":
		if a.t == nil || a.u == nil {
			return a
		}
		b1, o1 := c03linear(a.t)
		b2, o2 := c03linear(a.u)
		switch {
		case b1 == nil && b2 == nil:
			return c03atom{kind: "cmp", t: c03intTerm(o1), op: a.op, k: o2, pos: true}
		case b2 == nil:
			return c03atom{kind: "cmp", t: b1, op: a.op, k: o2 - o1, pos: true}
		case b1 == nil:
			return c03atom{kind: "cmp", t: b2, op: c03flipOp(a.op), k: o1 - o2, pos: true}
		case c03eq(b1, b2):
			return c03atom{kind: "cmp", t: c03intTerm(o1), op: a.op, k: o2, pos: true}
		}
	}
	return a
}

// c03atomConst: the truth value of an atom that only speaks about constants.
func c03atomConst(a c03atom) (val, known bool) {
	switch a.kind {
	case "cmp":
		if k, ok := c03constInt(a.t); ok {
			return c03intervalImplies(k, k, a.op, a.k), true
		}
	case "nil":
		if a.t != nil && a.t.op == "const" {
			return (a.t.name == "nil") == a.pos, true
		}
	}
	return false, false
}

// ---------------------------------------------------------------- call-site binding of phis

// edgeInfeasible: under the current binding the i-th incoming edge of the phi cannot be taken: a fact that must hold
// for the edge (the facts on entry to the predecessor and the predecessor's own branch into the phi's block) is false
// for the bound arguments.
func (e *c03eng) edgeInfeasible(phi *ssa.Phi, i int) bool {
	bd := e.bind
	if bd == nil || bd.busy[phi] || i >= len(phi.Block().Preds) {
		return false
	}
	bd.busy[phi] = true
	defer delete(bd.busy, phi)
	pb := phi.Block()
	p := pb.Preds[i]
	cls := e.factsAtBlock(p)
	if ifi, ok := p.Instrs[len(p.Instrs)-1].(*ssa.If); ok && len(p.Succs) == 2 && p.Succs[0] != p.Succs[1] {
		cls = append(cls, e.condFacts(ifi.Cond, p.Succs[0] == pb, 0)...)
	}
	for _, cl := range cls {
		if len(cl.atoms) != 1 || !cl.atoms[0].paramRooted() {
			continue
		}
		b, ok := cl.atoms[0].subst(bd.args)
		if !ok {
			continue
		}
		if v, known := c03atomConst(b); known && !v {
			return true
		}
	}
	return false
}

// ---------------------------------------------------------------- store epochs

func c03instrAfter(in, st ssa.Instruction) bool {
	if in.Parent() != st.Parent() {
		return false
	}
	if in.Block() == st.Block() {
		return core.InstrIndex(in) > core.InstrIndex(st)
	}
	return st.Block().Dominates(in.Block())
}

func (t *c03term) replace(match func(*c03term) *c03term) *c03term {
	if t == nil {
		return nil
	}
	if r := match(t); r != nil {
		return r
	}
	if len(t.args) == 0 {
		return t
	}
	n := &c03term{op: t.op, idx: t.idx, name: t.name, fld: t.fld, typ: t.typ, vt: t.vt, v: t.v}
	for _, a := range t.args {
		n.args = append(n.args, a.replace(match))
	}
	return n
}

func (e *c03eng) epochMatch(t *c03term) *c03term {
	ep := e.epoch
	if t.op == "field" && t.fld == ep.fld && len(t.args) == 1 && c03eq(t.args[0], ep.base) {
		return ep.vterm
	}
	return nil
}

// epochLoad: the term of a field load, given the instruction that performs it.
func (e *c03eng) epochLoad(t *c03term, at ssa.Instruction) *c03term {
	if e.epoch == nil || e.epoch.vterm == nil || !c03instrAfter(at, e.epoch.st) {
		return t
	}
	return t.replace(e.epochMatch)
}

// epochRead: the term of an accessor call (which reads the field when it is called).
func (e *c03eng) epochRead(t *c03term, at ssa.Instruction) *c03term { return e.epochLoad(t, at) }

var c03arithOps = map[string]bool{"param": true, "const": true, "field": true, "len": true, "bin": true, "slice": true, "none": true}

// proveAcrossStore establishes a comparison about base.F at instruction `at` when F was assigned on the way: there is
// exactly one store St to F in the function that can execute between function entry and `at`; St dominates `at`; nothing
// else writes F from function entry up to `at`. Then every load of F that dominates `at` reads either the value F had
// on entry (before St) or the stored value (after St), so all dominating branch facts and the goal can be expressed
// over the entry state and decided there.
func (e *c03eng) proveAcrossStore(a c03atom, at ssa.Instruction) (bool, string) {
	if (a.kind != "cmp" && a.kind != "rel") || e.epoch != nil {
		return false, ""
	}
	fn := at.Parent()
	terms := []*c03term{a.t}
	if a.u != nil {
		terms = append(terms, a.u)
	}
	var flds []*types.Var
	for _, t := range terms {
		arith := true
		t.walk(func(s *c03term) {
			if !c03arithOps[s.op] {
				arith = false
			}
		})
		if !arith {
			return false, ""
		}
		fl, _ := t.memFields()
		flds = append(flds, fl...)
	}
	var F *types.Var
	for _, f := range flds {
		if e.stableBetween(nil, at, []*types.Var{f}) {
			continue
		}
		if F != nil && F != f {
			return false, ""
		}
		F = f
	}
	if F == nil {
		return false, ""
	}
	switch F.Type().Underlying().(type) {
	case *types.Slice, *types.Basic, *types.Pointer, *types.Map:
	default:
		return false, "" // parts of an aggregate field can be written separately
	}
	// the store
	var st *ssa.Store
	var base *c03term
	for _, b := range fn.Blocks {
		for _, in := range b.Instrs {
			s, ok := in.(*ssa.Store)
			if !ok {
				continue
			}
			fa, ok := s.Addr.(*ssa.FieldAddr)
			if !ok || core.FieldOfAddr(fa) != F {
				continue
			}
			if !c03instrAfter(at, s) {
				continue
			}
			if st != nil {
				return false, ""
			}
			st, base = s, e.addrBase(fa.X, 0)
		}
	}
	if st == nil || base == nil || !base.paramRooted() {
		return false, ""
	}
	if fl, oth := base.memFields(); len(fl) > 0 || len(oth) > 0 {
		return false, ""
	}
	one := []*types.Var{F}
	if !e.stableBetween(nil, st, one) || !e.stableBetween(nil, at, one, st) {
		return false, ""
	}
	// every occurrence of F in the goal must be base.F
	okBase := true
	for _, t := range terms {
		t.walk(func(s *c03term) {
			if s.op == "field" && s.fld == F && !c03eq(s.args[0], base) {
				okBase = false
			}
		})
	}
	if !okBase {
		return false, ""
	}
	e.epoch = &c03epoch{fld: F, base: base, st: st}
	defer func() { e.epoch = nil }()
	vt := e.termOf(st.Val)
	arith := vt != nil
	if vt != nil {
		vt.walk(func(s *c03term) {
			if !c03arithOps[s.op] {
				arith = false
			}
		})
	}
	if !arith {
		return false, ""
	}
	e.epoch.vterm = vt
	goal := a
	goal.t = a.t.replace(e.epochMatch)
	if a.u != nil {
		goal.u = a.u.replace(e.epochMatch)
	}
	goal = c03normAtom(goal)
	if v, known := c03atomConst(goal); known {
		return v, "after `" + F.Name() + "` was assigned: " + goal.pretty()
	}
	cls := e.factsAtBlock(at.Block()) // branch facts only (no summaries: their terms carry no load position)
	ok, used, _, how := e.decideLocal(c03goal{kind: "atom", atom: goal, t: goal.t}, cls)
	if !ok {
		return false, ""
	}
	// everything the decision relied on: pure arithmetic over parameters and fields; F is pinned to the entry state,
	// every other field must not be written from function entry up to `at`
	check := func(t *c03term) bool {
		good := true
		t.walk(func(s *c03term) {
			if !c03arithOps[s.op] {
				good = false
			}
		})
		if !good || !t.paramRooted() {
			return false
		}
		fl, _ := t.memFields()
		for _, f := range fl {
			if f != F && !e.stableBetween(nil, at, []*types.Var{f}) {
				return false
			}
		}
		return true
	}
	for _, cl := range used {
		for _, ua := range cl.atoms {
			if !check(ua.t) || (ua.u != nil && !check(ua.u)) {
				return false, ""
			}
		}
	}
	if !check(goal.t) || (goal.u != nil && !check(goal.u)) {
		return false, ""
	}
	return true, "with " + F.Name() + " = " + vt.pretty() + " assigned on the way (values before the assignment): " + goal.pretty() + " by " + how + " in " + core.FuncKey(fn)
}

// ---------------------------------------------------------------- disjunctive summaries

// c03disjoin adds, to the clauses every way of producing a result has in common, the disjunctions that pick one
// parameter-only fact per way: the result implies that one of the ways was taken.
func c03disjoin(out []c03clause, ways [][]c03clause) []c03clause {
	if len(ways) < 2 || len(ways) > 4 {
		return out
	}
	var per [][]c03atom
	combos := 1
	for _, w := range ways {
		var as []c03atom
		seen := map[string]bool{}
		for _, cl := range w {
			if len(cl.atoms) != 1 || !cl.atoms[0].paramRooted() || seen[cl.atoms[0].String()] {
				continue
			}
			if cl.atoms[0].t.op == "call" || cl.atoms[0].t.op == "invoke" {
				continue // the expansion of the call is among the clauses as well
			}
			seen[cl.atoms[0].String()] = true
			as = append(as, cl.atoms[0])
		}
		if len(as) == 0 {
			return out
		}
		per = append(per, as)
		combos *= len(as)
		if combos > 16 {
			return out
		}
	}
	have := map[string]bool{}
	for _, o := range out {
		have[o.String()] = true
	}
	idx := make([]int, len(per))
	for {
		var atoms []c03atom
		seen := map[string]bool{}
		taut := false
		for w, i := range idx {
			a := per[w][i]
			if seen[a.negate().String()] {
				taut = true
			}
			if !seen[a.String()] {
				seen[a.String()] = true
				atoms = append(atoms, a)
			}
		}
		if !taut && len(atoms) > 1 {
			sort.Slice(atoms, func(i, j int) bool { return atoms[i].String() < atoms[j].String() })
			cl := c03clause{atoms: atoms}
			if !have[cl.String()] {
				have[cl.String()] = true
				out = append(out, cl)
			}
		}
		k := len(idx) - 1
		for k >= 0 {
			idx[k]++
			if idx[k] < len(per[k]) {
				break
			}
			idx[k] = 0
			k--
		}
		if k < 0 {
			break
		}
	}
	return out
}

// ---------------------------------------------------------------- K1: the guard at one call site

// k1siteRefute: with the callee's parameters bound to the arguments of call s, some necessary condition of reaching
// the panic p (a clause over the callee's parameters: a dominating branch fact or what a predicate's result implies)
// is false at the call site: the caller establishes the negation of every disjunct, and the memory the disjuncts
// read is not written inside the callee before the test.
func (x *c03ctx) k1siteRefute(p *ssa.Panic, s ssa.CallInstruction, args []*c03term) (string, bool) {
	e := x.e
	fn := p.Parent()
	e.bind = &c03bind{fn: fn, args: args, busy: map[*ssa.Phi]bool{}}
	cls := e.expand(e.factsAtBlock(p.Block()), 0)
	e.bind = nil
	dbg := os.Getenv("C03_DEBUG") != "" && strings.Contains(core.FuncKey(fn), os.Getenv("C03_DEBUG"))
	if dbg {
		fmt.Fprintf(os.Stderr, "k1siteRefute %s <- %s args=%v\n", core.FuncKey(fn), core.FuncKey(s.Parent()), args)
		for _, cl := range cls {
			fmt.Fprintf(os.Stderr, "   clause %s\n", cl.String())
		}
	}
	for _, cl := range cls {
		if len(cl.atoms) == 0 {
			continue
		}
		good := true
		var hows []string
		var need []string
		for _, a := range cl.atoms {
			if !a.paramRooted() {
				good = false
				break
			}
			flds, _ := a.t.memFields()
			if a.u != nil {
				f2, _ := a.u.memFields()
				flds = append(flds, f2...)
			}
			if !e.stableBetween(nil, p, flds) {
				good = false
				break
			}
			na, ok := a.negate().subst(args)
			if !ok {
				good = false
				break
			}
			if v, known := c03atomConst(na); known {
				if !v {
					good = false
					break
				}
				continue
			}
			need = append(need, na.pretty())
			if pr := e.prove(c03goal{kind: "atom", atom: na, t: na.t}, s, 1); pr.ok {
				hows = append(hows, pr.how)
				continue
			}
			if ok, how := e.proveAcrossStore(na, s); ok {
				hows = append(hows, how)
				continue
			}
			good = false
			break
		}
		if good && len(need) > 0 {
			sort.Strings(need)
			return "for the arguments of this call the panic needs " + c03descOf(cl.atoms) + "; the caller establishes " + f1joinAnd(need) + ": " + f1joinAnd(c03uniq(hows)), true
		}
	}
	return "", false
}

func f1joinAnd(s []string) string {
	out := ""
	for i, x := range s {
		if i > 0 {
			out += " and "
		}
		out += x
	}
	return out
}

// ---------------------------------------------------------------- K1: naming a guard computed by a helper

// inlineInner: the innermost entry clause of a panic is `ok` / `!ok` where ok is the (idx-th) boolean result of a
// repository observer with exactly one return producing that truth value: the guard is named by the branch fact under
// which the helper reaches that return, in the caller's terms. Anything else is left as it is.
func (e *c03eng) inlineInner(inner []c03atom, depth int) []c03atom {
	if len(inner) != 1 || depth > 3 {
		return inner
	}
	a := inner[0]
	if a.kind != "true" || a.t == nil {
		return inner
	}
	ct, idx := a.t, 0
	if a.t.op == "extract" && len(a.t.args) == 1 {
		ct, idx = a.t.args[0], a.t.idx
	}
	if ct.op != "call" {
		return inner
	}
	f := e.byKey[ct.name]
	if f == nil || f.Blocks == nil || !core.InRepo(core.FuncPkg(f)) || len(e.writeSet(f)) > 0 {
		return inner
	}
	res := f.Signature.Results()
	if idx >= res.Len() || (a.t.op == "call" && res.Len() != 1) {
		return inner
	}
	var at *ssa.BasicBlock
	for _, b := range f.Blocks {
		rt, ok := b.Instrs[len(b.Instrs)-1].(*ssa.Return)
		if !ok {
			continue
		}
		if len(rt.Results) != res.Len() {
			return inner
		}
		k, ok := rt.Results[idx].(*ssa.Const)
		if !ok || k.Value == nil || k.Value.Kind() != constant.Bool {
			return inner // a computed result: no single deciding branch
		}
		if constant.BoolVal(k.Value) != a.pos {
			continue
		}
		if at != nil {
			return inner
		}
		at = b
	}
	if at == nil {
		return inner
	}
	cls := e.factsAtBlock(at)
	if len(cls) == 0 {
		return inner
	}
	var out []c03atom
	for _, ia := range cls[0].atoms {
		if !ia.paramRooted() {
			return inner
		}
		b, ok := ia.subst(ct.args)
		if !ok {
			return inner
		}
		out = append(out, b)
	}
	if len(out) == 0 {
		return inner
	}
	return e.inlineInner(out, depth+1)
}

// ---------------------------------------------------------------- stability of a branch fact since its operands were read

// stableSinceRead: a fact established on entry to block d speaks about values that were read from memory when the
// branch condition's operands were computed - possibly several blocks before the branch (`depth := len(r.stack)` at
// the top, `if depth == 1` after `r.stack` was re-sliced). The fields must not be written between those reads and
// the use, not only between the branch and the use.
func (e *c03eng) stableSinceRead(d *ssa.BasicBlock, use ssa.Instruction, flds []*types.Var) bool {
	if len(flds) == 0 {
		return true
	}
	if !e.stableBetween(d, use, flds) {
		return false
	}
	reads := map[ssa.Instruction]bool{}
	seen := map[ssa.Value]bool{}
	var walk func(v ssa.Value, depth int)
	walk = func(v ssa.Value, depth int) {
		if v == nil || seen[v] || depth > 24 {
			return
		}
		seen[v] = true
		in, isInstr := v.(ssa.Instruction)
		if !isInstr {
			return
		}
		switch y := v.(type) {
		case *ssa.UnOp:
			if y.Op == token.MUL && in.Block() != nil {
				reads[in] = true
			}
		case *ssa.Call:
			if _, isB := y.Call.Value.(*ssa.Builtin); !isB && in.Block() != nil {
				reads[in] = true // an accessor / observer reads when it is called
			}
		case *ssa.Lookup, *ssa.Index:
			if in.Block() != nil {
				reads[in] = true
			}
		}
		var ops []*ssa.Value
		for _, op := range in.Operands(ops) {
			if op != nil {
				walk(*op, depth+1)
			}
		}
	}
	for _, p := range d.Preds {
		if d.Dominates(p) {
			continue
		}
		if ifi, ok := p.Instrs[len(p.Instrs)-1].(*ssa.If); ok {
			walk(ifi.Cond, 0)
		}
	}
	for rd := range reads {
		b := rd.Block()
		if b == d || b.Parent() != use.Parent() || !b.Dominates(d) {
			continue
		}
		// what executes after the read: the rest of its block and everything on the way to the use
		var before []ssa.Instruction
		for _, in := range b.Instrs {
			before = append(before, in)
			if in == rd {
				break
			}
		}
		if !e.stableBetween(b, use, flds, before...) {
			return false
		}
	}
	return true
}
