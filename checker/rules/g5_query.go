package rules

import (
	"go/constant"
	"go/token"
	"go/types"

	"golang.org/x/tools/go/ssa"

	"omnilint/core"
)

// g5GateConds: the branch conditions block b is control-dependent on, approximated along the dominator tree: every
// two-way branch among b's dominators that has b on exactly one of its sides.
func g5GateConds(b *ssa.BasicBlock) []ssa.Value {
	var out []ssa.Value
	for d := b; d != nil; d = d.Idom() {
		id := d.Idom()
		if id == nil {
			break
		}
		ifi, ok := id.Instrs[len(id.Instrs)-1].(*ssa.If)
		if !ok || id.Succs[0] == id.Succs[1] {
			continue
		}
		// a successor that dominates the branching block itself is a back edge to a loop header ("continue"): it
		// dominates d only because the header does, and says nothing about the side d is on
		side0 := (id.Succs[0] == d || id.Succs[0].Dominates(d)) && !id.Succs[0].Dominates(id)
		side1 := (id.Succs[1] == d || id.Succs[1].Dominates(d)) && !id.Succs[1].Dominates(id)
		if side0 == side1 {
			continue
		}
		out = append(out, ifi.Cond)
	}
	return out
}

// g5IsMoveNext: v is the answer of the engine's NodeIterator.MoveNext(), possibly negated, merged by a phi (loop with
// the advance in init and post position), or handed through an iterator helper / iterator closure of the repository
// whose boolean result is decided by MoveNext() alone (see g5ResultIsMoveNext).
func g5IsMoveNext(v ssa.Value, seen map[ssa.Value]bool) bool {
	if seen[v] {
		return true // cyclic phi: decided by the other edges
	}
	seen[v] = true
	switch x := v.(type) {
	case *ssa.Call:
		if core.IsCallTo(x, "github.com/antchfx/xpath", "NodeIterator.MoveNext") {
			return true
		}
		if b, ok := x.Type().Underlying().(*types.Basic); !ok || b.Kind() != types.Bool || x.Call.IsInvoke() {
			return false
		}
		fn := g5CalledFunc(x.Call.Value, 0)
		return fn != nil && g5ResultIsMoveNext(fn, 0, seen)
	case *ssa.UnOp:
		if x.Op == token.NOT {
			return g5IsMoveNext(x.X, seen)
		}
	case *ssa.Phi:
		for _, e := range x.Edges {
			if !g5IsMoveNext(e, seen) {
				return false
			}
		}
		return len(x.Edges) > 0
	case *ssa.Extract:
		call, ok := x.Tuple.(*ssa.Call)
		if !ok || call.Call.IsInvoke() {
			return false
		}
		fn := g5CalledFunc(call.Call.Value, 0)
		return fn != nil && g5ResultIsMoveNext(fn, x.Index, seen)
	}
	return false
}

// g5ResultIsMoveNext: result #idx of repository function fn is a boolean that is decided by MoveNext() alone: at every
// return it is either a MoveNext-derived value itself or a constant whose return statement is gated by MoveNext-derived
// conditions only (no filter, no counter, no de-duplication decides whether a node is reported).
func g5ResultIsMoveNext(fn *ssa.Function, idx int, seen map[ssa.Value]bool) bool {
	if fn == nil || len(fn.Blocks) == 0 || !core.InRepo(core.FuncPkg(fn)) {
		return false
	}
	nret := 0
	for _, b := range fn.Blocks {
		ret, ok := b.Instrs[len(b.Instrs)-1].(*ssa.Return)
		if !ok {
			continue
		}
		if idx >= len(ret.Results) {
			return false
		}
		nret++
		r := ret.Results[idx]
		if cst, ok := r.(*ssa.Const); ok && cst.Value != nil && cst.Value.Kind() == constant.Bool {
			for _, cond := range g5GateConds(b) {
				if !g5IsMoveNext(cond, seen) {
					return false
				}
			}
			continue
		}
		// a computed answer: must itself be MoveNext-derived, and returning it must not be gated by anything else
		if !g5IsMoveNext(r, seen) {
			return false
		}
		for _, cond := range g5GateConds(b) {
			if !g5IsMoveNext(cond, seen) {
				return false
			}
		}
	}
	return nret > 0
}

// g5CalledFunc resolves the function behind a call's callee value: a function, a closure created in place, a closure
// held in a local (captured) variable with one definition, or the closure every return of a repository helper hands out.
func g5CalledFunc(v ssa.Value, depth int) *ssa.Function {
	if depth > 4 {
		return nil
	}
	switch x := v.(type) {
	case *ssa.Function:
		return x
	case *ssa.MakeClosure:
		f, _ := x.Fn.(*ssa.Function)
		return f
	case *ssa.Call:
		g := x.Call.StaticCallee()
		if g == nil {
			g = g5CalledFunc(x.Call.Value, depth+1)
		}
		if g == nil || len(g.Blocks) == 0 {
			return nil
		}
		var res *ssa.Function
		for _, b := range g.Blocks {
			ret, ok := b.Instrs[len(b.Instrs)-1].(*ssa.Return)
			if !ok {
				continue
			}
			if len(ret.Results) != 1 {
				return nil
			}
			f := g5CalledFunc(ret.Results[0], depth+1)
			if f == nil || (res != nil && res != f) {
				return nil
			}
			res = f
		}
		return res
	case *ssa.Phi:
		var res *ssa.Function
		for _, e := range x.Edges {
			f := g5CalledFunc(e, depth+1)
			if f == nil || (res != nil && res != f) {
				return nil
			}
			res = f
		}
		return res
	case *ssa.UnOp:
		if x.Op != token.MUL {
			return nil
		}
		var cell *ssa.Alloc
		switch a := x.X.(type) {
		case *ssa.Alloc:
			cell = a
		case *ssa.FreeVar:
			cell, _ = closureBinding(x.Parent(), a).(*ssa.Alloc)
		}
		if cell == nil {
			return nil
		}
		var res *ssa.Function
		for _, st := range storesToCell(cell) {
			f := g5CalledFunc(st.Val, depth+1)
			if f == nil || (res != nil && res != f) {
				return nil
			}
			res = f
		}
		return res
	}
	return nil
}

// g5ParamCompareOnly: parameter #idx of fn (a repository function with a body) is only ever COMPARED with other values
// (==, !=, switch cases, ordering), possibly after being merged by a phi or forwarded to another function that again only
// compares it. Such a parameter cannot give a node its type: a NodeType constant handed to it is a pattern to match
// against, not the type of a node being created. Any other use (store, conversion, interface boxing, dynamic call, return,
// capture by a closure) makes the answer false.
func g5ParamCompareOnly(fn *ssa.Function, idx int, seen map[*ssa.Parameter]bool) bool {
	if fn == nil || len(fn.Blocks) == 0 || idx < 0 || idx >= len(fn.Params) || !core.InRepo(core.FuncPkg(fn)) {
		return false
	}
	p := fn.Params[idx]
	if seen[p] {
		return true // recursion: decided by the other uses
	}
	seen[p] = true
	done := map[ssa.Value]bool{}
	var uses func(v ssa.Value) bool
	uses = func(v ssa.Value) bool {
		if done[v] {
			return true
		}
		done[v] = true
		refs := v.Referrers()
		if refs == nil {
			return false
		}
		for _, in := range *refs {
			switch x := in.(type) {
			case *ssa.DebugRef:
			case *ssa.BinOp:
				switch x.Op {
				case token.EQL, token.NEQ, token.LSS, token.LEQ, token.GTR, token.GEQ:
				default:
					return false
				}
			case *ssa.Phi:
				if !uses(x) {
					return false
				}
			case ssa.CallInstruction:
				cc := x.Common()
				if cc.IsInvoke() || cc.Value == v {
					return false
				}
				callee := cc.StaticCallee()
				if callee == nil {
					return false
				}
				for i, a := range cc.Args {
					if a != v {
						continue
					}
					// cc.Args includes the receiver for static method calls, exactly like callee.Params
					if callee.Signature.Variadic() && i >= len(callee.Params)-1 {
						return false
					}
					if !g5ParamCompareOnly(callee, i, seen) {
						return false
					}
				}
			default:
				return false
			}
		}
		return true
	}
	return uses(p)
}
