package rules

import (
	"go/types"
	"sort"

	"golang.org/x/tools/go/ssa"

	"omnilint/core"
)

// Helpers that let intra-procedural rules follow a value through an extracted helper function: a parameter of a helper
// stands for the argument at every call site of that helper, provided the set of call sites is closed (the helper is
// unexported, never used as a value, and cannot be reached through an interface).

// f2CallSites returns the static call sites of f in repository functions (deterministic order). closed reports
// whether these are all possible callers of f.
func f2CallSites(c *core.Ctx, f *ssa.Function) (sites []ssa.CallInstruction, closed bool) {
	closed = true
	obj, _ := f.Object().(*types.Func)
	if obj == nil || obj.Exported() || f.Parent() != nil {
		closed = false
	}
	if obj != nil && f.Signature.Recv() != nil && closed {
		// an unexported method can still be reached through an interface of its own package that declares the name
		if p := obj.Pkg(); p != nil {
			for _, n := range p.Scope().Names() {
				tn, ok := p.Scope().Lookup(n).(*types.TypeName)
				if !ok {
					continue
				}
				if it, ok := tn.Type().Underlying().(*types.Interface); ok {
					for i := 0; i < it.NumMethods(); i++ {
						if it.Method(i).Name() == obj.Name() {
							closed = false
						}
					}
				}
			}
		}
	}
	for _, g := range c.RepoFunctions() {
		for _, b := range g.Blocks {
			for _, in := range b.Instrs {
				if ci, ok := in.(ssa.CallInstruction); ok && ci.Common().StaticCallee() == f {
					sites = append(sites, ci)
					// f may additionally appear among the arguments
					for _, a := range ci.Common().Args {
						if a == ssa.Value(f) {
							closed = false
						}
					}
					continue
				}
				for _, op := range in.Operands(nil) {
					if op != nil && *op == ssa.Value(f) {
						closed = false // used as a value (stored, passed, bound): unknown callers
					}
				}
			}
		}
	}
	return sites, closed
}

// f2ParamIndex returns the index of p among the parameters of its function (receiver included), or -1.
func f2ParamIndex(p *ssa.Parameter) int {
	for i, q := range p.Parent().Params {
		if q == p {
			return i
		}
	}
	return -1
}

// f2GuardedAt: guard(v, b) holds for the block b of instruction at; or v is a parameter of a helper with a closed set
// of call sites, all plain calls, and at every one of them the guard holds for the bound argument at the call.
// guard receives the value as seen in the function that owns the block.
func f2GuardedAt(c *core.Ctx, v ssa.Value, at ssa.Instruction, guard func(v ssa.Value, b *ssa.BasicBlock) bool, depth int) bool {
	if guard(v, at.Block()) {
		return true
	}
	p, ok := v.(*ssa.Parameter)
	if !ok || depth > 3 {
		return false
	}
	idx := f2ParamIndex(p)
	sites, closed := f2CallSites(c, p.Parent())
	if idx < 0 || !closed || len(sites) == 0 {
		return false
	}
	for _, s := range sites {
		call, isCall := s.(*ssa.Call)
		if !isCall || idx >= len(call.Call.Args) {
			return false
		}
		if !f2GuardedAt(c, core.Unwrap(call.Call.Args[idx], false), call, guard, depth+1) {
			return false
		}
	}
	return true
}

// f2Cone: root plus the functions of root's package reachable from it through static calls, not descending into
// functions for which stop returns true (those are not part of the cone). Deterministic order, root first.
func f2Cone(root *ssa.Function, stop func(g *ssa.Function) bool) []*ssa.Function {
	seen := map[*ssa.Function]bool{root: true}
	out := []*ssa.Function{root}
	for i := 0; i < len(out); i++ {
		var next []*ssa.Function
		for _, ci := range core.Calls(out[i]) {
			g := ci.Common().StaticCallee()
			if g == nil || g.Blocks == nil || seen[g] || core.FuncPkg(g) != core.FuncPkg(root) || (stop != nil && stop(g)) {
				continue
			}
			seen[g] = true
			next = append(next, g)
		}
		sort.Slice(next, func(a, b int) bool { return next[a].String() < next[b].String() })
		out = append(out, next...)
	}
	return out
}

// f2Binder resolves parameters of the helpers of a cone to the arguments they are bound to at the call sites inside
// the cone. A helper is resolvable only if all its callers are inside the cone.
type f2Binder struct {
	c      *core.Ctx
	root   *ssa.Function
	inCone map[*ssa.Function]bool
	sites  map[*ssa.Function][]ssa.CallInstruction // nil entry: not resolvable
}

func f2NewBinder(c *core.Ctx, cone []*ssa.Function) *f2Binder {
	b := &f2Binder{c: c, root: cone[0], inCone: map[*ssa.Function]bool{}, sites: map[*ssa.Function][]ssa.CallInstruction{}}
	for _, g := range cone {
		b.inCone[g] = true
	}
	return b
}

// args returns the values bound to parameter p of a cone helper (one per call site); ok=false if p belongs to the root,
// to a function outside the cone, or to a helper with callers that cannot be enumerated or lie outside the cone.
func (b *f2Binder) args(p *ssa.Parameter) ([]ssa.Value, bool) {
	g := p.Parent()
	if g == b.root || !b.inCone[g] {
		return nil, false
	}
	ss, done := b.sites[g]
	if !done {
		sites, closed := f2CallSites(b.c, g)
		if closed && len(sites) > 0 {
			ss = sites
			for _, s := range sites {
				if _, isCall := s.(*ssa.Call); !isCall || !b.inCone[s.Parent()] {
					ss = nil
				}
			}
		}
		b.sites[g] = ss
	}
	idx := f2ParamIndex(p)
	if ss == nil || idx < 0 {
		return nil, false
	}
	var out []ssa.Value
	for _, s := range ss {
		if idx >= len(s.Common().Args) {
			return nil, false
		}
		out = append(out, s.Common().Args[idx])
	}
	return out, true
}

// origins follows v upwards through value-preserving wrappers and parameter bindings and returns the values it can
// stand for (calls, root parameters, constants, ...) together with every intermediate alias (the parameters passed
// through). ok=false if a parameter on the way cannot be resolved.
func (b *f2Binder) origins(v ssa.Value) (origins []ssa.Value, aliases []ssa.Value, ok bool) {
	ok = true
	seen := map[ssa.Value]bool{}
	var walk func(v ssa.Value, d int)
	walk = func(v ssa.Value, d int) {
		v = core.Unwrap(v, true)
		if seen[v] || d > 8 {
			return
		}
		seen[v] = true
		if p, isParam := v.(*ssa.Parameter); isParam && p.Parent() != b.root {
			as, res := b.args(p)
			if !res {
				ok = false
				return
			}
			aliases = append(aliases, p)
			for _, a := range as {
				walk(a, d+1)
			}
			return
		}
		origins = append(origins, v)
	}
	walk(v, 0)
	return origins, aliases, ok
}
