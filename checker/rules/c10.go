package rules

import (
	"fmt"
	"go/token"
	"go/types"

	"golang.org/x/tools/go/ssa"

	"omnilint/core"
)

func init() {
	register(&RuleSet{
		Prop:  "C10",
		Title: "Records are transformed independently; a failing record affects only itself",
		Explanation: "The law can only fail through state that survives from one record to the next; the rules close the list of such state. " +
			"R10a fresh evaluation context: a *parseCtx value is never stored into a struct field, global, map, slice or channel anywhere in the repository; in every Ingester.Read (Read plus the same-package helpers it calls statically, arguments bound to parameters and results to call values) the context is obtained from the constructor during that call of Read and used only as the receiver of ParseNode; the per-record result cache map is only ever a fresh map stored into the fresh context. " +
			"R10b release-before-read: in every Ingester.Read, every path to the format reader's Read either releases the previous raw record or passes the edge on which the holder is nil; the holder is cleared after the release. " +
			"R10c a per-record failure does not disturb the reader: on the ParseNode-failed branch of Ingester.Read (followed from a helper's error result to the helper's call sites in Read) the only format-reader method reachable is FmtErr, and every FmtErr implementation in the repository is store-free (no write through its receiver or to globals, transitively). " +
			"R10d closed allow-list of process-wide mutable state on the run set: no store rooted at a package-level variable; globals read have init-only writers; objects in globals are used only via sync.Pool / sync/atomic / LoadingCache.Get. " +
			"R10e reader-owned buffers: in the flat-file readers (a pop method carves its buffer field out of itself by reslice/append, a convert method returns a node for the first n lines) the number of buffered lines converted into a node equals the number popped (structurally equal pure expressions), so no line of a previous record is re-read and none is skipped. " +
			"R10h pooled JavaScript VMs are wiped on every path (= C20 R20a) and R10i no run-set store reaches a schema-owned object (= C14 R14a): neither a failed record's script arguments nor a value memoised into the shared declarations can reach a later record. " +
			"R10j borrowed-buffer discipline of the line/segment readers (= C09 R09a). R10f pooled nodes are blank (= C12 R12b–d): a recycled node carries nothing from the record or transform that used it before. R10g the bytes returned for a record are nil or a fresh json.Marshal result, never a slice of a reused buffer (earlier results must not change when later records are read).",
		NotDecided: "the algebraic law itself (concatenation/permutation of runs); schemas addressing ancestors (outside the property's quantifier); state kept inside third-party decoders.",
		Trusted:    commonTrusted,
		Run:        runC10,
	})
	control(Control{ID: "c10-memoised-parsectx", Prop: "C10", File: "extensions/omniv21/ingester.go",
		Old:  "\tresult, err := transform.NewParseCtx(g.ctx, g.customFuncs, g.customParseFuncs).ParseNode(n, g.finalOutputDecl)",
		New:  "\tif g.ctx.CustomParam == nil {\n\t\tg.ctx.CustomParam = transform.NewParseCtx(g.ctx, g.customFuncs, g.customParseFuncs)\n\t}\n\tresult, err := g.ctx.CustomParam.(interface {\n\t\tParseNode(*idr.Node, *transform.Decl) (interface{}, error)\n\t}).ParseNode(n, g.finalOutputDecl)",
		Rule: "R10a", Substr: "ingester).Read", Why: "evaluation context (and its result cache) survives across records"})
	control(Control{ID: "c10-no-release-before-read", Prop: "C10", File: "extensions/omniv21/ingester.go",
		Old: "\tif g.rawRecord.node != nil {\n\t\tg.reader.Release(g.rawRecord.node)\n\t\tg.rawRecord.node = nil\n\t}\n", New: "",
		Rule: "R10b", Substr: "ingester).Read", Why: "previous record still attached when the next is read"})
	control(Control{ID: "c10-fmterr-advances", Prop: "C10", File: "extensions/omniv21/samples/customfileformats/jsonlog/jsonlogformat/reader.go",
		Old: "func (r *reader) FmtErr(format string, args ...interface{}) error {\n", New: "func (r *reader) FmtErr(format string, args ...interface{}) error {\n\tr.line++\n",
		Rule: "R10c", Substr: "jsonlogformat.reader).FmtErr", Why: "formatting a per-record error mutates reader state"})
	control(Control{ID: "c10-global-last-value", Prop: "C10", File: "extensions/omniv21/transform/parse.go",
		Old: "func (p *parseCtx) parseConst(decl *Decl) (interface{}, error) {\n", New: "var lastConst string\n\nfunc (p *parseCtx) parseConst(decl *Decl) (interface{}, error) {\n\tlastConst = *decl.Const\n",
		Rule: "R10d", Substr: "lastConst", Why: "new process-wide variable written during evaluation"})
	control(Control{ID: "c10-pop-differs", Prop: "C10", File: "extensions/omniv21/fileformat/flatfile/csv/reader.go",
		Old: "\t\t\t\tn := r.linesToNode(decl, i+1)\n\t\t\t\tr.popFrontLinesBuf(i + 1)", New: "\t\t\t\tn := r.linesToNode(decl, i+1)\n\t\t\t\tr.popFrontLinesBuf(i)",
		Rule: "R10e", Substr: "readAndMatchHeaderFooterBasedRecord", Why: "last line of a record stays buffered and is seen by the next record"})
}

func runC10(c *core.Ctx) {
	e := entries(c, "R10")
	if e == nil {
		return
	}
	ingReads, readerI, tpTypes := c10FreshCtx(c, "R10a")
	if ingReads == nil {
		return
	}
	// ---------------- R10b / R10c on each Ingester.Read
	for _, f := range ingReads {
		c10ReleaseBeforeRead(c, f, readerI)
		c10FailureLeavesReader(c, f, readerI, tpTypes)
	}
	// every FmtErr implementation is store-free
	for _, p := range c.Pkgs {
		for _, t := range implementersIn(p.Types, readerI) {
			fe := methodFn(c, t, "FmtErr")
			if fe == nil {
				continue
			}
			key := core.FuncKey(fe) + " is store-free"
			if w, via := firstEffect(fe, 0, map[*ssa.Function]bool{}); w != nil {
				c.Bad("R10c", key, w.Pos, "FmtErr writes reader/global state (in "+core.FuncKey(via)+"): reporting a per-record failure would change what the next record sees")
			} else {
				c.OK("R10c", key, fe.Pos(), "no store through parameters or globals, transitively")
			}
		}
	}
	c.Floor("R10c", 8, "failure path + FmtErr implementations")

	// ---------------- R10d
	c10GlobalStores(c, e)
	c14Globals(c, e, repoFuncsIn(e.run), "R10d")

	// ---------------- R10e
	c10PopEqualsConverted(c)

	// ---------------- R10f pooled nodes are blank (a recycled node must not carry a previous record's or transform's data)
	if r12 := resolveC12(c); r12 != nil {
		c12PoolRules(c, r12, c.RepoFunctions(), c12AllowedWriters(r12), "R10f", "R10f", "R10f")
	}
	c.Floor("R10f", 15, "reset exhaustiveness and pool discipline")

	// ---------------- R10g emitted bytes are fresh per record
	if er := ecResolve(c, "R10g"); er.ok {
		c01FreshBytes(c, er, "R10g")
	}
	c.Floor("R10g", 3, "returns of the built-in Ingester.Read")

	// ---------------- R10h pooled JavaScript VMs carry nothing from an earlier (possibly failed) record (= C20 R20a)
	c20VMPool(c, "R10h")
	c.Floor("R10h", 7, "VM pool discipline")
	// ---------------- R10j reader-owned buffers: a line/segment borrowed from a decoder's buffer is never live across the
	// next fill of that decoder unless copied (= C09 R09a): otherwise a record shows bytes of a later record
	importRules(c, "C09", map[string]string{"R09a": "R10j", "R09i": "R10j", "R09j": "R10j"})
	c.Floor("R10j", 15, "borrow sources, stores of borrowed data and refill sites")
	// ---------------- R10i nothing is memoised into the shared schema while records are read (= C14 R14a)
	if shared := c14SharedTypes(c); shared != nil {
		n := c14SharedStores(c, repoFuncsIn(e.run), shared, "R10i", "R10d")
		c.OK("R10i", "run-set store inventory against schema-owned types", 0, fmt.Sprintf("%d stores inspected", n))
	}
}

// c10FreshCtx (R10a): the evaluation context and its result cache live for exactly one record. Shared with
// C02/C13/C20, whose cache-invisibility clauses rest on the same fact.
func c10FreshCtx(c *core.Ctx, rule string) ([]*ssa.Function, *types.Interface, *types.Package) {
	tp := c.Pkg("extensions/omniv21/transform")
	if tp == nil {
		c.Unresolved(rule, "package transform", "not loaded")
		return nil, nil, nil
	}
	newCtx := c.Func("extensions/omniv21/transform", "NewParseCtx")
	if newCtx == nil {
		c.Unresolved(rule, "transform.NewParseCtx", "exported constructor not found")
		return nil, nil, nil
	}
	ctxT := core.NamedOf(newCtx.Signature.Results().At(0).Type())
	if ctxT == nil {
		c.Unresolved(rule, "parse context type", "NewParseCtx does not return a named type")
		return nil, nil, nil
	}
	isCtx := func(t types.Type) bool { n := core.NamedOf(t); return n != nil && types.Identical(n, ctxT) }

	// ---------------- R10a (i) a context value never escapes to the heap, anywhere in the repository
	for _, f := range c.RepoFunctions() {
		for _, b := range f.Blocks {
			for _, in := range b.Instrs {
				key := core.FuncKey(f) + " keeps parse context"
				switch x := in.(type) {
				case *ssa.Store:
					if isCtx(x.Val.Type()) || ifaceHolds(x.Val, isCtx) {
						if a, ok := x.Addr.(*ssa.Alloc); ok && !a.Heap {
							continue
						}
						if a, ok := x.Addr.(*ssa.Alloc); ok && a.Heap && onlyClosureCell(a) {
							continue // captured-variable cell of a local closure
						}
						c.Bad(rule, key, core.InstrPos(in), "a per-record evaluation context is stored into memory that outlives the call: its result cache becomes a cross-record channel")
					}
				case *ssa.MapUpdate:
					if isCtx(x.Value.Type()) || ifaceHolds(x.Value, isCtx) {
						c.Bad(rule, key, core.InstrPos(in), "a per-record evaluation context is stored into a map")
					}
				case *ssa.Send:
					if isCtx(x.X.Type()) || ifaceHolds(x.X, isCtx) {
						c.Bad(rule, key, core.InstrPos(in), "a per-record evaluation context is sent on a channel")
					}
				}
			}
		}
	}
	// (ii) in each Ingester.Read: constructor called in Read, result used only as ParseNode receiver
	shp := c.Pkg("schemahandler")
	ingI := lookupIface(shp.Types, "Ingester")
	ffp := c.Pkg("extensions/omniv21/fileformat")
	var readerI *types.Interface
	if ffp != nil {
		readerI = lookupIface(ffp.Types, "FormatReader")
	}
	if ingI == nil || readerI == nil {
		c.Unresolved(rule, "Ingester/FormatReader interfaces", "not found")
		return nil, nil, nil
	}
	var ingReads []*ssa.Function
	for _, p := range c.Pkgs {
		if core.IsCLIOrSample(p.Types) {
			continue
		}
		for _, t := range implementersIn(p.Types, ingI) {
			if f := methodFn(c, t, "Read"); f != nil {
				ingReads = append(ingReads, f)
			}
		}
	}
	if len(ingReads) == 0 {
		c.Unresolved(rule, "Ingester implementation", "no built-in type implements schemahandler.Ingester")
		return nil, nil, nil
	}
	repoSites := c10RepoSites(c)
	for _, f := range ingReads {
		key := core.FuncKey(f)
		// "this call of Read" = Read plus the same-package helpers it calls statically (parameters bound at the call sites)
		region := c10RegionOf(f)
		var ctor []*ssa.Call
		var parseCalls []ssa.CallInstruction
		for _, fn := range region.fns {
			for _, ci := range core.Calls(fn) {
				if ci.Common().StaticCallee() == newCtx {
					if call, ok := ci.(*ssa.Call); ok {
						ctor = append(ctor, call)
					}
				}
				if c10IsParseNode(ci, tp.Types, ctxT) {
					parseCalls = append(parseCalls, ci)
				}
			}
		}
		if len(parseCalls) == 0 {
			c.Unknown(rule, key+" evaluates", f.Pos(), "no ParseNode call found in Ingester.Read: the evaluation path could not be identified")
			continue
		}
		for _, pc := range parseCalls {
			recv := pc.Common().Args[0]
			if pc.Common().IsInvoke() {
				recv = pc.Common().Value
			}
			_, isCall := pc.(*ssa.Call)
			isFresh := isCall && region.producedIn(recv, newCtx, map[ssa.Value]bool{})
			c.Check(isFresh, rule, key+" ParseNode receiver", core.InstrPos(pc),
				"receiver is the context constructed in this very call of Read",
				"ParseNode is invoked on a context that was not constructed in this call of Read (memoised or shared context: results of an earlier record can be served from its cache)")
		}
		isRecvUse := func(x ssa.CallInstruction, v ssa.Value) bool {
			if !c10IsParseNode(x, tp.Types, ctxT) {
				return false
			}
			if _, isCall := x.(*ssa.Call); !isCall {
				return false
			}
			cc := x.Common()
			args := cc.Args
			if cc.IsInvoke() {
				if cc.Value != v {
					return false
				}
			} else {
				if len(args) == 0 || args[0] != v {
					return false
				}
				args = args[1:]
			}
			for _, a := range args {
				if a == v {
					return false
				}
			}
			return true
		}
		for _, call := range ctor {
			okUse := region.usedOnlyAs(call, isRecvUse, repoSites, map[ssa.Value]bool{})
			c.Check(okUse, rule, key+" context use", core.InstrPos(call), "constructed context is used only as the receiver of ParseNode", "constructed context escapes (stored, passed on, or converted)")
		}
	}
	// (iii) every map-typed field of the context that is updated anywhere (the result cache) is only ever
	// assigned a fresh map, in the constructor
	updated := map[*types.Var]bool{}
	for _, f := range c.RepoFunctions() {
		for _, w := range core.Writes(f) {
			if w.Kind == "map" && w.Owner != nil && types.Identical(w.Owner, ctxT) && w.Field != nil {
				updated[w.Field] = true
			}
		}
	}
	if len(updated) == 0 {
		c.Unresolved(rule, "result cache field", "no map-typed field of the parse context is ever updated")
	}
	for _, f := range c.RepoFunctions() {
		for _, w := range core.Writes(f) {
			if w.Owner == nil || !types.Identical(w.Owner, ctxT) || w.Kind != "field" || !updated[w.Field] {
				continue
			}
			key := core.FuncKey(f) + " sets " + w.Field.Name()
			_, fresh := w.Val.(*ssa.MakeMap)
			c.Check(fresh && f == newCtx, rule, key, w.Pos, "fresh map allocated in the constructor", "the per-record cache map is not a fresh map made by the constructor (a shared or reused map is a cross-record channel)")
		}
	}
	c.Floor(rule, 3, "ParseNode receiver, context use, cache map")

	return ingReads, readerI, tp.Types
}

// c10IsParseNode: the call is the evaluation entry of a parse context: the method ParseNode of package transform, or an
// interface call of a method of that name through an interface type that the parse context type satisfies (a local
// interface view of the context).
func c10IsParseNode(ci ssa.CallInstruction, tp *types.Package, ctxT *types.Named) bool {
	if o := core.CalleeObj(ci); o != nil && o.Name() == "ParseNode" && o.Pkg() == tp {
		return true
	}
	cc := ci.Common()
	if cc.IsInvoke() && cc.Method.Name() == "ParseNode" && ctxT != nil {
		if it, ok := cc.Value.Type().Underlying().(*types.Interface); ok {
			return types.Implements(types.NewPointer(ctxT), it) || types.Implements(ctxT, it)
		}
	}
	return false
}

func ifaceHolds(v ssa.Value, pred func(types.Type) bool) bool {
	if mi, ok := v.(*ssa.MakeInterface); ok {
		return pred(mi.X.Type())
	}
	return false
}

func onlyClosureCell(a *ssa.Alloc) bool {
	for _, u := range core.Referrers(a) {
		switch u.(type) {
		case *ssa.Store, *ssa.UnOp, *ssa.MakeClosure, *ssa.DebugRef:
		default:
			return false
		}
	}
	return true
}

func c10GlobalStores(c *core.Ctx, e *entrySets) {
	n := 0
	for _, f := range repoFuncsIn(e.run) {
		for _, w := range core.Writes(f) {
			n++
			if w.Global != nil && core.InRepo(w.Global.Pkg.Pkg) {
				c.Bad("R10d", core.FuncKey(f)+" writes global "+w.Global.Name(), w.Pos, "process-wide state written on the Read path: a channel between records (and transforms)")
			}
		}
	}
	c.OK("R10d", "run-set store inventory", 0, fmt.Sprintf("%d stores inspected, none rooted at a package-level variable", n))
}

// firstEffect returns the first store of f (transitively through static repo callees) whose root is not a
// local allocation.
func firstEffect(f *ssa.Function, depth int, seen map[*ssa.Function]bool) (*core.WriteSite, *ssa.Function) {
	if depth > 5 || seen[f] || f.Blocks == nil {
		return nil, nil
	}
	seen[f] = true
	for _, w := range core.Writes(f) {
		if core.IsFresh(w.Root) {
			continue
		}
		ws := w
		return &ws, f
	}
	for _, ci := range core.Calls(f) {
		if cf := ci.Common().StaticCallee(); cf != nil && core.InRepo(core.FuncPkg(cf)) {
			if w, via := firstEffect(cf, depth+1, seen); w != nil {
				return w, via
			}
		}
	}
	return nil, nil
}

// isReaderIface: v is a FormatReader-typed value, or a local interface view of one (ChangeInterface of such a value).
func isReaderIface(v ssa.Value, readerI *types.Interface) bool {
	for {
		it, ok := v.Type().Underlying().(*types.Interface)
		if ok && types.Identical(it, readerI) {
			return true
		}
		ci, isCI := v.(*ssa.ChangeInterface)
		if !isCI {
			return false
		}
		v = ci.X
	}
}

// c10ReleaseBeforeRead: every path from entry to the invoke of FormatReader.Read passes a FormatReader.Release
// call (directly or inside a helper method that releases-or-finds-nil on all of its own paths) or the nil edge of a
// test of the holder that is released; after each release the holder is overwritten before the next read.
func c10ReleaseBeforeRead(c *core.Ctx, f *ssa.Function, readerI *types.Interface) {
	key := core.FuncKey(f)
	var reads []ssa.CallInstruction
	for _, ci := range core.Calls(f) {
		cc := ci.Common()
		if cc.IsInvoke() && isReaderIface(cc.Value, readerI) && cc.Method.Name() == "Read" {
			reads = append(reads, ci)
		}
	}
	if len(reads) == 0 {
		c.Unknown("R10b", key+" reads", f.Pos(), "no call of FormatReader.Read found in Ingester.Read")
		return
	}
	info := c10Releases(f, readerI, 0)
	if len(info.sites) == 0 {
		c.Bad("R10b", key+" release-before-read", core.InstrPos(reads[0]), "Ingester.Read never releases the previous raw record: the previous target stays attached (and visible to xpath queries of the next record)")
		return
	}
	for _, rd := range reads {
		reached := c10PathAvoidingRelease(f, rd, info)
		c.Check(!reached, "R10b", key+" release-before-read", core.InstrPos(rd),
			"every path to reader.Read releases the previous raw record or has a nil holder",
			"a path reaches reader.Read with a non-nil previous raw record that was not released")
	}
	for _, cl := range info.cleared {
		c.Check(cl.ok, "R10b", key+" holder cleared", cl.pos, "holder overwritten after the release and before the next read", "holder still references the released node when the next record is read")
	}
}

type c10Cleared struct {
	ok  bool
	pos token.Pos
}

type c10ReleaseInfo struct {
	sites   map[*ssa.BasicBlock]ssa.CallInstruction // blocks that release (directly or through a qualifying helper)
	holders []core.FieldPath
	cleared []c10Cleared
}

// c10Releases finds the releasing call sites of f: invokes of FormatReader.Release, and static calls of repository
// methods that themselves release-or-find-nil on every path to their exits.
func c10Releases(f *ssa.Function, readerI *types.Interface, depth int) *c10ReleaseInfo {
	info := &c10ReleaseInfo{sites: map[*ssa.BasicBlock]ssa.CallInstruction{}}
	for _, ci := range core.Calls(f) {
		cc := ci.Common()
		if cc.IsInvoke() && isReaderIface(cc.Value, readerI) && cc.Method.Name() == "Release" {
			info.sites[ci.Block()] = ci
			if hp, ok := core.LoadedField(cc.Args[0]); ok {
				info.holders = append(info.holders, hp)
				cleared, bad := false, false
				core.WalkAfter(ci, func(in ssa.Instruction) bool {
					if sp, _, isStore := core.StoredField(in); isStore && sp.Same(hp) {
						cleared = true
						return false
					}
					switch x := in.(type) {
					case ssa.CallInstruction:
						if x.Common().IsInvoke() && isReaderIface(x.Common().Value, readerI) && x.Common().Method.Name() == "Read" {
							bad = true
							return false
						}
					case *ssa.Return:
						if !cleared {
							bad = true
						}
					}
					return true
				})
				info.cleared = append(info.cleared, c10Cleared{cleared && !bad, core.InstrPos(ci)})
			} else {
				info.cleared = append(info.cleared, c10Cleared{true, core.InstrPos(ci)})
			}
			continue
		}
		if depth < 2 {
			if cf := cc.StaticCallee(); cf != nil && cf != f && cf.Blocks != nil && core.InRepo(core.FuncPkg(cf)) && cf.Signature.Recv() != nil {
				sub := c10Releases(cf, readerI, depth+1)
				if len(sub.sites) > 0 && !c10PathAvoidingRelease(cf, nil, sub) {
					info.sites[ci.Block()] = ci
					info.cleared = append(info.cleared, sub.cleared...)
				}
			}
		}
	}
	return info
}

// c10PathAvoidingRelease: is there a path from f's entry to target (or, if target is nil, to any return) that neither
// passes a releasing site nor takes the nil edge of a test of a released holder?
func c10PathAvoidingRelease(f *ssa.Function, target ssa.CallInstruction, info *c10ReleaseInfo) bool {
	isHolderLoad := func(v ssa.Value) bool {
		lp, ok := core.LoadedField(v)
		if !ok {
			return false
		}
		for _, hp := range info.holders {
			if lp.Same(hp) {
				return true
			}
		}
		return false
	}
	seen := map[*ssa.BasicBlock]bool{}
	reached := false
	var dfs func(b *ssa.BasicBlock)
	dfs = func(b *ssa.BasicBlock) {
		if seen[b] || reached {
			return
		}
		seen[b] = true
		if r, ok := info.sites[b]; ok {
			if target == nil || b != target.Block() || core.Dominates(r, target) {
				return
			}
		}
		if target != nil && b == target.Block() {
			reached = true
			return
		}
		if target == nil {
			if _, isRet := b.Instrs[len(b.Instrs)-1].(*ssa.Return); isRet {
				reached = true
				return
			}
		}
		var skip *ssa.BasicBlock
		if ifi, ok := b.Instrs[len(b.Instrs)-1].(*ssa.If); ok {
			if bo, ok := ifi.Cond.(*ssa.BinOp); ok {
				holderCmp := (isHolderLoad(bo.X) && core.IsNilConst(bo.Y)) || (isHolderLoad(bo.Y) && core.IsNilConst(bo.X))
				if holderCmp && bo.Op == token.NEQ {
					skip = b.Succs[1]
				}
				if holderCmp && bo.Op == token.EQL {
					skip = b.Succs[0]
				}
			}
		}
		for _, s := range b.Succs {
			if skip != nil && s == skip && b.Succs[0] != b.Succs[1] {
				continue
			}
			dfs(s)
		}
	}
	dfs(f.Blocks[0])
	return reached
}

// c10FailureLeavesReader: on the branch taken when ParseNode failed, the only FormatReader method reachable
// (through static repo callees) is FmtErr. The ParseNode call may sit in a helper of Read: then the failure branch is
// the helper's own branch on the error plus, at every call site of the helper in Read's region, the branch on the
// helper's error result (up to Read itself).
func c10FailureLeavesReader(c *core.Ctx, f *ssa.Function, readerI *types.Interface, tp *types.Package) {
	key := core.FuncKey(f) + " failure path"
	var ctxT *types.Named
	if newCtx := c.Func("extensions/omniv21/transform", "NewParseCtx"); newCtx != nil {
		ctxT = core.NamedOf(newCtx.Signature.Results().At(0).Type())
	}
	region := c10RegionOf(f)
	errT := types.Universe.Lookup("error").Type()
	found := 0
	for _, fn := range region.fns {
		for _, ci := range core.Calls(fn) {
			if !c10IsParseNode(ci, tp, ctxT) {
				continue
			}
			call, ok := ci.(*ssa.Call)
			if !ok {
				continue
			}
			found++
			tests, bad := 0, ""
			type item struct {
				call *ssa.Call
				idx  int // index of the error result; -1: the call value itself is the error
			}
			work := []item{{call, 1}}
			seen := map[*ssa.Call]bool{}
			for len(work) > 0 {
				it := work[0]
				work = work[1:]
				if seen[it.call] {
					continue
				}
				seen[it.call] = true
				host := it.call.Parent()
				var errVals []ssa.Value
				if it.idx < 0 {
					errVals = append(errVals, it.call)
				} else {
					for _, u := range core.Referrers(it.call) {
						if ex, ok := u.(*ssa.Extract); ok && ex.Index == it.idx {
							errVals = append(errVals, ex)
						}
					}
				}
				for _, fb := range c10NonNilBranches(errVals) {
					tests++
					for _, b := range host.Blocks {
						if !fb.Dominates(b) {
							continue
						}
						for _, in := range b.Instrs {
							if cj, ok := in.(ssa.CallInstruction); ok {
								if m := readerMethodReached(cj, readerI, 0, map[*ssa.Function]bool{}); m != "" && m != "FmtErr" {
									bad = m
								}
							}
						}
					}
				}
				if host == f {
					continue
				}
				// the failure leaves the helper through its error result(s): continue at the helper's call sites
				res := host.Signature.Results()
				for i := 0; i < res.Len(); i++ {
					if !types.Identical(res.At(i).Type(), errT) {
						continue
					}
					for _, site := range region.sites[host] {
						if sc, ok := site.(*ssa.Call); ok {
							idx := i
							if res.Len() == 1 {
								idx = -1
							}
							work = append(work, item{sc, idx})
						}
					}
				}
			}
			if tests == 0 {
				c.Unknown("R10c", key, core.InstrPos(ci), "the error result of ParseNode is not tested against nil in a recognisable way")
				continue
			}
			c.Check(bad == "", "R10c", key, core.InstrPos(ci), "only FormatReader.FmtErr is reachable on the failed-record branch", "FormatReader."+bad+" is called on the failed-record branch: a per-record failure consumes or releases reader state")
		}
	}
	if found == 0 {
		c.Unknown("R10c", key, f.Pos(), "no ParseNode call found in Ingester.Read or its helpers: the failed-record branch could not be identified")
	}
}

// c10NonNilBranches: the blocks entered exactly when one of vals (error values) compared non-nil.
func c10NonNilBranches(vals []ssa.Value) []*ssa.BasicBlock {
	var out []*ssa.BasicBlock
	for _, v := range vals {
		for _, u2 := range core.Referrers(v) {
			bo, ok := u2.(*ssa.BinOp)
			if !ok || !(core.IsNilConst(bo.X) || core.IsNilConst(bo.Y)) {
				continue
			}
			for _, u3 := range core.Referrers(bo) {
				ifi, ok := u3.(*ssa.If)
				if !ok {
					continue
				}
				if bo.Op == token.NEQ {
					out = append(out, ifi.Block().Succs[0])
				} else if bo.Op == token.EQL {
					out = append(out, ifi.Block().Succs[1])
				}
			}
		}
	}
	return out
}

// readerMethodReached returns the name of a FormatReader method (other than FmtErr, preferably) invoked by the call
// or by its static repo callees.
func readerMethodReached(ci ssa.CallInstruction, readerI *types.Interface, depth int, seen map[*ssa.Function]bool) string {
	cc := ci.Common()
	if cc.IsInvoke() && isReaderIface(cc.Value, readerI) {
		return cc.Method.Name()
	}
	cf := cc.StaticCallee()
	if cf == nil || depth > 4 || seen[cf] || !core.InRepo(core.FuncPkg(cf)) {
		return ""
	}
	seen[cf] = true
	res := ""
	for _, cj := range core.Calls(cf) {
		if m := readerMethodReached(cj, readerI, depth+1, seen); m != "" {
			if m != "FmtErr" {
				return m
			}
			res = m
		}
	}
	return res
}

// ---------------------------------------------------------------- R10e

// c10PopEqualsConverted: reader types with a "pop front n buffered lines" method and a "convert the first n
// buffered lines into a node" method must call them with structurally equal counts.
func c10PopEqualsConverted(c *core.Ctx) {
	idrp := c.Pkg("idr")
	if idrp == nil {
		c.Unresolved("R10e", "package idr", "not loaded")
		return
	}
	nodeT := idrp.Types.Scope().Lookup("Node").Type().(*types.Named)
	type pair struct {
		pop, conv *ssa.Function
	}
	byRecv := map[*types.Named]*pair{}
	for _, f := range c.RepoFunctions() {
		if f.Signature.Recv() == nil || f.Parent() != nil || core.IsCLIOrSample(core.FuncPkg(f)) {
			continue
		}
		recv := core.NamedOf(f.Signature.Recv().Type())
		if recv == nil {
			continue
		}
		params := f.Signature.Params()
		res := f.Signature.Results()
		lastInt := params.Len() >= 1 && isInt(params.At(params.Len()-1).Type())
		if !lastInt {
			continue
		}
		// pop: (n int), no results, reslices a slice field of the receiver
		if params.Len() == 1 && res.Len() == 0 && reslicesReceiverField(f) {
			if byRecv[recv] == nil {
				byRecv[recv] = &pair{}
			}
			byRecv[recv].pop = f
		}
		// conv: (..., n int) *Node
		if res.Len() == 1 && isPtrToNamed(res.At(0).Type(), nodeT) && params.Len() >= 2 {
			if byRecv[recv] == nil {
				byRecv[recv] = &pair{}
			}
			byRecv[recv].conv = f
		}
	}
	n := 0
	for _, f := range c.RepoFunctions() {
		for recv, pr := range byRecv {
			if pr.pop == nil || pr.conv == nil {
				continue
			}
			_ = recv
			var convs, pops []ssa.CallInstruction
			for _, ci := range core.Calls(f) {
				switch ci.Common().StaticCallee() {
				case pr.conv:
					convs = append(convs, ci)
				case pr.pop:
					pops = append(pops, ci)
				}
			}
			for _, cv := range convs {
				n++
				key := core.FuncKey(f) + " converts/pops"
				cnt := cv.Common().Args[len(cv.Common().Args)-1]
				// the pop that follows in the same block (or the next dominated one)
				var match ssa.CallInstruction
				for _, pp := range pops {
					if core.Dominates(cv, pp) {
						match = pp
						break
					}
				}
				if match == nil {
					c.Bad("R10e", key, core.InstrPos(cv), "buffered lines are converted into a node but not popped afterwards: the next record would see them again")
					continue
				}
				popCnt := match.Common().Args[len(match.Common().Args)-1]
				c.Check(samePure(cnt, popCnt, 0), "R10e", key, core.InstrPos(match), "converted count and popped count are the same pure expression", "the number of lines popped differs from the number converted into the record: a line leaks into, or is lost from, the next record")
			}
		}
	}
	if n == 0 {
		c.Unresolved("R10e", "convert/pop pairs", "no reader with a convert-n-lines / pop-n-lines method pair found")
	}
	c.Floor("R10e", 4, "linesToNode/popFrontLinesBuf call pairs in csv2 and fixedlength2")
}

func isInt(t types.Type) bool {
	b, ok := t.Underlying().(*types.Basic)
	return ok && b.Kind() == types.Int
}

// reslicesReceiverField: f assigns to a slice-typed field of its receiver a value carved out of that very field: a
// reslice r.buf[a:b] of it, or append(r.buf[:k], r.buf[n:]...) over reslices of it (the shift-down-and-shrink idiom).
func reslicesReceiverField(f *ssa.Function) bool {
	if len(f.Params) == 0 {
		return false
	}
	for _, in := range core.Writes(f) {
		w := in
		if w.Kind != "field" || w.Root != ssa.Value(f.Params[0]) || w.Field == nil {
			continue
		}
		if _, isSlice := w.Field.Type().Underlying().(*types.Slice); !isSlice {
			continue
		}
		if carvedFromField(w.Val, w.Field, f.Params[0], true, 0) {
			return true
		}
	}
	return false
}

// carvedFromField: v is built from loads of recv.<...>.field only by reslicing and (builtin) append; top requires at
// least one such operation (a plain copy of the field is not a pop).
func carvedFromField(v ssa.Value, field *types.Var, recv ssa.Value, top bool, d int) bool {
	if d > 6 {
		return false
	}
	switch x := v.(type) {
	case *ssa.Slice:
		return carvedFromField(x.X, field, recv, false, d+1)
	case *ssa.Call:
		if b, ok := x.Call.Value.(*ssa.Builtin); ok && b.Name() == "append" && len(x.Call.Args) == 2 {
			return carvedFromField(x.Call.Args[0], field, recv, false, d+1) && carvedFromField(x.Call.Args[1], field, recv, false, d+1)
		}
		return false
	case *ssa.UnOp:
		if top || x.Op != token.MUL {
			return false
		}
		fa, ok := x.X.(*ssa.FieldAddr)
		if !ok || core.FieldOfAddr(fa) != field {
			return false
		}
		_, root := core.TraceAddr(fa)
		return root == recv
	}
	return false
}

// samePure: structural equality including pure calls (same static callee, same args, callee store-free) and
// binary operations.
func samePure(a, b ssa.Value, d int) bool {
	if core.SameValue(a, b) {
		return true
	}
	if d > 6 {
		return false
	}
	switch x := a.(type) {
	case *ssa.BinOp:
		y, ok := b.(*ssa.BinOp)
		return ok && x.Op == y.Op && samePure(x.X, y.X, d+1) && samePure(x.Y, y.Y, d+1)
	case *ssa.Call:
		y, ok := b.(*ssa.Call)
		if !ok {
			return false
		}
		fx, fy := x.Call.StaticCallee(), y.Call.StaticCallee()
		if fx == nil || fx != fy || len(x.Call.Args) != len(y.Call.Args) {
			return false
		}
		if w, _ := firstEffect(fx, 0, map[*ssa.Function]bool{}); w != nil {
			return false
		}
		for i := range x.Call.Args {
			if !samePure(x.Call.Args[i], y.Call.Args[i], d+1) {
				return false
			}
		}
		return true
	case *ssa.Phi:
		return false
	}
	return false
}
