package rules

// Shared role resolution and flow helpers of the stream-reader rule sets (C04, C17, C11).
// Every package-level identifier in this file carries the c04 prefix.

import (
	"fmt"
	"go/constant"
	"go/token"
	"go/types"
	"sort"
	"strings"

	"golang.org/x/tools/go/ssa"

	"omnilint/core"
)

// c04Env holds the roles resolved from the type-checked program.
type c04Env struct {
	c        *core.Ctx
	idr      *types.Package
	node     *types.Named
	nodeSt   *types.Struct
	links    map[*types.Var]bool
	parent   *types.Var // Node.Parent
	typeFld  *types.Var // Node.Type
	dataFld  *types.Var // Node.Data
	addChild *ssa.Function
	remove   *ssa.Function
	fns      []*ssa.Function
	byType   map[*types.TypeName][]*ssa.Function // methods and their closures by receiver type
	typeOf   map[*ssa.Function]*types.TypeName
	readers  []*c04Reader // stream readers (cursor types)

	consMemo  map[*ssa.Function]int
	queryMemo map[*ssa.Function]int
	cdMemo    map[*ssa.Function]*c04CD
	implMemo  map[string][]*ssa.Function
}

// c04Reader is one stream reader (a type with a parse cursor).
type c04Reader struct {
	tn      *types.TypeName
	cur     *types.Var
	holder  *types.Var
	methods []*ssa.Function
	marks   []*c04Decision // stores holder <- candidate
	deliv   []*c04Decision // returns of the holder
	checkFn map[*ssa.Function]bool
	wrapFn  map[*ssa.Function]bool
}

// c04Decision is a candidate-marking store or a delivering return.
type c04Decision struct {
	fn    *ssa.Function
	instr ssa.Instruction
	val   ssa.Value // stored / returned value
}

func c04IsPtrTo(t types.Type, n *types.Named) bool {
	p, ok := t.(*types.Pointer)
	return ok && n != nil && types.Identical(p.Elem(), n)
}

func c04NewEnv(c *core.Ctx, rule string) *c04Env {
	e := &c04Env{c: c, links: map[*types.Var]bool{}, byType: map[*types.TypeName][]*ssa.Function{}, typeOf: map[*ssa.Function]*types.TypeName{},
		consMemo: map[*ssa.Function]int{}, queryMemo: map[*ssa.Function]int{}, cdMemo: map[*ssa.Function]*c04CD{}, implMemo: map[string][]*ssa.Function{}}
	p := c.Pkg("idr")
	if p == nil {
		c.Unresolved(rule, "package idr", "package idr not found")
		return nil
	}
	e.idr = p.Types
	tn, _ := p.Types.Scope().Lookup("Node").(*types.TypeName)
	if tn == nil {
		c.Unresolved(rule, "type idr.Node", "exported type Node not found")
		return nil
	}
	e.node, _ = tn.Type().(*types.Named)
	st, ok := e.node.Underlying().(*types.Struct)
	if !ok {
		c.Unresolved(rule, "type idr.Node", "Node is not a struct")
		return nil
	}
	e.nodeSt = st
	for i := 0; i < st.NumFields(); i++ {
		f := st.Field(i)
		if c04IsPtrTo(f.Type(), e.node) {
			e.links[f] = true
		}
		switch f.Name() {
		case "Parent":
			e.parent = f
		case "Type":
			e.typeFld = f
		case "Data":
			e.dataFld = f
		}
	}
	if e.parent == nil || e.typeFld == nil || e.dataFld == nil {
		c.Unresolved(rule, "idr.Node fields", "exported fields Parent/Type/Data of idr.Node not found")
		return nil
	}
	c.SSA()
	e.addChild = c.Func("idr", "AddChild")
	e.remove = c.Func("idr", "RemoveAndReleaseTree")
	if e.addChild == nil || e.remove == nil {
		c.Unresolved(rule, "idr.AddChild/RemoveAndReleaseTree", "exported node API not found")
		return nil
	}
	e.fns = c.RepoFunctions()
	c04Getters, c04Setters = map[*ssa.Function]*ssa.FieldAddr{}, map[*ssa.Function]*ssa.FieldAddr{}
	for _, f := range e.fns {
		if fa := c04GetterOf(f); fa != nil {
			c04Getters[f] = fa
		} else if fa := c04SetterOf(f); fa != nil {
			c04Setters[f] = fa
		}
	}
	for _, f := range e.fns {
		if c04Getters[f] != nil || c04Setters[f] != nil {
			continue // accessors are the field accesses they wrap, not methods with behaviour of their own
		}
		root := f
		for root.Parent() != nil {
			root = root.Parent()
		}
		if recv := root.Signature.Recv(); recv != nil {
			if n := core.NamedOf(recv.Type()); n != nil {
				e.byType[n.Obj()] = append(e.byType[n.Obj()], f)
				e.typeOf[f] = n.Obj()
			}
		}
	}
	return e
}

// ---------------------------------------------------------------- small value helpers

// Accessor methods: a method whose whole body is `return recv.<path>.F` (getter) or `recv.<path>.F = param`
// (setter). A call of one is treated as the load / store of F it wraps. Filled by c04NewEnv.
var (
	c04Getters map[*ssa.Function]*ssa.FieldAddr
	c04Setters map[*ssa.Function]*ssa.FieldAddr
)

// c04RootedAtRecv: the address is a chain of field selections starting at the function's receiver.
func c04RootedAtRecv(f *ssa.Function, a ssa.Value) bool {
	for i := 0; i < 6; i++ {
		switch x := a.(type) {
		case *ssa.FieldAddr:
			a = x.X
		case *ssa.Parameter:
			return len(f.Params) > 0 && x == f.Params[0]
		default:
			return false
		}
	}
	return false
}

func c04OnlyTrivial(f *ssa.Function, allow func(in ssa.Instruction) bool) bool {
	if f.Signature.Recv() == nil || f.Parent() != nil || len(f.Blocks) != 1 || len(f.AnonFuncs) > 0 {
		return false
	}
	for _, in := range f.Blocks[0].Instrs {
		switch in.(type) {
		case *ssa.FieldAddr, *ssa.DebugRef, *ssa.Return:
		default:
			if !allow(in) {
				return false
			}
		}
	}
	return true
}

func c04GetterOf(f *ssa.Function) *ssa.FieldAddr {
	if len(f.Params) != 1 || f.Signature.Results().Len() != 1 {
		return nil
	}
	var load *ssa.UnOp
	if !c04OnlyTrivial(f, func(in ssa.Instruction) bool {
		u, ok := in.(*ssa.UnOp)
		if ok && u.Op == token.MUL && load == nil {
			load = u
			return true
		}
		return false
	}) || load == nil {
		return nil
	}
	fa, ok := load.X.(*ssa.FieldAddr)
	if !ok || !c04RootedAtRecv(f, fa) {
		return nil
	}
	rt, ok := f.Blocks[0].Instrs[len(f.Blocks[0].Instrs)-1].(*ssa.Return)
	if !ok || len(rt.Results) != 1 || rt.Results[0] != ssa.Value(load) {
		return nil
	}
	return fa
}

func c04SetterOf(f *ssa.Function) *ssa.FieldAddr {
	if len(f.Params) != 2 || f.Signature.Results().Len() != 0 {
		return nil
	}
	var st *ssa.Store
	if !c04OnlyTrivial(f, func(in ssa.Instruction) bool {
		x, ok := in.(*ssa.Store)
		if ok && st == nil {
			st = x
			return true
		}
		return false
	}) || st == nil {
		return nil
	}
	fa, ok := st.Addr.(*ssa.FieldAddr)
	if !ok || !c04RootedAtRecv(f, fa) || st.Val != ssa.Value(f.Params[1]) {
		return nil
	}
	return fa
}

// c04UnwrapFn follows synthetic wrappers (bound method values, promoted-method wrappers) to the declared method.
func c04UnwrapFn(f *ssa.Function) *ssa.Function {
	for i := 0; i < 3 && f != nil && f.Synthetic != "" && f.Blocks != nil; i++ {
		if !strings.HasPrefix(f.Synthetic, "bound method wrapper") && !strings.HasPrefix(f.Synthetic, "wrapper for") {
			break
		}
		var inner *ssa.Function
		n := 0
		for _, b := range f.Blocks {
			for _, in := range b.Instrs {
				if ci, ok := in.(ssa.CallInstruction); ok {
					n++
					inner = ci.Common().StaticCallee()
				}
			}
		}
		if n != 1 || inner == nil {
			break
		}
		f = inner
	}
	return f
}

// c04ViewOf: the concrete value behind an interface view (MakeInterface / ChangeInterface of it), nil if unknown.
func c04ViewOf(v ssa.Value) ssa.Value {
	for i := 0; i < 4; i++ {
		switch x := v.(type) {
		case *ssa.ChangeInterface:
			v = x.X
		case *ssa.MakeInterface:
			return x.X
		default:
			return nil
		}
	}
	return nil
}

// c04Callee resolves the function a call enters: the static callee; the method behind a bound method value
// (`f := x.m; f()`); the method of the concrete value behind a local interface view (`var v I = x; v.m()`).
func c04Callee(ci ssa.CallInstruction) *ssa.Function {
	cc := ci.Common()
	if cc.IsInvoke() {
		x := c04ViewOf(cc.Value)
		if x == nil || ci.Parent() == nil {
			return nil
		}
		prog := ci.Parent().Prog
		sel := prog.MethodSets.MethodSet(x.Type()).Lookup(cc.Method.Pkg(), cc.Method.Name())
		if sel == nil {
			return nil
		}
		return c04UnwrapFn(prog.MethodValue(sel))
	}
	return c04UnwrapFn(cc.StaticCallee())
}

// c04CallArgs returns the arguments of the call aligned with the parameters of c04Callee(ci) (receiver first).
func c04CallArgs(ci ssa.CallInstruction) []ssa.Value {
	cc := ci.Common()
	if cc.IsInvoke() {
		if x := c04ViewOf(cc.Value); x != nil {
			return append([]ssa.Value{x}, cc.Args...)
		}
		return cc.Args
	}
	if f := cc.StaticCallee(); f != nil && strings.HasPrefix(f.Synthetic, "bound method wrapper") {
		if mc, ok := cc.Value.(*ssa.MakeClosure); ok && len(mc.Bindings) == 1 {
			return append([]ssa.Value{mc.Bindings[0]}, cc.Args...)
		}
	}
	return cc.Args
}

// c04FieldLoad: v is a load of a struct field - directly, or through a getter accessor; returns the field and
// the FieldAddr (for a getter: the one inside the accessor).
func c04FieldLoad(v ssa.Value) (*types.Var, *ssa.FieldAddr) {
	switch x := v.(type) {
	case *ssa.UnOp:
		if x.Op != token.MUL {
			return nil, nil
		}
		fa, ok := x.X.(*ssa.FieldAddr)
		if !ok {
			return nil, nil
		}
		return core.FieldOfAddr(fa), fa
	case *ssa.Call:
		if cf := c04Callee(x); cf != nil {
			if fa := c04Getters[cf]; fa != nil {
				return core.FieldOfAddr(fa), fa
			}
		}
	}
	return nil, nil
}

// c04LoadBase: the object whose field the load reads (the FieldAddr base, or the getter call's receiver).
func c04LoadBase(v ssa.Value) ssa.Value {
	switch x := v.(type) {
	case *ssa.UnOp:
		if fa, ok := x.X.(*ssa.FieldAddr); ok {
			return fa.X
		}
	case *ssa.Call:
		if args := c04CallArgs(x); len(args) > 0 {
			return args[0]
		}
	}
	return nil
}

// c04IsLoadOf: v is a load of the given field.
func c04IsLoadOf(v ssa.Value, fld *types.Var) bool {
	f, _ := c04FieldLoad(v)
	return f != nil && f == fld
}

// c04StoreEvent: in stores a value into a struct field - directly, or through a setter accessor.
func c04StoreEvent(in ssa.Instruction) (*types.Var, ssa.Value, bool) {
	switch x := in.(type) {
	case *ssa.Store:
		if fa, ok := x.Addr.(*ssa.FieldAddr); ok {
			return core.FieldOfAddr(fa), x.Val, true
		}
	case ssa.CallInstruction:
		if cf := c04Callee(x); cf != nil {
			if fa := c04Setters[cf]; fa != nil {
				if args := c04CallArgs(x); len(args) == 2 {
					return core.FieldOfAddr(fa), args[1], true
				}
			}
		}
	}
	return nil, nil, false
}

// c04StoreTo: in is a store to the given field; returns the stored value.
func c04StoreTo(in ssa.Instruction, fld *types.Var) (ssa.Value, bool) {
	f, v, ok := c04StoreEvent(in)
	if !ok || f != fld {
		return nil, false
	}
	return v, true
}

// c04SameVal: core.SameValue, extended to loads of the same field of the same object through accessors.
func c04SameVal(a, b ssa.Value) bool {
	if a == b || core.SameValue(a, b) {
		return true
	}
	fa, _ := c04FieldLoad(a)
	fb, _ := c04FieldLoad(b)
	if fa == nil || fa != fb {
		return false
	}
	ba, bb := c04LoadBase(a), c04LoadBase(b)
	if ba == nil || bb == nil {
		return false
	}
	if ba == bb || core.SameValue(ba, bb) {
		return true
	}
	// both bases are themselves field selections of the same object (embedded struct path)
	xa, oka := ba.(*ssa.FieldAddr)
	xb, okb := bb.(*ssa.FieldAddr)
	return oka && okb && xa.Field == xb.Field && (xa.X == xb.X || core.SameValue(xa.X, xb.X))
}

func c04ErrorType(t types.Type) bool {
	return types.Identical(t, types.Universe.Lookup("error").Type())
}

// c04NodeResult returns the index of the first *Node result of the signature (-1 if none).
func (e *c04Env) nodeResult(sig *types.Signature) int {
	for i := 0; i < sig.Results().Len(); i++ {
		if c04IsPtrTo(sig.Results().At(i).Type(), e.node) {
			return i
		}
	}
	return -1
}

// c04AbortReturn: the return carries an error result that is not the nil constant (the call chain is
// being abandoned with an error).
func c04AbortReturn(rt *ssa.Return) bool {
	res := rt.Parent().Signature.Results()
	for i, v := range rt.Results {
		if i < res.Len() && c04ErrorType(res.At(i).Type()) && !core.IsNilConst(v) {
			return true
		}
	}
	return false
}

func c04CalleeKey(ci ssa.CallInstruction) string {
	if f := c04Callee(ci); f != nil {
		return core.FuncKey(f)
	}
	if o := core.CalleeObj(ci); o != nil {
		return core.ObjKey(o)
	}
	return "dynamic call"
}

func c04NamedPath(t types.Type) (pkg, name string) {
	n := core.NamedOf(t)
	if n == nil || n.Obj().Pkg() == nil {
		return "", ""
	}
	return n.Obj().Pkg().Path(), n.Obj().Name()
}

// ---------------------------------------------------------------- control dependence

type c04Edge struct {
	from *ssa.BasicBlock
	succ int // index into from.Succs
}

func (ed c04Edge) ifInstr() *ssa.If {
	if len(ed.from.Instrs) == 0 {
		return nil
	}
	i, _ := ed.from.Instrs[len(ed.from.Instrs)-1].(*ssa.If)
	return i
}

// c04CD holds post-dominators and direct control dependences of one function.
type c04CD struct {
	fn   *ssa.Function
	pdom [][]bool          // pdom[b][x]: x post-dominates b (x may be the virtual exit n)
	deps map[int][]c04Edge // block index -> edges it is directly control dependent on
}

func (e *c04Env) cd(fn *ssa.Function) *c04CD {
	if r := e.cdMemo[fn]; r != nil {
		return r
	}
	n := len(fn.Blocks)
	cd := &c04CD{fn: fn, deps: map[int][]c04Edge{}}
	// successor lists including the virtual exit n
	succs := make([][]int, n+1)
	for _, b := range fn.Blocks {
		if len(b.Succs) == 0 {
			succs[b.Index] = []int{n}
			continue
		}
		for _, s := range b.Succs {
			succs[b.Index] = append(succs[b.Index], s.Index)
		}
	}
	pd := make([][]bool, n+1)
	for i := 0; i <= n; i++ {
		pd[i] = make([]bool, n+1)
		for j := 0; j <= n; j++ {
			pd[i][j] = i != n || j == n
		}
	}
	for changed := true; changed; {
		changed = false
		for i := n - 1; i >= 0; i-- {
			nw := make([]bool, n+1)
			for j := range nw {
				nw[j] = true
			}
			for _, s := range succs[i] {
				for j := 0; j <= n; j++ {
					nw[j] = nw[j] && pd[s][j]
				}
			}
			nw[i] = true
			for j := 0; j <= n; j++ {
				if nw[j] != pd[i][j] {
					changed = true
				}
			}
			pd[i] = nw
		}
	}
	cd.pdom = pd
	for _, a := range fn.Blocks {
		if len(a.Succs) < 2 {
			continue
		}
		for si, s := range a.Succs {
			for b := 0; b < n; b++ {
				if pd[s.Index][b] && (b == a.Index || !pd[a.Index][b]) {
					cd.deps[b] = append(cd.deps[b], c04Edge{a, si})
				}
			}
		}
	}
	e.cdMemo[fn] = cd
	return cd
}

// controlling returns the transitive set of edges the block is control dependent on.
func (cd *c04CD) controlling(b *ssa.BasicBlock) []c04Edge {
	var out []c04Edge
	seenE := map[c04Edge]bool{}
	seenB := map[int]bool{b.Index: true}
	work := []int{b.Index}
	for len(work) > 0 {
		x := work[len(work)-1]
		work = work[:len(work)-1]
		for _, ed := range cd.deps[x] {
			if !seenE[ed] {
				seenE[ed] = true
				out = append(out, ed)
			}
			if !seenB[ed.from.Index] {
				seenB[ed.from.Index] = true
				work = append(work, ed.from.Index)
			}
		}
	}
	sort.Slice(out, func(i, j int) bool {
		if out[i].from.Index != out[j].from.Index {
			return out[i].from.Index < out[j].from.Index
		}
		return out[i].succ < out[j].succ
	})
	return out
}

// c04ReachBlocks: blocks reachable from start (inclusive).
func c04ReachBlocks(start *ssa.BasicBlock) map[*ssa.BasicBlock]bool {
	return core.ReachableBlocks(start, nil)
}

// ---------------------------------------------------------------- path walks

const (
	c04Cont    = iota // continue along the path
	c04Stop           // the path is discharged, stop exploring it
	c04Fail           // the path violates the obligation
	c04Descend        // the instruction is a call: walk through the callee's body (if it is a repository function)
)

// c04Walker explores every path from a start point with an integer state. step is called for every
// instruction; edge (optional) refines the state along a branch edge. When step answers c04Descend for a call
// with a static repository callee, the callee's body is walked with the current state and the walk resumes
// after the call with every state the callee can return in (helpers are seen through). Inside such an inlined
// frame the callee's Return instructions are not shown to step. resolve maps a parameter of an inlined callee
// to the caller's argument.
type c04Walker struct {
	step     func(w *c04Walker, in ssa.Instruction, st int) (int, int)
	edge     func(w *c04Walker, from *ssa.BasicBlock, succ int, st int) int
	stack    []ssa.CallInstruction
	bind     map[*ssa.Parameter]ssa.Value
	fail     ssa.Instruction
	failCtx  []ssa.CallInstruction
	maxDepth int
	root     *ssa.Function // function the walk started in (never inlined into itself)
}

func (w *c04Walker) resolve(v ssa.Value) ssa.Value {
	for i := 0; i < 8; i++ {
		p, ok := v.(*ssa.Parameter)
		if !ok {
			return v
		}
		nv, ok := w.bind[p]
		if !ok {
			return v
		}
		v = nv
	}
	return v
}

// same: structural equality of two values (core.SameValue) modulo the parameter bindings of the inline stack.
func (w *c04Walker) same(a, b ssa.Value) bool { return w.sameD(a, b, 0) }

func (w *c04Walker) sameD(a, b ssa.Value, d int) bool {
	a, b = w.resolve(a), w.resolve(b)
	if a == b || c04SameVal(a, b) {
		return true
	}
	if d > 8 || a == nil || b == nil {
		return false
	}
	switch x := a.(type) {
	case *ssa.FieldAddr:
		y, ok := b.(*ssa.FieldAddr)
		return ok && x.Field == y.Field && types.Identical(x.X.Type(), y.X.Type()) && w.sameD(x.X, y.X, d+1)
	case *ssa.UnOp:
		y, ok := b.(*ssa.UnOp)
		return ok && x.Op == y.Op && w.sameD(x.X, y.X, d+1)
	case *ssa.ChangeType:
		y, ok := b.(*ssa.ChangeType)
		return ok && w.sameD(x.X, y.X, d+1)
	}
	return false
}

// canDescend: a c04Descend answer for this call would be followed.
func (w *c04Walker) canDescend(ci ssa.CallInstruction) bool {
	cf := c04Callee(ci)
	if cf == nil || cf.Blocks == nil || len(w.stack) >= w.maxDepth || !core.InRepo(core.FuncPkg(cf)) || cf == ci.Parent() || cf == w.root {
		return false
	}
	for _, s := range w.stack {
		if c04Callee(s) == cf {
			return false
		}
	}
	return true
}

// c04ErrClass classifies the error result of a return: 1 = the nil constant, 2 = certainly non-nil (a freshly
// made error), 0 = unknown / no error result.
func c04ErrClass(rt *ssa.Return) (class int, idx int) {
	res := rt.Parent().Signature.Results()
	for i, v := range rt.Results {
		if i >= res.Len() || !c04ErrorType(res.At(i).Type()) {
			continue
		}
		if core.IsNilConst(v) {
			return 1, i
		}
		switch x := v.(type) {
		case *ssa.MakeInterface:
			return 2, i
		case *ssa.Call:
			if o := core.CalleeObj(x); o != nil && o.Pkg() != nil && ((o.Pkg().Path() == "fmt" && o.Name() == "Errorf") || (o.Pkg().Path() == "errors" && o.Name() == "New")) {
				return 2, i
			}
		}
		return 0, i
	}
	return 0, -1
}

type c04RetState struct {
	st, ec, ei int
}

func (w *c04Walker) frame(b *ssa.BasicBlock, idx, st int, onRet func(st, errClass, errIdx int)) {
	type key struct {
		b  *ssa.BasicBlock
		i  int
		st int
		lc ssa.CallInstruction
		ec int
	}
	seen := map[key]bool{}
	if w.root == nil {
		w.root = b.Parent()
	}
	// lc/ec/ei: the most recent seen-through call on this path, the class of the error it returned and the
	// index of that result; used to prune the infeasible edge of the caller's `if err != nil`.
	var run func(b *ssa.BasicBlock, idx, st int, lc ssa.CallInstruction, ec, ei int)
	feasible := func(b *ssa.BasicBlock, succ int, lc ssa.CallInstruction, ec, ei int) bool {
		if lc == nil || ec == 0 || lc.Value() == nil || len(b.Instrs) == 0 {
			return true
		}
		ifi, ok := b.Instrs[len(b.Instrs)-1].(*ssa.If)
		if !ok {
			return true
		}
		bo, ok := ifi.Cond.(*ssa.BinOp)
		if !ok || (bo.Op != token.EQL && bo.Op != token.NEQ) {
			return true
		}
		var v ssa.Value
		switch {
		case core.IsNilConst(bo.Y):
			v = bo.X
		case core.IsNilConst(bo.X):
			v = bo.Y
		default:
			return true
		}
		isErr := v == ssa.Value(lc.Value())
		if ex, ok := v.(*ssa.Extract); ok && ex.Tuple == ssa.Value(lc.Value()) && ex.Index == ei {
			isErr = true
		}
		if !isErr || !c04ErrorType(v.Type()) {
			return true
		}
		nilEdge := 0
		if bo.Op == token.NEQ {
			nilEdge = 1
		}
		if ec == 1 {
			return succ == nilEdge
		}
		return succ != nilEdge
	}
	run = func(b *ssa.BasicBlock, idx, st int, lc ssa.CallInstruction, ec, ei int) {
		for i := idx; i < len(b.Instrs); i++ {
			if w.fail != nil {
				return
			}
			in := b.Instrs[i]
			if rt, isRet := in.(*ssa.Return); isRet && onRet != nil {
				cl, ix := c04ErrClass(rt)
				if cl == 0 && ix >= 0 && lc != nil && ec != 0 && lc.Value() != nil {
					// `return helper(...)`: the error handed on is the one the seen-through helper returned
					v := rt.Results[ix]
					if v == ssa.Value(lc.Value()) {
						cl = ec
					} else if ex, ok := v.(*ssa.Extract); ok && ex.Tuple == ssa.Value(lc.Value()) && ex.Index == ei {
						cl = ec
					}
				}
				onRet(st, cl, ix)
				return
			}
			ns, act := w.step(w, in, st)
			st = ns
			switch act {
			case c04Stop:
				return
			case c04Fail:
				if w.fail == nil {
					w.fail = in
					w.failCtx = append([]ssa.CallInstruction{}, w.stack...)
				}
				return
			case c04Descend:
				ci, ok := in.(ssa.CallInstruction)
				if !ok || !w.canDescend(ci) {
					continue
				}
				cf := c04Callee(ci)
				w.stack = append(w.stack, ci)
				saved := map[*ssa.Parameter]ssa.Value{}
				for pi, p := range cf.Params {
					if pi < len(c04CallArgs(ci)) {
						if old, ok := w.bind[p]; ok {
							saved[p] = old
						}
						w.bind[p] = w.resolve(c04CallArgs(ci)[pi])
					}
				}
				var rets []c04RetState
				got := map[c04RetState]bool{}
				w.frame(cf.Blocks[0], 0, st, func(s, c, ix int) {
					rs := c04RetState{s, c, ix}
					if !got[rs] {
						got[rs] = true
						rets = append(rets, rs)
					}
				})
				for _, p := range cf.Params {
					if old, ok := saved[p]; ok {
						w.bind[p] = old
					} else {
						delete(w.bind, p)
					}
				}
				w.stack = w.stack[:len(w.stack)-1]
				for _, rs := range rets {
					k := key{b, i + 1, rs.st, ci, rs.ec}
					if !seen[k] {
						seen[k] = true
						run(b, i+1, rs.st, ci, rs.ec, rs.ei)
					}
				}
				return
			}
		}
		for si, s := range b.Succs {
			if !feasible(b, si, lc, ec, ei) {
				continue
			}
			ns := st
			if w.edge != nil {
				ns = w.edge(w, b, si, st)
			}
			k := key{s, 0, ns, lc, ec}
			if seen[k] {
				continue
			}
			seen[k] = true
			run(s, 0, ns, lc, ec, ei)
		}
	}
	run(b, idx, st, nil, 0, -1)
}

// c04WalkInl runs a walker that may see through helper calls; returns the first failing instruction and the
// outermost call of the inline stack it failed under (nil when it failed at top level).
func c04WalkInl(b *ssa.BasicBlock, idx int, st int, step func(w *c04Walker, in ssa.Instruction, st int) (int, int), edge func(w *c04Walker, from *ssa.BasicBlock, succ int, st int) int) (ssa.Instruction, ssa.CallInstruction) {
	w := &c04Walker{step: step, edge: edge, bind: map[*ssa.Parameter]ssa.Value{}, maxDepth: 3}
	w.frame(b, idx, st, nil)
	if w.fail != nil && len(w.failCtx) > 0 {
		return w.fail, w.failCtx[0]
	}
	return w.fail, nil
}

// c04Walk is the intraprocedural form (no helper is seen through).
func c04Walk(b *ssa.BasicBlock, idx int, st int, step func(in ssa.Instruction, st int) (int, int), edge func(from *ssa.BasicBlock, succ int, st int) int) ssa.Instruction {
	var eg func(w *c04Walker, from *ssa.BasicBlock, succ int, st int) int
	if edge != nil {
		eg = func(w *c04Walker, from *ssa.BasicBlock, succ int, st int) int { return edge(from, succ, st) }
	}
	f, _ := c04WalkInl(b, idx, st, func(w *c04Walker, in ssa.Instruction, st int) (int, int) { return step(in, st) }, eg)
	return f
}

// reachesInstr: f (transitively over static repository callees, depth-limited) contains an instruction
// satisfying pred. memo must be a map owned by the caller (one per predicate).
func (e *c04Env) reachesInstr(f *ssa.Function, pred func(in ssa.Instruction) bool, memo map[*ssa.Function]int, depth int) bool {
	if f == nil || f.Blocks == nil || depth > 4 {
		return false
	}
	switch memo[f] {
	case 1:
		return true
	case 2, 3:
		return false
	}
	memo[f] = 3
	res := false
	for _, b := range f.Blocks {
		for _, in := range b.Instrs {
			if pred(in) {
				res = true
			}
			if ci, ok := in.(ssa.CallInstruction); ok && !res {
				if cf := c04Callee(ci); cf != nil && cf != f && core.InRepo(core.FuncPkg(cf)) && e.reachesInstr(cf, pred, memo, depth+1) {
					res = true
				}
			}
		}
	}
	if res {
		memo[f] = 1
	} else {
		memo[f] = 2
	}
	return res
}

// helperPred builds the "see through this call" decision for a walk: descend into a static repository callee
// that is not part of the node API and (transitively) contains an instruction the rule cares about.
func (e *c04Env) helperPred(pred func(in ssa.Instruction) bool) func(in ssa.Instruction) bool {
	memo := map[*ssa.Function]int{}
	return func(in ssa.Instruction) bool {
		ci, ok := in.(ssa.CallInstruction)
		if !ok {
			return false
		}
		cf := c04Callee(ci)
		if cf == nil || cf == e.remove || cf == e.addChild || cf.Blocks == nil {
			return false
		}
		return e.reachesInstr(cf, pred, memo, 0)
	}
}

// c04WalkBack explores every backward path from the instruction before `from`. visit returns c04Stop to
// discharge the path, c04Fail to fail it; reaching the function entry calls atEntry.
func c04WalkBack(from ssa.Instruction, visit func(in ssa.Instruction) int, atEntry func() int) bool {
	seen := map[*ssa.BasicBlock]bool{}
	ok := true
	var run func(b *ssa.BasicBlock, idx int)
	run = func(b *ssa.BasicBlock, idx int) {
		if !ok {
			return
		}
		for i := idx; i >= 0; i-- {
			switch visit(b.Instrs[i]) {
			case c04Stop:
				return
			case c04Fail:
				ok = false
				return
			}
		}
		if len(b.Preds) == 0 {
			if atEntry() == c04Fail {
				ok = false
			}
			return
		}
		for _, p := range b.Preds {
			if seen[p] {
				continue
			}
			seen[p] = true
			run(p, len(p.Instrs)-1)
		}
	}
	run(from.Block(), core.InstrIndex(from)-1)
	return ok
}

// c04NilTestEdge: if the block ends in `if x ==/!= nil` where isX(x) holds, returns the successor index on
// which x is known to be nil (else -1).
func c04NilTestEdge(from *ssa.BasicBlock, isX func(v ssa.Value) bool) int {
	if len(from.Instrs) == 0 {
		return -1
	}
	ifi, ok := from.Instrs[len(from.Instrs)-1].(*ssa.If)
	if !ok {
		return -1
	}
	bo, ok := ifi.Cond.(*ssa.BinOp)
	if !ok || (bo.Op != token.EQL && bo.Op != token.NEQ) {
		return -1
	}
	if !((isX(bo.X) && core.IsNilConst(bo.Y)) || (isX(bo.Y) && core.IsNilConst(bo.X))) {
		return -1
	}
	if bo.Op == token.EQL {
		return 0
	}
	return 1
}

// ---------------------------------------------------------------- input consumption

var c04ReaderPkgs = map[string]bool{
	"bufio": true, "encoding/xml": true, "encoding/json": true, "encoding/csv": true, "io": true, "io/ioutil": true,
	"github.com/jf-tech/go-corelib/ios": true,
}

// methods of library reader types that do not consume input
var c04NonConsuming = map[string]bool{
	"Bytes": true, "Text": true, "Err": true, "Buffered": true, "InputOffset": true, "LineNum": true, "AtLine": true,
	"Buffer": true, "Split": true, "Size": true, "FieldPos": true, "InputPos": true,
}

// c04ForeignConsumes: a call to a function outside the repository that consumes reader input: a method of a
// reader/decoder/scanner type of the standard library or go-corelib/ios, or one of the line-reading helpers.
func c04ForeignConsumes(o *types.Func) bool {
	if o == nil || o.Pkg() == nil || core.InRepo(o.Pkg()) {
		return false
	}
	sig := o.Type().(*types.Signature)
	if r := sig.Recv(); r != nil {
		pkg, _ := c04NamedPath(r.Type())
		if pkg == "" {
			// interface method (io.Reader.Read ...)
			return c04ReaderPkgs[o.Pkg().Path()] && !c04NonConsuming[o.Name()]
		}
		return c04ReaderPkgs[pkg] && !c04NonConsuming[o.Name()]
	}
	if !c04ReaderPkgs[o.Pkg().Path()] {
		return false
	}
	// free functions: consuming iff they take a reader-typed argument and are not constructors/wrappers
	if strings.HasPrefix(o.Name(), "New") {
		return false
	}
	for i := 0; i < sig.Params().Len(); i++ {
		t := sig.Params().At(i).Type()
		if pkg, _ := c04NamedPath(t); c04ReaderPkgs[pkg] {
			return true
		}
	}
	return false
}

// implementers returns the declared methods `name` of every repository type implementing the interface.
func (e *c04Env) implementers(iface *types.Named, name string) []*ssa.Function {
	it, ok := iface.Underlying().(*types.Interface)
	if !ok {
		return nil
	}
	key := iface.String() + "." + name
	if r, ok := e.implMemo[key]; ok {
		return r
	}
	var out []*ssa.Function
	for _, p := range e.c.Pkgs {
		sc := p.Types.Scope()
		for _, nm := range sc.Names() {
			tn, ok := sc.Lookup(nm).(*types.TypeName)
			if !ok || tn.IsAlias() {
				continue
			}
			if _, isIface := tn.Type().Underlying().(*types.Interface); isIface {
				continue
			}
			if !types.Implements(tn.Type(), it) && !types.Implements(types.NewPointer(tn.Type()), it) {
				continue
			}
			if f := e.c.MethodOfPkg(p.Types, nm, name); f != nil && f.Blocks != nil {
				out = append(out, f)
			}
		}
	}
	e.implMemo[key] = out
	return out
}

// callTargets resolves the repository functions a call may enter (static callee, closure literal, or all
// implementers of a repository interface). foreign is the callee object when it lies outside the repository.
func (e *c04Env) callTargets(ci ssa.CallInstruction) (targets []*ssa.Function, foreign *types.Func) {
	cc := ci.Common()
	if cc.IsInvoke() {
		if n := core.NamedOf(cc.Value.Type()); n != nil && n.Obj().Pkg() != nil && core.InRepo(n.Obj().Pkg()) {
			return e.implementers(n, cc.Method.Name()), nil
		}
		return nil, cc.Method
	}
	if f := cc.StaticCallee(); f != nil {
		if p := core.FuncPkg(f); p != nil && core.InRepo(p) && f.Blocks != nil {
			return []*ssa.Function{f}, nil
		}
		o, _ := f.Object().(*types.Func)
		if o == nil && f.Origin() != nil {
			o, _ = f.Origin().Object().(*types.Func)
		}
		return nil, o
	}
	return nil, nil
}

// consumes: the call (transitively) fetches input.
func (e *c04Env) consumes(ci ssa.CallInstruction) bool {
	ts, foreign := e.callTargets(ci)
	if foreign != nil && c04ForeignConsumes(foreign) {
		return true
	}
	for _, t := range ts {
		if e.consumesFn(t) {
			return true
		}
	}
	return false
}

func (e *c04Env) consumesFn(f *ssa.Function) bool {
	switch e.consMemo[f] {
	case 1:
		return true
	case 2, 3: // 3 = in progress (recursion): assume no for the cycle, the other members decide
		return false
	}
	e.consMemo[f] = 3
	res := false
	for _, ci := range core.Calls(f) {
		if e.consumes(ci) {
			res = true
			break
		}
	}
	if res {
		e.consMemo[f] = 1
	} else {
		e.consMemo[f] = 2
	}
	return res
}

// ---------------------------------------------------------------- xpath queries

// queriesFn: the function (transitively over static repository callees) evaluates an xpath expression.
func (e *c04Env) queriesFn(f *ssa.Function) bool {
	switch e.queryMemo[f] {
	case 1:
		return true
	case 2, 3:
		return false
	}
	e.queryMemo[f] = 3
	res := false
	for _, ci := range core.Calls(f) {
		if c04IsXPathEval(ci) {
			res = true
			break
		}
		if cf := c04Callee(ci); cf != nil && cf.Blocks != nil && core.InRepo(core.FuncPkg(cf)) && e.queriesFn(cf) {
			res = true
			break
		}
	}
	if res {
		e.queryMemo[f] = 1
	} else {
		e.queryMemo[f] = 2
	}
	return res
}

// c04IsXPathEval: a call into the xpath engine that evaluates or advances a query.
func c04IsXPathEval(ci ssa.CallInstruction) bool {
	o := core.CalleeObj(ci)
	if o == nil || o.Pkg() == nil || o.Pkg().Path() != "github.com/antchfx/xpath" {
		return false
	}
	switch core.FuncName(o) {
	case "Expr.Select", "Expr.Evaluate", "NodeIterator.MoveNext", "NodeIterator.Current":
		return true
	}
	return false
}

// isQueryAPI: the primitive query entry point: a free function of package idr whose first parameter is a
// *Node and which itself hands a navigator over that node to the xpath engine (Expr.Select / Evaluate) -
// QueryIter, resolved by role. MatchAny / MatchAll / MatchSingle and reader helpers are resolved through it
// by following their parameters.
func (e *c04Env) isQueryAPI(f *ssa.Function) bool {
	if f == nil || core.FuncPkg(f) != e.idr || f.Signature.Recv() != nil || len(f.Params) == 0 || !c04IsPtrTo(f.Params[0].Type(), e.node) {
		return false
	}
	for _, ci := range core.Calls(f) {
		o := core.CalleeObj(ci)
		if o != nil && o.Pkg() != nil && o.Pkg().Path() == "github.com/antchfx/xpath" {
			switch core.FuncName(o) {
			case "Expr.Select", "Expr.Evaluate":
				return true
			}
		}
	}
	return false
}

// c04QRoot is one query evaluation feeding a condition: the node it is evaluated against, as a reader field
// (fld) and/or as a value in the context of the function holding the condition (val).
type c04QRoot struct {
	call    ssa.CallInstruction
	fld     *types.Var
	val     ssa.Value
	cmpArgs []ssa.Value // caller-side values that a helper compares (==) with the query's result nodes
	unknown string
}

// queryRoots resolves the node argument(s) of the query behind call ci (through helper methods).
func (e *c04Env) queryRoots(ci ssa.CallInstruction, depth int) []c04QRoot {
	cf := c04Callee(ci)
	if cf == nil {
		return nil
	}
	if e.isQueryAPI(cf) {
		arg := ci.Common().Args[0]
		r := c04QRoot{call: ci, val: arg}
		if f, fa := c04FieldLoad(arg); f != nil && !types.Identical(core.FieldOwner(fa), e.node) {
			r.fld = f
		}
		return []c04QRoot{r}
	}
	if depth > 3 || cf.Blocks == nil || !core.InRepo(core.FuncPkg(cf)) || !e.queriesFn(cf) {
		return nil
	}
	var out []c04QRoot
	for _, cj := range core.Calls(cf) {
		for _, r := range e.queryRoots(cj, depth+1) {
			r2 := c04QRoot{call: ci, fld: r.fld}
			// results of the inner query compared with a parameter of the helper: anchored at the caller's argument
			isInner := func(v ssa.Value) bool { x, ok := v.(ssa.CallInstruction); return ok && x == r.call }
			for _, b := range cf.Blocks {
				for _, in := range b.Instrs {
					bo, ok := in.(*ssa.BinOp)
					if !ok || (bo.Op != token.EQL && bo.Op != token.NEQ) {
						continue
					}
					for _, pair := range [][2]ssa.Value{{bo.X, bo.Y}, {bo.Y, bo.X}} {
						p, ok := pair[0].(*ssa.Parameter)
						if !ok || !c04DependsOn(pair[1], isInner) {
							continue
						}
						for i, fp := range cf.Params {
							if fp == p && i < len(c04CallArgs(ci)) {
								r2.cmpArgs = append(r2.cmpArgs, c04CallArgs(ci)[i])
							}
						}
					}
				}
			}
			for _, a := range r.cmpArgs {
				if p, ok := a.(*ssa.Parameter); ok {
					for i, fp := range cf.Params {
						if fp == p && i < len(c04CallArgs(ci)) {
							r2.cmpArgs = append(r2.cmpArgs, c04CallArgs(ci)[i])
						}
					}
				}
			}
			if p, ok := r.val.(*ssa.Parameter); ok {
				for i, fp := range cf.Params {
					if fp == p && i < len(c04CallArgs(ci)) {
						r2.val = c04CallArgs(ci)[i]
						if f, fa := c04FieldLoad(r2.val); f != nil && !types.Identical(core.FieldOwner(fa), e.node) {
							r2.fld = f
						}
					}
				}
			}
			if r2.fld == nil && r2.val == nil {
				r2.unknown = "query node computed inside " + core.FuncKey(cf)
			}
			out = append(out, r2)
		}
	}
	return out
}

// isQueryResultCall: the call's result is a query outcome (bool / iterator / node set).
func (e *c04Env) isQueryResultCall(ci ssa.CallInstruction) bool {
	if c04IsXPathEval(ci) {
		return true
	}
	cf := c04Callee(ci)
	if cf == nil || cf.Blocks == nil || !core.InRepo(core.FuncPkg(cf)) {
		return false
	}
	if core.FuncPkg(cf) == e.idr && cf.Signature.Recv() == nil && len(cf.Params) > 0 && c04IsPtrTo(cf.Params[0].Type(), e.node) && e.queriesFn(cf) {
		return true // MatchAny / MatchAll / MatchSingle / QueryIter
	}
	// helper predicates of readers that wrap a query and return its boolean outcome
	res := cf.Signature.Results()
	if res.Len() == 1 {
		if b, ok := res.At(0).Type().Underlying().(*types.Basic); ok && b.Kind() == types.Bool {
			return e.queriesFn(cf)
		}
	}
	return false
}

// condQueries: the query calls whose outcome a branch condition depends on (backward slice through boolean
// operators, phis, extracts and the receivers of xpath iterator calls).
func (e *c04Env) condQueries(cond ssa.Value) []ssa.CallInstruction {
	var out []ssa.CallInstruction
	seen := map[ssa.Value]bool{}
	var walk func(v ssa.Value, d int)
	walk = func(v ssa.Value, d int) {
		if v == nil || seen[v] || d > 12 {
			return
		}
		seen[v] = true
		switch x := v.(type) {
		case *ssa.BinOp:
			walk(x.X, d+1)
			walk(x.Y, d+1)
		case *ssa.UnOp:
			if x.Op != token.MUL {
				walk(x.X, d+1)
			}
		case *ssa.Phi:
			for _, ed := range x.Edges {
				walk(ed, d+1)
			}
		case *ssa.Extract:
			walk(x.Tuple, d+1)
		case *ssa.ChangeType:
			walk(x.X, d+1)
		case *ssa.Call:
			if e.isQueryResultCall(x) {
				out = append(out, x)
				if c04IsXPathEval(x) && len(x.Call.Args) > 0 {
					walk(x.Call.Args[0], d+1) // iterator / expression receiver
				}
				return
			}
			// builtin len over a result slice, nodeFromIter(iter) and the like: follow the arguments
			if _, ok := x.Call.Value.(*ssa.Builtin); ok {
				for _, a := range x.Call.Args {
					walk(a, d+1)
				}
			}
		}
	}
	walk(cond, 0)
	return out
}

// dependsOn: backward data slice of v reaches a value satisfying pred (through calls, extracts, loads of
// locals, phis, indexing, conversions).
func c04DependsOn(v ssa.Value, pred func(ssa.Value) bool) bool {
	seen := map[ssa.Value]bool{}
	var walk func(v ssa.Value, d int) bool
	walk = func(v ssa.Value, d int) bool {
		if v == nil || seen[v] || d > 16 {
			return false
		}
		seen[v] = true
		if pred(v) {
			return true
		}
		switch x := v.(type) {
		case *ssa.BinOp:
			return walk(x.X, d+1) || walk(x.Y, d+1)
		case *ssa.UnOp:
			return walk(x.X, d+1)
		case *ssa.Phi:
			for _, ed := range x.Edges {
				if walk(ed, d+1) {
					return true
				}
			}
		case *ssa.Extract:
			return walk(x.Tuple, d+1)
		case *ssa.ChangeType:
			return walk(x.X, d+1)
		case *ssa.Convert:
			return walk(x.X, d+1)
		case *ssa.ChangeInterface:
			return walk(x.X, d+1)
		case *ssa.MakeInterface:
			return walk(x.X, d+1)
		case *ssa.TypeAssert:
			return walk(x.X, d+1)
		case *ssa.Slice:
			return walk(x.X, d+1)
		case *ssa.Index:
			return walk(x.X, d+1)
		case *ssa.IndexAddr:
			return walk(x.X, d+1)
		case *ssa.Lookup:
			return walk(x.X, d+1)
		case *ssa.Next:
			return walk(x.Iter, d+1)
		case *ssa.Range:
			return walk(x.X, d+1)
		case *ssa.FieldAddr:
			return walk(x.X, d+1)
		case *ssa.Field:
			return walk(x.X, d+1)
		case *ssa.Call:
			for _, a := range x.Call.Args {
				if walk(a, d+1) {
					return true
				}
			}
			if x.Call.IsInvoke() {
				return walk(x.Call.Value, d+1)
			}
		}
		return false
	}
	return walk(v, 0)
}

// ---------------------------------------------------------------- reader roles

// readMethod returns the method Read of the type if it has the reader shape Read() (*Node, error).
func (e *c04Env) readMethod(tn *types.TypeName) *ssa.Function {
	f := e.c.MethodOfPkg(tn.Pkg(), tn.Name(), "Read")
	if f == nil || f.Blocks == nil || len(f.Params) != 1 {
		return nil
	}
	res := f.Signature.Results()
	if res.Len() != 2 || !c04IsPtrTo(res.At(0).Type(), e.node) || !c04ErrorType(res.At(1).Type()) {
		return nil
	}
	return f
}

// releaseMethod returns the method Release(*Node) of the type.
func (e *c04Env) releaseMethod(tn *types.TypeName) *ssa.Function {
	f := e.c.MethodOfPkg(tn.Pkg(), tn.Name(), "Release")
	if f == nil || f.Blocks == nil || len(f.Params) != 2 || !c04IsPtrTo(f.Params[1].Type(), e.node) || f.Signature.Results().Len() != 0 {
		return nil
	}
	return f
}

// nodeFields: the direct *Node-typed fields of a struct type.
func (e *c04Env) nodeFields(tn *types.TypeName) []*types.Var {
	var out []*types.Var
	for _, f := range c04AllFields(tn.Type(), 0) {
		if c04IsPtrTo(f.Type(), e.node) {
			out = append(out, f)
		}
	}
	return out
}

// c04AllFields: the fields of a struct type including those promoted from embedded structs.
func c04AllFields(t types.Type, depth int) []*types.Var {
	if p, ok := t.Underlying().(*types.Pointer); ok {
		t = p.Elem()
	}
	st, ok := t.Underlying().(*types.Struct)
	if !ok || depth > 3 {
		return nil
	}
	var out []*types.Var
	for i := 0; i < st.NumFields(); i++ {
		f := st.Field(i)
		out = append(out, f)
		if f.Embedded() {
			out = append(out, c04AllFields(f.Type(), depth+1)...)
		}
	}
	return out
}

// readerField: the field belongs to the reader type (directly or through an embedded struct).
func (e *c04Env) readerField(tn *types.TypeName, f *types.Var) bool {
	for _, x := range c04AllFields(tn.Type(), 0) {
		if x == f {
			return true
		}
	}
	return false
}

// readerTypes: every named struct type of the repository (CLI excluded) with a method Read() (*Node, error),
// sorted by name.
func (e *c04Env) readerTypes() []*types.TypeName {
	var out []*types.TypeName
	for tn := range e.byType {
		if tn.Pkg() == nil || strings.HasPrefix(tn.Pkg().Path(), core.Mod+"/cli") {
			continue
		}
		if _, ok := tn.Type().Underlying().(*types.Struct); !ok {
			continue
		}
		if e.readMethod(tn) != nil {
			out = append(out, tn)
		}
	}
	sort.Slice(out, func(i, j int) bool { return c04TypeKey(out[i]) < c04TypeKey(out[j]) })
	return out
}

func c04TypeKey(tn *types.TypeName) string {
	return core.Rel(tn.Pkg().Path()) + "." + tn.Name()
}

// holderOf: the *Node field of the type whose value a method hands out: some method returns a load of it, or
// returns a value that the same method also stores into it. More than one candidate -> ambiguous.
func (e *c04Env) holderOf(tn *types.TypeName, exclude *types.Var) (h *types.Var, ambiguous bool) {
	cands := map[*types.Var]bool{}
	flds := map[*types.Var]bool{}
	for _, f := range e.nodeFields(tn) {
		if f != exclude {
			flds[f] = true
		}
	}
	for _, m := range e.byType[tn] {
		ri := e.nodeResult(m.Signature)
		if ri < 0 {
			continue
		}
		for _, b := range m.Blocks {
			for _, in := range b.Instrs {
				rt, ok := in.(*ssa.Return)
				if !ok || ri >= len(rt.Results) {
					continue
				}
				v := rt.Results[ri]
				if core.IsNilConst(v) {
					continue
				}
				if f, _ := c04FieldLoad(v); f != nil && flds[f] {
					cands[f] = true
				}
				for _, b2 := range m.Blocks {
					for _, in2 := range b2.Instrs {
						if f, sv, ok := c04StoreEvent(in2); ok && sv == v && flds[f] {
							cands[f] = true
						}
					}
				}
			}
		}
	}
	if len(cands) == 0 {
		return nil, false
	}
	if len(cands) > 1 {
		return nil, true
	}
	for f := range cands {
		h = f
	}
	return h, false
}

// cursorOf: the *Node field used as AddChild's parent and re-assigned by the type's methods (the parse
// cursor). Zero candidates = the type has no cursor.
func (e *c04Env) cursorOf(tn *types.TypeName) (cur *types.Var, ambiguous bool) {
	parents := map[*types.Var]bool{}
	stored := map[*types.Var]bool{}
	flds := map[*types.Var]bool{}
	for _, f := range e.nodeFields(tn) {
		flds[f] = true
	}
	for _, m := range e.byType[tn] {
		for _, b := range m.Blocks {
			for _, in := range b.Instrs {
				switch x := in.(type) {
				case ssa.CallInstruction:
					if c04Callee(x) == e.addChild {
						if f, _ := c04FieldLoad(x.Common().Args[0]); f != nil && flds[f] {
							parents[f] = true
						}
					}
				}
				if f, _, ok := c04StoreEvent(in); ok && flds[f] {
					stored[f] = true
				}
			}
		}
	}
	var cands []*types.Var
	for f := range parents {
		if stored[f] {
			cands = append(cands, f)
		}
	}
	if len(cands) == 0 {
		return nil, false
	}
	if len(cands) > 1 {
		return nil, true
	}
	return cands[0], false
}

// resolveReaders finds the stream readers: struct types with >= 2 *Node fields, methods Read and
// Release(*Node) and a parse cursor; resolves cur / holder and the marking / delivering decisions.
func (e *c04Env) resolveReaders(rule string) bool {
	for _, tn := range e.readerTypes() {
		if len(e.nodeFields(tn)) < 2 || e.releaseMethod(tn) == nil {
			continue
		}
		cur, amb := e.cursorOf(tn)
		if amb {
			e.c.Unresolved(rule, "cursor of "+c04TypeKey(tn), "more than one *Node field is both AddChild parent and re-assigned")
			return false
		}
		if cur == nil {
			continue // e.g. the old fixed-length reader: root + target, no cursor
		}
		h, amb := e.holderOf(tn, cur)
		if h == nil {
			why := "no *Node field other than the cursor is handed out by a method"
			if amb {
				why = "more than one *Node field is handed out by methods"
			}
			e.c.Unresolved(rule, "candidate holder of "+c04TypeKey(tn), why)
			return false
		}
		r := &c04Reader{tn: tn, cur: cur, holder: h, methods: e.byType[tn], checkFn: map[*ssa.Function]bool{}, wrapFn: map[*ssa.Function]bool{}}
		for _, m := range r.methods {
			ri := e.nodeResult(m.Signature)
			for _, b := range m.Blocks {
				for _, in := range b.Instrs {
					if v, ok := c04StoreTo(in, h); ok && !core.IsNilConst(v) {
						r.marks = append(r.marks, &c04Decision{m, in, v})
						r.checkFn[m] = true
					}
					if rt, ok := in.(*ssa.Return); ok && ri >= 0 && ri < len(rt.Results) && c04IsLoadOf(rt.Results[ri], h) {
						r.deliv = append(r.deliv, &c04Decision{m, in, rt.Results[ri]})
						if !e.consumesFn(m) {
							// the wrap-up function: decides delivery without itself fetching tokens
							r.wrapFn[m] = true
						}
					}
				}
			}
		}
		e.readers = append(e.readers, r)
	}
	if len(e.readers) == 0 {
		e.c.Unresolved(rule, "stream readers", "no struct type with >= 2 *Node fields, Read, Release(*Node) and a parse cursor found")
		return false
	}
	return true
}

// ---------------------------------------------------------------- events inside stream readers

// isCreation: v is the result of a node-creating call (a function returning *Node that takes no *Node).
func (e *c04Env) isCreation(v ssa.Value) bool {
	switch x := v.(type) {
	case *ssa.Call:
		cf := c04Callee(x)
		if cf == nil || e.nodeResult(cf.Signature) < 0 {
			return false
		}
		for _, p := range cf.Params {
			if c04IsPtrTo(p.Type(), e.node) {
				return false
			}
		}
		return true
	case *ssa.Phi:
		for _, ed := range x.Edges {
			if !e.isCreation(ed) {
				return false
			}
		}
		return len(x.Edges) > 0
	}
	return false
}

// advanceStore: in stores a freshly created node into the cursor.
func (e *c04Env) advanceStore(r *c04Reader, in ssa.Instruction) bool {
	v, ok := c04StoreTo(in, r.cur)
	return ok && e.isCreation(v)
}

// restoreStore: in stores cur.Parent into the cursor.
func (e *c04Env) restoreStore(r *c04Reader, in ssa.Instruction) bool {
	v, ok := c04StoreTo(in, r.cur)
	if !ok {
		return false
	}
	f, fa := c04FieldLoad(v)
	return f == e.parent && c04IsLoadOf(fa.X, r.cur)
}

func (e *c04Env) isMethodOf(r *c04Reader, f *ssa.Function) bool {
	return f != nil && e.typeOf[f] == r.tn
}

// checkCall: the call runs the candidate check on every path (a function containing the marking decision, or
// a method of the reader that must-calls one).
func (e *c04Env) checkCall(r *c04Reader, ci ssa.CallInstruction, depth int) bool {
	cf := c04Callee(ci)
	if cf == nil || !e.isMethodOf(r, cf) {
		return false
	}
	if r.checkFn[cf] {
		return true
	}
	if depth > 2 || len(cf.Blocks) == 0 {
		return false
	}
	fail := c04Walk(cf.Blocks[0], 0, 0, func(in ssa.Instruction, st int) (int, int) {
		switch x := in.(type) {
		case ssa.CallInstruction:
			if e.checkCall(r, x, depth+1) {
				return st, c04Stop
			}
		case *ssa.Return:
			return st, c04Fail
		}
		return st, c04Cont
	}, nil)
	return fail == nil
}

// containsCheck: the function contains a candidate check call or a marking decision.
func (e *c04Env) containsCheck(r *c04Reader, f *ssa.Function) bool {
	if r.checkFn[f] {
		return true
	}
	for _, ci := range core.Calls(f) {
		if e.checkCall(r, ci, 0) {
			return true
		}
	}
	return false
}

// advanceHelper: a method of the reader that advances the cursor onto a fresh node and contains neither a
// candidate check nor a token fetch (so its callers carry the obligation).
func (e *c04Env) advanceHelper(r *c04Reader, f *ssa.Function, depth int) bool {
	if f == nil || !e.isMethodOf(r, f) || depth > 3 || f.Blocks == nil {
		return false
	}
	if e.containsCheck(r, f) || e.consumesFn(f) {
		return false
	}
	for _, b := range f.Blocks {
		for _, in := range b.Instrs {
			if e.advanceStore(r, in) {
				return true
			}
			if ci, ok := in.(ssa.CallInstruction); ok {
				if cf := c04Callee(ci); cf != f && e.advanceHelper(r, cf, depth+1) {
					return true
				}
			}
		}
	}
	return false
}

// advanceSite: the instruction advances the cursor (directly or through an advance helper).
func (e *c04Env) advanceSite(r *c04Reader, in ssa.Instruction) bool {
	if e.advanceStore(r, in) {
		return true
	}
	if ci, ok := in.(ssa.CallInstruction); ok {
		return e.advanceHelper(r, c04Callee(ci), 0)
	}
	return false
}

// attachHelper: a method of the reader that attaches a node under the cursor without advancing it.
func (e *c04Env) attachHelper(r *c04Reader, f *ssa.Function) bool {
	if f == nil || !e.isMethodOf(r, f) || f.Blocks == nil || e.advanceHelper(r, f, 0) {
		return false
	}
	for _, ci := range core.Calls(f) {
		if c04Callee(ci) == e.addChild && c04IsLoadOf(ci.Common().Args[0], r.cur) {
			return true
		}
	}
	return false
}

// attachSite: the instruction attaches a child under the cursor without advancing it.
func (e *c04Env) attachSite(r *c04Reader, in ssa.Instruction) bool {
	ci, ok := in.(ssa.CallInstruction)
	if !ok {
		return false
	}
	if c04Callee(ci) == e.addChild {
		if !c04IsLoadOf(ci.Common().Args[0], r.cur) {
			return false
		}
		// direct attach that is not followed by an advance store of the same child in this function
		child := ci.Common().Args[1]
		for _, b := range ci.Parent().Blocks {
			for _, in2 := range b.Instrs {
				if v, ok := c04StoreTo(in2, r.cur); ok && v == child {
					return false
				}
			}
		}
		return true
	}
	return e.attachHelper(r, c04Callee(ci))
}

// wrapCall: a call to a function holding a delivering decision (the wrap-up function).
func (e *c04Env) wrapCall(r *c04Reader, in ssa.Instruction) bool {
	ci, ok := in.(ssa.CallInstruction)
	if !ok {
		return false
	}
	cf := c04Callee(ci)
	return cf != nil && r.wrapFn[cf]
}

// c04ConstOf returns the exported constant of package idr with the given name as (value, ok).
func (e *c04Env) nodeTypeConst(name string) (constant.Value, types.Type, bool) {
	c, ok := e.idr.Scope().Lookup(name).(*types.Const)
	if !ok {
		return nil, nil, false
	}
	return c.Val(), c.Type(), true
}

func c04ConstIs(v ssa.Value, val constant.Value, t types.Type) bool {
	c, ok := v.(*ssa.Const)
	return ok && c.Value != nil && val != nil && types.Identical(c.Type(), t) && constant.Compare(c.Value, token.EQL, val)
}

func c04Describe(in ssa.Instruction) string {
	switch x := in.(type) {
	case ssa.CallInstruction:
		return "call " + c04CalleeKey(x)
	case *ssa.Return:
		return "return"
	case *ssa.Store:
		return "store"
	}
	return fmt.Sprintf("%T", in)
}
