package rules

import (
	"fmt"
	"go/constant"
	"go/token"
	"sort"
	"strconv"
	"strings"

	"golang.org/x/tools/go/ssa"

	"omnilint/core"
)

// ---------------------------------------------------------------- joint enumeration of (text, type flag) pairs

type c08Pair struct {
	d    ssa.Value
	dctx []*ssa.Call
	tag  *ssa.Const
}

type c08Pairer struct {
	p      *c08Prov
	out    []c08Pair
	fail   string
	budget int
	seen   map[string]bool
}

func c08CtxKey(ctx []*ssa.Call) string {
	var b strings.Builder
	for _, c := range ctx {
		fmt.Fprintf(&b, "%p,", c)
	}
	return b.String()
}

func c08ParamIndex(x *ssa.Parameter) int {
	for i, fp := range x.Parent().Params {
		if fp == x {
			return i
		}
	}
	return -1
}

// callersFor: the call sites to consider for a value of fn under ctx (top of ctx if it calls fn, else all).
func (pr *c08Pairer) callersFor(fn *ssa.Function, ctx []*ssa.Call) (calls []*ssa.Call, rest [][]*ssa.Call) {
	if n := len(ctx); n > 0 && ctx[n-1].Call.StaticCallee() == fn {
		return []*ssa.Call{ctx[n-1]}, [][]*ssa.Call{ctx[:n-1]}
	}
	for _, c := range pr.p.callers[fn] {
		calls = append(calls, c)
		rest = append(rest, nil)
	}
	return calls, rest
}

func c08RepoCallee(call *ssa.Call) *ssa.Function {
	cf := call.Call.StaticCallee()
	if cf == nil || cf.Blocks == nil || !core.InRepo(core.FuncPkg(cf)) {
		return nil
	}
	return cf
}

// resultOf: v is (an Extract of) a call to a repository function: returns the call and the result index.
func c08ResultOf(v ssa.Value) (*ssa.Call, int) {
	switch x := v.(type) {
	case *ssa.Call:
		if c08RepoCallee(x) != nil {
			return x, 0
		}
	case *ssa.Extract:
		if call, ok := x.Tuple.(*ssa.Call); ok && c08RepoCallee(call) != nil {
			return call, x.Index
		}
	}
	return nil, 0
}

func (pr *c08Pairer) pairs(d, t ssa.Value, dctx, tctx []*ssa.Call, depth int) {
	pr.budget--
	if pr.budget < 0 || depth > 40 {
		pr.fail = "enumeration of (text, type) pairs exceeded its budget"
		return
	}
	k := fmt.Sprintf("%p|%p|%s|%s", d, t, c08CtxKey(dctx), c08CtxKey(tctx))
	if pr.seen[k] {
		return
	}
	pr.seen[k] = true
	switch x := t.(type) {
	case *ssa.Const:
		pr.expandD(d, dctx, x, depth+1)
	case *ssa.Phi:
		if dp, ok := d.(*ssa.Phi); ok && dp.Block() == x.Block() {
			for i := range x.Edges {
				pr.pairs(dp.Edges[i], x.Edges[i], dctx, tctx, depth+1)
			}
			return
		}
		for i := range x.Edges {
			pr.pairs(d, x.Edges[i], dctx, tctx, depth+1)
		}
	case *ssa.Parameter:
		fn := x.Parent()
		ti := c08ParamIndex(x)
		calls, rest := pr.callersFor(fn, tctx)
		if len(calls) == 0 || ti < 0 {
			pr.fail = "type flag is parameter " + x.Name() + " of " + c08FuncName(fn) + " which has no static call site"
			return
		}
		for i, cs := range calls {
			if ti >= len(cs.Call.Args) {
				continue
			}
			if dp, ok := d.(*ssa.Parameter); ok && dp.Parent() == fn {
				if di := c08ParamIndex(dp); di >= 0 && di < len(cs.Call.Args) {
					pr.pairs(cs.Call.Args[di], cs.Call.Args[ti], rest[i], rest[i], depth+1)
					continue
				}
			}
			// d stays inside fn: it has to be read under this call site
			nd := dctx
			if dv, ok := d.(ssa.Instruction); ok && dv.Parent() == fn && !(len(dctx) > 0 && dctx[len(dctx)-1] == cs) {
				nd = append(append([]*ssa.Call{}, rest[i]...), cs)
			}
			pr.pairs(d, cs.Call.Args[ti], nd, rest[i], depth+1)
		}
	default:
		if call, ti := c08ResultOf(t); call != nil {
			cf := c08RepoCallee(call)
			dcall, di := c08ResultOf(d)
			for _, b := range cf.Blocks {
				for _, in := range b.Instrs {
					rt, ok := in.(*ssa.Return)
					if !ok || ti >= len(rt.Results) {
						continue
					}
					nt := append(append([]*ssa.Call{}, tctx...), call)
					if dcall == call && di < len(rt.Results) {
						pr.pairs(rt.Results[di], rt.Results[ti], append(append([]*ssa.Call{}, dctx...), call), nt, depth+1)
					} else {
						pr.pairs(d, rt.Results[ti], dctx, nt, depth+1)
					}
				}
			}
			return
		}
		pr.fail = fmt.Sprintf("type flag is computed (%T): the (text, type) pairs cannot be enumerated", t)
	}
}

// expandD: the type flag is the constant tag; enumerate the leaves of the text value.
func (pr *c08Pairer) expandD(d ssa.Value, dctx []*ssa.Call, tag *ssa.Const, depth int) {
	pr.budget--
	if pr.budget < 0 || depth > 40 {
		pr.fail = "enumeration of (text, type) pairs exceeded its budget"
		return
	}
	switch x := d.(type) {
	case *ssa.Phi:
		k := fmt.Sprintf("D%p|%p|%s", d, tag, c08CtxKey(dctx))
		if pr.seen[k] {
			return
		}
		pr.seen[k] = true
		for _, e := range x.Edges {
			pr.expandD(e, dctx, tag, depth+1)
		}
		return
	case *ssa.Parameter:
		fn := x.Parent()
		di := c08ParamIndex(x)
		calls, rest := pr.callersFor(fn, dctx)
		if len(calls) > 0 && di >= 0 {
			for i, cs := range calls {
				if di < len(cs.Call.Args) {
					pr.expandD(cs.Call.Args[di], rest[i], tag, depth+1)
				}
			}
			return
		}
	}
	if call, di := c08ResultOf(d); call != nil {
		if _, isSrc := pr.p.IsSource(call); !isSrc {
			cf := c08RepoCallee(call)
			for _, b := range cf.Blocks {
				for _, in := range b.Instrs {
					if rt, ok := in.(*ssa.Return); ok && di < len(rt.Results) {
						pr.expandD(rt.Results[di], append(append([]*ssa.Call{}, dctx...), call), tag, depth+1)
					}
				}
			}
			return
		}
	}
	pr.out = append(pr.out, c08Pair{d: d, dctx: dctx, tag: tag})
}

// ---------------------------------------------------------------- formats

type c08Format struct {
	kind string // float, bool, ident, const, other
	desc string
	ok   bool   // the format itself is loss-free (for float: prec -1, 64 bit, parseable verb; argument is the token)
	why  string // why not ok
}

func c08ConstInt(v ssa.Value) (int64, bool) {
	k, ok := v.(*ssa.Const)
	if !ok || k.Value == nil || k.Value.Kind() != constant.Int {
		return 0, false
	}
	return constant.Int64Val(k.Value)
}

func c08ClassifyFormat(p *c08Prov, leaf ssa.Value, ctx []*ssa.Call) c08Format {
	tokenIs := func(v ssa.Value, typ string) (bool, string) {
		ts := p.Resolve(v, ctx)
		if len(ts) == 0 {
			return false, "no origin"
		}
		for _, t := range ts {
			if !(t.Kind == "src" && t.Root == "json.Token#0" && t.Path == "("+typ+")") {
				return false, ts.String()
			}
		}
		return true, ""
	}
	if k, ok := leaf.(*ssa.Const); ok {
		s := "zero"
		if k.Value != nil {
			s = k.Value.ExactString()
		}
		return c08Format{kind: "const", desc: "constant " + s, ok: true}
	}
	if call, ok := leaf.(*ssa.Call); ok && !call.Call.IsInvoke() {
		if o := core.CalleeObj(call); o != nil && o.Pkg() != nil && o.Pkg().Path() == "strconv" {
			switch o.Name() {
			case "FormatFloat":
				if len(call.Call.Args) != 4 {
					break
				}
				f := c08Format{kind: "float", ok: true}
				verb, ok1 := c08ConstInt(call.Call.Args[1])
				prec, ok2 := c08ConstInt(call.Call.Args[2])
				bits, ok3 := c08ConstInt(call.Call.Args[3])
				f.desc = fmt.Sprintf("strconv.FormatFloat(tok, %s, %d, %d)", strconv.QuoteRune(rune(verb)), prec, bits)
				switch {
				case !ok1 || !ok2 || !ok3:
					f.ok, f.why, f.desc = false, "format verb, precision or bit size is not a constant", "strconv.FormatFloat(tok, …)"
				case !strings.ContainsRune("eEfgGxX", rune(verb)):
					f.ok, f.why = false, "format verb cannot be parsed back by strconv.ParseFloat"
				case prec != -1:
					f.ok, f.why = false, fmt.Sprintf("precision %d is not -1 (shortest representation that round-trips): digits are lost", prec)
				case bits != 64:
					f.ok, f.why = false, fmt.Sprintf("bit size %d: the number is rounded to float%d before formatting", bits, bits)
				}
				if okTok, got := tokenIs(call.Call.Args[0], "float64"); !okTok && f.ok {
					f.ok, f.why = false, "the formatted number is not the float64 token itself but "+got
				}
				return f
			case "FormatBool":
				if len(call.Call.Args) != 1 {
					break
				}
				f := c08Format{kind: "bool", ok: true, desc: "strconv.FormatBool(tok)"}
				if okTok, got := tokenIs(call.Call.Args[0], "bool"); !okTok {
					f.ok, f.why = false, "the formatted value is not the bool token itself but "+got
				}
				return f
			}
		}
	}
	if okTok, got := tokenIs(leaf, "string"); okTok {
		return c08Format{kind: "ident", ok: true, desc: "tok.(string)"}
	} else {
		return c08Format{kind: "other", desc: got, why: "the text is neither a strconv format of the token, nor the string token, nor a constant: " + got}
	}
}

// ---------------------------------------------------------------- R08a

func (r *c08roles) tagName(tag uint64) string {
	var parts []string
	for bit := uint64(1); bit != 0 && bit <= tag; bit <<= 1 {
		if tag&bit != 0 {
			if n, ok := r.jsonTypes[strconv.FormatUint(bit, 10)]; ok {
				parts = append(parts, n)
			} else {
				parts = append(parts, fmt.Sprintf("bit%d", bit))
			}
		}
	}
	if len(parts) == 0 {
		return "JSONType(0)"
	}
	return strings.Join(parts, "|")
}

type c08Decoder struct {
	fn        *ssa.Function
	nodeParam int // index of the *Node parameter: the element whose first child is the text node
}

// c08Decoders: the scalar branch of the converter: functions of package idr (other than the converter itself) whose
// result the converter returns directly and that receive the converter's node. They are executed with that node being
// the element created for a scalar (unknown container flags) and its first child being the text node.
func c08Decoders(c *core.Ctx, r *c08roles) []c08Decoder {
	k := c08Converter(r)
	if k == nil {
		return nil
	}
	np := c08NodeParam(k, r.node)
	if np < 0 {
		return nil
	}
	var out []c08Decoder
	seen := map[*ssa.Function]bool{}
	for _, rt := range ecReturns(k) {
		if len(rt.Results) != 1 {
			continue
		}
		call, ok := core.Unwrap(rt.Results[0], true).(*ssa.Call)
		if !ok {
			continue
		}
		cf := c08RepoCallee(call)
		if cf == nil || cf == k || core.FuncPkg(cf) != r.idr || seen[cf] {
			continue
		}
		if g5OnlyContainers(cf) {
			continue // an array / object builder split off the converter (judged by R08c), not the scalar branch
		}
		dp := -1
		for i, a := range call.Call.Args {
			if a == ssa.Value(k.Params[np]) {
				dp = i
			}
		}
		if dp < 0 {
			continue
		}
		seen[cf] = true
		out = append(out, c08Decoder{fn: cf, nodeParam: dp})
	}
	return out
}

func c08RuleA(c *core.Ctx, r *c08roles, prov *c08Prov) {
	// writer side
	type wp struct {
		sink *ssa.Function
		pos  token.Pos
		tag  uint64
		f    c08Format
	}
	var pairs []wp
	nSink := 0
	for _, f := range r.idrFns {
		for _, ci := range core.Calls(f) {
			call, ok := ci.(*ssa.Call)
			if !ok || call.Call.StaticCallee() != r.createJSON || f == r.createJSON {
				continue
			}
			ctxs, kinds, ok := c08Contexts(prov, f, call.Call.Args[0])
			if !ok {
				continue // reported by R08b
			}
			for i, ctx := range ctxs {
				if r.nodeTypes[kinds[i]] != "TextNode" {
					continue
				}
				nSink++
				pr := &c08Pairer{p: prov, budget: 4000, seen: map[string]bool{}}
				pr.pairs(call.Call.Args[1], call.Call.Args[2], ctx, ctx, 0)
				if pr.fail != "" {
					c.Unknown("R08a", core.FuncKey(f)+" text/type pairs", call.Pos(), pr.fail)
					continue
				}
				for _, p := range pr.out {
					tv, ok := uint64(0), false
					if p.tag.Value != nil {
						tv, ok = constant.Uint64Val(constant.ToInt(p.tag.Value))
					}
					if !ok {
						c.Unknown("R08a", core.FuncKey(f)+" text/type pairs", call.Pos(), "type flag constant is not an unsigned integer")
						continue
					}
					pairs = append(pairs, wp{f, call.Pos(), tv, c08ClassifyFormat(prov, p.d, p.dctx)})
				}
			}
		}
	}
	if nSink == 0 || len(pairs) == 0 {
		c.Unresolved("R08a", "JSON text node creation", "no CreateJSONNode(TextNode, …) call in package idr")
		return
	}
	// reader side
	decs := c08Decoders(c, r)
	if len(decs) == 0 {
		c.Unresolved("R08a", "JSON scalar decoder", "the converter behind J2NodeToInterface returns the result of no other function of package idr applied to its node: the scalar branch the rule executes is gone")
		return
	}
	for _, d := range decs {
		c.OK("R08a", "J2NodeToInterface scalar branch", d.fn.Pos(), core.FuncKey(d.fn)+" is executed symbolically on an element whose first child is the text node")
	}
	// the writer knows the four scalar token kinds
	{
		have := map[string]bool{}
		for _, p := range pairs {
			have[p.f.kind] = true
		}
		var missing []string
		for _, k := range []string{"float", "bool", "ident", "const"} {
			if !have[k] {
				missing = append(missing, map[string]string{"float": "number (strconv.FormatFloat)", "bool": "boolean (strconv.FormatBool)", "ident": "string (the token itself)", "const": "null (constant text)"}[k])
			}
		}
		c.Check(len(missing) == 0, "R08a", "JSON text nodes cover the four scalar token kinds", pairs[0].pos, "number, boolean, string, null",
			"no text/type pair of the JSON reader has the form expected for: "+strings.Join(missing, ", "))
	}
	// dedupe and order the writer pairs
	sort.SliceStable(pairs, func(i, j int) bool {
		if pairs[i].tag != pairs[j].tag {
			return pairs[i].tag < pairs[j].tag
		}
		return pairs[i].f.desc < pairs[j].f.desc
	})
	seen := map[string]bool{}
	for _, p := range pairs {
		id := fmt.Sprintf("%s|%d|%s", core.FuncKey(p.sink), p.tag, p.f.desc)
		if seen[id] {
			continue
		}
		seen[id] = true
		key := fmt.Sprintf("%s text of %s", core.FuncKey(p.sink), r.tagName(p.tag))
		if !p.f.ok {
			c.Bad("R08a", key, p.pos, fmt.Sprintf("the text stored for %s is %s: %s", r.tagName(p.tag), p.f.desc, p.f.why))
			continue
		}
		// every decoder, every path
		var problems []string
		var got []string
		for _, d := range decs {
			if d.nodeParam < 0 {
				continue
			}
			setup := func() (*c08Machine, []c08AV) {
				m := &c08Machine{r: r, prov: prov, child: map[int]int{}, typedMode: true}
				parent := m.newNode(c08SymNode{nonNil: true})
				target := m.firstChild(parent)
				m.nodes[target] = c08SymNode{tagKnown: true, tag: p.tag, nonNil: true}
				args := make([]c08AV, len(d.fn.Params))
				for i, fp := range d.fn.Params {
					switch {
					case i == d.nodeParam:
						args[i] = c08AV{K: c08NodeV, N: parent}
					case c08IsPointer(fp.Type()):
						args[i] = c08AV{K: c08Obj}
					}
				}
				return m, args
			}
			target := 1
			outs, sts := c08Explore(setup, d.fn)
			for i, o := range outs {
				got = append(got, o.String())
				okOut := false
				switch p.f.kind {
				case "float":
					okOut = o.K == c08Parsed && o.S == "ParseFloat" && o.N == target && o.Bits == 64
				case "bool":
					okOut = o.K == c08Parsed && o.S == "ParseBool" && o.N == target
				case "ident":
					okOut = o.K == c08DataV && o.N == target
				case "const":
					okOut = o.K == c08NilIfc
				}
				if sts[i] != "" || !okOut {
					problems = append(problems, fmt.Sprintf("%s yields %s", core.FuncKey(d.fn), o.String()))
				}
			}
		}
		sort.Strings(problems)
		problems = c08Uniq(problems)
		inv := map[string]string{"float": "strconv.ParseFloat(Data, 64)", "bool": "strconv.ParseBool(Data)", "ident": "Data itself", "const": "nil"}[p.f.kind]
		c.Check(len(problems) == 0, "R08a", key, p.pos, fmt.Sprintf("written as %s, read back as %s", p.f.desc, inv),
			fmt.Sprintf("a scalar written as %s with flag %s is not read back by its inverse (%s): %s", p.f.desc, r.tagName(p.tag), inv, strings.Join(problems, "; ")))
	}
}

func c08Uniq(s []string) []string {
	var out []string
	for i, x := range s {
		if i == 0 || x != s[i-1] {
			out = append(out, x)
		}
	}
	return out
}
