package rules

// C03 helper (analysis A7): the JSONSchema* string constants of the repository are evaluated with go/constant,
// parsed as JSON and queried along a path of property names derived from the `json:"..."` tags of the Go structs
// the validated bytes are unmarshalled into. Nothing is executed; the constants are read from the type-checked
// program of the current working tree.

import (
	"encoding/json"
	"fmt"
	"go/constant"
	"go/types"
	"reflect"
	"sort"
	"strings"

	"omnilint/core"
)

type c03schema struct {
	name string       // Go constant name
	obj  *types.Const // the constant object
	root map[string]interface{}
}

// c03loadSchemas evaluates every package-level string constant named JSONSchema* in the repository.
func c03loadSchemas(c *core.Ctx) (map[*types.Const]*c03schema, []string) {
	out := map[*types.Const]*c03schema{}
	var problems []string
	for _, p := range c.Pkgs {
		if core.IsCLIOrSample(p.Types) {
			continue
		}
		sc := p.Types.Scope()
		names := sc.Names()
		sort.Strings(names)
		for _, n := range names {
			k, ok := sc.Lookup(n).(*types.Const)
			if !ok || !strings.HasPrefix(n, "JSONSchema") || k.Val().Kind() != constant.String {
				continue
			}
			var root map[string]interface{}
			if err := json.Unmarshal([]byte(constant.StringVal(k.Val())), &root); err != nil {
				problems = append(problems, fmt.Sprintf("%s.%s is not valid JSON: %v", core.Rel(p.PkgPath), n, err))
				continue
			}
			out[k] = &c03schema{name: core.Rel(p.PkgPath) + "." + n, obj: k, root: root}
		}
	}
	return out, problems
}

// deref follows "$ref": "#/a/b" pointers inside the same document.
func (s *c03schema) deref(n map[string]interface{}, depth int) map[string]interface{} {
	for depth < 16 {
		ref, ok := n["$ref"].(string)
		if !ok {
			return n
		}
		if !strings.HasPrefix(ref, "#/") {
			return nil
		}
		var cur interface{} = s.root
		for _, part := range strings.Split(ref[2:], "/") {
			part = strings.ReplaceAll(strings.ReplaceAll(part, "~1", "/"), "~0", "~")
			m, ok := cur.(map[string]interface{})
			if !ok {
				return nil
			}
			cur = m[part]
		}
		m, ok := cur.(map[string]interface{})
		if !ok {
			return nil
		}
		n = m
		depth++
	}
	return nil
}

// alternatives expands oneOf/anyOf (every alternative must be considered) — allOf members are merged as extra
// alternatives' constraints by the caller through `all`.
func (s *c03schema) alternatives(n map[string]interface{}, depth int) []map[string]interface{} {
	n = s.deref(n, 0)
	if n == nil || depth > 8 {
		return nil
	}
	var out []map[string]interface{}
	expanded := false
	for _, kw := range []string{"oneOf", "anyOf"} {
		if arr, ok := n[kw].([]interface{}); ok {
			expanded = true
			for _, a := range arr {
				if m, ok := a.(map[string]interface{}); ok {
					out = append(out, s.alternatives(m, depth+1)...)
				}
			}
		}
	}
	if !expanded {
		out = append(out, n)
	}
	return out
}

// c03schemaHit is one schema node describing the value at the queried path, with whether the value is guaranteed
// to be present (every property on the path is listed in `required` of its parent object).
type c03schemaHit struct {
	node     map[string]interface{}
	required bool
	where    string
}

// lookup walks `path` (property names; "[]" = array items; "{}" = additionalProperties/any property value)
// from the document root and returns all schema nodes that may describe the value. ok=false if the path
// leaves the described part of the schema (then nothing is known about the value).
func (s *c03schema) lookup(path []string) (hits []c03schemaHit, ok bool) {
	type st struct {
		n     map[string]interface{}
		req   bool
		where string
	}
	cur := []st{}
	for _, a := range s.alternatives(s.root, 0) {
		cur = append(cur, st{a, true, "#"})
	}
	for _, el := range path {
		var next []st
		for _, c := range cur {
			switch el {
			case "[]":
				items, isM := c.n["items"].(map[string]interface{})
				if !isM {
					return nil, false
				}
				for _, a := range s.alternatives(items, 0) {
					next = append(next, st{a, c.req, c.where + "/items"})
				}
			case "{}":
				found := false
				if ap, isM := c.n["additionalProperties"].(map[string]interface{}); isM {
					found = true
					for _, a := range s.alternatives(ap, 0) {
						next = append(next, st{a, c.req, c.where + "/additionalProperties"})
					}
				}
				if pp, isM := c.n["patternProperties"].(map[string]interface{}); isM {
					for k, v := range pp {
						if m, isM := v.(map[string]interface{}); isM {
							found = true
							for _, a := range s.alternatives(m, 0) {
								next = append(next, st{a, c.req, c.where + "/patternProperties/" + k})
							}
						}
					}
				}
				if !found {
					return nil, false
				}
			default:
				props, _ := c.n["properties"].(map[string]interface{})
				p, has := props[el].(map[string]interface{})
				if !has {
					// property not described in this alternative: if additional properties are forbidden the
					// alternative cannot carry the property at all (nothing to check); otherwise unknown.
					if ap, isB := c.n["additionalProperties"].(bool); isB && !ap {
						continue
					}
					return nil, false
				}
				req := false
				if rl, isL := c.n["required"].([]interface{}); isL {
					for _, r := range rl {
						if r == el {
							req = true
						}
					}
				}
				for _, a := range s.alternatives(p, 0) {
					next = append(next, st{a, c.req && req, c.where + "/properties/" + el})
				}
			}
		}
		cur = next
	}
	for _, c := range cur {
		hits = append(hits, c03schemaHit{c.n, c.req, c.where})
	}
	return hits, len(hits) > 0
}

func c03num(v interface{}) (float64, bool) {
	f, ok := v.(float64)
	return f, ok
}

// requireMin: every hit has keyword >= min (and, if mustExist, is required and of the given JSON type).
func c03requireMin(hits []c03schemaHit, keyword string, min float64, jsonType string, mustExist bool) (bool, string) {
	for _, h := range hits {
		if jsonType != "" {
			if t, _ := h.node["type"].(string); t != jsonType {
				if _, isConst := h.node["const"]; !isConst || jsonType != "string" {
					return false, fmt.Sprintf("%s: type is %v, not %q", h.where, h.node["type"], jsonType)
				}
			}
		}
		if mustExist && !h.required {
			return false, fmt.Sprintf("%s: property is not listed in `required` on the whole path", h.where)
		}
		if cv, isConst := h.node["const"].(string); isConst && keyword == "minLength" {
			if float64(len(cv)) >= min {
				continue
			}
		}
		v, ok := c03num(h.node[keyword])
		if !ok {
			return false, fmt.Sprintf("%s: no %q constraint", h.where, keyword)
		}
		if v < min {
			return false, fmt.Sprintf("%s: %s is %v, needs >= %v", h.where, keyword, v, min)
		}
	}
	return len(hits) > 0, ""
}

// requirePresent: the value exists (required on the whole path) and is not null (typed).
func c03requirePresent(hits []c03schemaHit) (bool, string) {
	for _, h := range hits {
		if !h.required {
			return false, fmt.Sprintf("%s: property is not listed in `required` on the whole path", h.where)
		}
		switch t := h.node["type"].(type) {
		case string:
			if t == "null" {
				return false, h.where + ": type null allowed"
			}
		case []interface{}:
			for _, x := range t {
				if x == "null" {
					return false, h.where + ": type null allowed"
				}
			}
		default:
			if _, isConst := h.node["const"]; !isConst {
				if _, isEnum := h.node["enum"]; !isEnum {
					return false, h.where + ": value type not constrained (null possible)"
				}
			}
		}
	}
	return len(hits) > 0, ""
}

// ---------------------------------------------------------------- Go struct <-> JSON path

func c03jsonName(f *types.Var, tag string) (string, bool) {
	if !f.Exported() {
		return "", false
	}
	jt, has := reflect.StructTag(tag).Lookup("json")
	name := f.Name()
	if has {
		part := strings.Split(jt, ",")[0]
		if part == "-" {
			return "", false
		}
		if part != "" {
			name = part
		}
	}
	return name, true
}

// c03fieldPaths finds every JSON path from root type `t` to struct field `target` (following json tags through
// structs, pointers, slices ("[]") and maps ("{}")); recursion through self-referential types is cut after the
// first repetition of a named type on the path... the second visit is allowed once so that recursive schemas
// ($ref cycles) are checked at the recursive position as well.
func c03fieldPaths(t types.Type, target *types.Var) [][]string {
	var out [][]string
	var walk func(t types.Type, path []string, seen map[*types.Named]int)
	walk = func(t types.Type, path []string, seen map[*types.Named]int) {
		if len(path) > 24 {
			return
		}
		switch x := t.(type) {
		case *types.Pointer:
			walk(x.Elem(), path, seen)
		case *types.Alias:
			walk(types.Unalias(x), path, seen)
		case *types.Named:
			if seen[x] >= 2 {
				return
			}
			seen[x]++
			walk(x.Underlying(), path, seen)
			seen[x]--
		case *types.Slice:
			walk(x.Elem(), append(append([]string{}, path...), "[]"), seen)
		case *types.Array:
			walk(x.Elem(), append(append([]string{}, path...), "[]"), seen)
		case *types.Map:
			walk(x.Elem(), append(append([]string{}, path...), "{}"), seen)
		case *types.Struct:
			for i := 0; i < x.NumFields(); i++ {
				f := x.Field(i)
				n, ok := c03jsonName(f, x.Tag(i))
				if !ok {
					continue
				}
				p := append(append([]string{}, path...), n)
				if f.Embedded() {
					if _, has := reflect.StructTag(x.Tag(i)).Lookup("json"); !has {
						p = path
					}
				}
				if f == target {
					out = append(out, p)
				}
				walk(f.Type(), p, seen)
			}
		}
	}
	walk(t, nil, map[*types.Named]int{})
	return out
}

// c03topTags returns the JSON names of the top-level exported fields of a struct type.
func c03topTags(t types.Type) []string {
	for {
		if p, ok := t.(*types.Pointer); ok {
			t = p.Elem()
			continue
		}
		break
	}
	st, ok := t.Underlying().(*types.Struct)
	if !ok {
		return nil
	}
	var out []string
	for i := 0; i < st.NumFields(); i++ {
		if n, ok := c03jsonName(st.Field(i), st.Tag(i)); ok {
			if _, has := reflect.StructTag(st.Tag(i)).Lookup("json"); has {
				out = append(out, n)
			}
		}
	}
	return out
}
