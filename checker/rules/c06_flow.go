package rules

import (
	"fmt"
	"go/token"
	"go/types"
	"sort"
	"strings"

	"golang.org/x/tools/go/ssa"

	"omnilint/core"
)

// c06ReadsField: f (or a repository function it calls statically, up to depth levels) loads one of the fields.
func c06ReadsField(f *ssa.Function, flds map[*types.Var]bool, depth int, seen map[*ssa.Function]bool) bool {
	if f == nil || f.Blocks == nil || depth < 0 || seen[f] {
		return false
	}
	seen[f] = true
	for _, b := range f.Blocks {
		for _, in := range b.Instrs {
			switch x := in.(type) {
			case *ssa.FieldAddr:
				if flds[core.FieldOfAddr(x)] {
					return true
				}
			case *ssa.Field:
				if flds[core.FieldOfField(x)] {
					return true
				}
			case ssa.CallInstruction:
				if cf := x.Common().StaticCallee(); cf != nil && core.InRepo(core.FuncPkg(cf)) && c06ReadsField(cf, flds, depth-1, seen) {
					return true
				}
			}
		}
	}
	return false
}

// c06ContainsSource: f (or a repository function it calls statically) calls a unit source.
func c06ContainsSource(f *ssa.Function, depth int, seen map[*ssa.Function]bool) bool {
	if f == nil || f.Blocks == nil || depth < 0 || seen[f] {
		return false
	}
	seen[f] = true
	for _, ci := range core.Calls(f) {
		if call, ok := ci.(*ssa.Call); ok && c06SourceKind(call) != "" {
			return true
		}
		if cf := ci.Common().StaticCallee(); cf != nil && core.InRepo(core.FuncPkg(cf)) && c06ContainsSource(cf, depth-1, seen) {
			return true
		}
	}
	return false
}

// ---------------------------------------------------------------- R06c

func c06RuleC(c *core.Ctx, r *c06roles, prov *c08Prov) {
	er := ecResolve(c, "R06c")
	if er == nil || !er.ok {
		return
	}
	eng := ecNewEngine(er)
	found := false
	for _, pk := range r.pkgs {
		if pk.kind != "csv" {
			continue
		}
		hdr := map[*types.Var]bool{}
		for f, tag := range r.tagOf {
			if tag == "header_row_index" && f.Pkg() == pk.p {
				hdr[f] = true
			}
		}
		if len(hdr) == 0 {
			continue
		}
		found = true
		var rd *ecReader
		for _, x := range er.readers {
			if x.Pkg == pk.p {
				rd = x
			}
		}
		if rd == nil {
			c.Unresolved("R06c", "format reader of "+core.Rel(pk.p.Path()), "the package declares header_row_index but no type implementing fileformat.FormatReader")
			continue
		}
		read := rd.Read
		recv := read.Params[0]
		isH := func(in ssa.Instruction) *ssa.Call {
			call, ok := in.(*ssa.Call)
			if !ok {
				return nil
			}
			cf := c08RepoCallee(call)
			if cf == nil || !c06ReadsField(cf, hdr, 4, map[*ssa.Function]bool{}) {
				return nil
			}
			return call
		}
		isF := func(in ssa.Instruction) bool {
			call, ok := in.(*ssa.Call)
			if !ok {
				return false
			}
			if c06SourceKind(call) != "" {
				return true
			}
			cf := c08RepoCallee(call)
			return cf != nil && isH(in) == nil && c06ContainsSource(cf, 3, map[*ssa.Function]bool{})
		}
		var hCalls []*ssa.Call
		nF := 0
		for _, b := range read.Blocks {
			for _, in := range b.Instrs {
				if h := isH(in); h != nil {
					hCalls = append(hCalls, h)
				} else if isF(in) {
					nF++
				}
			}
		}
		if len(hCalls) == 0 || nF == 0 {
			c.Unresolved("R06c", rd.Key+".Read header check / record fetch", fmt.Sprintf("Read contains %d call(s) that read header_row_index and %d record fetch(es): the ordering the rule checks cannot be established", len(hCalls), nF))
			continue
		}
		// the flag: a bool field of the receiver that Read sets to true
		var flag *types.Var
		ambiguous := false
		for _, w := range core.Writes(read) {
			if w.Kind == "field" && w.Root == ssa.Value(recv) && len(w.Chain) == 1 && c06IsConst(w.Val, "true") {
				if b, ok := w.Field.Type().Underlying().(*types.Basic); ok && b.Kind() == types.Bool {
					if flag != nil && flag != w.Field {
						ambiguous = true
					}
					flag = w.Field
				}
			}
		}
		if ambiguous {
			c.Unresolved("R06c", rd.Key+".Read flag", "Read sets more than one boolean field of the reader to true")
			continue
		}
		isFlagLoad := func(v ssa.Value) bool {
			f, fa := c04FieldLoad(v)
			return flag != nil && f == flag && fa != nil && fa.X == ssa.Value(recv)
		}
		isHRes := func(v ssa.Value) *ssa.Call {
			for _, h := range hCalls {
				if v == ssa.Value(h) {
					return h
				}
				if ex, ok := v.(*ssa.Extract); ok && ex.Tuple == ssa.Value(h) {
					return h
				}
			}
			return nil
		}
		// exploration of the first Read (flag false)
		type state struct {
			g       bool
			checked bool
			tested  bool      // the error of the last header check has been tested
			errOf   ssa.Value // on the failing edge of that header check
		}
		var fetchUnchecked, errFetch, errReturn token.Pos
		type vk struct {
			b  *ssa.BasicBlock
			st state
		}
		seen := map[vk]bool{}
		var walk func(b *ssa.BasicBlock, st state)
		walk = func(b *ssa.BasicBlock, st state) {
			k := vk{b, st}
			if seen[k] {
				return
			}
			seen[k] = true
			for _, in := range b.Instrs {
				if h := isH(in); h != nil {
					st.tested = false
					continue
				}
				if isF(in) {
					if st.errOf != nil && !errFetch.IsValid() {
						errFetch = core.InstrPos(in)
					}
					if !st.checked && !fetchUnchecked.IsValid() {
						fetchUnchecked = core.InstrPos(in)
					}
					continue
				}
				switch x := in.(type) {
				case *ssa.Store:
					if fa, ok := x.Addr.(*ssa.FieldAddr); ok && flag != nil && core.FieldOfAddr(fa) == flag && fa.X == ssa.Value(recv) {
						if k, ok := x.Val.(*ssa.Const); ok && k.Value != nil {
							st.g = k.Value.ExactString() == "true"
						}
					}
				case *ssa.Return:
					if st.errOf != nil {
						okRet := len(x.Results) == 2 && core.IsNilConst(x.Results[0]) && x.Results[1] == st.errOf
						if !okRet && !errReturn.IsValid() {
							errReturn = core.InstrPos(x)
						}
					}
					return
				case *ssa.If:
					cond := x.Cond
					neg := false
					for {
						u, ok := cond.(*ssa.UnOp)
						if !ok || u.Op != token.NOT {
							break
						}
						neg = !neg
						cond = u.X
					}
					if bo, ok := cond.(*ssa.BinOp); ok && (bo.Op == token.EQL || bo.Op == token.NEQ) {
						// flag == true / flag != false …
						for _, pr := range [][2]ssa.Value{{bo.X, bo.Y}, {bo.Y, bo.X}} {
							if k, ok := pr[1].(*ssa.Const); ok && isFlagLoad(pr[0]) && k.Value != nil {
								if (k.Value.ExactString() == "true") != (bo.Op == token.EQL) {
									neg = !neg
								}
								cond = pr[0]
								break
							}
						}
					}
					if isFlagLoad(cond) {
						v := st.g != neg
						if v {
							walk(b.Succs[0], st)
						} else {
							walk(b.Succs[1], st)
						}
						return
					}
					if bo, ok := cond.(*ssa.BinOp); ok && (bo.Op == token.NEQ || bo.Op == token.EQL) {
						var hv ssa.Value
						switch {
						case isHRes(bo.X) != nil && core.IsNilConst(bo.Y):
							hv = bo.X
						case isHRes(bo.Y) != nil && core.IsNilConst(bo.X):
							hv = bo.Y
						}
						if hv != nil {
							failIdx := 0 // successor taken when the error is non-nil
							if (bo.Op == token.EQL) != neg {
								failIdx = 1
							}
							fs, ps := st, st
							fs.errOf, fs.tested = hv, true
							ps.checked, ps.tested = true, true
							walk(b.Succs[failIdx], fs)
							walk(b.Succs[1-failIdx], ps)
							return
						}
					}
				}
			}
			for _, s := range b.Succs {
				walk(s, st)
			}
		}
		walk(read.Blocks[0], state{})
		c.Check(!fetchUnchecked.IsValid(), "R06c", rd.Key+".Read first read: header check precedes the record fetch", read.Pos(),
			"every path of the first Read passes the header check and the test of its error before a record is fetched",
			"on the first Read a record can be fetched before the header was verified (fetch at "+c.Position(fetchUnchecked)+"): a row is consumed/produced although the declared header may not match")
		c.Check(!errFetch.IsValid() && !errReturn.IsValid(), "R06c", rd.Key+".Read header error ends the Read", read.Pos(),
			"the failing edge returns (nil, the header error) without fetching",
			"when the header check fails Read does not return (nil, that error) at once: a record is fetched or another value is returned")
		// flag discipline
		if flag != nil {
			var bad []string
			for _, f := range pk.fns {
				for _, w := range core.Writes(f) {
					if w.Field != flag || w.Kind != "field" {
						continue
					}
					k, ok := w.Val.(*ssa.Const)
					switch {
					case !ok || k.Value == nil:
						bad = append(bad, core.FuncKey(f)+" stores a computed value")
					case k.Value.ExactString() == "true":
						dom := false
						for _, b := range f.Blocks {
							for _, in := range b.Instrs {
								if h := isH(in); h != nil && core.Dominates(h, w.Instr) {
									dom = true
								}
							}
						}
						if !dom {
							bad = append(bad, core.FuncKey(f)+" sets it without a preceding header check")
						}
					}
				}
			}
			sort.Strings(bad)
			c.Check(len(bad) == 0, "R06c", rd.Key+" header-checked flag is set only after a header check", read.Pos(), "flag "+flag.Name()+": false initially, true only after the check",
				"the flag that lets Read skip the header check can be true although no check ran: "+strings.Join(bad, "; "))
		} else {
			c.OK("R06c", rd.Key+" header-checked flag is set only after a header check", read.Pos(), "no flag: the check runs on every Read")
		}
		// classes of the header check
		fatal, _ := eng.fatalTypes(rd)
		own := map[*types.Named]bool{}
		var names []string
		for _, n := range fatal {
			own[n] = true
			names = append(names, ecTypeKey(n))
		}
		seenFn := map[*ssa.Function]bool{}
		for _, h := range hCalls {
			hf := c08RepoCallee(h)
			if seenFn[hf] {
				continue
			}
			seenFn[hf] = true
			sum := eng.summary(hf)
			var bad, und []string
			for _, idx := range ecErrResultIdx(hf.Signature) {
				for _, el := range sum.Res[idx].sorted() {
					switch el.Kind {
					case ecNIL, ecEOF:
					case ecFATAL:
						if !own[el.T] {
							bad = append(bad, el.String())
						}
					case ecTOP, ecIFACE, ecPARAM:
						und = append(und, el.String())
					default:
						bad = append(bad, el.String())
					}
				}
			}
			key := rd.Key + " header check classes"
			switch {
			case len(bad) > 0:
				c.Bad("R06c", key, hf.Pos(), fmt.Sprintf("the header check can fail with %s, which is not the reader's fatal type %v: a header that does not match would be a continuable error and records would still be produced", strings.Join(bad, ", "), names))
			case len(und) > 0:
				c.Unknown("R06c", key, hf.Pos(), "error classes of the header check not fully resolved: "+strings.Join(und, "; "))
			default:
				c.OK("R06c", key, hf.Pos(), "nil, io.EOF or "+fmt.Sprint(names))
			}
		}
	}
	if !found {
		c.Unresolved("R06c", "header_row_index", "no csv reader package declares a field tagged header_row_index")
	}
}

// ---------------------------------------------------------------- R06e

// c06SameExpr: structural equality of two address/value expressions (same base, same fields, same index values).
func c06SameExpr(a, b ssa.Value, d int) bool {
	if a == b {
		return true
	}
	if d > 10 || a == nil || b == nil {
		return false
	}
	switch x := a.(type) {
	case *ssa.UnOp:
		y, ok := b.(*ssa.UnOp)
		return ok && x.Op == y.Op && c06SameExpr(x.X, y.X, d+1)
	case *ssa.FieldAddr:
		y, ok := b.(*ssa.FieldAddr)
		return ok && core.FieldOfAddr(x) == core.FieldOfAddr(y) && c06SameExpr(x.X, y.X, d+1)
	case *ssa.Field:
		y, ok := b.(*ssa.Field)
		return ok && core.FieldOfField(x) == core.FieldOfField(y) && c06SameExpr(x.X, y.X, d+1)
	case *ssa.IndexAddr:
		y, ok := b.(*ssa.IndexAddr)
		return ok && c06SameExpr(x.X, y.X, d+1) && c06SameExpr(x.Index, y.Index, d+1)
	case *ssa.Index:
		y, ok := b.(*ssa.Index)
		return ok && c06SameExpr(x.X, y.X, d+1) && c06SameExpr(x.Index, y.Index, d+1)
	case *ssa.Const:
		return core.SameValue(a, b)
	case *ssa.ChangeType:
		y, ok := b.(*ssa.ChangeType)
		return ok && c06SameExpr(x.X, y.X, d+1)
	}
	return false
}

func c06IsLineLike(t types.Type) bool {
	switch t.Underlying().(type) {
	case *types.Pointer, *types.Slice:
		return true
	}
	return false
}

func c06RuleE(c *core.Ctx, r *c06roles, prov *c08Prov) {
	sel := map[*types.Var]bool{}
	selOwner := map[*types.Named]bool{}
	for f, tag := range r.tagOf {
		if tag == "line_index" || tag == "line_pattern" {
			sel[f] = true
		}
	}
	for _, pk := range r.pkgs {
		sc := pk.p.Scope()
		for _, n := range sc.Names() {
			tn, ok := sc.Lookup(n).(*types.TypeName)
			if !ok {
				continue
			}
			st, ok := tn.Type().Underlying().(*types.Struct)
			if !ok {
				continue
			}
			for i := 0; i < st.NumFields(); i++ {
				if sel[st.Field(i)] {
					if nt, ok := tn.Type().(*types.Named); ok {
						selOwner[nt] = true
					}
				}
			}
		}
	}
	if len(selOwner) == 0 {
		c.Unresolved("R06e", "column declarations with line_index/line_pattern", "no struct of the reader packages carries those json tags")
		return
	}
	for _, pk := range r.pkgs {
		for _, site := range c06TextSites(r, pk, prov) {
			tn := site.tn
			// the extraction call: data of the text node is the result of a method of a column declaration
			ex, ok := tn.Call.Args[1].(*ssa.Call)
			var exf *ssa.Function
			var exArgs []ssa.Value
			isColMethod := func(g *ssa.Function) bool {
				return g != nil && g.Signature.Recv() != nil && selOwner[core.NamedOf(g.Signature.Recv().Type())]
			}
			if ok {
				exf = c08RepoCallee(ex)
				exArgs = ex.Call.Args
				if exf != nil && !isColMethod(exf) {
					// one level of helper: a function that returns the column method applied to its own parameters
					var inner *ssa.Call
					n := 0
					for _, rt := range ecReturns(exf) {
						if len(rt.Results) != 1 {
							continue
						}
						n++
						if ic, ok := rt.Results[0].(*ssa.Call); ok && isColMethod(c08RepoCallee(ic)) {
							inner = ic
						}
					}
					if inner != nil && n == 1 {
						var mapped []ssa.Value
						for _, a := range inner.Call.Args {
							p, ok := a.(*ssa.Parameter)
							if !ok || c08ParamIndex(p) >= len(ex.Call.Args) {
								mapped = nil
								break
							}
							mapped = append(mapped, ex.Call.Args[c08ParamIndex(p)])
						}
						if mapped != nil {
							exf, exArgs = c08RepoCallee(inner), mapped
						}
					}
				}
			}
			if !isColMethod(exf) {
				// not a reader with line selection (old csv), or data not produced by a column method
				owned := false
				for nt := range selOwner {
					if nt.Obj().Pkg() == pk.p {
						owned = true
					}
				}
				if owned {
					c.Unknown("R06e", site.fk+" column text is extracted from the selected line", tn.Pos(), "the text of a column is not the result of a method of the column declaration (directly or through one helper): the line it is taken from cannot be related to the line selector")
				}
				continue
			}
			key := site.fk + " column text is extracted from the selected line"
			recvV := exArgs[0]
			// the selector: a dominating branch on a bool method of the same declaration that reads line_index/line_pattern
			var m *ssa.Call
			for b := ex.Block(); b != nil && m == nil; b = b.Idom() {
				d := b.Idom()
				if d == nil {
					break
				}
				ifi, ok := d.Instrs[len(d.Instrs)-1].(*ssa.If)
				if !ok {
					continue
				}
				cond := ifi.Cond
				neg := false
				for {
					u, ok := cond.(*ssa.UnOp)
					if !ok || u.Op != token.NOT {
						break
					}
					neg = !neg
					cond = u.X
				}
				call, ok := cond.(*ssa.Call)
				if !ok {
					continue
				}
				cf := c08RepoCallee(call)
				if cf == nil || cf.Signature.Recv() == nil || len(call.Call.Args) == 0 || !c06SameExpr(call.Call.Args[0], recvV, 0) {
					continue
				}
				if !c06ReadsField(cf, sel, 3, map[*ssa.Function]bool{}) {
					continue
				}
				succ := d.Succs[0]
				if neg {
					succ = d.Succs[1]
				}
				if succ != d.Succs[0] || succ != d.Succs[1] {
					if len(succ.Preds) == 1 && (succ == ex.Block() || succ.Dominates(ex.Block())) {
						m = call
					}
				}
			}
			if m == nil {
				c.Bad("R06e", key, ex.Pos(), "the extraction of the column text is not guarded by the column's line selector (line_index/line_pattern): the column is taken from whatever line is at hand")
				continue
			}
			var problems []string
			for i, a := range exArgs {
				if i == 0 || !c06IsLineLike(a.Type()) {
					continue
				}
				matched := false
				for j, b := range m.Call.Args {
					if j == 0 || !types.Identical(a.Type(), b.Type()) {
						continue
					}
					if c06SameExpr(a, b, 0) {
						matched = true
					}
				}
				if !matched {
					problems = append(problems, fmt.Sprintf("argument %d of %s is not the value the selector %s examined", i, core.FuncKey(exf), c08CalleeName(m)))
				}
			}
			c.Check(len(problems) == 0, "R06e", key, ex.Pos(), "selector and extraction receive the same line", "the column text is extracted from another line than the one its selector accepted: "+strings.Join(problems, "; "))
		}
	}
}

// ---------------------------------------------------------------- R06f

func c06RuleF(c *core.Ctx, r *c06roles, prov *c08Prov) {
	n := 0
	for _, pk := range r.pkgs {
		if pk.kind != "csv" {
			continue
		}
		for _, tn := range c06TextNodes(r, pk) {
			f := tn.Parent()
			// direct element of a slice: record[i]
			fl, ok := tn.Call.Args[1].(*ssa.UnOp)
			if !ok || fl.Op != token.MUL {
				continue
			}
			ia, ok := fl.X.(*ssa.IndexAddr)
			if !ok {
				continue
			}
			// the element node this text node is attached to
			var parent ssa.Value
			for _, u := range core.Referrers(tn) {
				if call, ok := u.(*ssa.Call); ok && core.IsCallTo(call, core.Mod+"/idr", "AddChild") && len(call.Call.Args) == 2 && call.Call.Args[1] == ssa.Value(tn) {
					parent = call.Call.Args[0]
				}
			}
			pc, ok := parent.(*ssa.Call)
			if !ok || pc.Call.StaticCallee() != r.createNode || !c06IsConst(pc.Call.Args[0], r.elemNode) {
				continue
			}
			n++
			key := core.FuncKey(f) + " field index = column index"
			// the name derives from Columns[j]: find the IndexAddr on the way
			var idxs []ssa.Value
			seen := map[ssa.Value]bool{}
			var back func(v ssa.Value, d int)
			back = func(v ssa.Value, d int) {
				if v == nil || seen[v] || d > 12 {
					return
				}
				seen[v] = true
				switch x := v.(type) {
				case *ssa.IndexAddr:
					idxs = append(idxs, x.Index)
				case *ssa.Index:
					idxs = append(idxs, x.Index)
				case *ssa.UnOp:
					back(x.X, d+1)
				case *ssa.FieldAddr:
					back(x.X, d+1)
				case *ssa.Field:
					back(x.X, d+1)
				case *ssa.Phi:
					for _, e := range x.Edges {
						back(e, d+1)
					}
				case *ssa.Call:
					if c08RepoCallee(x) != nil || x.Call.StaticCallee() != nil {
						for _, a := range x.Call.Args {
							back(a, d+1)
						}
					}
				case *ssa.ChangeType:
					back(x.X, d+1)
				case *ssa.Convert:
					back(x.X, d+1)
				}
			}
			back(pc.Call.Args[1], 0)
			okIdx := len(idxs) > 0
			for _, j := range idxs {
				if j != ia.Index {
					okIdx = false
				}
			}
			c.Check(okIdx, "R06f", key, tn.Pos(), "same index value selects the field and the declared column",
				"the record field and the declared column that names it are not selected by the same index: fields are delivered under other columns' names")
		}
	}
	if n == 0 {
		c.Unresolved("R06f", "old csv record-to-node", "no csv reader attaches a text node record[i] to an element node named after a declared column")
	}
}

// ---------------------------------------------------------------- R06g

func c06RuleG(c *core.Ctx, r *c06roles) {
	for _, pk := range r.pkgs {
		if pk.kind != "line" {
			continue
		}
		for _, call := range pk.sources {
			o := core.CalleeObj(call)
			key := core.FuncKey(call.Parent()) + " line source delivers whole lines"
			name := core.FuncName(o)
			switch {
			case o.Pkg().Path() == "github.com/jf-tech/go-corelib/ios":
				c.OK("R06g", key, call.Pos(), "ios."+name+" re-assembles lines longer than the buffer and drops the terminator (trusted)")
			case o.Pkg().Path() == "bufio" && name == "Reader.ReadLine":
				used := false
				for _, u := range core.Referrers(call) {
					if ex, ok := u.(*ssa.Extract); ok && ex.Index == 1 {
						for _, b := range call.Parent().Blocks {
							if ifi, ok := b.Instrs[len(b.Instrs)-1].(*ssa.If); ok && c04DependsOn(ifi.Cond, func(v ssa.Value) bool { return v == ssa.Value(ex) }) {
								used = true
							}
						}
					}
				}
				if !used {
					c.Bad("R06g", key, call.Pos(), "bufio.Reader.ReadLine is used as line source and its isPrefix result is ignored: a line longer than the buffer is delivered as several lines")
				} else {
					c.Unknown("R06g", key, call.Pos(), "bufio.Reader.ReadLine is used as line source: whether the fragments of long lines are re-assembled correctly is not decided")
				}
			default:
				c.Unknown("R06g", key, call.Pos(), "bufio."+name+" is used as line source: terminator handling and long lines are not decided")
			}
		}
	}
}

// ---------------------------------------------------------------- R06h

// c06BoundLeaves classifies what a slice bound is computed from.
func c06BoundLeaves(r *c06roles, prov *c08Prov, v ssa.Value, out map[string]bool, seen map[ssa.Value]bool, depth int) {
	if v == nil || seen[v] {
		return
	}
	seen[v] = true
	if depth > 30 {
		out["unknown: derivation too deep"] = true
		return
	}
	switch x := v.(type) {
	case *ssa.Const:
	case *ssa.BinOp:
		c06BoundLeaves(r, prov, x.X, out, seen, depth+1)
		c06BoundLeaves(r, prov, x.Y, out, seen, depth+1)
	case *ssa.Phi:
		for _, e := range x.Edges {
			c06BoundLeaves(r, prov, e, out, seen, depth+1)
		}
	case *ssa.Convert:
		c06BoundLeaves(r, prov, x.X, out, seen, depth+1)
	case *ssa.ChangeType:
		c06BoundLeaves(r, prov, x.X, out, seen, depth+1)
	case *ssa.Extract:
		if call, ok := x.Tuple.(*ssa.Call); ok {
			if o := core.CalleeObj(call); o != nil && o.Pkg() != nil && o.Pkg().Path() == "unicode/utf8" && strings.HasPrefix(o.Name(), "Decode") && x.Index == 1 {
				return // width of a decoded rune
			}
		}
		out["unknown: "+x.Tuple.String()] = true
	case *ssa.Call:
		if bn, ok := x.Call.Value.(*ssa.Builtin); ok {
			switch bn.Name() {
			case "len", "cap":
				return
			case "min", "max":
				for _, a := range x.Call.Args {
					c06BoundLeaves(r, prov, a, out, seen, depth+1)
				}
				return
			}
		}
		if o := core.CalleeObj(x); o != nil && o.Pkg() != nil && o.Pkg().Path() == "unicode/utf8" && (o.Name() == "RuneLen" || strings.HasPrefix(o.Name(), "RuneCount")) && !x.Call.IsInvoke() {
			if o.Name() == "RuneLen" {
				return
			}
			out["a rune count ("+o.Name()+") used as byte offset"] = true
			return
		}
		out["unknown: result of "+c08CalleeName(x)] = true
	case *ssa.UnOp:
		if x.Op == token.MUL {
			if f, _ := c04FieldLoad(x); f != nil {
				if tag, ok := r.tagOf[f]; ok {
					out["declaration field "+tag] = true
					return
				}
			}
			out["unknown: load"] = true
			return
		}
		c06BoundLeaves(r, prov, x.X, out, seen, depth+1)
	case *ssa.Parameter:
		cs := prov.callers[x.Parent()]
		idx := c08ParamIndex(x)
		if len(cs) == 0 || idx < 0 {
			out["unknown: parameter "+x.Name()] = true
			return
		}
		for _, call := range cs {
			if idx < len(call.Call.Args) {
				c06BoundLeaves(r, prov, call.Call.Args[idx], out, seen, depth+1)
			}
		}
	default:
		out[fmt.Sprintf("unknown: %T", v)] = true
	}
}

func c06RuleH(c *core.Ctx, r *c06roles, prov *c08Prov) {
	for _, pk := range r.pkgs {
		if pk.kind != "line" {
			continue
		}
		for _, site := range c06TextSites(r, pk, prov) {
			tn := site.tn
			key := site.fk + " column cut uses rune widths"
			var slices []*ssa.Slice
			seenS := map[*ssa.Slice]bool{}
			prov.OnSlice = func(s *ssa.Slice) {
				if !seenS[s] {
					seenS[s] = true
					slices = append(slices, s)
				}
			}
			prov.Resolve(tn.Call.Args[1], site.ctx)
			prov.OnSlice = nil
			leaves := map[string]bool{}
			for _, s := range slices {
				for _, b := range []ssa.Value{s.Low, s.High, s.Max} {
					c06BoundLeaves(r, prov, b, leaves, map[ssa.Value]bool{}, 0)
				}
			}
			var bad []string
			for l := range leaves {
				bad = append(bad, l)
			}
			sort.Strings(bad)
			switch {
			case len(slices) == 0:
				c.Unknown("R06h", key, tn.Pos(), "no sub-slicing of the line on the data path of a fixed-length column: how the column is cut is not recognised")
			case len(bad) > 0:
				c.Unknown("R06h", key, tn.Pos(), "a byte offset that cuts the column out of the line is computed from "+strings.Join(bad, ", ")+" instead of from decoded rune widths: start_pos/length count runes, so for lines with multi-byte runes the column would be cut at the wrong place (a byte-offset fast path is only right if every byte before the cut is proven to be a complete one-byte rune, which is not decided)")
			default:
				c.OK("R06h", key, tn.Pos(), fmt.Sprintf("%d cut(s), bounds from rune widths / len / constants only", len(slices)))
			}
		}
	}
}
