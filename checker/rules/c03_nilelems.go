package rules

import (
	"fmt"
	"go/token"
	"go/types"
	"sort"
	"strings"

	"golang.org/x/tools/go/ssa"

	"omnilint/core"
)

// K17 null elements of decoded containers. A map or slice of pointers to declaration structs that encoding/json fills
// from a schema (`map[string]*Decl`, `[]*ColumnDecl`) holds a nil pointer wherever the document says `null`. Every place
// that takes an element out of such a container and dereferences it — itself, or by handing it to a function that
// dereferences its parameter before testing it — needs (a) a nil test on the way, or (b) the JSON schema the document
// was validated against to rule `null` out at every position from which that container can be decoded: the element
// schema is looked up along every JSON path from the unmarshal target to the container (c03fieldPaths / lookup, the same
// machinery as K5) and must be typed (object) everywhere. A path that leaves the described part of the schema — a
// property whose schema does not constrain its members — makes everything decoded beneath it unconstrained.

var c03reviewedK17 = map[string]c03argued{}

func init() {
	control(Control{ID: "c03-null-declaration-unchecked", Prop: "C03", File: "extensions/omniv21/transform/validate.go",
		Old:  "\tif decl == nil {\n\t\t// The json schema doesn't constrain what's nested inside an `xpath_dynamic`, so a `null` can get here.\n\t\treturn nil, fmt.Errorf(\"'%s' cannot be null\", fqdn)\n\t}\n",
		New:  "",
		Rule: "K17", Substr: "validateObject", Why: "F14 re-introduced: a null declaration nested inside xpath_dynamic is dereferenced by the validator"})
}

// derefsParamUnguarded: g dereferences its i-th parameter on some path without a dominating nil test, directly or by
// passing it on (depth-limited).
func (x *c03ctx) derefsParamUnguarded(g *ssa.Function, i int, depth int, seen map[string]bool) bool {
	if g == nil || g.Blocks == nil || i >= len(g.Params) || depth > 3 {
		return false
	}
	k := fmt.Sprintf("%p/%d", g, i)
	if seen[k] {
		return false
	}
	seen[k] = true
	return x.derefsValueUnguarded(g.Params[i], depth, seen)
}

func nilGuarded(v ssa.Value, at *ssa.BasicBlock) bool {
	f := at.Parent()
	for _, blk := range f.Blocks {
		if len(blk.Instrs) == 0 {
			continue
		}
		ifi, ok := blk.Instrs[len(blk.Instrs)-1].(*ssa.If)
		if !ok {
			continue
		}
		bo, ok := ifi.Cond.(*ssa.BinOp)
		if !ok || (bo.Op != token.NEQ && bo.Op != token.EQL) {
			continue
		}
		if !((bo.X == v && core.IsNilConst(bo.Y)) || (bo.Y == v && core.IsNilConst(bo.X))) {
			continue
		}
		edge := blk.Succs[0]
		if bo.Op == token.EQL {
			edge = blk.Succs[1]
		}
		if len(edge.Preds) == 1 && (edge == at || edge.Dominates(at)) {
			return true
		}
		// `if v == nil { return ... }`: the nil edge never reaches `at`
		nilEdge := blk.Succs[1]
		if bo.Op == token.EQL {
			nilEdge = blk.Succs[0]
		}
		if blk.Dominates(at) && !core.ReachableBlocks(nilEdge, nil)[at] {
			return true
		}
	}
	return false
}

func (x *c03ctx) derefsValueUnguarded(v ssa.Value, depth int, seen map[string]bool) bool {
	for _, r := range core.Referrers(v) {
		switch y := r.(type) {
		case *ssa.FieldAddr:
			if y.X == v && !nilGuarded(v, y.Block()) {
				return true
			}
		case *ssa.UnOp:
			if y.Op == token.MUL && y.X == v && !nilGuarded(v, y.Block()) {
				return true
			}
		case *ssa.Phi:
			if x.derefsValueUnguarded(y, depth+1, seen) {
				return true
			}
		case ssa.CallInstruction:
			if nilGuarded(v, r.Block()) {
				continue
			}
			cc := y.Common()
			cf := cc.StaticCallee()
			if cf == nil {
				continue
			}
			for ai, a := range cc.Args {
				if a == v && x.derefsParamUnguarded(cf, ai, depth+1, seen) {
					return true
				}
			}
		}
	}
	return false
}

func (x *c03ctx) runK17() {
	c := x.c
	// decoded containers of pointers: field -> element struct
	type cont struct {
		fld   *types.Var
		owner string
		step  string // "[]" or "{}"
	}
	conts := map[*types.Var]cont{}
	var roots []*types.Named
	for t := range x.rootSchema {
		roots = append(roots, t)
	}
	sort.Slice(roots, func(i, j int) bool { return roots[i].String() < roots[j].String() })
	var walk func(t types.Type, seen map[*types.Named]bool)
	walk = func(t types.Type, seen map[*types.Named]bool) {
		switch y := t.(type) {
		case *types.Pointer:
			walk(y.Elem(), seen)
		case *types.Alias:
			walk(types.Unalias(y), seen)
		case *types.Named:
			if seen[y] {
				return
			}
			seen[y] = true
			walk(y.Underlying(), seen)
		case *types.Slice:
			walk(y.Elem(), seen)
		case *types.Map:
			walk(y.Elem(), seen)
		case *types.Struct:
			for i := 0; i < y.NumFields(); i++ {
				f := y.Field(i)
				if _, ok := c03jsonName(f, y.Tag(i)); !ok {
					continue
				}
				ft := f.Type().Underlying()
				var elem types.Type
				step := ""
				switch z := ft.(type) {
				case *types.Slice:
					elem, step = z.Elem(), "[]"
				case *types.Map:
					elem, step = z.Elem(), "{}"
				}
				if elem != nil {
					if p, ok := elem.Underlying().(*types.Pointer); ok {
						if _, isSt := p.Elem().Underlying().(*types.Struct); isSt {
							conts[f] = cont{fld: f, step: step}
						}
					}
				}
				walk(f.Type(), seen)
			}
		}
	}
	for _, t := range roots {
		walk(t, map[*types.Named]bool{})
	}
	if len(conts) == 0 {
		c.Unresolved("K17", "decoded containers", "no map/slice of pointers to declaration structs found under the unmarshal targets")
		return
	}
	// schema verdict per container
	schemaOK := func(fld *types.Var, step string) (bool, string) {
		found := 0
		for _, t := range roots {
			s := x.rootSchema[t]
			for _, p := range c03fieldPaths(t, fld) {
				found++
				full := append(append([]string{}, p...), step)
				hits, ok := s.lookup(full)
				if !ok {
					return false, fmt.Sprintf("%s does not describe /%s: whatever is decoded there is unconstrained (null elements possible)", s.name, strings.Join(full, "/"))
				}
				for _, h := range hits {
					switch tt := h.node["type"].(type) {
					case string:
						if tt != "object" {
							return false, fmt.Sprintf("%s: element type is %q, not \"object\"", h.where, tt)
						}
					default:
						return false, h.where + ": element type not constrained (null possible)"
					}
				}
			}
		}
		if found == 0 {
			return false, "no JSON path from an unmarshal target to this container"
		}
		return true, fmt.Sprintf("every one of the %d decode position(s) of the container constrains its elements to JSON objects", found)
	}
	// load-time validators: a reachable function that takes the elements of container F and hands each to a function that
	// returns a non-nil error on the `param == nil` edge
	validators := map[*types.Var]string{}
	var nilRejects func(g *ssa.Function, i int) bool
	nilRejectsDepth := 0
	nilRejects = func(g *ssa.Function, i int) bool {
		if g == nil || g.Blocks == nil || i >= len(g.Params) || nilRejectsDepth > 3 {
			return false
		}
		p := g.Params[i]
		// a thin helper that hands its parameter straight on to a rejecting function (on every path: in its entry block)
		for _, in := range g.Blocks[0].Instrs {
			if ci, ok := in.(ssa.CallInstruction); ok {
				if cf := ci.Common().StaticCallee(); cf != nil && cf != g {
					for ai, a := range ci.Common().Args {
						if a == ssa.Value(p) {
							nilRejectsDepth++
							ok := nilRejects(cf, ai)
							nilRejectsDepth--
							if ok {
								return true
							}
						}
					}
				}
			}
		}
		for _, blk := range g.Blocks {
			if len(blk.Instrs) == 0 {
				continue
			}
			ifi, ok := blk.Instrs[len(blk.Instrs)-1].(*ssa.If)
			if !ok {
				continue
			}
			bo, ok := ifi.Cond.(*ssa.BinOp)
			if !ok || (bo.Op != token.NEQ && bo.Op != token.EQL) || !((bo.X == ssa.Value(p) && core.IsNilConst(bo.Y)) || (bo.Y == ssa.Value(p) && core.IsNilConst(bo.X))) {
				continue
			}
			nilEdge := blk.Succs[0]
			if bo.Op == token.NEQ {
				nilEdge = blk.Succs[1]
			}
			if len(nilEdge.Instrs) == 0 {
				continue
			}
			if rt, ok := nilEdge.Instrs[len(nilEdge.Instrs)-1].(*ssa.Return); ok && len(rt.Results) > 0 && c19IsError(rt.Results[len(rt.Results)-1].Type()) && !core.IsNilConst(rt.Results[len(rt.Results)-1]) && blk == g.Blocks[0] {
				return true
			}
		}
		return false
	}
	elemOf := func(in ssa.Instruction) (ssa.Value, ssa.Value) {
		switch y := in.(type) {
		case *ssa.UnOp:
			if y.Op == token.MUL {
				if ia, ok := y.X.(*ssa.IndexAddr); ok {
					return ia.X, y
				}
			}
		case *ssa.Lookup:
			if !y.CommaOk {
				return y.X, y
			}
		case *ssa.Extract:
			if nx, ok := y.Tuple.(*ssa.Next); ok && y.Index == 2 {
				if rg, ok := nx.Iter.(*ssa.Range); ok {
					return rg.X, y
				}
			}
			if lk, ok := y.Tuple.(*ssa.Lookup); ok && lk.CommaOk && y.Index == 0 {
				return lk.X, y
			}
		}
		return nil, nil
	}
	for _, f := range x.fns {
		if !x.load[f] {
			continue
		}
		for _, b := range f.Blocks {
			for _, in := range b.Instrs {
				container, elem := elemOf(in)
				if container == nil {
					continue
				}
				fld := c03fieldOfValue(container)
				if _, isCont := conts[fld]; fld == nil || !isCont {
					continue
				}
				for _, r := range core.Referrers(elem) {
					ci, ok := r.(ssa.CallInstruction)
					if !ok {
						continue
					}
					cf := ci.Common().StaticCallee()
					for ai, a := range ci.Common().Args {
						if a == elem && nilRejects(cf, ai) {
							validators[fld] = core.FuncKey(f) + " -> " + core.FuncKey(cf)
						}
					}
				}
			}
		}
	}
	type verdict struct {
		ok  bool
		how string
	}
	verdicts := map[*types.Var]verdict{}
	n := 0
	for _, f := range x.fns {
		for _, b := range f.Blocks {
			for _, in := range b.Instrs {
				// element values: v = *(&container[i]) | container[k] | extract(next(range container))
				var container ssa.Value
				var elem ssa.Value
				switch y := in.(type) {
				case *ssa.UnOp:
					if y.Op == token.MUL {
						if ia, ok := y.X.(*ssa.IndexAddr); ok {
							container, elem = ia.X, y
						}
					}
				case *ssa.Lookup:
					if !y.CommaOk {
						container, elem = y.X, y
					}
				case *ssa.Extract:
					if nx, ok := y.Tuple.(*ssa.Next); ok && y.Index == 2 {
						if rg, ok := nx.Iter.(*ssa.Range); ok {
							container, elem = rg.X, y
						}
					}
					if lk, ok := y.Tuple.(*ssa.Lookup); ok && lk.CommaOk && y.Index == 0 {
						container, elem = lk.X, y
					}
				}
				if container == nil {
					continue
				}
				fld := c03fieldOfValue(container)
				ct, isCont := conts[fld]
				if fld == nil || !isCont {
					continue
				}
				if !x.derefsValueUnguarded(elem, 0, map[string]bool{}) {
					continue
				}
				n++
				owner := ""
				if u, ok := container.(*ssa.UnOp); ok {
					if fa, ok := u.X.(*ssa.FieldAddr); ok {
						if nn := core.NamedOf(fa.X.Type()); nn != nil {
							owner = nn.Obj().Name() + "."
						}
					}
				}
				key := core.FuncKey(f) + " dereferences an element of decoded container " + owner + fld.Name()
				vd, done := verdicts[fld]
				if !done {
					ok, how := schemaOK(fld, ct.step)
					vd = verdict{ok, how}
					verdicts[fld] = vd
				}
				if vd.ok {
					c.OK("K17", key, core.InstrPos(in), "JSON schema: "+vd.how)
					continue
				}
				if val := validators[fld]; val != "" {
					c.Arg("K17", key, core.InstrPos(in), "the load-time validator "+val+" takes every element of this container through a function that rejects nil with an error before the schema is accepted, and declarations are not written after load (C14); JSON schema alone: "+vd.how)
					continue
				}
				x.settle("K17", key, in, c03reviewedK17, "an element taken out of a container that encoding/json filled from the schema document is dereferenced (here or in a callee) without a nil test, and the JSON schema does not rule out null there: "+vd.how)
			}
		}
	}
	x.flush("K17", c03reviewedK17)
	c.Floor("K17", 8, "element dereferences of decoded declaration containers (transform declarations, file declarations)")
	_ = n
}
