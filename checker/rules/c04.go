package rules

import (
	"go/token"
	"go/types"
	"sort"
	"strings"

	"golang.org/x/tools/go/ssa"

	"omnilint/core"
)

func init() {
	register(&RuleSet{
		Prop:  "C04",
		Title: "Streaming target selection equals whole-document selection (XML, JSON)",
		Explanation: "Stream readers are resolved by role (struct types with >= 2 *Node fields, Read, Release(*Node) and a parse cursor = the *Node field that is AddChild's parent and is re-assigned; the candidate holder = the *Node field a method hands out). " +
			"R04a anchored decisions: every store holder<-candidate and every return of the holder that is control dependent (post-dominator based) on the outcome of an xpath query must evaluate that query relative to the candidate node, or compare its result with the candidate; a query rooted at another field (the document root) is an existential over the whole tree; " +
			"R04b every cursor advance onto a freshly created node (direct store or call of an advance helper) is followed on every path by the candidate check before the next token is fetched or the function returns to the token loop (error returns excepted); " +
			"R04c on the edge where the filter query fails the candidate is passed to RemoveAndReleaseTree and the holder is set to nil on every path before the function returns or input is consumed; " +
			"R04d in Read, every path from the entry to the first input-consuming call either knows the holder to be nil or has released and cleared it; " +
			"R04e every non-nil node returned along the call chain below Read originates from the wrap-up function (the function holding the delivering return), and every call of the wrap-up function sits in a closing-token region (type case encoding/xml.EndElement, json.Delim '}' / ']') or directly follows the attachment of a scalar text child with no cursor advance in between.",
		NotDecided: "agreement with MatchAll on the loaded document, document order and subtree completeness beyond R04e; that the path xpath with the last filter removed is the right candidate test (removeLastFilterInXPath); the three JSON cases where the document root itself is candidate-checked without a cursor advance are not an obligation of R04b; O1 of DESIGN.md (no error latch in JSONStreamReader).",
		Trusted: append([]string{"encoding/xml and encoding/json decoders deliver tokens in document order; end-element / closing-delimiter tokens are the only close events",
			"input-consuming library entry points are the methods of bufio/encoding/{xml,json,csv}/go-corelib ios reader types and ios.ReadLine/ByteReadLine"}, commonTrusted...),
		Run: runC04,
	})
	control(Control{ID: "c04-json-no-check-after-advance", Prop: "C04", File: "idr/jsonreader.go",
		Old: "\t\t\tsp.addElementChild(\"\", JSONObj)\n\t\t\tsp.streamCandidateCheck()\n", New: "\t\t\tsp.addElementChild(\"\", JSONObj)\n",
		Rule: "R04b", Substr: "JSONStreamReader).parseDelim", Why: "an object inside an array is never candidate-checked"})
	control(Control{ID: "c04-xml-no-check-after-advance", Prop: "C04", File: "idr/xmlreader.go",
		Old: "\t\t\t\tsp.cur = sp.cur.Parent\n\t\t\t}\n\t\t\tsp.streamCandidateCheck()\n", New: "\t\t\t\tsp.cur = sp.cur.Parent\n\t\t\t}\n",
		Rule: "R04b", Substr: "XMLStreamReader).parse", Why: "start elements are never candidate-checked"})
	control(Control{ID: "c04-reject-keeps-stream", Prop: "C04", File: "idr/jsonreader.go",
		Old: "\tRemoveAndReleaseTree(sp.stream)\n\tsp.stream = nil\n\treturn nil", New: "\tRemoveAndReleaseTree(sp.stream)\n\treturn nil",
		Rule: "R04c", Substr: "JSONStreamReader).wrapUpCurAndTargetCheck", Why: "stream stays set after a rejected candidate: no later candidate is ever marked"})
	control(Control{ID: "c04-reject-keeps-node", Prop: "C04", File: "idr/xmlreader.go",
		Old: "\tRemoveAndReleaseTree(sp.stream)\n\tsp.stream = nil\n\treturn nil", New: "\tsp.stream = nil\n\treturn nil",
		Rule: "R04c", Substr: "XMLStreamReader).wrapUpCurAndTargetCheck", Why: "rejected candidate stays in the tree and satisfies later existential matches"})
	control(Control{ID: "c04-read-keeps-delivered", Prop: "C04", File: "idr/jsonreader.go",
		Old: "\tif sp.stream != nil {\n\t\tRemoveAndReleaseTree(sp.stream)\n\t\tsp.stream = nil\n\t}\n\treturn sp.parse()", New: "\treturn sp.parse()",
		Rule: "R04d", Substr: "JSONStreamReader).Read", Why: "delivered record still in the tree (and stream still set) when parsing continues"})
	control(Control{ID: "c04-deliver-at-start", Prop: "C04", File: "idr/xmlreader.go",
		Old: "\t\t\tsp.streamCandidateCheck()\n\t\tcase xml.EndElement:", New: "\t\t\tsp.streamCandidateCheck()\n\t\t\tif sp.stream != nil && sp.xpathFilterExpr == nil {\n\t\t\t\treturn sp.stream, nil\n\t\t\t}\n\t\tcase xml.EndElement:",
		Rule: "R04e", Substr: "XMLStreamReader).parse", Why: "candidate delivered from the start-element case, before its subtree is read"})
	control(Control{ID: "c04-wrapup-at-start", Prop: "C04", File: "idr/xmlreader.go",
		Old: "\t\t\tsp.streamCandidateCheck()\n\t\tcase xml.EndElement:", New: "\t\t\tsp.streamCandidateCheck()\n\t\t\tif len(tok.Attr) > 100 {\n\t\t\t\tif ret := sp.wrapUpCurAndTargetCheck(); ret != nil {\n\t\t\t\t\treturn ret, nil\n\t\t\t\t}\n\t\t\t}\n\t\tcase xml.EndElement:",
		Rule: "R04e", Substr: "XMLStreamReader).parse", Why: "wrap-up (cursor pop + delivery) outside a closing token"})
	control(Control{ID: "c04-mark-without-query", Prop: "C04", File: "idr/jsonreader.go",
		Old: "\tif sp.xpathExpr != nil && sp.stream == nil && MatchAny(sp.root, sp.xpathExpr) {\n", New: "\tif sp.xpathExpr != nil && sp.stream == nil {\n",
		Rule: "R04a", Substr: "JSONStreamReader).streamCandidateCheck", Why: "candidate marked without consulting the path query"})
}

func runC04(c *core.Ctx) {
	e := c04NewEnv(c, "R04")
	if e == nil || !e.resolveReaders("R04") {
		return
	}
	for _, r := range e.readers {
		c.Note("stream reader %s: cursor=%s holder=%s marks=%d delivering returns=%d", c04TypeKey(r.tn), r.cur.Name(), r.holder.Name(), len(r.marks), len(r.deliv))
		if len(r.marks) == 0 {
			c.Unresolved("R04a", "marking decision of "+c04TypeKey(r.tn), "no store of a candidate into the holder found")
		}
		if len(r.deliv) == 0 {
			c.Unresolved("R04a", "delivering return of "+c04TypeKey(r.tn), "no return of the holder found")
		}
		c04RuleA(e, r)
		c04RuleB(e, r)
		c04RuleC(e, r)
		c04RuleD(e, r, "R04d")
		c04RuleE(e, r)
	}
	c.Floor("R04a", 4, "2 readers x (candidate marking, delivery)")
	c.Floor("R04b", 6, "XML element + attribute advance, JSON 4 element creations")
	c.Floor("R04c", 2, "filter-failed edge of both wrap-up functions")
	c.Floor("R04d", 2, "Read of both stream readers")
	c.Floor("R04e", 11, "6 functions on the Read chains + 5 wrap-up call sites")
	c04OuterMostOnly(c)
}

// ---------------------------------------------------------------- R04a

// c04QueryIfs returns the controlling edges of the block whose condition depends on a query outcome, with
// the query calls.
func c04QueryIfs(e *c04Env, fn *ssa.Function, b *ssa.BasicBlock) (edges []c04Edge, calls [][]ssa.CallInstruction) {
	for _, ed := range e.cd(fn).controlling(b) {
		ifi := ed.ifInstr()
		if ifi == nil {
			continue
		}
		if qs := e.condQueries(ifi.Cond); len(qs) > 0 {
			edges = append(edges, ed)
			calls = append(calls, qs)
		}
	}
	return
}

// c04EqualOnEdge: the edge is the "operands are equal" edge of a ==/!= comparison; returns the operands.
func c04EqualOnEdge(ed c04Edge) (x, y ssa.Value, ok bool) {
	ifi := ed.ifInstr()
	if ifi == nil {
		return nil, nil, false
	}
	bo, isBin := ifi.Cond.(*ssa.BinOp)
	if !isBin {
		return nil, nil, false
	}
	if (bo.Op == token.EQL && ed.succ == 0) || (bo.Op == token.NEQ && ed.succ == 1) {
		return bo.X, bo.Y, true
	}
	return nil, nil, false
}

func c04RuleA(e *c04Env, r *c04Reader) {
	c := e.c
	type dec struct {
		d    *c04Decision
		kind string
	}
	var ds []dec
	for _, d := range r.marks {
		ds = append(ds, dec{d, "marks candidate"})
	}
	for _, d := range r.deliv {
		ds = append(ds, dec{d, "delivers candidate"})
	}
	for _, x := range ds {
		d := x.d
		blk := d.instr.Block()
		ctrl := e.cd(d.fn).controlling(blk)
		edges, calls := c04QueryIfs(e, d.fn, blk)
		if len(edges) == 0 {
			if x.kind == "marks candidate" {
				c.Bad("R04a", core.FuncKey(d.fn)+" "+x.kind+" without query", core.InstrPos(d.instr),
					"a node is stored into the candidate holder "+r.holder.Name()+" on a path that is not controlled by any xpath query: every node becomes a candidate")
			} else {
				c.Note("R04a: %s returns the holder without a controlling query (filter-less delivery; call sites are covered by R04e)", core.FuncKey(d.fn))
			}
			continue
		}
		// candidate values: the decided value itself, loads of the candidate field, and values known equal to
		// them by a controlling comparison
		isCand := func(v ssa.Value) bool {
			if v == nil {
				return false
			}
			if v == d.val || core.SameValue(v, d.val) {
				return true
			}
			if x.kind == "marks candidate" {
				return false
			}
			if c04IsLoadOf(v, r.holder) {
				return true
			}
			for _, ed := range ctrl {
				if a, b, ok := c04EqualOnEdge(ed); ok {
					if (a == v && c04IsLoadOf(b, r.holder)) || (b == v && c04IsLoadOf(a, r.holder)) {
						return true
					}
				}
			}
			return false
		}
		candFld := r.cur
		if x.kind != "marks candidate" {
			candFld = r.holder
		}
		if x.kind == "marks candidate" {
			if f, _ := c04FieldLoad(d.val); f != nil {
				candFld = f
			}
		}
		seenCall := map[ssa.CallInstruction]bool{}
		for i := range edges {
			for _, q := range calls[i] {
				if seenCall[q] {
					continue
				}
				seenCall[q] = true
				if c04IsXPathEval(q) {
					continue // iterator step: its root query call is reported separately
				}
				key := core.FuncKey(d.fn) + " " + x.kind + " by " + c04CalleeKey(q)
				roots := e.queryRoots(q, 0)
				if len(roots) == 0 {
					c.Unknown("R04a", key, core.InstrPos(q), "cannot resolve the node the query is evaluated against")
					continue
				}
				bad, unknown := "", ""
				for _, rt := range roots {
					switch {
					case rt.unknown != "":
						unknown = rt.unknown
					case rt.val != nil && isCand(rt.val):
					case rt.val == nil && rt.fld != nil && rt.fld == candFld:
					default:
						// result compared with the candidate?
						cmp := false
						for _, a := range rt.cmpArgs {
							if isCand(a) {
								cmp = true
							}
						}
						for _, ed := range ctrl {
							ifi := ed.ifInstr()
							bo, ok := ifi.Cond.(*ssa.BinOp)
							if !ok || (bo.Op != token.EQL && bo.Op != token.NEQ) {
								continue
							}
							isQ := func(v ssa.Value) bool { ci, ok := v.(ssa.CallInstruction); return ok && ci == q }
							if (isCand(bo.X) && c04DependsOn(bo.Y, isQ)) || (isCand(bo.Y) && c04DependsOn(bo.X, isQ)) {
								cmp = true
							}
						}
						if !cmp {
							what := "a value that is not the candidate"
							if rt.fld != nil {
								what = "field " + rt.fld.Name()
							}
							bad = "the query deciding this is evaluated against " + what + " and its result is never compared with the candidate (" + candFld.Name() + "): the decision is an existential over the whole tree, not a test of the candidate node"
						}
					}
				}
				switch {
				case bad != "":
					c.Bad("R04a", key, core.InstrPos(q), bad)
				case unknown != "":
					c.Unknown("R04a", key, core.InstrPos(q), unknown)
				default:
					c.OK("R04a", key, core.InstrPos(q), "query is anchored at the candidate node")
				}
			}
		}
	}
}

// ---------------------------------------------------------------- R04b

func c04RuleB(e *c04Env, r *c04Reader) {
	c := e.c
	for _, m := range r.methods {
		if e.advanceHelper(r, m, 0) {
			continue // its call sites carry the obligation
		}
		for _, b := range m.Blocks {
			for i, in := range b.Instrs {
				if !e.advanceSite(r, in) {
					continue
				}
				what := "store " + r.cur.Name()
				if ci, ok := in.(ssa.CallInstruction); ok {
					what = c04CalleeKey(ci)
				}
				key := core.FuncKey(m) + " advances cursor via " + what
				why := ""
				fail := c04Walk(b, i+1, 0, func(in ssa.Instruction, st int) (int, int) {
					switch x := in.(type) {
					case ssa.CallInstruction:
						if e.checkCall(r, x, 0) {
							return st, c04Stop
						}
						if e.consumes(x) {
							why = "the next token is fetched (" + c04CalleeKey(x) + ")"
							return st, c04Fail
						}
					case *ssa.Store:
						if v, ok := c04StoreTo(x, r.holder); ok && !core.IsNilConst(v) {
							return st, c04Stop // inlined marking decision
						}
					case *ssa.Return:
						if c04AbortReturn(x) {
							return st, c04Stop
						}
						why = "the function returns to the token loop"
						return st, c04Fail
					case *ssa.Panic:
						return st, c04Stop
					}
					return st, c04Cont
				}, nil)
				if fail != nil {
					c.Bad("R04b", key, core.InstrPos(fail), why+" before the candidate check ran for the node the cursor was advanced to: that node can never become a stream candidate")
				} else {
					c.OK("R04b", key, core.InstrPos(in), "candidate check on every path before the next fetch / return")
				}
			}
		}
	}
}

// ---------------------------------------------------------------- R04c

// c04RejectSucc: the successor of the query branch from which the delivering instruction cannot be reached.
func c04RejectSucc(ed c04Edge, deliver *ssa.BasicBlock) (*ssa.BasicBlock, bool) {
	var rej []*ssa.BasicBlock
	for _, s := range ed.from.Succs {
		if !c04ReachBlocks(s)[deliver] {
			rej = append(rej, s)
		}
	}
	if len(rej) != 1 {
		return nil, false
	}
	return rej[0], true
}

func c04RuleC(e *c04Env, r *c04Reader) {
	c := e.c
	for _, d := range r.deliv {
		edges, _ := c04QueryIfs(e, d.fn, d.instr.Block())
		seen := map[*ssa.BasicBlock]bool{}
		for _, ed := range edges {
			if seen[ed.from] {
				continue
			}
			seen[ed.from] = true
			key := core.FuncKey(d.fn) + " filter rejects candidate " + r.holder.Name()
			rej, ok := c04RejectSucc(ed, d.instr.Block())
			if !ok {
				c.Unknown("R04c", key, core.InstrPos(ed.ifInstr()), "cannot separate the accepting from the rejecting edge of the filter branch")
				continue
			}
			why := ""
			const removed, cleared = 1, 2
			helper := e.helperPred(func(in ssa.Instruction) bool {
				if _, ok := c04StoreTo(in, r.holder); ok {
					return true
				}
				ci, ok := in.(ssa.CallInstruction)
				return ok && ci.Common().StaticCallee() == e.remove
			})
			fail, _ := c04WalkInl(rej, 0, 0, func(w *c04Walker, in ssa.Instruction, st int) (int, int) {
				need := func(what string) (int, int) {
					switch {
					case st&removed == 0:
						why = what + " while the rejected candidate is still attached (no RemoveAndReleaseTree(" + r.holder.Name() + ")): it keeps satisfying later matches and stays in memory"
					case st&cleared == 0:
						why = what + " with " + r.holder.Name() + " still set: no later candidate can be marked"
					default:
						return st, c04Stop
					}
					return st, c04Fail
				}
				switch x := in.(type) {
				case *ssa.Store:
					if v, ok := c04StoreTo(x, r.holder); ok {
						if core.IsNilConst(v) {
							return st | cleared, c04Cont
						}
						return st &^ cleared, c04Cont
					}
				case ssa.CallInstruction:
					if x.Common().StaticCallee() == e.remove && c04IsLoadOf(w.resolve(x.Common().Args[0]), r.holder) {
						return st | removed, c04Cont
					}
					if helper(x) && w.canDescend(x) {
						return st, c04Descend
					}
					if e.consumes(x) {
						return need("input is consumed (" + c04CalleeKey(x) + ")")
					}
				case *ssa.Return:
					return need("the function returns")
				}
				return st, c04Cont
			}, nil)
			if fail != nil {
				c.Bad("R04c", key, core.InstrPos(fail), "on the filter-failed edge "+why)
			} else {
				c.OK("R04c", key, core.InstrPos(ed.ifInstr()), "rejected candidate removed and holder cleared on every path")
			}
		}
	}
}

// ---------------------------------------------------------------- R04d / R17a / R17c

// c04CleanBeforeConsume checks that on every path from the entry of fn to the first input-consuming call
// the holder (an address recognised by isHolderAddr) is either known to be nil or has been cleaned:
// cleanup(ci) recognises the detaching call; needClear additionally requires a nil store into the holder.
func c04CleanBeforeConsume(e *c04Env, fn *ssa.Function, isHolderAddr func(ssa.Value) bool, cleanup func(w *c04Walker, ci ssa.CallInstruction) bool, needClear bool) (fail ssa.Instruction, why string) {
	const knownNil, removed, cleared = 1, 2, 4
	isHolderLoad := func(v ssa.Value) bool {
		u, ok := v.(*ssa.UnOp)
		return ok && u.Op == token.MUL && isHolderAddr(u.X)
	}
	helper := e.helperPred(func(in ssa.Instruction) bool {
		if st, ok := in.(*ssa.Store); ok && isHolderAddr(st.Addr) {
			return true
		}
		ci, ok := in.(ssa.CallInstruction)
		return ok && cleanup(nil, ci)
	})
	fail, _ = c04WalkInl(fn.Blocks[0], 0, 0, func(w *c04Walker, in ssa.Instruction, st int) (int, int) {
		switch x := in.(type) {
		case *ssa.Store:
			if isHolderAddr(x.Addr) {
				if core.IsNilConst(x.Val) {
					return st | cleared, c04Cont
				}
				return st &^ (cleared | knownNil | removed), c04Cont
			}
		case ssa.CallInstruction:
			if cleanup(w, x) {
				return st | removed, c04Cont
			}
			if helper(x) && w.canDescend(x) {
				return st, c04Descend
			}
			if e.consumes(x) {
				if st&knownNil != 0 || (st&removed != 0 && (!needClear || st&cleared != 0)) {
					return st, c04Stop
				}
				switch {
				case st&cleared != 0:
					why = "input is consumed by " + c04CalleeKey(x) + " after the holder was set to nil without RemoveAndReleaseTree: the previously delivered node is forgotten but stays attached"
				case st&removed == 0:
					why = "input is consumed by " + c04CalleeKey(x) + " on a path where the previously delivered node may still be attached (holder not known to be nil, not released)"
				default:
					why = "input is consumed by " + c04CalleeKey(x) + " with the holder still referencing the released node"
				}
				return st, c04Fail
			}
		case *ssa.Return, *ssa.Panic:
			return st, c04Stop
		}
		return st, c04Cont
	}, func(w *c04Walker, from *ssa.BasicBlock, succ int, st int) int {
		// a nil test proves "nothing attached" only if the holder was not blanked without a release before
		if st&cleared != 0 && st&removed == 0 {
			return st
		}
		if k := c04NilTestEdge(from, isHolderLoad); k >= 0 && k == succ {
			return st | knownNil
		}
		return st
	})
	return fail, why
}

func c04FieldHolderPred(h *types.Var) func(ssa.Value) bool {
	return func(a ssa.Value) bool {
		fa, ok := a.(*ssa.FieldAddr)
		return ok && core.FieldOfAddr(fa) == h
	}
}

// c04ReadCleans applies the clean-before-consume rule to a Read method whose holder is a direct field.
func c04ReadCleans(e *c04Env, rule string, read *ssa.Function, h *types.Var, keySuffix string) {
	c := e.c
	isH := c04FieldHolderPred(h)
	key := core.FuncKey(read) + keySuffix + h.Name()
	if !e.consumesFn(read) {
		c.Unknown(rule, key, read.Pos(), "no input-consuming call found below Read: cannot locate the point before which the previous node must be detached")
		return
	}
	fail, why := c04CleanBeforeConsume(e, read, isH, func(w *c04Walker, ci ssa.CallInstruction) bool {
		if ci.Common().StaticCallee() != e.remove {
			return false
		}
		if w == nil {
			return true // helper discovery: any release counts
		}
		u, ok := w.resolve(ci.Common().Args[0]).(*ssa.UnOp)
		return ok && u.Op == token.MUL && isH(u.X)
	}, true)
	if fail != nil {
		c.Bad(rule, key, core.InstrPos(fail), why)
	} else {
		c.OK(rule, key, read.Pos(), "holder nil or released+cleared on every path to the first input consumption")
	}
}

func c04RuleD(e *c04Env, r *c04Reader, rule string) {
	read := e.readMethod(r.tn)
	if read == nil {
		e.c.Unresolved(rule, "Read of "+c04TypeKey(r.tn), "method Read() (*Node, error) not found")
		return
	}
	c04ReadCleans(e, rule, read, r.holder, " releases delivered ")
}

// ---------------------------------------------------------------- R04e

func c04RuleE(e *c04Env, r *c04Reader) {
	c := e.c
	read := e.readMethod(r.tn)
	if read == nil {
		return
	}
	// (e1) the call chain below Read that can hand a node upwards
	chain := []*ssa.Function{}
	onChain := map[*ssa.Function]bool{}
	var grow func(f *ssa.Function)
	grow = func(f *ssa.Function) {
		if f == nil || onChain[f] || !e.isMethodOf(r, f) || e.nodeResult(f.Signature) < 0 || r.wrapFn[f] {
			return
		}
		onChain[f] = true
		chain = append(chain, f)
		for _, ci := range core.Calls(f) {
			grow(ci.Common().StaticCallee())
		}
	}
	grow(read)
	sort.Slice(chain, func(i, j int) bool { return core.FuncKey(chain[i]) < core.FuncKey(chain[j]) })
	for _, f := range chain {
		ri := e.nodeResult(f.Signature)
		key := core.FuncKey(f) + " returns nodes only from the wrap-up function"
		bad := ""
		var badPos token.Pos
		var origin func(v ssa.Value, d int) string
		origin = func(v ssa.Value, d int) string {
			if d > 8 {
				return "value too deep to trace"
			}
			if core.IsNilConst(v) {
				return ""
			}
			switch x := v.(type) {
			case *ssa.Phi:
				for _, ed := range x.Edges {
					if s := origin(ed, d+1); s != "" {
						return s
					}
				}
				return ""
			case *ssa.Extract:
				return origin(x.Tuple, d+1)
			case *ssa.Call:
				cf := x.Call.StaticCallee()
				if cf != nil && (r.wrapFn[cf] || onChain[cf]) {
					return ""
				}
				return "result of " + c04CalleeKey(x)
			case *ssa.UnOp:
				if f, _ := c04FieldLoad(v); f != nil {
					return "a load of field " + f.Name()
				}
			}
			return "a value that does not come from the wrap-up function"
		}
		for _, b := range f.Blocks {
			for _, in := range b.Instrs {
				if rt, ok := in.(*ssa.Return); ok && ri < len(rt.Results) {
					if s := origin(rt.Results[ri], 0); s != "" && bad == "" {
						bad, badPos = s, core.InstrPos(rt)
					}
				}
			}
		}
		if bad != "" {
			c.Bad("R04e", key, badPos, "returns "+bad+": a node can be delivered without passing the close-time wrap-up (before its subtree is complete, or without the filter)")
		} else {
			c.OK("R04e", key, f.Pos(), "every non-nil node result is the result of the wrap-up function or of a function on the chain")
		}
	}
	// (e2) call sites of the wrap-up function
	for _, m := range r.methods {
		for _, ci := range core.Calls(m) {
			if !e.wrapCall(r, ci) {
				continue
			}
			key := core.FuncKey(m) + " calls wrap-up " + c04CalleeKey(ci)
			if how := c04CloseRegion(ci.Block()); how != "" {
				c.OK("R04e", key, core.InstrPos(ci), "inside closing-token region ("+how+")")
				continue
			}
			// the enclosing helper is itself only called from closing-token regions?
			if how := c04ClosedCallers(e, r, m, 0); how != "" {
				c.OK("R04e", key, core.InstrPos(ci), "helper whose every call site is inside a closing-token region ("+how+")")
				continue
			}
			// directly after a scalar text attach?
			ok := c04WalkBack(ci, func(in ssa.Instruction) int {
				switch {
				case e.attachSite(r, in):
					return c04Stop
				case e.advanceSite(r, in), e.wrapCall(r, in):
					return c04Fail
				}
				if x, isCall := in.(ssa.CallInstruction); isCall && e.consumes(x) {
					return c04Fail
				}
				if e.restoreStore(r, in) {
					return c04Fail
				}
				return c04Cont
			}, func() int { return c04Fail })
			if ok {
				c.OK("R04e", key, core.InstrPos(ci), "directly follows the attachment of a scalar text child")
			} else {
				c.Bad("R04e", key, core.InstrPos(ci), "the wrap-up function (cursor pop + delivery) is called outside a closing-token case and not directly after a scalar text attach: a node can be closed/delivered before it is complete")
			}
		}
	}
}

// c04ClosedCallers: every call site of f among the reader's methods lies in a closing-token region (or in a
// helper for which that holds).
func c04ClosedCallers(e *c04Env, r *c04Reader, f *ssa.Function, depth int) string {
	if depth > 2 {
		return ""
	}
	how := ""
	n := 0
	for _, m := range r.methods {
		for _, ci := range core.Calls(m) {
			if ci.Common().StaticCallee() != f {
				continue
			}
			n++
			h := c04CloseRegion(ci.Block())
			if h == "" && m != f {
				h = c04ClosedCallers(e, r, m, depth+1)
			}
			if h == "" {
				return ""
			}
			how = h
		}
	}
	if n == 0 {
		return ""
	}
	return how
}

// c04CloseCond: the edge is taken exactly when the current token is a closing token.
func c04CloseCond(ed c04Edge) string {
	ifi := ed.ifInstr()
	if ifi == nil {
		return ""
	}
	switch x := ifi.Cond.(type) {
	case *ssa.Extract:
		ta, ok := x.Tuple.(*ssa.TypeAssert)
		if ok && ta.CommaOk && x.Index == 1 && ed.succ == 0 {
			if pkg, name := c04NamedPath(ta.AssertedType); pkg == "encoding/xml" && name == "EndElement" {
				return "type case encoding/xml.EndElement"
			}
		}
	case *ssa.BinOp:
		if !((x.Op == token.EQL && ed.succ == 0) || (x.Op == token.NEQ && ed.succ == 1)) {
			return ""
		}
		for _, pair := range [][2]ssa.Value{{x.X, x.Y}, {x.Y, x.X}} {
			k, ok := pair[1].(*ssa.Const)
			if !ok || k.Value == nil {
				continue
			}
			if pkg, name := c04NamedPath(pair[0].Type()); pkg != "encoding/json" || name != "Delim" {
				continue
			}
			switch strings.TrimSpace(k.Value.ExactString()) {
			case "125", "93":
				return "json.Delim closing delimiter"
			}
		}
	}
	return ""
}

// c04CloseRegion: the block is (dominated by) a block all of whose incoming edges are closing-token edges.
func c04CloseRegion(b *ssa.BasicBlock) string {
	for x := b; x != nil; x = x.Idom() {
		if len(x.Preds) == 0 {
			continue
		}
		how := ""
		all := true
		for _, p := range x.Preds {
			found := ""
			for si, s := range p.Succs {
				if s == x {
					if h := c04CloseCond(c04Edge{p, si}); h != "" {
						found = h
					} else {
						found = ""
						break
					}
				}
			}
			if found == "" {
				all = false
				break
			}
			how = found
		}
		if all {
			return how
		}
	}
	return ""
}
