package rules

import (
	"go/token"
	"go/types"
	"sort"
	"strings"

	"golang.org/x/tools/go/ssa"

	"omnilint/core"
)

func init() {
	register(&RuleSet{
		Prop:  "C04",
		Title: "Streaming target selection equals whole-document selection (XML, JSON)",
		Explanation: "Stream readers are resolved by role (struct types with >= 2 *Node fields, Read, Release(*Node) and a parse cursor = the *Node field that is AddChild's parent and is re-assigned; the candidate holder = the *Node field a method hands out). " +
			"R04a anchored decisions: every store holder<-candidate and every return of the holder that is control dependent (post-dominator based) on the outcome of an xpath query must evaluate that query relative to the candidate node, or compare its result with the candidate; a query rooted at another field (the document root) is an existential over the whole tree; " +
			"R04b every cursor advance onto a freshly created node (direct store or call of an advance helper) is followed on every path by the candidate check before the next token is fetched or the function returns to the token loop (error returns excepted); " +
			"R04c on the edge where the filter query fails the candidate is passed to RemoveAndReleaseTree and the holder is set to nil on every path before the function returns or input is consumed; " +
			"R04d in Read, every path from the entry to the first input-consuming call either knows the holder to be nil or has released and cleared it; " +
			"R04e every non-nil node returned along the call chain below Read originates from the wrap-up function (the function holding the delivering return), and every call of the wrap-up function sits in a closing-token region (type case encoding/xml.EndElement, json.Delim '}' / ']') or directly follows the attachment of a scalar text child with no cursor advance in between; " +
			"R04g constructor agreement: in every function that fills a stream reader's two expression fields (the field queried by the marking decision and the field queried by the delivering decision), the candidate expression is compiled from the result of the filter-splitting function applied to a string S, the filter expression (where non-nil) is compiled from that very same value S, and the nil / non-nil choice of the filter expression is controlled only by a comparison of S with the split result (data-flow identity through local variable cells and closure captures; a trimmed or otherwise re-derived copy is a different value); " +
			"R04h while a candidate may be open (holder not known to be nil on the path) every path through a type case encoding/xml.CharData attaches a child under the cursor before the next token is fetched or the function returns - no content-dependent condition may skip text inside a candidate (a skip guarded by holder == nil stays allowed); " +
			"R04i the marking store, the delivering return and the rejecting RemoveAndReleaseTree are control dependent only on conditions over {cursor / holder identity and nil-ness, presence of the reader's expression fields, results of xpath queries}; any other branch condition on such a path (node content, counters, ...) is reported.",
		NotDecided: "agreement with MatchAll on the loaded document, document order and subtree completeness beyond R04e; that the path xpath with the last filter removed is the right candidate test (removeLastFilterInXPath); the three JSON cases where the document root itself is candidate-checked without a cursor advance are not an obligation of R04b; O1 of DESIGN.md (no error latch in JSONStreamReader).",
		Trusted: append([]string{"encoding/xml and encoding/json decoders deliver tokens in document order; end-element / closing-delimiter tokens are the only close events",
			"input-consuming library entry points are the methods of bufio/encoding/{xml,json,csv}/go-corelib ios reader types and ios.ReadLine/ByteReadLine"}, commonTrusted...),
		Run: runC04,
	})
	control(Control{ID: "c04-json-no-check-after-advance", Prop: "C04", File: "idr/jsonreader.go",
		Old: "\t\t\tsp.addElementChild(\"\", JSONObj)\n\t\t\tsp.streamCandidateCheck()\n", New: "\t\t\tsp.addElementChild(\"\", JSONObj)\n",
		Rule: "R04b", Substr: "JSONStreamReader).parseDelim", Why: "an object inside an array is never candidate-checked"})
	control(Control{ID: "c04-xml-no-check-after-advance", Prop: "C04", File: "idr/xmlreader.go",
		Old: "\t\t\t\tsp.cur = sp.cur.Parent\n\t\t\t}\n\t\t\tsp.streamCandidateCheck()\n", New: "\t\t\t\tsp.cur = sp.cur.Parent\n\t\t\t}\n",
		Rule: "R04b", Substr: "XMLStreamReader).parse", Why: "start elements are never candidate-checked"})
	control(Control{ID: "c04-reject-keeps-stream", Prop: "C04", File: "idr/jsonreader.go",
		Old: "\tRemoveAndReleaseTree(sp.stream)\n\tsp.stream = nil\n\treturn nil", New: "\tRemoveAndReleaseTree(sp.stream)\n\treturn nil",
		Rule: "R04c", Substr: "JSONStreamReader).wrapUpCurAndTargetCheck", Why: "stream stays set after a rejected candidate: no later candidate is ever marked"})
	control(Control{ID: "c04-reject-keeps-node", Prop: "C04", File: "idr/xmlreader.go",
		Old: "\tRemoveAndReleaseTree(sp.stream)\n\tsp.stream = nil\n\treturn nil", New: "\tsp.stream = nil\n\treturn nil",
		Rule: "R04c", Substr: "XMLStreamReader).wrapUpCurAndTargetCheck", Why: "rejected candidate stays in the tree and satisfies later existential matches"})
	control(Control{ID: "c04-read-keeps-delivered", Prop: "C04", File: "idr/jsonreader.go",
		Old: "\tif sp.stream != nil {\n\t\tRemoveAndReleaseTree(sp.stream)\n\t\tsp.stream = nil\n\t}\n\treturn sp.parse()", New: "\treturn sp.parse()",
		Rule: "R04d", Substr: "JSONStreamReader).Read", Why: "delivered record still in the tree (and stream still set) when parsing continues"})
	control(Control{ID: "c04-deliver-at-start", Prop: "C04", File: "idr/xmlreader.go",
		Old: "\t\t\tsp.streamCandidateCheck()\n\t\tcase xml.EndElement:", New: "\t\t\tsp.streamCandidateCheck()\n\t\t\tif sp.stream != nil && sp.xpathFilterExpr == nil {\n\t\t\t\treturn sp.stream, nil\n\t\t\t}\n\t\tcase xml.EndElement:",
		Rule: "R04e", Substr: "XMLStreamReader).parse", Why: "candidate delivered from the start-element case, before its subtree is read"})
	control(Control{ID: "c04-wrapup-at-start", Prop: "C04", File: "idr/xmlreader.go",
		Old: "\t\t\tsp.streamCandidateCheck()\n\t\tcase xml.EndElement:", New: "\t\t\tsp.streamCandidateCheck()\n\t\t\tif len(tok.Attr) > 100 {\n\t\t\t\tif ret := sp.wrapUpCurAndTargetCheck(); ret != nil {\n\t\t\t\t\treturn ret, nil\n\t\t\t\t}\n\t\t\t}\n\t\tcase xml.EndElement:",
		Rule: "R04e", Substr: "XMLStreamReader).parse", Why: "wrap-up (cursor pop + delivery) outside a closing token"})
	control(Control{ID: "c04-split-untrimmed", Prop: "C04", File: "idr/xmlreader.go",
		Old:  "\txpathStr = strings.TrimSpace(xpathStr)\n\txpathNoFilterStr := removeLastFilterInXPath(xpathStr)\n\txpathExpr, err := caches.GetXPathExpr(xpathStr)",
		New:  "\txpathNoFilterStr := removeLastFilterInXPath(xpathStr)\n\txpathExpr, err := caches.GetXPathExpr(strings.TrimSpace(xpathStr))",
		Rule: "R04g", Substr: "idr.NewXMLStreamReader", Why: "the filter is split off the untrimmed string while the trimmed one is compiled: with trailing blanks the reader believes there is no filter"})
	control(Control{ID: "c04-candidate-expr-unsplit", Prop: "C04", File: "idr/jsonreader.go",
		Old: "xpathNoFilterExpr, _ := caches.GetXPathExpr(xpathNoFilterStr)", New: "xpathNoFilterExpr, _ := caches.GetXPathExpr(xpathStr)",
		Rule: "R04g", Substr: "idr.NewJSONStreamReader", Why: "the open-time candidate test uses the full xpath including the final predicate"})
	control(Control{ID: "c04-blank-text-dropped-in-candidate", Prop: "C04", File: "idr/xmlreader.go",
		Old: "\t\tcase xml.CharData:\n", New: "\t\tcase xml.CharData:\n\t\t\tif sp.stream != nil && strings.TrimSpace(string(tok)) == \"\" {\n\t\t\t\tcontinue\n\t\t\t}\n",
		Rule: "R04h", Substr: "XMLStreamReader).parse", Why: "whitespace-only text inside a candidate is dropped: delivered subtree incomplete, text predicates fail"})
	control(Control{ID: "c04-delivery-extra-conjunct", Prop: "C04", File: "idr/jsonreader.go",
		Old: "\tif sp.xpathFilterExpr == nil || MatchAny(sp.root, sp.xpathFilterExpr) {", New: "\tif sp.xpathFilterExpr == nil || (cur.FirstChild != nil && MatchAny(sp.root, sp.xpathFilterExpr)) {",
		Rule: "R04i", Substr: "JSONStreamReader).wrapUpCurAndTargetCheck", Why: "an empty candidate is rejected without running the filter"})
	control(Control{ID: "c04-mark-extra-conjunct", Prop: "C04", File: "idr/xmlreader.go",
		Old: "\tif sp.xpathExpr != nil && sp.stream == nil && MatchAny(sp.root, sp.xpathExpr) {", New: "\tif sp.xpathExpr != nil && sp.stream == nil && sp.cur.Data != \"\" && MatchAny(sp.root, sp.xpathExpr) {",
		Rule: "R04i", Substr: "XMLStreamReader).streamCandidateCheck", Why: "marking depends on node content"})
	control(Control{ID: "c04-mark-without-query", Prop: "C04", File: "idr/jsonreader.go",
		Old: "\tif sp.xpathExpr != nil && sp.stream == nil && MatchAny(sp.root, sp.xpathExpr) {\n", New: "\tif sp.xpathExpr != nil && sp.stream == nil {\n",
		Rule: "R04a", Substr: "JSONStreamReader).streamCandidateCheck", Why: "candidate marked without consulting the path query"})
}

func runC04(c *core.Ctx) {
	e := c04NewEnv(c, "R04")
	if e == nil || !e.resolveReaders("R04") {
		return
	}
	for _, r := range e.readers {
		c.Note("stream reader %s: cursor=%s holder=%s marks=%d delivering returns=%d", c04TypeKey(r.tn), r.cur.Name(), r.holder.Name(), len(r.marks), len(r.deliv))
		if len(r.marks) == 0 {
			c.Unresolved("R04a", "marking decision of "+c04TypeKey(r.tn), "no store of a candidate into the holder found")
		}
		if len(r.deliv) == 0 {
			c.Unresolved("R04a", "delivering return of "+c04TypeKey(r.tn), "no return of the holder found")
		}
		c04RuleA(e, r)
		c04RuleB(e, r)
		c04RuleC(e, r)
		c04RuleD(e, r, "R04d")
		c04RuleE(e, r)
		c04RuleH(e, r)
		c04RuleI(e, r)
		c04RuleN(e, r)
	}
	c.Floor("R04a", 4, "2 readers x (candidate marking, delivery)")
	c.Floor("R04b", 6, "XML element + attribute advance, JSON 4 element creations")
	c.Floor("R04c", 2, "filter-failed edge of both wrap-up functions")
	c.Floor("R04d", 2, "Read of both stream readers")
	c.Floor("R04e", 11, "6 functions on the Read chains + 5 wrap-up call sites")
	c04RuleG(e)
	c.Floor("R04g", 8, "2 constructors x (candidate expr from split result, filter expr from split input, presence decided by comparing the two)")
	c.Floor("R04h", 1, "XML CharData case")
	c.Floor("R04i", 6, "2 readers x (marking store, delivering return, rejecting removal)")
	c04RuleF(e)
}

// c04RuleF is R04f (outermost candidate only) on the role-resolved readers: every marking decision - a non-nil
// store into the holder, directly or through its setter accessor - is dominated by the edge on which the holder
// (read directly, through a promoted field or through its getter) is nil. Same rule id, keys and floor as
// c04OuterMostOnly in extra.go, which does not see accessors / embedded state structs.
func c04RuleF(e *c04Env) {
	c := e.c
	n := 0
	for _, r := range e.readers {
		for _, d := range r.marks {
			n++
			key := core.FuncKey(d.fn) + " marks candidate"
			ok := false
			for _, b := range d.fn.Blocks {
				k := c04NilTestEdge(b, func(v ssa.Value) bool { return c04IsLoadOf(v, r.holder) })
				if k < 0 {
					continue
				}
				s := b.Succs[k]
				if len(s.Preds) == 1 && s.Dominates(d.instr.Block()) {
					ok = true
				}
			}
			c.Check(ok, "R04f", key, core.InstrPos(d.instr), "the candidate is marked only on the edge where no candidate is open",
				"a node is marked as the stream candidate although another candidate may still be open: a nested node on the target path replaces the outer one, which is then never delivered")
		}
	}
	if n == 0 {
		c.Unresolved("R04f", "candidate marking", "no store into a stream reader's holder found")
	}
	c.Floor("R04f", 2, "streamCandidateCheck of the XML and JSON stream readers")
}

// ---------------------------------------------------------------- R04a

// c04QueryIfs returns the controlling edges of the block whose condition depends on a query outcome, with
// the query calls.
func c04QueryIfs(e *c04Env, fn *ssa.Function, b *ssa.BasicBlock) (edges []c04Edge, calls [][]ssa.CallInstruction) {
	for _, ed := range e.cd(fn).controlling(b) {
		ifi := ed.ifInstr()
		if ifi == nil {
			continue
		}
		if qs := e.condQueries(ifi.Cond); len(qs) > 0 {
			edges = append(edges, ed)
			calls = append(calls, qs)
		}
	}
	return
}

// c04EqualOnEdge: the edge is the "operands are equal" edge of a ==/!= comparison; returns the operands.
func c04EqualOnEdge(ed c04Edge) (x, y ssa.Value, ok bool) {
	ifi := ed.ifInstr()
	if ifi == nil {
		return nil, nil, false
	}
	bo, isBin := ifi.Cond.(*ssa.BinOp)
	if !isBin {
		return nil, nil, false
	}
	if (bo.Op == token.EQL && ed.succ == 0) || (bo.Op == token.NEQ && ed.succ == 1) {
		return bo.X, bo.Y, true
	}
	return nil, nil, false
}

func c04RuleA(e *c04Env, r *c04Reader) {
	c := e.c
	type dec struct {
		d    *c04Decision
		kind string
	}
	var ds []dec
	for _, d := range r.marks {
		ds = append(ds, dec{d, "marks candidate"})
	}
	for _, d := range r.deliv {
		ds = append(ds, dec{d, "delivers candidate"})
	}
	for _, x := range ds {
		d := x.d
		blk := d.instr.Block()
		ctrl := e.cd(d.fn).controlling(blk)
		edges, calls := c04QueryIfs(e, d.fn, blk)
		if len(edges) == 0 {
			if x.kind == "marks candidate" {
				c.Bad("R04a", core.FuncKey(d.fn)+" "+x.kind+" without query", core.InstrPos(d.instr),
					"a node is stored into the candidate holder "+r.holder.Name()+" on a path that is not controlled by any xpath query: every node becomes a candidate")
			} else {
				c.Note("R04a: %s returns the holder without a controlling query (filter-less delivery; call sites are covered by R04e)", core.FuncKey(d.fn))
			}
			continue
		}
		// candidate values: the decided value itself, loads of the candidate field, and values known equal to
		// them by a controlling comparison
		isCand := func(v ssa.Value) bool {
			if v == nil {
				return false
			}
			if v == d.val || c04SameVal(v, d.val) {
				return true
			}
			if x.kind == "marks candidate" {
				return false
			}
			if c04IsLoadOf(v, r.holder) {
				return true
			}
			for _, ed := range ctrl {
				if a, b, ok := c04EqualOnEdge(ed); ok {
					if (a == v && c04IsLoadOf(b, r.holder)) || (b == v && c04IsLoadOf(a, r.holder)) {
						return true
					}
				}
			}
			return false
		}
		candFld := r.cur
		if x.kind != "marks candidate" {
			candFld = r.holder
		}
		if x.kind == "marks candidate" {
			if f, _ := c04FieldLoad(d.val); f != nil {
				candFld = f
			}
		}
		seenCall := map[ssa.CallInstruction]bool{}
		for i := range edges {
			for _, q := range calls[i] {
				if seenCall[q] {
					continue
				}
				seenCall[q] = true
				if c04IsXPathEval(q) {
					continue // iterator step: its root query call is reported separately
				}
				key := core.FuncKey(d.fn) + " " + x.kind + " by " + c04CalleeKey(q)
				roots := e.queryRoots(q, 0)
				if len(roots) == 0 {
					c.Unknown("R04a", key, core.InstrPos(q), "cannot resolve the node the query is evaluated against")
					continue
				}
				bad, unknown := "", ""
				for _, rt := range roots {
					switch {
					case rt.unknown != "":
						unknown = rt.unknown
					case rt.val != nil && isCand(rt.val):
					case rt.val == nil && rt.fld != nil && rt.fld == candFld:
					default:
						// result compared with the candidate?
						cmp := false
						for _, a := range rt.cmpArgs {
							if isCand(a) {
								cmp = true
							}
						}
						for _, ed := range ctrl {
							ifi := ed.ifInstr()
							bo, ok := ifi.Cond.(*ssa.BinOp)
							if !ok || (bo.Op != token.EQL && bo.Op != token.NEQ) {
								continue
							}
							isQ := func(v ssa.Value) bool { ci, ok := v.(ssa.CallInstruction); return ok && ci == q }
							if (isCand(bo.X) && c04DependsOn(bo.Y, isQ)) || (isCand(bo.Y) && c04DependsOn(bo.X, isQ)) {
								cmp = true
							}
						}
						if !cmp {
							what := "a value that is not the candidate"
							if rt.fld != nil {
								what = "field " + rt.fld.Name()
							}
							bad = "the query deciding this is evaluated against " + what + " and its result is never compared with the candidate (" + candFld.Name() + "): the decision is an existential over the whole tree, not a test of the candidate node"
						}
					}
				}
				switch {
				case bad != "":
					c.Bad("R04a", key, core.InstrPos(q), bad)
				case unknown != "":
					c.Unknown("R04a", key, core.InstrPos(q), unknown)
				default:
					c.OK("R04a", key, core.InstrPos(q), "query is anchored at the candidate node")
				}
			}
		}
	}
}

// ---------------------------------------------------------------- R04b

func c04RuleB(e *c04Env, r *c04Reader) {
	c := e.c
	for _, m := range r.methods {
		if j2AdvanceHelper(e, r, m, 0) {
			continue // its call sites carry the obligation
		}
		for _, b := range m.Blocks {
			for i, in := range b.Instrs {
				if !j2AdvanceSite(e, r, in) {
					continue
				}
				what := "store " + r.cur.Name()
				if ci, ok := in.(ssa.CallInstruction); ok {
					what = c04CalleeKey(ci)
				}
				key := core.FuncKey(m) + " advances cursor via " + what
				why := ""
				fail := c04Walk(b, i+1, 0, func(in ssa.Instruction, st int) (int, int) {
					if v, ok := c04StoreTo(in, r.holder); ok {
						if !core.IsNilConst(v) {
							return st, c04Stop // inlined marking decision
						}
						return st, c04Cont
					}
					switch x := in.(type) {
					case ssa.CallInstruction:
						if e.checkCall(r, x, 0) {
							return st, c04Stop
						}
						if e.consumes(x) {
							why = "the next token is fetched (" + c04CalleeKey(x) + ")"
							return st, c04Fail
						}
					case *ssa.Return:
						if c04AbortReturn(x) {
							return st, c04Stop
						}
						why = "the function returns to the token loop"
						return st, c04Fail
					case *ssa.Panic:
						return st, c04Stop
					}
					return st, c04Cont
				}, nil)
				if fail != nil {
					c.Bad("R04b", key, core.InstrPos(fail), why+" before the candidate check ran for the node the cursor was advanced to: that node can never become a stream candidate")
				} else {
					c.OK("R04b", key, core.InstrPos(in), "candidate check on every path before the next fetch / return")
				}
			}
		}
	}
}

// ---------------------------------------------------------------- R04c

// c04RejectSucc: the successor of the query branch from which the delivering instruction cannot be reached.
func c04RejectSucc(ed c04Edge, deliver *ssa.BasicBlock) (*ssa.BasicBlock, bool) {
	var rej []*ssa.BasicBlock
	for _, s := range ed.from.Succs {
		if !c04ReachBlocks(s)[deliver] {
			rej = append(rej, s)
		}
	}
	if len(rej) != 1 {
		return nil, false
	}
	return rej[0], true
}

func c04RuleC(e *c04Env, r *c04Reader) {
	c := e.c
	for _, d := range r.deliv {
		edges, _ := c04QueryIfs(e, d.fn, d.instr.Block())
		seen := map[*ssa.BasicBlock]bool{}
		for _, ed := range edges {
			if seen[ed.from] {
				continue
			}
			seen[ed.from] = true
			key := core.FuncKey(d.fn) + " filter rejects candidate " + r.holder.Name()
			rej, ok := c04RejectSucc(ed, d.instr.Block())
			if !ok {
				c.Unknown("R04c", key, core.InstrPos(ed.ifInstr()), "cannot separate the accepting from the rejecting edge of the filter branch")
				continue
			}
			why := ""
			const removed, cleared = 1, 2
			helper := e.helperPred(func(in ssa.Instruction) bool {
				if _, ok := c04StoreTo(in, r.holder); ok {
					return true
				}
				ci, ok := in.(ssa.CallInstruction)
				return ok && c04Callee(ci) == e.remove
			})
			fail, _ := c04WalkInl(rej, 0, 0, func(w *c04Walker, in ssa.Instruction, st int) (int, int) {
				need := func(what string) (int, int) {
					switch {
					case st&removed == 0:
						why = what + " while the rejected candidate is still attached (no RemoveAndReleaseTree(" + r.holder.Name() + ")): it keeps satisfying later matches and stays in memory"
					case st&cleared == 0:
						why = what + " with " + r.holder.Name() + " still set: no later candidate can be marked"
					default:
						return st, c04Stop
					}
					return st, c04Fail
				}
				if v, ok := c04StoreTo(in, r.holder); ok {
					if core.IsNilConst(w.resolve(v)) {
						return st | cleared, c04Cont
					}
					return st &^ cleared, c04Cont
				}
				switch x := in.(type) {
				case ssa.CallInstruction:
					if c04Callee(x) == e.remove && c04IsLoadOf(w.resolve(x.Common().Args[0]), r.holder) {
						return st | removed, c04Cont
					}
					if helper(x) && w.canDescend(x) {
						return st, c04Descend
					}
					if e.consumes(x) {
						return need("input is consumed (" + c04CalleeKey(x) + ")")
					}
				case *ssa.Return:
					return need("the function returns")
				}
				return st, c04Cont
			}, nil)
			if fail != nil {
				c.Bad("R04c", key, core.InstrPos(fail), "on the filter-failed edge "+why)
			} else {
				c.OK("R04c", key, core.InstrPos(ed.ifInstr()), "rejected candidate removed and holder cleared on every path")
			}
		}
	}
}

// ---------------------------------------------------------------- R04d / R17a / R17c

// c04CleanBeforeConsume checks that on every path from the entry of fn to the first input-consuming call
// the holder (an address recognised by isHolderAddr) is either known to be nil or has been cleaned:
// cleanup(ci) recognises the detaching call; needClear additionally requires a nil store into the holder.
func c04CleanBeforeConsume(e *c04Env, fn *ssa.Function, h *types.Var, cleanup func(w *c04Walker, ci ssa.CallInstruction) bool, needClear bool) (fail ssa.Instruction, why string) {
	const knownNil, removed, cleared = 1, 2, 4
	isHolderLoad := func(v ssa.Value) bool { return c04IsLoadOf(v, h) }
	helper := e.helperPred(func(in ssa.Instruction) bool {
		if _, ok := c04StoreTo(in, h); ok {
			return true
		}
		ci, ok := in.(ssa.CallInstruction)
		return ok && cleanup(nil, ci)
	})
	fail, _ = c04WalkInl(fn.Blocks[0], 0, 0, func(w *c04Walker, in ssa.Instruction, st int) (int, int) {
		if v, ok := c04StoreTo(in, h); ok {
			if core.IsNilConst(w.resolve(v)) {
				return st | cleared, c04Cont
			}
			return st &^ (cleared | knownNil | removed), c04Cont
		}
		switch x := in.(type) {
		case ssa.CallInstruction:
			if cleanup(w, x) {
				return st | removed, c04Cont
			}
			if helper(x) && w.canDescend(x) {
				return st, c04Descend
			}
			if e.consumes(x) {
				if st&knownNil != 0 || (st&removed != 0 && (!needClear || st&cleared != 0)) {
					return st, c04Stop
				}
				switch {
				case st&cleared != 0:
					why = "input is consumed by " + c04CalleeKey(x) + " after the holder was set to nil without RemoveAndReleaseTree: the previously delivered node is forgotten but stays attached"
				case st&removed == 0:
					why = "input is consumed by " + c04CalleeKey(x) + " on a path where the previously delivered node may still be attached (holder not known to be nil, not released)"
				default:
					why = "input is consumed by " + c04CalleeKey(x) + " with the holder still referencing the released node"
				}
				return st, c04Fail
			}
		case *ssa.Return, *ssa.Panic:
			return st, c04Stop
		}
		return st, c04Cont
	}, func(w *c04Walker, from *ssa.BasicBlock, succ int, st int) int {
		// a nil test proves "nothing attached" only if the holder was not blanked without a release before
		if st&cleared != 0 && st&removed == 0 {
			return st
		}
		if k := c04NilTestEdge(from, func(v ssa.Value) bool { return isHolderLoad(w.resolve(v)) }); k >= 0 && k == succ {
			return st | knownNil
		}
		return st
	})
	return fail, why
}

// c04ReadCleans applies the clean-before-consume rule to a Read method whose holder is a direct field.
func c04ReadCleans(e *c04Env, rule string, read *ssa.Function, h *types.Var, keySuffix string) {
	c := e.c
	key := core.FuncKey(read) + keySuffix + h.Name()
	if !e.consumesFn(read) {
		c.Unknown(rule, key, read.Pos(), "no input-consuming call found below Read: cannot locate the point before which the previous node must be detached")
		return
	}
	fail, why := c04CleanBeforeConsume(e, read, h, func(w *c04Walker, ci ssa.CallInstruction) bool {
		if c04Callee(ci) != e.remove {
			return false
		}
		if w == nil {
			return true // helper discovery: any release counts
		}
		return c04IsLoadOf(w.resolve(ci.Common().Args[0]), h)
	}, true)
	if fail != nil {
		c.Bad(rule, key, core.InstrPos(fail), why)
	} else {
		c.OK(rule, key, read.Pos(), "holder nil or released+cleared on every path to the first input consumption")
	}
}

func c04RuleD(e *c04Env, r *c04Reader, rule string) {
	read := e.readMethod(r.tn)
	if read == nil {
		e.c.Unresolved(rule, "Read of "+c04TypeKey(r.tn), "method Read() (*Node, error) not found")
		return
	}
	c04ReadCleans(e, rule, read, r.holder, " releases delivered ")
}

// ---------------------------------------------------------------- R04e

func c04RuleE(e *c04Env, r *c04Reader) {
	c := e.c
	read := e.readMethod(r.tn)
	if read == nil {
		return
	}
	// (e1) the call chain below Read that can hand a node upwards
	chain := []*ssa.Function{}
	onChain := map[*ssa.Function]bool{}
	var grow func(f *ssa.Function)
	grow = func(f *ssa.Function) {
		if f == nil || onChain[f] || !e.isMethodOf(r, f) || e.nodeResult(f.Signature) < 0 || r.wrapFn[f] {
			return
		}
		onChain[f] = true
		chain = append(chain, f)
		for _, ci := range core.Calls(f) {
			grow(c04Callee(ci))
		}
	}
	grow(read)
	sort.Slice(chain, func(i, j int) bool { return core.FuncKey(chain[i]) < core.FuncKey(chain[j]) })
	for _, f := range chain {
		ri := e.nodeResult(f.Signature)
		key := core.FuncKey(f) + " returns nodes only from the wrap-up function"
		bad := ""
		var badPos token.Pos
		var origin func(v ssa.Value, d int) string
		origin = func(v ssa.Value, d int) string {
			if d > 8 {
				return "value too deep to trace"
			}
			if core.IsNilConst(v) {
				return ""
			}
			switch x := v.(type) {
			case *ssa.Phi:
				for _, ed := range x.Edges {
					if s := origin(ed, d+1); s != "" {
						return s
					}
				}
				return ""
			case *ssa.Extract:
				return origin(x.Tuple, d+1)
			case *ssa.Call:
				cf := c04Callee(x)
				if cf != nil && (r.wrapFn[cf] || onChain[cf]) {
					return ""
				}
				return "result of " + c04CalleeKey(x)
			case *ssa.UnOp:
				if f, _ := c04FieldLoad(v); f != nil {
					return "a load of field " + f.Name()
				}
			}
			return "a value that does not come from the wrap-up function"
		}
		for _, b := range f.Blocks {
			for _, in := range b.Instrs {
				if rt, ok := in.(*ssa.Return); ok && ri < len(rt.Results) {
					if s := origin(rt.Results[ri], 0); s != "" && bad == "" {
						bad, badPos = s, core.InstrPos(rt)
					}
				}
			}
		}
		if bad != "" {
			c.Bad("R04e", key, badPos, "returns "+bad+": a node can be delivered without passing the close-time wrap-up (before its subtree is complete, or without the filter)")
		} else {
			c.OK("R04e", key, f.Pos(), "every non-nil node result is the result of the wrap-up function or of a function on the chain")
		}
	}
	// (e2) call sites of the wrap-up function
	for _, m := range r.methods {
		for _, ci := range core.Calls(m) {
			if !e.wrapCall(r, ci) {
				continue
			}
			key := core.FuncKey(m) + " calls wrap-up " + c04CalleeKey(ci)
			if how := c04CloseRegion(ci.Block()); how != "" {
				c.OK("R04e", key, core.InstrPos(ci), "inside closing-token region ("+how+")")
				continue
			}
			// the enclosing helper is itself only called from closing-token regions?
			if how := c04ClosedCallers(e, r, m, 0); how != "" {
				c.OK("R04e", key, core.InstrPos(ci), "helper whose every call site is inside a closing-token region ("+how+")")
				continue
			}
			// directly after a scalar text attach?
			ok := c04WalkBack(ci, func(in ssa.Instruction) int {
				switch {
				case j2AttachSite(e, r, in):
					return c04Stop
				case j2AdvanceSite(e, r, in), e.wrapCall(r, in):
					return c04Fail
				}
				if x, isCall := in.(ssa.CallInstruction); isCall && e.consumes(x) {
					return c04Fail
				}
				if j2RestoreSite(e, r, in) {
					return c04Fail
				}
				return c04Cont
			}, func() int { return c04Fail })
			if ok {
				c.OK("R04e", key, core.InstrPos(ci), "directly follows the attachment of a scalar text child")
			} else {
				c.Bad("R04e", key, core.InstrPos(ci), "the wrap-up function (cursor pop + delivery) is called outside a closing-token case and not directly after a scalar text attach: a node can be closed/delivered before it is complete")
			}
		}
	}
}

// c04ClosedCallers: every call site of f among the reader's methods lies in a closing-token region (or in a
// helper for which that holds).
func c04ClosedCallers(e *c04Env, r *c04Reader, f *ssa.Function, depth int) string {
	if depth > 2 {
		return ""
	}
	how := ""
	n := 0
	for _, m := range r.methods {
		for _, ci := range core.Calls(m) {
			if c04Callee(ci) != f {
				continue
			}
			n++
			h := c04CloseRegion(ci.Block())
			if h == "" && m != f {
				h = c04ClosedCallers(e, r, m, depth+1)
			}
			if h == "" {
				return ""
			}
			how = h
		}
	}
	if n == 0 {
		return ""
	}
	return how
}

// c04CloseCond: the edge is taken exactly when the current token is a closing token.
func c04CloseCond(ed c04Edge) string {
	ifi := ed.ifInstr()
	if ifi == nil {
		return ""
	}
	switch x := ifi.Cond.(type) {
	case *ssa.Extract:
		ta, ok := x.Tuple.(*ssa.TypeAssert)
		if ok && ta.CommaOk && x.Index == 1 && ed.succ == 0 {
			if pkg, name := c04NamedPath(ta.AssertedType); pkg == "encoding/xml" && name == "EndElement" {
				return "type case encoding/xml.EndElement"
			}
		}
	case *ssa.BinOp:
		if !((x.Op == token.EQL && ed.succ == 0) || (x.Op == token.NEQ && ed.succ == 1)) {
			return ""
		}
		for _, pair := range [][2]ssa.Value{{x.X, x.Y}, {x.Y, x.X}} {
			k, ok := pair[1].(*ssa.Const)
			if !ok || k.Value == nil {
				continue
			}
			if pkg, name := c04NamedPath(pair[0].Type()); pkg != "encoding/json" || name != "Delim" {
				continue
			}
			switch strings.TrimSpace(k.Value.ExactString()) {
			case "125", "93":
				return "json.Delim closing delimiter"
			}
		}
	}
	return ""
}

// c04CloseRegion: the block is (dominated by) a block all of whose incoming edges are closing-token edges.
func c04CloseRegion(b *ssa.BasicBlock) string {
	for x := b; x != nil; x = x.Idom() {
		if len(x.Preds) == 0 {
			continue
		}
		how := ""
		all := true
		for _, p := range x.Preds {
			found := ""
			for si, s := range p.Succs {
				if s == x {
					if h := c04CloseCond(c04Edge{p, si}); h != "" {
						found = h
					} else {
						found = ""
						break
					}
				}
			}
			if found == "" {
				all = false
				break
			}
			how = found
		}
		if all {
			return how
		}
	}
	return ""
}

// ---------------------------------------------------------------- R04g

// c04ExprFields resolves, for a stream reader, the expression field queried by the marking decision (path)
// and the one queried by the delivering decision (filter): the reader fields of type *xpath.Expr that are
// loaded as arguments of the query call controlling the decision.
func c04ExprFields(e *c04Env, r *c04Reader) (path, filter *types.Var) {
	isExprFld := func(v ssa.Value) *types.Var {
		f, fa := c04FieldLoad(v)
		if f == nil || fa == nil {
			return nil
		}
		if !e.readerField(r.tn, f) {
			return nil
		}
		if pkg, name := c04NamedPath(f.Type()); pkg != "github.com/antchfx/xpath" || name != "Expr" {
			return nil
		}
		return f
	}
	pick := func(ds []*c04Decision) *types.Var {
		var out *types.Var
		for _, d := range ds {
			_, calls := c04QueryIfs(e, d.fn, d.instr.Block())
			for _, qs := range calls {
				for _, q := range qs {
					if c04IsXPathEval(q) {
						continue
					}
					for _, a := range q.Common().Args {
						if f := isExprFld(a); f != nil {
							if out != nil && out != f {
								return nil
							}
							out = f
						}
					}
				}
			}
		}
		return out
	}
	return pick(r.marks), pick(r.deliv)
}

// c04Src normalises a value to its data-flow source inside one function and its closures: a load of a local
// variable cell (or of a closure's captured cell) becomes the value last stored into the cell - provided
// exactly one store dominates the load and no other store can reach it; everything else is its own source.
func c04Src(v ssa.Value, at ssa.Instruction, depth int) ssa.Value {
	if depth > 8 {
		return v
	}
	u, ok := v.(*ssa.UnOp)
	if !ok || u.Op != token.MUL {
		return v
	}
	if at == nil {
		at = u
	}
	switch a := u.X.(type) {
	case *ssa.Alloc:
		return c04CellValue(a, at, v, depth)
	case *ssa.FreeVar:
		fn := a.Parent()
		par := fn.Parent()
		if par == nil {
			return v
		}
		idx := -1
		for i, fv := range fn.FreeVars {
			if fv == a {
				idx = i
			}
		}
		var mc *ssa.MakeClosure
		for _, b := range par.Blocks {
			for _, in := range b.Instrs {
				if m, ok := in.(*ssa.MakeClosure); ok && m.Fn == ssa.Value(fn) {
					if mc != nil {
						return v // created at several places
					}
					mc = m
				}
			}
		}
		if mc == nil || idx < 0 || idx >= len(mc.Bindings) {
			return v
		}
		cell, ok := mc.Bindings[idx].(*ssa.Alloc)
		if !ok {
			return v
		}
		return c04CellValue(cell, mc, v, depth)
	}
	return v
}

// c04CellValue: the value held by the local cell at instruction `at` (dflt if it cannot be determined).
func c04CellValue(cell *ssa.Alloc, at ssa.Instruction, dflt ssa.Value, depth int) ssa.Value {
	var stores []*ssa.Store
	for _, r := range core.Referrers(cell) {
		switch x := r.(type) {
		case *ssa.Store:
			if x.Addr != ssa.Value(cell) {
				return dflt // the cell's address is stored somewhere
			}
			stores = append(stores, x)
		case *ssa.UnOp, *ssa.DebugRef:
		case *ssa.MakeClosure:
			// a closure that writes the cell makes its content unknown
			if fn, ok := x.Fn.(*ssa.Function); ok {
				for i, bnd := range x.Bindings {
					if bnd != ssa.Value(cell) || i >= len(fn.FreeVars) {
						continue
					}
					for _, r2 := range core.Referrers(fn.FreeVars[i]) {
						if st, ok := r2.(*ssa.Store); ok && st.Addr == ssa.Value(fn.FreeVars[i]) {
							return dflt
						}
						if _, isLoad := r2.(*ssa.UnOp); !isLoad {
							if _, isDbg := r2.(*ssa.DebugRef); !isDbg {
								if _, isSt := r2.(*ssa.Store); !isSt {
									return dflt
								}
							}
						}
					}
				}
			}
		default:
			return dflt
		}
	}
	var last *ssa.Store
	for _, st := range stores {
		if !core.Dominates(st, at) {
			// a store that does not dominate the use but can reach it makes the content path dependent
			if st.Block() == at.Block() || c04ReachBlocks(st.Block())[at.Block()] {
				return dflt
			}
			continue
		}
		if last == nil || core.Dominates(last, st) {
			last = st
		}
	}
	if last == nil {
		return dflt
	}
	// a dominating store executed again after `last` on a loop back edge is not modelled: constructors are loop free here
	return c04Src(last.Val, last, depth+1)
}

// c04CompileCall: v is (the first result of) a call that compiles a string into an *xpath.Expr; returns the
// call and its string argument.
func c04CompileCall(v ssa.Value) (ssa.CallInstruction, ssa.Value) {
	if ex, ok := v.(*ssa.Extract); ok && ex.Index == 0 {
		v = ex.Tuple
	}
	call, ok := v.(*ssa.Call)
	if !ok {
		return nil, nil
	}
	res := call.Call.Signature().Results()
	if res.Len() == 0 {
		return nil, nil
	}
	if pkg, name := c04NamedPath(res.At(0).Type()); pkg != "github.com/antchfx/xpath" || name != "Expr" {
		return nil, nil
	}
	for i := 1; i < res.Len(); i++ {
		if pkg, name := c04NamedPath(res.At(i).Type()); pkg == "github.com/antchfx/xpath" && name == "Expr" {
			return nil, nil // a helper producing several expressions, not a compile call
		}
	}
	for _, a := range call.Call.Args {
		if b, ok := a.Type().Underlying().(*types.Basic); ok && b.Kind() == types.String {
			return call, a
		}
	}
	return nil, nil
}

// c04Leaves expands a value into the values it may take: through phis, local cells / closure captures and the
// returns of immediately called closures and static repository callees. Each leaf comes with the instruction
// at which the choice is made (the return, or the terminator of the phi's predecessor block).
type c04Leaf struct {
	val  ssa.Value
	at   ssa.Instruction
	edge *c04Edge // for a phi operand: the branch edge it arrives on, when the predecessor ends in a branch
}

func c04Leaves(v ssa.Value, at ssa.Instruction, depth int) []c04Leaf {
	if depth > 6 {
		return []c04Leaf{{val: v, at: at}}
	}
	v = c04Src(v, at, 0)
	switch x := v.(type) {
	case *ssa.Extract:
		// a result of a repository helper that is not itself a compile call: the helper's returns decide
		if cc, _ := c04CompileCall(x); cc != nil {
			break
		}
		if call, ok := x.Tuple.(*ssa.Call); ok {
			if cf := c04Callee(call); cf != nil && cf.Blocks != nil && core.InRepo(core.FuncPkg(cf)) {
				var out []c04Leaf
				for _, b := range cf.Blocks {
					for _, in := range b.Instrs {
						if rt, ok := in.(*ssa.Return); ok && x.Index < len(rt.Results) {
							if c04AbortReturn(rt) && core.IsNilConst(rt.Results[x.Index]) {
								continue // error exit of the helper: no reader is built
							}
							out = append(out, c04Leaves(rt.Results[x.Index], rt, depth+1)...)
						}
					}
				}
				return out
			}
		}
	case *ssa.Phi:
		var out []c04Leaf
		for i, ed := range x.Edges {
			pb := x.Block().Preds[i]
			sub := c04Leaves(ed, pb.Instrs[len(pb.Instrs)-1], depth+1)
			if len(pb.Succs) == 2 {
				for si, sb := range pb.Succs {
					if sb == x.Block() {
						for k := range sub {
							if sub[k].edge == nil && sub[k].at == pb.Instrs[len(pb.Instrs)-1] {
								sub[k].edge = &c04Edge{pb, si}
							}
						}
					}
				}
			}
			out = append(out, sub...)
		}
		return out
	case *ssa.Call:
		var fn *ssa.Function
		if mc, ok := x.Call.Value.(*ssa.MakeClosure); ok {
			fn, _ = mc.Fn.(*ssa.Function)
		} else if cf := c04Callee(x); cf != nil && cf.Blocks != nil && core.InRepo(core.FuncPkg(cf)) && len(cf.Params) == 0 {
			fn = cf
		}
		if fn == nil || fn.Signature.Results().Len() != 1 {
			return []c04Leaf{{val: v, at: at}}
		}
		var out []c04Leaf
		for _, b := range fn.Blocks {
			for _, in := range b.Instrs {
				if rt, ok := in.(*ssa.Return); ok && len(rt.Results) == 1 {
					out = append(out, c04Leaves(rt.Results[0], rt, depth+1)...)
				}
			}
		}
		return out
	}
	return []c04Leaf{{val: v, at: at}}
}

func c04IsString(t types.Type) bool {
	b, ok := t.Underlying().(*types.Basic)
	return ok && b.Info()&types.IsString != 0
}

func c04RuleG(e *c04Env) {
	c := e.c
	for _, r := range e.readers {
		pathFld, filterFld := c04ExprFields(e, r)
		if pathFld == nil || filterFld == nil || pathFld == filterFld {
			c.Unresolved("R04g", "expression fields of "+c04TypeKey(r.tn), "cannot tell the candidate expression field from the filter expression field (fields of type *xpath.Expr loaded by the queries of the marking / delivering decisions)")
			continue
		}
		// functions that fill the expression fields
		type ctor struct {
			fn            *ssa.Function
			pathSt, filSt *ssa.Store
		}
		var ctors []*ctor
		for _, f := range e.fns {
			var ct *ctor
			if c04Setters[f] != nil {
				continue
			}
			for _, b := range f.Blocks {
				for _, in := range b.Instrs {
					st, ok := in.(*ssa.Store)
					if !ok {
						continue
					}
					fa, ok := st.Addr.(*ssa.FieldAddr)
					if !ok {
						continue
					}
					fld := core.FieldOfAddr(fa)
					if fld != pathFld && fld != filterFld {
						continue
					}
					if ct == nil {
						ct = &ctor{fn: f}
						ctors = append(ctors, ct)
					}
					if fld == pathFld {
						ct.pathSt = st
					} else {
						ct.filSt = st
					}
				}
			}
		}
		if len(ctors) == 0 {
			c.Unresolved("R04g", "constructor of "+c04TypeKey(r.tn), "no function stores the reader's expression fields")
		}
		for _, ct := range ctors {
			base := core.FuncKey(ct.fn)
			k1 := base + " candidate expression compiled from the split result"
			k2 := base + " filter expression compiled from the split input"
			k3 := base + " filter presence decided by comparing split input and split result"
			if ct.pathSt == nil || ct.filSt == nil {
				c.Unknown("R04g", k1, ct.fn.Pos(), "the function stores only one of the two expression fields ("+pathFld.Name()+", "+filterFld.Name()+"): cannot relate them")
				continue
			}
			// (1) candidate expression = compile(split(S))
			var pv ssa.Value
			for _, lf := range c04Leaves(ct.pathSt.Val, ct.pathSt, 0) {
				if core.IsNilConst(lf.val) {
					continue
				}
				if pv != nil && pv != lf.val {
					pv = nil
					break
				}
				pv = lf.val
			}
			pc, parg := c04CompileCall(pv)
			var sIn, sNF ssa.Value
			var split *ssa.Function
			if pc != nil {
				sNF = c04Src(parg, pc, 0)
				// a library string -> string wrapper around the split result (strings.TrimSpace ...) is looked through
				// on this side only: it cannot change which predicate was split off
				for i := 0; i < 3; i++ {
					wc, ok := sNF.(*ssa.Call)
					if !ok || c04Callee(wc) == nil || core.InRepo(core.FuncPkg(c04Callee(wc))) || len(wc.Call.Args) != 1 || !c04IsString(wc.Call.Args[0].Type()) || !c04IsString(wc.Type()) {
						break
					}
					sNF = c04Src(wc.Call.Args[0], wc, 0)
				}
				if sc, ok := sNF.(*ssa.Call); ok {
					if cf := c04Callee(sc); cf != nil && core.InRepo(core.FuncPkg(cf)) && len(sc.Call.Args) == 1 && c04IsString(sc.Call.Args[0].Type()) && c04IsString(sc.Type()) {
						split = cf
						sIn = c04Src(sc.Call.Args[0], sc, 0)
					}
				}
			}
			if split == nil {
				c.Bad("R04g", k1, core.InstrPos(ct.pathSt), "the expression stored into "+pathFld.Name()+" (queried when a node is opened) is not compiled from the result of the filter-splitting function (a repository function string -> string): the final predicate would be evaluated on a still incomplete node")
				continue
			}
			c.OK("R04g", k1, core.InstrPos(ct.pathSt), pathFld.Name()+" = compile("+core.FuncKey(split)+"(S))")
			// (2) filter expression leaves
			leaves := c04Leaves(ct.filSt.Val, ct.filSt, 0)
			bad2, nNil, nExpr := "", 0, 0
			for _, lf := range leaves {
				if core.IsNilConst(lf.val) {
					nNil++
					continue
				}
				fc, farg := c04CompileCall(lf.val)
				if fc == nil {
					bad2 = "a value stored into " + filterFld.Name() + " is not the result of compiling a string"
					continue
				}
				nExpr++
				if c04Src(farg, fc, 0) != sIn {
					bad2 = "the string compiled into " + filterFld.Name() + " and the string handed to " + core.FuncKey(split) + " are different values (one of them is re-derived, e.g. trimmed separately): where they differ the split does not see what is compiled - the final predicate is not split off, the full xpath is tested when a node is opened and never when it is complete"
				}
			}
			if bad2 != "" {
				c.Bad("R04g", k2, core.InstrPos(ct.filSt), bad2)
			} else {
				c.OK("R04g", k2, core.InstrPos(ct.filSt), "same value is split and compiled")
			}
			// (4) the split function looks for the filter's closing bracket at the very end of its argument: S has to be
			// trimmed — by the constructor (S is the result of a library trim) or by the split function itself (seed C17-9:
			// the constructor's TrimSpace was dropped; with a trailing blank no filter is recognised, the full xpath is tested
			// at open time and every node of the document is kept as a candidate)
			k4 := base + " split input is trimmed"
			isTrim := func(v ssa.Value) bool {
				tc, ok := v.(*ssa.Call)
				if !ok {
					return false
				}
				cf := c04Callee(tc)
				if cf == nil || cf.Pkg == nil || cf.Pkg.Pkg.Path() != "strings" {
					return false
				}
				switch cf.Name() {
				case "TrimSpace", "TrimRight", "TrimRightFunc", "Trim", "TrimFunc":
					return true
				}
				return false
			}
			trimmed := isTrim(sIn)
			if prm, ok := sIn.(*ssa.Parameter); ok && !trimmed {
				// S is a parameter of an extracted helper: every call site inside the package hands over a trimmed string
				fn := prm.Parent()
				idx := -1
				for i, fp := range fn.Params {
					if fp == prm {
						idx = i
					}
				}
				if node := c.CallGraph().Nodes[fn]; node != nil && idx >= 0 {
					sites, good := 0, 0
					for _, e := range node.In {
						if e.Site == nil || e.Caller == nil || e.Caller.Func == nil || e.Site.Common().IsInvoke() {
							continue
						}
						args := e.Site.Common().Args
						if idx >= len(args) {
							continue
						}
						sites++
						if isTrim(c04Src(args[idx], e.Site, 0)) || isTrim(args[idx]) {
							good++
						}
					}
					trimmed = sites > 0 && sites == good
				}
			}
			if !trimmed {
				for _, ci := range core.Calls(split) {
					if v, ok := ci.(*ssa.Call); ok && isTrim(v) {
						trimmed = true
					}
				}
			}
			c.Check(trimmed, "R04g", k4, core.InstrPos(ct.pathSt), "S is the result of a library trim (or "+core.FuncKey(split)+" trims its argument)",
				"the string handed to "+core.FuncKey(split)+" is not trimmed (neither by this function nor by the split function): the split function recognises a final predicate only when its closing bracket is the last character, so a target xpath with a trailing blank keeps its predicate in the open-time candidate test — no node matches while incomplete, or every node is retained")
			// (3) the nil / non-nil choice
			if nNil == 0 || nExpr == 0 {
				c.OK("R04g", k3, core.InstrPos(ct.filSt), "no choice: the filter field is always / never set here")
				continue
			}
			bad3 := ""
			decided := 0
			for _, lf := range leaves {
				fn := lf.at.Parent()
				good := false
				ctrl := e.cd(fn).controlling(lf.at.Block())
				if lf.edge != nil {
					ctrl = append(ctrl, *lf.edge)
				}
				for _, ed := range ctrl {
					ifi := ed.ifInstr()
					if ifi == nil {
						continue
					}
					bo, ok := c04Src(ifi.Cond, ifi, 0).(*ssa.BinOp)
					if !ok || !c04IsString(bo.X.Type()) {
						continue
					}
					a, b := c04Src(bo.X, bo, 0), c04Src(bo.Y, bo, 0)
					if (bo.Op == token.EQL || bo.Op == token.NEQ) && ((a == sIn && b == sNF) || (a == sNF && b == sIn)) {
						good = true
					} else {
						bad3 = "whether " + filterFld.Name() + " is set depends on a string comparison whose operands are not exactly the split input and the split result"
					}
				}
				if good {
					decided++
				}
			}
			switch {
			case bad3 != "":
				c.Bad("R04g", k3, core.InstrPos(ct.filSt), bad3)
			case decided != len(leaves):
				c.Bad("R04g", k3, core.InstrPos(ct.filSt), "the choice between a nil and a compiled "+filterFld.Name()+" is not controlled by comparing the split input with the split result")
			default:
				c.OK("R04g", k3, core.InstrPos(ct.filSt), "has-filter decided by S != split(S)")
			}
		}
	}
}

// ---------------------------------------------------------------- R04h

// c04TypeCaseEntry: the block entered when the comma-ok type assertion succeeds (nil if not of that form).
func c04TypeCaseEntry(ta *ssa.TypeAssert) *ssa.BasicBlock {
	if !ta.CommaOk {
		return nil
	}
	for _, u := range core.Referrers(ta) {
		ex, ok := u.(*ssa.Extract)
		if !ok || ex.Index != 1 {
			continue
		}
		for _, u2 := range core.Referrers(ex) {
			if ifi, ok := u2.(*ssa.If); ok && len(ifi.Block().Succs) == 2 && len(ifi.Block().Succs[0].Preds) == 1 {
				return ifi.Block().Succs[0]
			}
		}
	}
	return nil
}

func c04RuleH(e *c04Env, r *c04Reader) {
	c := e.c
	const knownNil = 1
	isHolderLoad := func(v ssa.Value) bool { return c04IsLoadOf(v, r.holder) }
	for _, m := range r.methods {
		for _, b := range m.Blocks {
			for _, in := range b.Instrs {
				ta, ok := in.(*ssa.TypeAssert)
				if !ok {
					continue
				}
				if pkg, name := c04NamedPath(ta.AssertedType); pkg != "encoding/xml" || name != "CharData" {
					continue
				}
				key := core.FuncKey(m) + " attaches encoding/xml.CharData inside an open candidate"
				entry := c04TypeCaseEntry(ta)
				if entry == nil {
					c.Unknown("R04h", key, core.InstrPos(ta), "cannot find the branch on the type test")
					continue
				}
				why := ""
				fail, _ := c04WalkInl(entry, 0, 0, func(w *c04Walker, in ssa.Instruction, st int) (int, int) {
					if v, ok := c04StoreTo(in, r.holder); ok {
						if !core.IsNilConst(w.resolve(v)) {
							return st &^ knownNil, c04Cont
						}
						return st, c04Cont
					}
					switch x := in.(type) {
					case ssa.CallInstruction:
						cf := c04Callee(x)
						if cf == e.addChild && c04IsLoadOf(x.Common().Args[0], r.cur) {
							return st, c04Stop
						}
						if cf != nil && e.isMethodOf(r, cf) && w.canDescend(x) {
							return st, c04Descend
						}
						if j2AttachSite(e, r, in) || j2AdvanceSite(e, r, in) {
							return st, c04Stop
						}
						if e.consumes(x) {
							if st&knownNil != 0 {
								return st, c04Stop
							}
							why = "the next token is fetched (" + c04CalleeKey(x) + ")"
							return st, c04Fail
						}
					case *ssa.Return:
						if st&knownNil != 0 || c04AbortReturn(x) {
							return st, c04Stop
						}
						why = "the function returns"
						return st, c04Fail
					case *ssa.Panic:
						return st, c04Stop
					}
					return st, c04Cont
				}, func(w *c04Walker, from *ssa.BasicBlock, succ int, st int) int {
					if k := c04NilTestEdge(from, func(v ssa.Value) bool { return isHolderLoad(w.resolve(v)) }); k >= 0 && k == succ {
						return st | knownNil
					}
					return st
				})
				if fail != nil {
					c.Bad("R04h", key, core.InstrPos(fail), "on a path where a candidate may be open ("+r.holder.Name()+" not known to be nil) "+why+" without the character data having been attached under the cursor: text inside a candidate is dropped, so the delivered subtree is incomplete and predicates on text / child values see less than the document contains")
				} else {
					c.OK("R04h", key, core.InstrPos(ta), "every path with a possibly open candidate attaches the text before the next fetch / return")
				}
			}
		}
	}
}

// ---------------------------------------------------------------- R04i

// c04StateCond: the condition only speaks about the reader's selection state: cursor / holder identity and
// nil-ness, presence of expression fields, and results of xpath queries.
func c04StateCond(e *c04Env, r *c04Reader, cond ssa.Value) (bool, string) {
	seen := map[ssa.Value]bool{}
	bind := map[*ssa.Parameter]ssa.Value{}
	fieldOK := func(f *types.Var, fa *ssa.FieldAddr) (bool, string) {
		if e.readerField(r.tn, f) {
			if f == r.cur || f == r.holder {
				return true, ""
			}
			if pkg, name := c04NamedPath(f.Type()); pkg == "github.com/antchfx/xpath" && name == "Expr" {
				return true, ""
			}
			return false, "reader field " + f.Name()
		}
		if n := core.FieldOwner(fa); n != nil {
			return false, "field " + n.Obj().Name() + "." + f.Name()
		}
		return false, "field " + f.Name()
	}
	var leaf func(v ssa.Value, d int) (bool, string)
	leaf = func(v ssa.Value, d int) (bool, string) {
		if v == nil || seen[v] {
			return true, ""
		}
		seen[v] = true
		if d > 12 {
			return false, "expression too deep"
		}
		switch x := v.(type) {
		case *ssa.Const:
			return true, ""
		case *ssa.Parameter:
			if a, ok := bind[x]; ok {
				if n := core.NamedOf(a.Type()); n != nil && n.Obj() == r.tn {
					return true, "" // the reader itself
				}
				return leaf(a, d+1)
			}
			return false, "a parameter (" + x.Name() + ")"
		case *ssa.BinOp:
			if ok, w := leaf(x.X, d+1); !ok {
				return false, w
			}
			return leaf(x.Y, d+1)
		case *ssa.UnOp:
			if x.Op != token.MUL {
				return leaf(x.X, d+1)
			}
			f, fa := c04FieldLoad(x)
			if f == nil {
				return false, "a value loaded from memory (" + x.Name() + ")"
			}
			return fieldOK(f, fa)
		case *ssa.Phi:
			for _, ed := range x.Edges {
				if ok, w := leaf(ed, d+1); !ok {
					return false, w
				}
			}
			return true, ""
		case *ssa.Extract:
			return leaf(x.Tuple, d+1)
		case *ssa.ChangeType:
			return leaf(x.X, d+1)
		case *ssa.Call:
			if f, fa := c04FieldLoad(x); f != nil {
				return fieldOK(f, fa) // getter accessor
			}
			if e.isQueryResultCall(x) {
				return true, ""
			}
			if _, isBuiltin := x.Call.Value.(*ssa.Builtin); isBuiltin {
				for _, a := range x.Call.Args {
					if ok, w := leaf(a, d+1); !ok {
						return false, w
					}
				}
				return true, ""
			}
			// a value computed from a query result (nodeFromIter(iter), ...)
			if c04DependsOn(x, func(y ssa.Value) bool {
				ci, ok := y.(ssa.CallInstruction)
				return ok && y != ssa.Value(x) && e.isQueryResultCall(ci)
			}) {
				return true, ""
			}
			// a predicate method of the reader whose results are themselves state conditions
			if cf := c04Callee(x); cf != nil && e.isMethodOf(r, cf) && cf.Blocks != nil && d < 4 {
				for i, p := range cf.Params {
					if i < len(c04CallArgs(x)) {
						bind[p] = c04CallArgs(x)[i]
					}
				}
				for _, b := range cf.Blocks {
					for _, in := range b.Instrs {
						if rt, ok := in.(*ssa.Return); ok {
							for _, rv := range rt.Results {
								if ok, w := leaf(rv, d+1); !ok {
									return false, w
								}
							}
							for _, ed := range e.cd(cf).controlling(b) {
								if ifi := ed.ifInstr(); ifi != nil {
									if ok, w := leaf(ifi.Cond, d+1); !ok {
										return false, w
									}
								}
							}
						}
					}
				}
				return true, ""
			}
			return false, "result of " + c04CalleeKey(x)
		case *ssa.Index, *ssa.Lookup, *ssa.Slice, *ssa.Next, *ssa.Range, *ssa.TypeAssert, *ssa.MakeInterface:
			if c04DependsOn(v, func(y ssa.Value) bool {
				ci, ok := y.(ssa.CallInstruction)
				return ok && e.isQueryResultCall(ci)
			}) {
				return true, ""
			}
			return false, "a computed value (" + v.Name() + ")"
		}
		return false, "a value of kind " + strings.TrimPrefix(strings.TrimPrefix(c04KindName(v), "*ssa."), "ssa.")
	}
	return leaf(cond, 0)
}

func c04KindName(v interface{}) string {
	switch v.(type) {
	case *ssa.Parameter:
		return "parameter"
	case *ssa.FreeVar:
		return "captured variable"
	case *ssa.Global:
		return "global"
	}
	return "other"
}

func c04RuleI(e *c04Env, r *c04Reader) {
	c := e.c
	type site struct {
		fn    *ssa.Function
		in    ssa.Instruction
		what  string
		inner []ssa.CallInstruction // the removal inside a same-receiver helper: its control conditions count too
	}
	var sites []site
	for _, d := range r.marks {
		sites = append(sites, site{d.fn, d.instr, "marks candidate", nil})
	}
	for _, d := range r.deliv {
		if r.wrapFn[d.fn] {
			sites = append(sites, site{d.fn, d.instr, "delivers candidate", nil})
		}
	}
	for f := range r.wrapFn {
		rm, inner := j2RemoveSites(e, r, f)
		for _, ci := range rm {
			sites = append(sites, site{f, ci, "rejects candidate", inner[ci]})
		}
	}
	sort.SliceStable(sites, func(i, j int) bool {
		a, b := core.FuncKey(sites[i].fn)+sites[i].what, core.FuncKey(sites[j].fn)+sites[j].what
		if a != b {
			return a < b
		}
		return sites[i].in.Pos() < sites[j].in.Pos()
	})
	for _, s := range sites {
		key := core.FuncKey(s.fn) + " " + s.what + " under selection-state conditions only"
		bad := ""
		var badPos token.Pos
		ctl := e.cd(s.fn).controlling(s.in.Block())
		for _, ic := range s.inner {
			ctl = append(ctl, e.cd(ic.Parent()).controlling(ic.Block())...)
		}
		for _, ed := range ctl {
			ifi := ed.ifInstr()
			if ifi == nil {
				bad, badPos = "a non-boolean branch (switch / type switch)", core.InstrPos(ed.from.Instrs[len(ed.from.Instrs)-1])
				continue
			}
			if ok, what := c04StateCond(e, r, ifi.Cond); !ok {
				bad, badPos = what, core.InstrPos(ifi)
			}
		}
		if bad != "" {
			c.Bad("R04i", key, badPos, "this decision is also control dependent on a condition over "+bad+", which is neither the cursor/candidate identity, nor the presence of an expression, nor the result of an xpath query: whether a node is selected no longer depends only on the target xpath")
		} else {
			c.OK("R04i", key, core.InstrPos(s.in), "controlled only by cursor/candidate identity, expression presence and query results")
		}
	}
}

// ---------------------------------------------------------------- R04n

// c04RuleN: whether the candidate check is invoked for a node may depend on the kind of token being processed and on
// the cursor / candidate / expression fields, but on no other field of the reader: a field the reader fills while
// reading (the element name of the first record, a nesting depth, a section flag) makes the selection of a node depend
// on what came before it (seeds C17-13, C10-12, C04-16/17 attack the same clause inside the check itself, where R04i sees
// it; this rule covers the call sites).
func c04RuleN(e *c04Env, r *c04Reader) {
	c := e.c
	for _, m := range r.methods {
		if r.checkFn[m] {
			continue
		}
		for _, ci := range core.Calls(m) {
			cf := c04Callee(ci)
			if cf == nil || !r.checkFn[cf] {
				continue
			}
			key := core.FuncKey(m) + " invokes the candidate check independently of learned reader state"
			bad := ""
			var badPos token.Pos
			for _, ed := range e.cd(m).controlling(ci.Block()) {
				ifi := ed.ifInstr()
				if ifi == nil {
					continue
				}
				if c04DependsOn(ifi.Cond, func(v ssa.Value) bool {
					f, _ := c04FieldLoad(v)
					if f == nil || !e.readerField(r.tn, f) {
						return false
					}
					if f == r.cur || f == r.holder {
						return false
					}
					if pkg, name := c04NamedPath(f.Type()); pkg == "github.com/antchfx/xpath" && name == "Expr" {
						return false
					}
					// the decoder and other helper objects are not learned state: only plain data fields count
					switch f.Type().Underlying().(type) {
					case *types.Basic, *types.Struct, *types.Slice, *types.Map:
						bad = f.Name()
						return true
					}
					return false
				}) {
					badPos = core.InstrPos(ifi)
				}
			}
			if bad != "" {
				c.Bad("R04n", key, badPos, "whether the candidate check runs for this node depends on reader field "+bad+", which the reader fills while reading: a node is selected or skipped depending on what preceded it, and a skipped node is neither delivered nor removed")
			} else {
				c.OK("R04n", key, core.InstrPos(ci), "controlled by the token kind and the cursor / candidate / expression fields only")
			}
		}
	}
}
