package rules

// C01 R01a–c: finite-domain abstract interpretation of the Transform implementation's Read and RawRecord
// (DESIGN §3 C01, "Implementation choice"). The two methods are executed by the A8 machine on every point of
//   stored error ∈ {nil, ErrTransformFailed, other} × stored raw record ∈ {nil, set} ×
//   ingester outcome ∈ {ok, error∧continuable, error∧¬continuable} (the error itself of ETF or of another type)
// with the ingester's methods as the only uninterpreted calls; the rows of the resulting transition table are the
// obligations.

import (
	"fmt"
	"go/types"
	"strings"

	"golang.org/x/tools/go/ssa"

	"omnilint/core"
)

type c01Impl struct {
	T                   *types.Named
	Read, RawRecord     *ssa.Function
	errFld, rawFld, ing *types.Var
	ingIface            *types.Named
	rawIface            *types.Named
}

func c01ResolveImpl(c *core.Ctx, r *ecRoles) []*c01Impl {
	root := c.Pkg("")
	if root == nil {
		c.Unresolved("R01a", "root package", "package omniparser not found")
		return nil
	}
	tn, _ := root.Types.Scope().Lookup("Transform").(*types.TypeName)
	if tn == nil {
		c.Unresolved("R01a", "interface omniparser.Transform", "exported interface Transform not found")
		return nil
	}
	iface, _ := tn.Type().(*types.Named)
	rawIface := ecLookupNamed(c, "schemahandler", "RawRecord")
	if iface == nil || rawIface == nil {
		c.Unresolved("R01a", "interfaces Transform / schemahandler.RawRecord", "not found")
		return nil
	}
	var out []*c01Impl
	for _, n := range ecImplementors(c, iface, false) {
		im := &c01Impl{T: n, ingIface: r.ingesterIface, rawIface: rawIface}
		im.Read = ecMethod(c, n, "Read")
		im.RawRecord = ecMethod(c, n, "RawRecord")
		st, ok := n.Underlying().(*types.Struct)
		if !ok || im.Read == nil || im.RawRecord == nil || im.Read.Blocks == nil || im.RawRecord.Blocks == nil {
			c.Unresolved("R01a", "Transform implementation "+ecTypeKey(n), "not a struct with Read/RawRecord bodies")
			continue
		}
		nErr, nRaw, nIng := 0, 0, 0
		for i := 0; i < st.NumFields(); i++ {
			f := st.Field(i)
			switch {
			case ecIsError(f.Type()):
				im.errFld = f
				nErr++
			case types.Identical(f.Type(), rawIface):
				im.rawFld = f
				nRaw++
			case types.Identical(f.Type(), r.ingesterIface):
				im.ing = f
				nIng++
			}
		}
		if nErr != 1 || nRaw != 1 || nIng != 1 {
			c.Unresolved("R01a", "state fields of "+ecTypeKey(n),
				fmt.Sprintf("need exactly one field each of type error / schemahandler.RawRecord / schemahandler.Ingester, found %d/%d/%d", nErr, nRaw, nIng))
			continue
		}
		out = append(out, im)
	}
	return out
}

type c01Case struct {
	storedErr string // nil | ETF | other
	storedRaw string // nil | set
	outcome   string // ok | cont/ETF | cont/other | fatal/ETF | fatal/other | - (RawRecord)
}

func (k c01Case) String() string {
	if k.outcome == "-" {
		return fmt.Sprintf("[lastErr=%s raw=%s]", k.storedErr, k.storedRaw)
	}
	return fmt.Sprintf("[lastErr=%s raw=%s ingester=%s]", k.storedErr, k.storedRaw, k.outcome)
}

type c01Run struct {
	ok        bool
	fail      string
	ret       ecV
	errAfter  ecV
	rawAfter  ecV
	ingReads  int
	ingCalls  int
	stErr     *ecTok
	stRaw     *ecTok
	ingErr    *ecTok
	ingRaw    *ecTok
	ingBytes  *ecTok
	contAsked bool
	trace     []string
}

// c01Exec runs fn on one point of the abstract domain.
func c01Exec(r *ecRoles, im *c01Impl, fn *ssa.Function, k c01Case) *c01Run {
	run := &c01Run{}
	obj := &ecTok{Name: "o", IsObj: true}
	ingObj := &ecTok{Name: "o.ingester", Dyn: nil}
	var hook ecHook = func(m *ecMachine, call ssa.CallInstruction, callee *types.Func, recv ecV, args []ecV) (ecV, bool) {
		if callee == nil {
			return ecV{}, false
		}
		if call.Common().IsInvoke() && recv.K == ecvTok && recv.Tok == ingObj {
			run.ingCalls++
			run.trace = append(run.trace, "ingester."+callee.Name())
			switch callee.Name() {
			case "Read":
				run.ingReads++
				if run.ingReads > 1 {
					m.failf("ingester.Read called more than once")
					return ecOpaque(), true
				}
				if k.outcome == "ok" {
					return ecV{K: ecvTuple, Tup: []ecV{ecTokV(run.ingRaw), ecTokV(run.ingBytes), {K: ecvNil}}}, true
				}
				// on error the ingester may or may not hand back values; model the adversarial case (non-nil)
				return ecV{K: ecvTuple, Tup: []ecV{ecTokV(run.ingRaw), ecTokV(run.ingBytes), ecTokV(run.ingErr)}}, true
			case "IsContinuableError":
				if len(args) == 1 && args[0].K == ecvTok && args[0].Tok == run.ingErr {
					run.contAsked = true
					return ecBoolV(strings.HasPrefix(k.outcome, "cont")), true
				}
				return ecOpaque(), true
			}
			return ecOpaque(), true
		}
		if call.Common().IsInvoke() && callee.Name() == "Error" && len(args) == 0 {
			return ecOpaque(), true // err.Error(): an opaque string, no effect
		}
		if ecIsPlainCtor(callee) {
			return ecTokV(&ecTok{Name: "new(" + callee.Pkg().Name() + "." + callee.Name() + ")", Dyn: r.plainDyn, DynKnown: true}), true
		}
		return ecV{}, false
	}
	m := ecNewMachine(r, hook)
	mkErr := func(name, kind string) *ecTok {
		switch kind {
		case "ETF":
			return &ecTok{Name: name, Dyn: r.etf, DynKnown: true}
		default:
			return &ecTok{Name: name, Dyn: r.plainDyn, DynKnown: true}
		}
	}
	run.ingRaw = &ecTok{Name: "ingester.raw"}
	run.ingBytes = &ecTok{Name: "ingester.bytes"}
	if i := strings.Index(k.outcome, "/"); i >= 0 {
		run.ingErr = mkErr("ingester.err", k.outcome[i+1:])
	} else {
		run.ingErr = mkErr("ingester.err", "other")
	}
	m.mem[ecAddrKey{Obj: obj, Fld: im.ing}] = ecTokV(ingObj)
	if k.storedErr == "nil" {
		m.mem[ecAddrKey{Obj: obj, Fld: im.errFld}] = ecV{K: ecvNil}
	} else {
		run.stErr = mkErr("stored.lastErr", k.storedErr)
		m.mem[ecAddrKey{Obj: obj, Fld: im.errFld}] = ecTokV(run.stErr)
	}
	if k.storedRaw == "nil" {
		m.mem[ecAddrKey{Obj: obj, Fld: im.rawFld}] = ecV{K: ecvNil}
	} else {
		run.stRaw = &ecTok{Name: "stored.raw"}
		m.mem[ecAddrKey{Obj: obj, Fld: im.rawFld}] = ecTokV(run.stRaw)
	}
	ret, ok := m.run(fn, []ecV{ecTokV(obj)})
	run.ok, run.fail, run.ret = ok, m.fail, ret
	run.errAfter = m.mem[ecAddrKey{Obj: obj, Fld: im.errFld}]
	run.rawAfter = m.mem[ecAddrKey{Obj: obj, Fld: im.rawFld}]
	for _, ev := range m.events {
		run.trace = append(run.trace, ev.What)
	}
	return run
}

func c01IsTok(v ecV, t *ecTok) bool { return t != nil && v.K == ecvTok && v.Tok == t }

func c01SameAsBefore(v ecV, t *ecTok) bool {
	if t == nil {
		return v.isNilish()
	}
	return c01IsTok(v, t)
}

// c01CheckTransform emits the transition-table obligations for one Transform implementation.
func c01CheckTransform(c *core.Ctx, r *ecRoles, im *c01Impl) {
	readKey := core.FuncKey(im.Read)
	rawKey := core.FuncKey(im.RawRecord)
	for _, se := range []string{"nil", "ETF", "other"} {
		for _, sr := range []string{"nil", "set"} {
			for _, oc := range []string{"ok", "cont/ETF", "cont/other", "fatal/ETF", "fatal/other"} {
				k := c01Case{se, sr, oc}
				run := c01Exec(r, im, im.Read, k)
				cons := readKey + " " + k.String()
				if !run.ok || run.ret.K != ecvTuple || len(run.ret.Tup) != 2 {
					why := run.fail
					if why == "" {
						why = "unexpected result shape " + run.ret.String()
					}
					c.Unknown("R01a", cons, im.Read.Pos(), "abstract execution undecided: "+why)
					continue
				}
				bytesV, errV := run.ret.Tup[0], run.ret.Tup[1]
				tr := strings.Join(run.trace, "; ")
				// ---- R01a: which error is returned and latched
				switch {
				case se == "other":
					// terminal: same error again, ingester untouched, state unchanged
					okA := c01IsTok(errV, run.stErr) && run.ingCalls == 0 && c01IsTok(run.errAfter, run.stErr) && c01SameAsBefore(run.rawAfter, run.stRaw)
					c.Check(okA, "R01a", cons, im.Read.Pos(),
						"terminal error returned again unchanged; ingester not called; state unchanged",
						fmt.Sprintf("a stored non-ErrTransformFailed error must be returned again unchanged without touching the ingester or the state; got err=%s, ingester calls=%d, lastErr'=%s, lastRawRecord'=%s [%s]",
							errV, run.ingCalls, run.errAfter, run.rawAfter, tr))
				case run.ingReads != 1:
					c.Bad("R01a", cons, im.Read.Pos(), fmt.Sprintf("Read must ask the ingester for the next record when the previous result was a record or a per-record failure; ingester.Read calls=%d, returned err=%s [%s]", run.ingReads, errV, tr))
				case oc == "ok":
					okA := errV.isNilish() && run.errAfter.isNilish()
					c.Check(okA, "R01a", cons, im.Read.Pos(), "success: nil error returned and latched",
						fmt.Sprintf("on ingester success Read must return and latch a nil error; got err=%s lastErr'=%s [%s]", errV, run.errAfter, tr))
				case strings.HasPrefix(oc, "cont"):
					isETF := errV.K == ecvTok && !errV.Tok.Nil && errV.Tok.DynKnown && types.Identical(errV.Tok.Dyn, r.etf)
					latched := errV.K == ecvTok && c01IsTok(run.errAfter, errV.Tok)
					c.Check(isETF && latched && run.contAsked, "R01a", cons, im.Read.Pos(),
						"continuable ingester error returned as ErrTransformFailed; the returned value is the latched value",
						fmt.Sprintf("a continuable ingester error must be returned as ErrTransformFailed and exactly the returned value must be latched; got err=%s (ErrTransformFailed=%v) lastErr'=%s classified=%v [%s]",
							errV, isETF, run.errAfter, run.contAsked, tr))
				default: // fatal
					okA := c01IsTok(errV, run.ingErr) && c01IsTok(run.errAfter, run.ingErr) && run.contAsked
					c.Check(okA, "R01a", cons, im.Read.Pos(),
						"non-continuable ingester error returned unchanged and latched",
						fmt.Sprintf("a non-continuable ingester error must be returned unchanged and latched; got err=%s lastErr'=%s classified=%v [%s]", errV, run.errAfter, run.contAsked, tr))
				}
				// ---- R01b: nil bytes on error, ingester's bytes on success
				if errV.isNilish() {
					c.Check(c01IsTok(bytesV, run.ingBytes), "R01b", cons, im.Read.Pos(), "record bytes are the ingester's bytes",
						"on success the returned bytes must be the ingester's bytes; got "+bytesV.String())
				} else {
					c.Check(bytesV.isNilish(), "R01b", cons, im.Read.Pos(), "nil bytes with the error",
						fmt.Sprintf("bytes must be nil whenever the error is non-nil; got bytes=%s err=%s [%s]", bytesV, errV, tr))
				}
				// ---- R01c: raw record gating in Read
				switch {
				case se == "other":
					// covered by the state-unchanged clause of R01a
				case errV.isNilish():
					c.Check(c01IsTok(run.rawAfter, run.ingRaw), "R01c", cons, im.Read.Pos(), "raw record of the successful Read stored",
						"after a successful Read the stored raw record must be the ingester's raw record; got "+run.rawAfter.String())
				default:
					c.Check(run.rawAfter.isNilish(), "R01c", cons, im.Read.Pos(), "raw record cleared on failure",
						fmt.Sprintf("after a failed Read the stored raw record must be nil; got %s [%s]", run.rawAfter, tr))
				}
			}
		}
	}
	for _, se := range []string{"nil", "ETF", "other"} {
		for _, sr := range []string{"nil", "set"} {
			k := c01Case{se, sr, "-"}
			run := c01Exec(r, im, im.RawRecord, k)
			cons := rawKey + " " + k.String()
			if !run.ok || run.ret.K != ecvTuple || len(run.ret.Tup) != 2 {
				why := run.fail
				if why == "" {
					why = "unexpected result shape " + run.ret.String()
				}
				c.Unknown("R01c", cons, im.RawRecord.Pos(), "abstract execution undecided: "+why)
				continue
			}
			recV, errV := run.ret.Tup[0], run.ret.Tup[1]
			tr := strings.Join(run.trace, "; ")
			unchanged := c01SameAsBefore(run.errAfter, run.stErr) && c01SameAsBefore(run.rawAfter, run.stRaw) && run.ingCalls == 0
			var okC bool
			var want string
			switch {
			case se != "nil":
				okC = recV.isNilish() && c01IsTok(errV, run.stErr)
				want = "(nil, the last Read's error)"
			case sr == "nil":
				okC = recV.isNilish() && errV.K == ecvTok && !errV.Tok.Nil && errV.Tok != run.stErr
				want = "(nil, a 'call Read first' error)"
			default:
				okC = c01IsTok(recV, run.stRaw) && errV.isNilish()
				want = "(the stored raw record, nil)"
			}
			c.Check(okC && unchanged, "R01c", cons, im.RawRecord.Pos(), "returns "+want+"; state unchanged; ingester not called",
				fmt.Sprintf("RawRecord must return %s and leave the state alone; got (%s, %s), lastErr'=%s, lastRawRecord'=%s, ingester calls=%d [%s]",
					want, recV, errV, run.errAfter, run.rawAfter, run.ingCalls, tr))
		}
	}
}
