package rules

import (
	"fmt"
	"go/constant"
	"go/token"
	"go/types"
	"math"
	"os"
	"reflect"
	"sort"
	"strings"

	"golang.org/x/tools/go/ssa"

	"omnilint/core"
)

func init() {
	register(&RuleSet{
		Prop:  "C03",
		Title: "No panic, no hang: schemas and inputs are untrusted data",
		Explanation: "Closed inventory of panic-capable constructs in repository code reachable (VTA call graph plus explicit reflection edges: every function value registered in a built-in CustomFuncs map literal is a callee of the reflect.Value.Call sites) from NewSchema, (*schema).NewTransform, (*transform).Read/RawRecord and rawRecord.Raw/Checksum; every construct of a kind is enumerated from SSA and must be discharged mechanically, be a reviewed (argued) entry keyed by function and caller, or be a recorded finding. " +
			"K1 every explicit panic, one obligation per (panic site, call site of its function): the callers must establish the negation of the panic's guard (dominating branch facts, predicate summaries, up to 3 call levels; comparisons in linear normal form, so `n := len(s)-1; n < 0` is `len(s) < 1`; a guard that is not a plain fact about the parameters - a phi such as an optional variadic index, a range predicate, a disjunction - is specialised to the arguments of the call and refuted disjunct by disjunct; a fact read before a dominating assignment of the guarded field is carried across it by evaluating later loads to the assigned value), otherwise the pair must be a reviewed entry (a mechanically discharged call site keeps its slot of the reviewed entry; a guard computed by a `v, ok :=` helper is named by the helper's deciding branch); " +
			"K2 every call into package reflect is classified (closed table of total operations; anything else needs its documented precondition): Kind-restricted accessors need a dominating Kind() test on the same value (also established by all callers), Type.Elem() needs a static type or the IsVariadic && index == NumIn()-1 guard, signature accessors need Kind()==Func, In/Out need an index bound (also through a clamp: a joined variable is decided per incoming branch), Value.Call needs statically conforming arguments, FieldByName/Elem/Int chains are evaluated on the struct definition of the toolchain in use; " +
			"K3 every type assertion without comma-ok: dominating type switch / comma-ok / Kind() / IsErrX-style predicate on the same value (interprocedurally), or a closed set of dynamic-type sources (MakeInterface sites, sync.Pool New/Put, LoadingCache loaders, results of repository functions), or the ValidateSchema/CreateFormatReader pair of one FileFormat; " +
			"K4 every call of an evaluating function of the xpath engine (NodeIterator.MoveNext, Expr.Evaluate, ...; closed classification of the xpath API used) must be covered by a deferred recover on every call chain from the entry points (a site inside an iterator closure or unexported helper that only exported functions invoke is one obligation per such exported function); " +
			"K5 every constant index into a slice/string and every dereference of an optional (pointer-to-scalar) field of a declaration struct: dominating length/nil guard, a store-guard invariant of a discriminator field (kind == K only stored under field != nil; the kind test may sit in the callers, in a dispatch table or in a selector function returning the evaluator as closure/bound method), or the constraint (minLength/minItems/required) read back from the JSONSchema* constant the declaration was validated against (path derived from json tags); plus a table of declaration fields whose JSON-schema bound guards progress (rows >= 1, ...) and presence (file_declaration, FINAL_OUTPUT); " +
			"K6 encoding/json token kinds are closed: no repository function calls Decoder.UseNumber, and every json.Decoder created in reachable repository code is confined to an unexported field that is only used as the receiver of Token/More/Decode/Buffered/InputOffset (so no other code can switch it to json.Number); the assertions on the tokens are K3 obligations; " +
			"K7 every cycle of repository functions in the load set that contains the template-expansion edge passes through a rejecting duplicate test on the reference stack (must-pass on every path from entry to the recursive call).",
		NotDecided: "termination of the reader loops (progress over input length), nil dereferences of struct pointers and index/slice expressions with non-constant operands (value-dependent), integer overflow, panics inside third-party decoders (encoding/xml, encoding/csv, goja, gojsonschema) other than the xpath engine's evaluation panics, stack depth of deeply nested documents; 'argued' obligations carry a written argument only: for them the rule guarantees that no new panic-capable construct or caller appears unreviewed, not that the argument is right. Facts proven at load time are assumed to still hold at run time (no writes to schema-owned declarations after load: C14).",
		Trusted: append([]string{
			"package reflect panics exactly under its documented preconditions; Value.Call returns NumOut() valid Values",
			"antchfx/xpath v1.1.11: Compile recovers parser panics and returns an error; Expr.Select and NodeIterator.Current do not evaluate; evaluation (MoveNext/Evaluate) may panic",
			"gojsonschema enforces minLength/minItems/minimum/required/type of the JSONSchema* constants on the validated document; encoding/json.Unmarshal maps properties to fields by json tag",
			"encoding/json.Decoder.Token yields only json.Delim, bool, float64, string, nil unless UseNumber was called",
		}, commonTrusted...),
		Run: runC03,
	})
	c03controls()
	g4c03controls()
}

type c03ctx struct {
	c       *core.Ctx
	e       *c03eng
	load    map[*ssa.Function]bool
	run     map[*ssa.Function]bool
	reach   map[*ssa.Function]bool
	fns     []*ssa.Function // repo functions in reach, sorted
	roots   []*ssa.Function
	schemas map[*types.Const]*c03schema
	// unmarshal root type -> schema
	rootSchema map[*types.Named]*c03schema
	argCount   map[string]int
	valid      []c03valid
	refl       map[*ssa.Function][]*ssa.Function
	unprot     map[*ssa.Function]*ssa.Function
	pending    []c03pending
	k1out      []c03k1out
	k1cache    map[c03k1key][2]string
}

func runC03(c *core.Ctx) {
	x := &c03ctx{c: c, argCount: map[string]int{}}
	if !x.resolveReach() {
		return
	}
	x.e = c03newEng(c, x.reach)
	c03eng0 = x.e
	defer func() { c03eng0 = nil }()
	var loadFns []*ssa.Function
	for _, f := range x.fns {
		if x.load[f] {
			loadFns = append(loadFns, f)
		}
	}
	x.valid = x.e.collectValidated(loadFns, c03rejects)
	x.e.hook = func(g c03goal) (bool, string) {
		if ok, v := c03validatedDecide(g, x.valid); ok {
			return true, "validated at load time: " + core.FuncKey(v.fn) + " rejects the schema unless " + v.atom.pretty()
		}
		return false, ""
	}
	if os.Getenv("C03_DUMP") != "" {
		x.dump()
	}
	x.resolveSchemas()
	x.runK1()
	x.runK2()
	x.runK3()
	x.runK4()
	x.runK5()
	x.runK6()
	x.runK7()
	x.runK15()
	x.runK16()
	x.runK17()
	x.runK19()
	c.Note("reachable repository functions: %d (load set %d, run set %d incl. dependencies)", len(x.fns), len(x.load), len(x.run))
}

// ---------------------------------------------------------------- reachability (A1)

func (x *c03ctx) resolveReach() bool {
	c := x.c
	c.SSA()
	// entry points by role (shared analysis A1): implementations of the exported interfaces Schema / Transform in
	// the root package and of schemahandler.RawRecord, plus NewSchema — never unexported type names.
	es := entries(c, "K0")
	if es == nil {
		return false
	}
	loadRoots, runRoots := es.loadRoots, es.runRoots
	if len(runRoots) < 5 {
		c.Unresolved("K0", "entry points", fmt.Sprintf("only %d run-set entry points resolved (NewTransform, Read, RawRecord, Raw, Checksum expected)", len(runRoots)))
		return false
	}
	extra := x.reflectEdges()
	x.load = c.Reachable(loadRoots, extra)
	x.run = c.Reachable(runRoots, extra)
	x.roots = append(loadRoots, runRoots...)
	x.reach = map[*ssa.Function]bool{}
	for f := range x.load {
		x.reach[f] = true
	}
	for f := range x.run {
		x.reach[f] = true
	}
	for _, f := range c.RepoFunctions() {
		if x.reach[f] {
			x.fns = append(x.fns, f)
		}
	}
	if len(x.fns) < 200 {
		c.Unresolved("K0", "reachable set", fmt.Sprintf("only %d repository functions reachable from the entry points: call graph incomplete", len(x.fns)))
		return false
	}
	return true
}

// reflectEdges: every function value stored (as an interface value) into a map[string]interface{} by a package
// initialiser of the library is a callee of every repository function that calls reflect.Value.Call.
func (x *c03ctx) reflectEdges() map[*ssa.Function][]*ssa.Function {
	if x.refl != nil {
		return x.refl
	}
	c := x.c
	var callers, callees []*ssa.Function
	seen := map[*ssa.Function]bool{}
	for _, f := range c.RepoFunctions() {
		if core.IsCLIOrSample(core.FuncPkg(f)) {
			continue
		}
		for _, ci := range core.Calls(f) {
			if core.IsCallTo(ci, "reflect", "Value.Call") {
				callers = append(callers, f)
				break
			}
		}
		if f.Synthetic == "" || f.Name() != "init" {
			continue
		}
		for _, b := range f.Blocks {
			for _, in := range b.Instrs {
				mu, ok := in.(*ssa.MapUpdate)
				if !ok {
					continue
				}
				mt, ok := mu.Map.Type().Underlying().(*types.Map)
				if !ok {
					continue
				}
				if it, ok := mt.Elem().Underlying().(*types.Interface); !ok || it.NumMethods() != 0 {
					continue
				}
				mi, ok := mu.Value.(*ssa.MakeInterface)
				if !ok {
					continue
				}
				if fn, ok := mi.X.(*ssa.Function); ok && !seen[fn] {
					seen[fn] = true
					callees = append(callees, fn)
				}
			}
		}
	}
	out := map[*ssa.Function][]*ssa.Function{}
	for _, f := range callers {
		out[f] = callees
	}
	if len(callers) == 0 || len(callees) < 10 {
		c.Unresolved("K0", "reflection edges", fmt.Sprintf("%d reflect.Value.Call caller(s), %d registered custom function value(s)", len(callers), len(callees)))
	}
	c.Note("reflection edges: %d caller(s) of reflect.Value.Call x %d registered function value(s)", len(callers), len(callees))
	x.refl = out
	return out
}

// ---------------------------------------------------------------- reviewed (argued) entries

// reviewed looks the construct up in a table of reviewed entries: the n-th occurrence of a construct is covered if
// the table allows at least n occurrences.
type c03argued struct {
	n   int
	why string
}

// ---------------------------------------------------------------- K1 explicit panics

// panicCondition: the innermost entry clause of the panic's block (used to name the site) and the unit atoms on its
// path condition that only speak about the function's parameters.
func (x *c03ctx) panicCondition(p *ssa.Panic) (inner []c03atom, atoms []c03atom) {
	cls := x.e.factsAtBlock(p.Block())
	if len(cls) > 0 {
		inner = cls[0].atoms
	}
	for _, cl := range cls {
		if len(cl.atoms) == 1 && cl.atoms[0].paramRooted() {
			atoms = append(atoms, cl.atoms[0])
		}
	}
	return inner, atoms
}

// k1desc names the guard of a panic in owner. A guard that is the result of a helper (`t, ok := classify(x)`,
// `if !known(x)`) may have been reviewed under the branch fact the helper decides it by (the guard as it reads when the
// helper is inlined): that name is used when a reviewed entry of owner carries it and none carries the literal one.
func (x *c03ctx) k1desc(owner *ssa.Function, inner []c03atom) string {
	// the alternative names of the guard (helper inlined, predicate replaced by what its result implies, comparisons in
	// normal form): the first one a reviewed entry of owner carries is used, the literal one otherwise
	names := x.h5guardNames(inner)
	has := func(desc string) bool {
		prefix := core.FuncKey(owner) + ": panic when " + desc + " <- "
		for k := range c03reviewedK1 {
			if strings.HasPrefix(k, prefix) {
				return true
			}
		}
		return false
	}
	for _, n := range names {
		if has(n) {
			return n
		}
	}
	// no reviewed entry under owner's own name: owner may have been renamed (settled by shape at flush): the first
	// name that has the shape of a reviewed entry
	var shapes []string
	for k := range c03reviewedK1 {
		shapes = append(shapes, c03shape(k))
	}
	for _, n := range names {
		sh := c03shape(core.FuncKey(owner) + ": panic when " + n + " <- ")
		for _, ks := range shapes {
			if strings.HasPrefix(ks, sh) {
				return n
			}
		}
	}
	return names[0]
}

func c03descOf(inner []c03atom) string {
	if len(inner) == 0 {
		return "?"
	}
	var parts []string
	for _, a := range inner {
		parts = append(parts, a.pretty())
	}
	sort.Strings(parts)
	return strings.Join(parts, " || ")
}

// k1pair settles one (panic, call site) pair. `owner` is the function the pair is attributed to: the function
// containing the panic or, after lifting through single-caller unexported helpers, one of its transitive callers;
// inner/atoms are expressed in owner's frame; s is a call site of owner.
func (x *c03ctx) k1pair(owner *ssa.Function, inner, atoms []c03atom, stab []ssa.Instruction, p *ssa.Panic, s ssa.CallInstruction, depth int) bool {
	base := core.FuncKey(owner) + ": panic when " + x.k1desc(owner, inner)
	key := base + " <- " + core.FuncKey(s.Parent())
	args := x.e.siteArgs(s, owner)
	proved, fail := x.k1mech(owner, atoms, stab, p, s, args)
	if proved != "" {
		x.k1out = append(x.k1out, c03k1out{status: core.Discharged, key: key, detail: proved})
		return true
	}
	why := "explicit panic reachable from the entry points: " + fail
	if x.protected(p) {
		x.k1out = append(x.k1out, c03k1out{status: core.Discharged, key: key, detail: "a panic here is recovered before it reaches the public API: every call chain from the entry points passes a deferred recover() (" + why + ")"})
		return true
	}
	if _, exact := c03reviewedK1[key]; !exact {
		// the call sits in an extracted single-caller helper of a reviewed caller: key the pair by that caller
		g := s.Parent()
		for i := 0; i < 3; i++ {
			ls := x.liftable(g)
			if ls == nil {
				break
			}
			g = ls.Parent()
			k2 := base + " <- " + core.FuncKey(g)
			if a, ok := x.takeReviewed("K1", k2, c03reviewedK1); ok {
				x.k1out = append(x.k1out, c03k1out{status: core.Argued, key: k2, detail: a.why + " [not mechanically verified: " + why + "; the call now sits in the single-caller helper " + core.FuncKey(s.Parent()) + "]"})
				return true
			}
		}
	}
	if a, ok := x.takeReviewed("K1", key, c03reviewedK1); ok {
		suffix := ""
		if owner != p.Parent() {
			suffix = "; the panic now sits in the single-caller helper " + core.FuncKey(p.Parent())
		}
		x.k1out = append(x.k1out, c03k1out{status: core.Argued, key: key, detail: a.why + " [not mechanically verified: " + why + suffix + "]"})
		return true
	}
	// lift through a single-caller unexported helper: attribute the pair to the caller, per caller of the caller
	// (unless a reviewed entry of the same shape exists for the pair as it is: then it is a rename, settled at flush)
	if ls := x.liftable(owner); ls != nil && depth < 3 && ls == s && args != nil && !c03shapeKnown(key, c03reviewedK1) {
		g := s.Parent()
		var inner2, atoms2 []c03atom
		okInner := true
		for _, a := range inner {
			if b, ok := a.subst(args); ok {
				inner2 = append(inner2, b)
			} else {
				okInner = false
			}
		}
		if !okInner {
			inner2 = nil
		}
		stab2 := append([]ssa.Instruction{}, stab...)
		for _, a := range atoms {
			if b, ok := a.subst(args); ok && b.paramRooted() {
				atoms2 = append(atoms2, b)
			}
		}
		// facts that hold at the helper's call site narrow the path condition further
		for _, cl := range x.e.factsAtBlock(s.Block()) {
			if len(cl.atoms) == 1 && cl.atoms[0].paramRooted() {
				atoms2 = append(atoms2, cl.atoms[0])
			}
		}
		stab2 = append(stab2, s)
		sites := x.e.callers[g]
		if len(sites) > 0 {
			// tentative: the lifted pairs are only adopted if every one of them is settled; otherwise the pair is
			// reported under its own key
			snapCount := map[string]int{}
			for k, v := range x.argCount {
				snapCount[k] = v
			}
			snapOut, snapPend := len(x.k1out), len(x.pending)
			all := true
			for _, s2 := range sites {
				if cp := core.FuncPkg(s2.Parent()); cp == nil || !core.InRepo(cp) {
					all = false
					break
				}
				if !x.k1pair(g, inner2, atoms2, stab2, p, s2, depth+1) {
					all = false
					break
				}
			}
			if all {
				return true
			}
			x.argCount = snapCount
			x.k1out = x.k1out[:snapOut]
			x.pending = x.pending[:snapPend]
		}
	}
	if depth > 0 {
		return false
	}
	x.pending = append(x.pending, c03pending{rule: "K1", construct: key, why: why, at: p})
	return false
}

// k1mech: the mechanical part of a (panic, call site) pair: the caller establishes the negation of the panic's guard.
// The outcome is cached per (owner, panic, call site): runK1 evaluates all sites of a panic first (see there).
func (x *c03ctx) k1mech(owner *ssa.Function, atoms []c03atom, stab []ssa.Instruction, p *ssa.Panic, s ssa.CallInstruction, args []*c03term) (proved, fail string) {
	ck := c03k1key{owner, p, s}
	if r, ok := x.k1cache[ck]; ok {
		return r[0], r[1]
	}
	defer func() {
		if x.k1cache == nil {
			x.k1cache = map[c03k1key][2]string{}
		}
		x.k1cache[ck] = [2]string{proved, fail}
	}()
	fail = "the panic's guard does not speak about the function's parameters"
	if args != nil {
		for _, a := range atoms {
			na, ok := a.negate().subst(args)
			if !ok {
				continue
			}
			// stability of the atom's memory in every frame on the way down to the panic: from the entry of the panic's
			// function up to the panic, and from the entry of each function the pair was lifted through up to the call
			// of the helper (the lifted atom is a substitution instance, so its field set covers the helper's atom)
			stable := true
			flds, _ := a.t.memFields()
			if a.u != nil {
				f2, _ := a.u.memFields()
				flds = append(flds, f2...)
			}
			for _, upTo := range append([]ssa.Instruction{p}, stab...) {
				if !x.e.stableBetween(nil, upTo, flds) {
					stable = false
					fail = "guarded location may be written inside " + core.FuncKey(upTo.Parent()) + " before the test"
				}
			}
			if !stable {
				continue
			}
			pr := x.e.prove(c03goal{kind: "atom", atom: na, t: na.t}, s, 1)
			if pr.ok {
				proved = "caller establishes " + na.pretty() + ": " + pr.how
				break
			}
			fail = "caller does not establish " + na.pretty() + " (" + pr.how + ")"
		}
	}
	if proved == "" && args != nil && owner == p.Parent() {
		// the guard is not a plain fact about the parameters (a phi, a predicate call, a disjunction): decide it
		// for the arguments of this call
		if how, ok := x.k1siteRefute(p, s, args); ok {
			proved = how
		}
	}
	return proved, fail
}

type c03k1key struct {
	owner *ssa.Function
	p     *ssa.Panic
	s     ssa.CallInstruction
}

type c03k1out struct {
	status, key, detail string
}

// k1commit records the buffered outcomes of one panic site.
func (x *c03ctx) k1commit(p *ssa.Panic) {
	for _, o := range x.k1out {
		if o.status == core.Discharged {
			x.c.OK("K1", o.key, core.InstrPos(p), o.detail)
		} else {
			x.c.Arg("K1", o.key, core.InstrPos(p), o.detail)
		}
	}
	x.k1out = nil
}

func (x *c03ctx) runK1() {
	c := x.c
	for _, f := range x.fns {
		for _, b := range f.Blocks {
			for _, in := range b.Instrs {
				p, ok := in.(*ssa.Panic)
				if !ok {
					continue
				}
				inner, atoms := x.panicCondition(p)
				base := core.FuncKey(f) + ": panic when " + x.k1desc(f, inner)
				sites := x.e.callers[f]
				if len(sites) == 0 {
					x.settle("K1", base+" <- (no static caller)", p, c03reviewedK1, "explicit panic in reachable code whose callers cannot be enumerated")
					continue
				}
				// A reviewed entry says how many call sites of a caller were reviewed. A site that is now discharged
				// mechanically is still one of them: it keeps its slot, so that a further, undischarged call from the same
				// caller is not covered by the slot it would otherwise free. All sites are therefore judged before any
				// reviewed entry is taken.
				for _, s := range sites {
					if cp := core.FuncPkg(s.Parent()); cp == nil || !core.InRepo(cp) {
						continue
					}
					if proved, _ := x.k1mech(f, atoms, nil, p, s, x.e.siteArgs(s, f)); proved != "" {
						key := base + " <- " + core.FuncKey(s.Parent())
						if a, ok := c03reviewedK1[key]; ok && x.argCount["K1\x00"+key] < a.n {
							x.argCount["K1\x00"+key]++
						}
					}
				}
				extSeen := map[string]bool{}
				for _, s := range sites {
					if cp := core.FuncPkg(s.Parent()); cp == nil || !core.InRepo(cp) {
						pn := "?"
						if cp != nil {
							pn = cp.Path()
						}
						if extSeen[pn] {
							continue
						}
						extSeen[pn] = true
						x.settle("K1", base+" <- (callers in package "+pn+")", p, c03reviewedK1, "explicit panic in a callback invoked by a dependency: its guard cannot be established at the call sites")
						continue
					}
					x.k1pair(f, inner, atoms, nil, p, s, 0)
					x.k1commit(p)
				}
			}
		}
	}
	x.flush("K1", c03reviewedK1)
	c.Floor("K1", 40, "(panic site, call site) pairs of the 23 explicit panics in library code")
}

// ---------------------------------------------------------------- K2 reflection

var c03reflectKinds = map[string][]int64{
	"Value.Int":   {2, 3, 4, 5, 6},
	"Value.Uint":  {7, 8, 9, 10, 11, 12},
	"Value.Float": {13, 14},
	"Value.Len":   {17, 18, 21, 23, 24},
}

// total operations of package reflect (never panic for any receiver/argument obtained from ValueOf/TypeOf of a
// non-nil interface; ValueOf(nil).Kind() is Invalid, which is fine).
var c03reflectTotal = map[string]bool{
	"ValueOf": true, "TypeOf": true, "Value.Kind": true, "Value.IsValid": true, "Value.String": true, "DeepEqual": true,
	"Type.Kind": true, "Type.String": true, "Type.Name": true, "Type.PkgPath": true, "Type.Comparable": true,
	"Value.CanInterface": true, "Value.CanSet": true, "Value.CanAddr": true,
}

func c03kindSet(ks []int64) map[int64]bool {
	m := map[int64]bool{}
	for _, k := range ks {
		m[k] = true
	}
	return m
}

// staticReflType evaluates reflect.TypeOf(x) / reflect.ValueOf(x) [.Elem() | .FieldByName("n")]* on static types.
func (x *c03ctx) staticReflType(v ssa.Value, depth int) (types.Type, string) {
	if depth > 6 {
		return nil, "too deep"
	}
	call, ok := v.(*ssa.Call)
	if !ok {
		return nil, "not a reflect call chain"
	}
	o := core.CalleeObj(call)
	if o == nil || o.Pkg() == nil || o.Pkg().Path() != "reflect" {
		return nil, "not a reflect call chain"
	}
	cc := call.Common()
	var recv ssa.Value
	args := cc.Args
	if cc.IsInvoke() {
		recv = cc.Value
	} else if len(args) > 0 {
		recv, args = args[0], args[1:]
	}
	switch core.FuncName(o) {
	case "ValueOf", "TypeOf":
		mi, ok := recv.(*ssa.MakeInterface)
		if !ok {
			return nil, "operand has no static type (interface value)"
		}
		return mi.X.Type(), ""
	case "Value.Elem", "(interface).Elem", "Type.Elem":
		t, why := x.staticReflType(recv, depth+1)
		if t == nil {
			return nil, why
		}
		switch u := t.Underlying().(type) {
		case *types.Pointer:
			return u.Elem(), ""
		case *types.Slice:
			if core.FuncName(o) != "Value.Elem" {
				return u.Elem(), ""
			}
		case *types.Array:
			if core.FuncName(o) != "Value.Elem" {
				return u.Elem(), ""
			}
		case *types.Map:
			if core.FuncName(o) != "Value.Elem" {
				return u.Elem(), ""
			}
		case *types.Chan:
			if core.FuncName(o) != "Value.Elem" {
				return u.Elem(), ""
			}
		}
		return nil, "Elem() of static type " + t.String()
	case "Value.FieldByName":
		t, why := x.staticReflType(recv, depth+1)
		if t == nil {
			return nil, why
		}
		st, ok := t.Underlying().(*types.Struct)
		if !ok {
			return nil, "FieldByName on non-struct static type " + t.String()
		}
		name, ok := x.constString(args[0])
		if !ok {
			return nil, "FieldByName with a name that is not a constant (or a field only ever assigned one constant)"
		}
		if ft := c03findField(st, name, 0); ft != nil {
			return ft, ""
		}
		return nil, "struct " + t.String() + " of the toolchain in use has no field " + name
	}
	return nil, "unsupported reflect operation " + core.FuncName(o)
}

// c03findField looks a field up by name like reflect's FieldByName (through embedded structs and pointers to them).
func c03findField(st *types.Struct, name string, depth int) types.Type {
	if depth > 4 {
		return nil
	}
	for i := 0; i < st.NumFields(); i++ {
		if st.Field(i).Name() == name {
			return st.Field(i).Type()
		}
	}
	for i := 0; i < st.NumFields(); i++ {
		f := st.Field(i)
		if !f.Embedded() {
			continue
		}
		t := f.Type()
		if p, ok := t.Underlying().(*types.Pointer); ok {
			t = p.Elem()
		}
		if es, ok := t.Underlying().(*types.Struct); ok {
			if ft := c03findField(es, name, depth+1); ft != nil {
				return ft
			}
		}
	}
	return nil
}

// constString: the value is a string constant, or a load of a struct field that is only ever assigned one string
// constant in the whole program (e.g. a field name fixed by the constructor).
func (x *c03ctx) constString(v ssa.Value) (string, bool) {
	if k, ok := v.(*ssa.Const); ok && k.Value != nil && k.Value.Kind() == constant.String {
		return constant.StringVal(k.Value), true
	}
	fld := c03fieldOfValue(v)
	if fld == nil || fld.Pkg() == nil {
		return "", false
	}
	val, n := "", 0
	for f := range x.c.AllFunctions() {
		if f.Blocks == nil || core.FuncPkg(f) != fld.Pkg() {
			continue
		}
		for _, w := range core.Writes(f) {
			if w.Kind != "field" || w.Field != fld {
				continue
			}
			k, ok := w.Val.(*ssa.Const)
			if !ok || k.Value == nil || k.Value.Kind() != constant.String {
				return "", false
			}
			if n > 0 && constant.StringVal(k.Value) != val {
				return "", false
			}
			val = constant.StringVal(k.Value)
			n++
		}
	}
	return val, n > 0
}

func c03basicKinds(t types.Type) (isInt, isUint, isFloat bool) {
	b, ok := t.Underlying().(*types.Basic)
	if !ok {
		return
	}
	switch {
	case b.Info()&types.IsUnsigned != 0:
		isUint = true
	case b.Info()&types.IsInteger != 0:
		isInt = true
	case b.Info()&types.IsFloat != 0:
		isFloat = true
	}
	return
}

func (x *c03ctx) runK2() {
	c := x.c
	e := x.e
	// repository functions plus the reachable functions of the companion library go-corelib (its csv line counter
	// reads an unexported field of encoding/csv.Reader by name)
	fns := append([]*ssa.Function{}, x.fns...)
	var dep []*ssa.Function
	for f := range x.reach {
		if p := core.FuncPkg(f); p != nil && f.Blocks != nil && strings.HasPrefix(p.Path(), "github.com/jf-tech/go-corelib") {
			dep = append(dep, f)
		}
	}
	sort.Slice(dep, func(i, j int) bool { return dep[i].String() < dep[j].String() })
	fns = append(fns, dep...)
	for _, f := range fns {
		for _, ci := range core.Calls(f) {
			o := core.CalleeObj(ci)
			if o == nil || o.Pkg() == nil || o.Pkg().Path() != "reflect" {
				continue
			}
			call, isCall := ci.(*ssa.Call)
			name := strings.Replace(core.FuncName(o), "(interface).", "Type.", 1)
			key := core.FuncKey(f) + " calls reflect." + name
			pos := core.InstrPos(ci)
			if c03reflectTotal[name] {
				c.OK("K2", key, pos, "total operation")
				continue
			}
			if !isCall {
				x.settle("K2", key, ci, c03reviewedK2, "reflect operation in go/defer")
				continue
			}
			cc := call.Common()
			var recv ssa.Value
			args := cc.Args
			if cc.IsInvoke() {
				recv = cc.Value
			} else if len(args) > 0 {
				recv, args = args[0], args[1:]
			}
			typeIsFunc := func(t ssa.Value) c03proof {
				// T = reflect.TypeOf(v) with Kind()==Func of ValueOf(v) / T.Kind()
				tt := e.termOf(t)
				if tt.op == "call" && tt.name == "reflect.TypeOf" {
					g := c03goal{kind: "kind", t: &c03term{op: "call", name: "reflect.ValueOf", args: tt.args}, kinds: c03kindSet([]int64{19})}
					if pr := e.prove(g, ci, 0); pr.ok {
						return pr
					}
				}
				if st, _ := x.staticReflType(t, 0); st != nil {
					if _, isSig := st.Underlying().(*types.Signature); isSig {
						return c03proof{ok: true, how: "static type is a func type"}
					}
				}
				g := c03goal{kind: "atom", atom: c03atom{kind: "cmp", t: &c03term{op: "invoke", name: "(reflect.Type).Kind", args: []*c03term{tt}}, op: token.EQL, k: 19, pos: true}}
				g.t = g.atom.t
				return e.prove(g, ci, 0)
			}
			switch name {
			case "Value.Int", "Value.Uint", "Value.Float", "Value.Len":
				if st, _ := x.staticReflType(recv, 0); st != nil {
					i, u, fl := c03basicKinds(st)
					if (name == "Value.Int" && i) || (name == "Value.Uint" && u) || (name == "Value.Float" && fl) {
						c.OK("K2", key, pos, "receiver's static type "+st.String()+" (struct definition of the toolchain in use) has the required kind")
						continue
					}
					x.settle("K2", key, ci, c03reviewedK2, "receiver's static type "+st.String()+" does not have the kind "+name+" requires")
					continue
				} else if _, why := x.staticReflType(recv, 0); strings.Contains(why, "has no field") {
					c.Bad("K2", key, pos, why)
					continue
				}
				pr := e.prove(c03goal{kind: "kind", t: e.termOf(recv), kinds: c03kindSet(c03reflectKinds[name])}, ci, 0)
				if pr.ok {
					c.OK("K2", key, pos, pr.how)
				} else {
					x.settle("K2", key, ci, c03reviewedK2, name+"() panics unless Kind() is in its domain: "+pr.how)
				}
			case "Value.Elem", "Value.FieldByName":
				if st, why := x.staticReflType(call, 0); st != nil {
					c.OK("K2", key, pos, "evaluated on the static type: yields "+st.String())
				} else if strings.Contains(why, "has no field") {
					c.Bad("K2", key, pos, why+": the resulting zero Value makes the following accessor panic")
				} else {
					kinds := []int64{20, 22} // Interface, Ptr
					if name == "Value.FieldByName" {
						kinds = []int64{25} // Struct
					}
					pr := e.prove(c03goal{kind: "kind", t: e.termOf(recv), kinds: c03kindSet(kinds)}, ci, 0)
					if pr.ok && name == "Value.Elem" {
						c.OK("K2", key, pos, pr.how)
					} else {
						x.settle("K2", key, ci, c03reviewedK2, name+" on a value whose type is not statically known ("+why+") and without a dominating Kind() test")
					}
				}
			case "Type.Elem":
				if st, _ := x.staticReflType(call, 0); st != nil {
					c.OK("K2", key, pos, "evaluated on the static type: yields "+st.String())
					continue
				}
				// T.In(i).Elem() under IsVariadic(T) && i == NumIn(T)-1
				rt := e.termOf(recv)
				okv := false
				why := "receiver is not the parameter type T.In(i) of a function type"
				if rt.op == "invoke" && rt.name == "(reflect.Type).In" && len(rt.args) == 2 {
					T, I := rt.args[0], rt.args[1]
					g1 := c03goal{kind: "atom", atom: c03atom{kind: "true", t: &c03term{op: "invoke", name: "(reflect.Type).IsVariadic", args: []*c03term{T}}, pos: true}}
					g1.t = g1.atom.t
					last := &c03term{op: "bin", name: "-", args: []*c03term{{op: "invoke", name: "(reflect.Type).NumIn", args: []*c03term{T}}, {op: "const", name: "1"}}}
					g2 := c03goal{kind: "atom", atom: c03atom{kind: "rel", t: I, u: last, op: token.EQL, pos: true}}
					g2.t = g2.atom.t
					p1, p2 := e.prove(g1, ci, 0), e.prove(g2, ci, 0)
					if p1.ok && p2.ok {
						okv = true
						why = "dominated by IsVariadic() && index == NumIn()-1 on the same function type: the parameter is the variadic slice"
					} else if !p1.ok {
						why = "not dominated by an IsVariadic() test of the same function type (" + p1.how + ")"
					} else {
						why = "IsVariadic() alone does not make parameter i a slice: no dominating `i == NumIn()-1` test (" + p2.how + ")"
					}
				}
				if okv {
					c.OK("K2", key, pos, why)
				} else {
					x.settle("K2", key, ci, c03reviewedK2, "Type.Elem() panics unless the type is Array/Chan/Map/Ptr/Slice: "+why)
				}
			case "Type.NumIn", "Type.NumOut", "Type.IsVariadic":
				pr := typeIsFunc(recv)
				if pr.ok {
					c.OK("K2", key, pos, "type is a func type: "+pr.how)
				} else {
					x.settle("K2", key, ci, c03reviewedK2, name+"() panics unless the type's Kind is Func: "+pr.how)
				}
			case "Type.In", "Type.Out":
				pr := typeIsFunc(recv)
				if !pr.ok {
					x.settle("K2", key, ci, c03reviewedK2, name+"() panics unless the type's Kind is Func: "+pr.how)
					continue
				}
				cnt := "(reflect.Type).NumIn"
				if name == "Type.Out" {
					cnt = "(reflect.Type).NumOut"
				}
				nt := &c03term{op: "invoke", name: cnt, args: []*c03term{e.termOf(recv)}}
				var pr2 c03proof
				if k, isK := c03intConst(args[0]); isK {
					g := c03goal{kind: "atom", atom: c03atom{kind: "cmp", t: nt, op: token.GTR, k: k, pos: true}}
					g.t = nt
					pr2 = e.prove(g, ci, 0)
				} else {
					g := c03goal{kind: "atom", atom: c03atom{kind: "rel", t: e.termOf(args[0]), u: nt, op: token.LSS, pos: true}}
					g.t = g.atom.t
					pr2 = e.prove(g, ci, 0)
				}
				if pr2.ok {
					c.OK("K2", key, pos, "func type and index bound: "+pr2.how)
				} else {
					x.settle("K2", key, ci, c03reviewedK2, name+"(i) panics unless 0 <= i < "+cnt[len("(reflect.Type)."):]+"(): "+pr2.how)
				}
			case "Type.Implements":
				if st, why := x.staticReflType(args[0], 0); st != nil {
					if _, isI := st.Underlying().(*types.Interface); isI {
						c.OK("K2", key, pos, "argument is the static interface type "+st.String())
						continue
					}
					x.settle("K2", key, ci, c03reviewedK2, "Implements argument is not an interface type: "+st.String())
				} else {
					x.settle("K2", key, ci, c03reviewedK2, "Implements argument not statically known: "+why)
				}
			case "Value.Interface":
				// element of the result slice of Value.Call (valid by the contract of Call), or ValueOf(x)
				src := recv
				if u, ok := src.(*ssa.UnOp); ok && u.Op == token.MUL {
					if ia, ok := u.X.(*ssa.IndexAddr); ok {
						if rc, ok := ia.X.(*ssa.Call); ok && core.IsCallTo(rc, "reflect", "Value.Call") {
							c.OK("K2", key, pos, "receiver is an element of the result of Value.Call (always a valid, exported Value); the index is checked under K5")
							continue
						}
					}
				}
				x.settle("K2", key, ci, c03reviewedK2, "Interface() panics on an invalid Value or one obtained from an unexported field: receiver is not an element of a Value.Call result")
			case "Zero":
				if x.nonNilReflType(c03args0(cc), 0) {
					c.OK("K2", key, pos, "the Type argument is a result of Type.In/Out/Elem/TypeOf on every path (never a nil Type)")
				} else {
					x.settle("K2", key, ci, c03reviewedK2, "reflect.Zero panics on a nil Type: argument is not derived from Type.In/Out/Elem/TypeOf on every path")
				}
			case "Value.Call":
				ok, why := x.staticCallConforms(recv, args)
				if ok {
					c.OK("K2", key, pos, why)
				} else {
					x.settle("K2", key, ci, c03reviewedK2, "reflect.Value.Call panics on wrong arity or non-assignable argument types: "+why)
				}
			default:
				x.settle("K2", key, ci, c03reviewedK2, "reflect operation not in the classified table (preconditions unknown to the rule)")
			}
		}
	}
	x.flush("K2", c03reviewedK2)
	c.Floor("K2", 45, "calls into package reflect in transform/validate, value normalisation and XMLStreamReader.AtLine")
}

func c03args0(cc *ssa.CallCommon) ssa.Value {
	if len(cc.Args) > 0 {
		return cc.Args[0]
	}
	return nil
}

// nonNilReflType: a reflect.Type value that cannot be the nil interface.
func (x *c03ctx) nonNilReflType(v ssa.Value, depth int) bool {
	if v == nil || depth > 5 {
		return false
	}
	switch y := v.(type) {
	case *ssa.Phi:
		for _, ed := range y.Edges {
			if !x.nonNilReflType(ed, depth+1) {
				return false
			}
		}
		return len(y.Edges) > 0
	case *ssa.Call:
		if o := core.CalleeObj(y); o != nil && o.Pkg() != nil && o.Pkg().Path() == "reflect" {
			switch strings.Replace(core.FuncName(o), "(interface).", "Type.", 1) {
			case "Type.In", "Type.Out", "Type.Elem", "Type.Key":
				return true
			case "TypeOf":
				if mi, ok := y.Call.Args[0].(*ssa.MakeInterface); ok {
					_ = mi
					return true
				}
			}
			return false
		}
		f := y.Call.StaticCallee()
		if f == nil || f.Blocks == nil || f.Signature.Results().Len() != 1 {
			return false
		}
		n := 0
		for _, b := range f.Blocks {
			if rt, ok := b.Instrs[len(b.Instrs)-1].(*ssa.Return); ok {
				n++
				if !x.nonNilReflType(rt.Results[0], depth+1) {
					return false
				}
			}
		}
		return n > 0
	}
	return false
}

// staticCallConforms: fn.Call(args) where fn = reflect.ValueOf(f) with f of a static func type and args is a slice
// literal of reflect.ValueOf(a_i) whose static types are assignable to the parameters; arity must match.
func (x *c03ctx) staticCallConforms(recv ssa.Value, args []ssa.Value) (bool, string) {
	st, why := x.staticReflType(recv, 0)
	if st == nil {
		return false, "the function value's type is not statically known (" + why + "): neither the number nor the types of the arguments are validated against it"
	}
	sig, ok := st.Underlying().(*types.Signature)
	if !ok {
		return false, "callee static type " + st.String() + " is not a function"
	}
	if len(args) != 1 {
		return false, "unexpected Call shape"
	}
	sl, ok := args[0].(*ssa.Slice)
	if !ok {
		return false, "argument list is not a slice literal (built dynamically)"
	}
	al, ok := sl.X.(*ssa.Alloc)
	if !ok {
		return false, "argument list is not a slice literal (built dynamically)"
	}
	arr, ok := al.Type().(*types.Pointer).Elem().Underlying().(*types.Array)
	if !ok {
		return false, "argument list is not a slice literal"
	}
	if sig.Variadic() || int(arr.Len()) != sig.Params().Len() {
		return false, fmt.Sprintf("%d argument(s) for a function with %d parameter(s)", arr.Len(), sig.Params().Len())
	}
	elems := map[int64]ssa.Value{}
	for _, u := range core.Referrers(al) {
		ia, ok := u.(*ssa.IndexAddr)
		if !ok {
			continue
		}
		k, isK := c03intConst(ia.Index)
		for _, uu := range core.Referrers(ia) {
			if stv, ok := uu.(*ssa.Store); ok && stv.Addr == ssa.Value(ia) {
				if !isK {
					return false, "argument slot written with a non-constant index"
				}
				elems[k] = stv.Val
			}
		}
	}
	for i := 0; i < sig.Params().Len(); i++ {
		v, ok := elems[int64(i)]
		if !ok {
			return false, fmt.Sprintf("argument %d is never set (zero Value)", i)
		}
		at, why := x.staticReflType(v, 0)
		if at == nil {
			return false, fmt.Sprintf("argument %d has no static type (%s)", i, why)
		}
		if !types.AssignableTo(at, sig.Params().At(i).Type()) {
			return false, fmt.Sprintf("argument %d of static type %s is not assignable to %s", i, at, sig.Params().At(i).Type())
		}
	}
	return true, "callee has the static func type " + types.TypeString(st, func(p *types.Package) string { return p.Name() }) + " and the argument literal matches it in number and types"
}

// ---------------------------------------------------------------- K3 unchecked type assertions

func (x *c03ctx) runK3() {
	c := x.c
	e := x.e
	for _, f := range x.fns {
		for _, b := range f.Blocks {
			for _, in := range b.Instrs {
				ta, ok := in.(*ssa.TypeAssert)
				if !ok || ta.CommaOk {
					continue
				}
				tname := types.TypeString(ta.AssertedType, func(p *types.Package) string { return p.Name() })
				key := core.FuncKey(f) + " asserts .(" + tname + ")"
				pos := core.InstrPos(ta)
				// 1. dominating type/kind/predicate facts (interprocedural)
				g := c03goal{kind: "type", t: e.termOf(ta.X), types: []types.Type{ta.AssertedType}}
				pr := e.prove(g, ta, 0)
				if pr.ok {
					c.OK("K3", key, pos, pr.how)
					continue
				}
				// 2. closed set of dynamic type sources
				d := x.dynTypes(ta.X)
				if d.unknown == "" && !d.hasNil && len(d.types) > 0 {
					all := true
					for _, t := range d.types {
						if !c03typeIn(t, []types.Type{ta.AssertedType}) {
							all = false
						}
					}
					if all {
						c.OK("K3", key, pos, "every source of the operand's dynamic type is "+d.describe())
						continue
					}
				}
				// 2b. non-nil result of reflect.Value.Call whose result type implements the asserted interface
				if ok, how := x.callResultImplements(ta); ok {
					c.OK("K3", key, pos, how)
					continue
				}
				// 3. ValidateSchema / CreateFormatReader pair
				if ok, how := x.formatRuntimePair(f, ta); ok {
					c.OK("K3", key, pos, how)
					continue
				}
				why := "unchecked type assertion: " + pr.how
				if d.unknown != "" {
					why += "; dynamic type sources not closed: " + d.unknown
				} else {
					why += "; dynamic type sources " + d.describe()
				}
				x.settle("K3", key, ta, c03reviewedK3, why)
			}
		}
	}
	x.flush("K3", c03reviewedK3)
	c.Floor("K3", 20, "type assertions without comma-ok in reachable library code")
}

// callResultImplements: x = results[k].Interface() with results = fn.Call(...): x is proven non-nil and the k-th result
// type of fn implements the asserted interface (static func type, or a load-time validator checked Implements).
func (x *c03ctx) callResultImplements(ta *ssa.TypeAssert) (bool, string) {
	iface, isI := ta.AssertedType.Underlying().(*types.Interface)
	if !isI {
		return false, ""
	}
	ic, ok := ta.X.(*ssa.Call)
	if !ok || !core.IsCallTo(ic, "reflect", "Value.Interface") {
		return false, ""
	}
	ld, ok := ic.Call.Args[0].(*ssa.UnOp)
	if !ok || ld.Op != token.MUL {
		return false, ""
	}
	ia, ok := ld.X.(*ssa.IndexAddr)
	if !ok {
		return false, ""
	}
	k, isK := c03intConst(ia.Index)
	rc, ok := ia.X.(*ssa.Call)
	if !ok || !isK || !core.IsCallTo(rc, "reflect", "Value.Call") {
		return false, ""
	}
	pr := x.e.prove(c03goal{kind: "notnil", t: x.e.termOf(ta.X)}, ta, 0)
	if !pr.ok {
		return false, ""
	}
	fnV := rc.Call.Args[0]
	if st, _ := x.staticReflType(fnV, 0); st != nil {
		if sig, ok := st.Underlying().(*types.Signature); ok && int(k) < sig.Results().Len() {
			if types.Implements(sig.Results().At(int(k)).Type(), iface) {
				return true, fmt.Sprintf("non-nil (%s) result %d of a call through a static func type whose result type %s implements the asserted interface", pr.how, k, sig.Results().At(int(k)).Type())
			}
		}
		return false, ""
	}
	ft := x.e.termOf(fnV)
	if ft.op != "call" || ft.name != "reflect.ValueOf" {
		return false, ""
	}
	want := c03abs(&c03term{op: "invoke", name: "(reflect.Type).Out", args: []*c03term{{op: "call", name: "reflect.TypeOf", args: ft.args}, {op: "const", name: fmt.Sprint(k)}}})
	for i := range x.valid {
		v := &x.valid[i]
		if v.atom.kind != "true" || !v.atom.pos || v.atom.t.op != "invoke" || v.atom.t.name != "(reflect.Type).Implements" || len(v.atom.t.args) != 2 {
			continue
		}
		if c03abs(v.atom.t.args[0]) != want {
			continue
		}
		// the interface type argument of the validator's Implements call, evaluated statically
		cond := v.ifi.Cond
		if u, ok := cond.(*ssa.UnOp); ok && u.Op == token.NOT {
			cond = u.X
		}
		call, ok := cond.(*ssa.Call)
		if !ok || len(call.Call.Args) != 1 {
			continue
		}
		if st, _ := x.staticReflType(call.Call.Args[0], 0); st != nil && types.Identical(st, ta.AssertedType) {
			return true, fmt.Sprintf("non-nil (%s) result %d of the called function, and %s rejects the schema unless Out(%d) implements %s", pr.how, k, core.FuncKey(v.fn), k, st)
		}
	}
	return false, ""
}

// formatRuntimePair: the assertion is on the formatRuntime parameter of a FileFormat's CreateFormatReader; the
// same type's ValidateSchema returns exactly that type; and the only caller passes the value that the same
// FileFormat value's ValidateSchema produced (both are stored into one struct by one function and loaded from
// the same struct at the call).
func (x *c03ctx) formatRuntimePair(f *ssa.Function, ta *ssa.TypeAssert) (bool, string) {
	p, ok := ta.X.(*ssa.Parameter)
	if !ok || f.Signature.Recv() == nil || f.Name() != "CreateFormatReader" {
		return false, ""
	}
	recvNamed := core.NamedOf(f.Signature.Recv().Type())
	if recvNamed == nil || recvNamed.Obj().Pkg() == nil {
		return false, ""
	}
	vs := x.c.MethodOfPkg(recvNamed.Obj().Pkg(), recvNamed.Obj().Name(), "ValidateSchema")
	if vs == nil {
		return false, ""
	}
	dc := &c03dynCtx{e: x.e, busy: map[ssa.Value]bool{}, busyF: map[string]bool{}}
	d := dc.ofResult(vs, 0, 0)
	if d.unknown != "" || d.hasNil || len(d.types) != 1 || !types.Identical(d.types[0], ta.AssertedType) {
		return false, ""
	}
	// the wiring: every call site of CreateFormatReader passes recv = S.A and arg = S.B of one struct value S, and
	// every store of S.B is the first result of A'.ValidateSchema with A' stored to S.A in the same function.
	pi := c03paramIndex(p)
	sites := x.e.callers[f]
	if len(sites) == 0 {
		return false, ""
	}
	for _, s := range sites {
		cc := s.Common()
		if !cc.IsInvoke() || pi-1 >= len(cc.Args) || pi < 1 {
			return false, ""
		}
		rt, at := x.e.termOf(cc.Value), x.e.termOf(cc.Args[pi-1])
		if rt.op != "field" || at.op != "field" || !c03eq(rt.args[0], at.args[0]) {
			return false, ""
		}
		fa, fb := rt.fld, at.fld
		n := 0
		for _, g := range x.fns {
			var storeA, storeB *ssa.Store
			for _, w := range core.Writes(g) {
				st, ok := w.Instr.(*ssa.Store)
				if !ok || w.Kind != "field" {
					continue
				}
				if w.Field == fa {
					storeA = st
				}
				if w.Field == fb {
					storeB = st
				}
			}
			if storeB == nil {
				continue
			}
			n++
			if storeA == nil || storeA.Addr.(*ssa.FieldAddr).X != storeB.Addr.(*ssa.FieldAddr).X {
				return false, ""
			}
			// (format, runtime) pairs that reach the two stores: directly, or through the parameters of an extracted
			// constructor (then checked at each of its call sites)
			type pair struct{ a, b ssa.Value }
			pairs := []pair{{storeA.Val, storeB.Val}}
			pa, isPA := storeA.Val.(*ssa.Parameter)
			pb, isPB := storeB.Val.(*ssa.Parameter)
			if isPA && isPB {
				sites := x.e.callers[g]
				if len(sites) == 0 {
					return false, ""
				}
				pairs = nil
				ia, ib := c03paramIndex(pa), c03paramIndex(pb)
				for _, cs := range sites {
					cc2 := cs.Common()
					if cc2.IsInvoke() || ia >= len(cc2.Args) || ib >= len(cc2.Args) {
						return false, ""
					}
					pairs = append(pairs, pair{cc2.Args[ia], cc2.Args[ib]})
				}
			}
			for _, pr := range pairs {
				ex, ok := pr.b.(*ssa.Extract)
				if !ok || ex.Index != 0 {
					return false, ""
				}
				call, ok := ex.Tuple.(*ssa.Call)
				if !ok || !call.Call.IsInvoke() || call.Call.Method.Name() != "ValidateSchema" || call.Call.Value != pr.a {
					return false, ""
				}
			}
		}
		if n == 0 {
			return false, ""
		}
	}
	return true, "paired producer/consumer: " + core.FuncKey(vs) + " returns only " + d.describe() + ", and the handler stores a FileFormat together with the result of its own ValidateSchema and passes both to CreateFormatReader"
}

// ---------------------------------------------------------------- K4 xpath evaluation

var c03xpathTotal = map[string]bool{"Compile": true, "MustCompile": true, "Expr.Select": true, "Expr.String": true, "NodeIterator.Current": true}
var c03xpathEval = map[string]bool{"NodeIterator.MoveNext": true, "Expr.Evaluate": true, "Select": true}

const c03xpathPkg = "github.com/antchfx/xpath"

// hasRecover: the function defers (dominating `site`) a closure that calls recover().
func c03deferRecoverDominates(f *ssa.Function, site ssa.Instruction) bool {
	for _, b := range f.Blocks {
		for _, in := range b.Instrs {
			d, ok := in.(*ssa.Defer)
			if !ok {
				continue
			}
			var fn *ssa.Function
			switch v := d.Call.Value.(type) {
			case *ssa.MakeClosure:
				fn, _ = v.Fn.(*ssa.Function)
			case *ssa.Function:
				fn = v
			}
			if fn == nil || fn.Blocks == nil {
				continue
			}
			rec := false
			for _, ci := range core.Calls(fn) {
				if bi, ok := ci.Common().Value.(*ssa.Builtin); ok && bi.Name() == "recover" {
					rec = true
				}
			}
			if rec && core.Dominates(d, site) {
				return true
			}
		}
	}
	return false
}

func (x *c03ctx) runK4() {
	c := x.c
	unprot := x.unprotected()
	n := 0
	evalBy := map[*ssa.Function]int{}
	for _, f := range x.fns {
		for _, ci := range core.Calls(f) {
			o := core.CalleeObj(ci)
			if o == nil || o.Pkg() == nil || o.Pkg().Path() != c03xpathPkg {
				continue
			}
			name := core.FuncName(o)
			key := core.FuncKey(f) + " calls xpath." + name
			pos := core.InstrPos(ci)
			switch {
			case c03xpathTotal[name]:
				c.OK("K4", key, pos, "does not evaluate (compilation errors are returned; Select/Current only build or read the iterator)")
			case c03xpathEval[name]:
				// an evaluation inside an iterator closure / unexported helper that is only ever invoked by exported
				// functions is an evaluation by each of these exported functions (one obligation per owner and site)
				if owners := x.k4owners(f); len(owners) > 0 {
					for _, w := range owners {
						n++
						evalBy[w]++
						wkey := core.FuncKey(w) + " calls xpath." + name
						via := " (the call sits in " + core.FuncKey(f) + ", which only " + core.FuncKey(w) + " and other exported functions invoke)"
						switch {
						case c03deferRecoverDominates(f, ci):
							c.OK("K4", wkey, pos, "dominated by a deferred recover in the same function"+via)
						case !x.k4unprotectedVia(w, f):
							c.OK("K4", wkey, pos, "every call chain from the entry points passes a deferred recover before this evaluation"+via)
						default:
							chain := []string{core.FuncKey(f), core.FuncKey(w)}
							for g := w; unprot[g] != g && unprot[g] != nil && len(chain) < 12; g = unprot[g] {
								chain = append(chain, core.FuncKey(unprot[g]))
							}
							c.Bad("K4", wkey, pos, "the xpath engine reports evaluation errors by panicking (e.g. numeric comparison against empty text) and no recover() protects the chain "+strings.Join(chain, " <- "))
						}
					}
					continue
				}
				n++
				evalBy[f]++
				if c03deferRecoverDominates(f, ci) {
					c.OK("K4", key, pos, "dominated by a deferred recover in the same function")
					continue
				}
				if _, un := unprot[f]; !un {
					c.OK("K4", key, pos, "every call chain from the entry points passes a deferred recover before reaching this function")
					continue
				}
				chain := []string{core.FuncKey(f)}
				for g := f; unprot[g] != g && len(chain) < 12; g = unprot[g] {
					chain = append(chain, core.FuncKey(unprot[g]))
				}
				c.Bad("K4", key, pos, "the xpath engine reports evaluation errors by panicking (e.g. numeric comparison against empty text) and no recover() protects the chain "+strings.Join(chain, " <- "))
			default:
				c.Unknown("K4", key, pos, "xpath API not classified as evaluating / non-evaluating")
			}
		}
	}
	c.Floor("K4", 4, "xpath API calls in idr/query.go and navigator.go")
	// anchor by role: each exported query wrapper of package idr (exported API, looked up by name) evaluates
	var missing []string
	for _, want := range []string{"MatchAll", "MatchAny", "MatchSingle"} {
		found := false
		for w, k := range evalBy {
			if k > 0 && w.Parent() == nil && w.Signature.Recv() == nil && w.Name() == want && w.Pkg != nil && w.Pkg.Pkg.Name() == "idr" {
				found = true
			}
		}
		if !found {
			missing = append(missing, want)
		}
	}
	if n < 3 || len(missing) > 0 {
		c.Unresolved("K4", "xpath evaluation sites", fmt.Sprintf("only %d evaluating call(s) found; MatchAny/MatchAll/MatchSingle are expected to evaluate (none found for: %s)", n, strings.Join(missing, ", ")))
	}
}

// unprotected: functions reachable from the entry points along call edges that are not dominated by a deferred
// recover in the caller (value: predecessor on one such chain).
func (x *c03ctx) unprotected() map[*ssa.Function]*ssa.Function {
	if x.unprot != nil {
		return x.unprot
	}
	cg := x.c.CallGraph()
	unprot := map[*ssa.Function]*ssa.Function{}
	var work []*ssa.Function
	for _, r := range x.roots {
		unprot[r] = r
		work = append(work, r)
	}
	extra := x.reflectEdges()
	for len(work) > 0 {
		f := work[0]
		work = work[1:]
		var next []*ssa.Function
		if n := cg.Nodes[f]; n != nil {
			for _, ed := range n.Out {
				if ed.Site != nil && f.Blocks != nil && c03deferRecoverDominates(f, ed.Site) {
					continue
				}
				next = append(next, ed.Callee.Func)
			}
		}
		next = append(next, extra[f]...)
		sort.Slice(next, func(i, j int) bool { return next[i].String() < next[j].String() })
		for _, g := range next {
			if g != nil {
				if _, seen := unprot[g]; !seen {
					unprot[g] = f
					work = append(work, g)
				}
			}
		}
	}
	x.unprot = unprot
	return unprot
}

// protected: a panic raised at the instruction cannot reach the public API.
func (x *c03ctx) protected(at ssa.Instruction) bool {
	f := at.Parent()
	if c03deferRecoverDominates(f, at) {
		return true
	}
	_, un := x.unprotected()[f]
	return !un
}

// ---------------------------------------------------------------- schemas (A7) and K5

func (x *c03ctx) resolveSchemas() {
	c := x.c
	var problems []string
	x.schemas, problems = c03loadSchemas(c)
	for _, p := range problems {
		c.Unresolved("K5", "JSON schema constant", p)
	}
	if len(x.schemas) < 7 {
		c.Unresolved("K5", "JSON schema constants", fmt.Sprintf("only %d JSONSchema* constants found", len(x.schemas)))
	}
	x.rootSchema = map[*types.Named]*c03schema{}
	// schema constants used by SchemaValidate calls per function; Unmarshal targets per function
	type use struct {
		schemas []*c03schema
		targets []*types.Named
	}
	var allSchemas []*c03schema
	var allTargets []*types.Named
	seenT := map[*types.Named]bool{}
	for _, f := range x.fns {
		var u use
		for _, ci := range core.Calls(f) {
			o := core.CalleeObj(ci)
			if o == nil || o.Pkg() == nil {
				continue
			}
			if o.Name() == "SchemaValidate" && core.InRepo(o.Pkg()) {
				if s := x.schemaOfValue(ci.Common().Args[len(ci.Common().Args)-1], f); s != nil {
					u.schemas = append(u.schemas, s)
					allSchemas = append(allSchemas, s)
				} else {
					c.Unresolved("K5", "schema argument in "+core.FuncKey(f), "SchemaValidate called with a schema that is not one of the JSONSchema* constants")
				}
			}
			if o.Pkg().Path() == "encoding/json" && o.Name() == "Unmarshal" {
				mi, ok := ci.Common().Args[1].(*ssa.MakeInterface)
				if !ok {
					continue
				}
				if n := core.NamedOf(mi.X.Type()); n != nil {
					u.targets = append(u.targets, n)
					if !seenT[n] {
						seenT[n] = true
						allTargets = append(allTargets, n)
					}
				}
			}
		}
		if len(u.schemas) == 1 && len(u.targets) == 1 {
			x.rootSchema[u.targets[0]] = u.schemas[0]
		}
	}
	// remaining targets: unique schema whose top-level properties contain all the target's tagged top-level fields
	for _, t := range allTargets {
		if x.rootSchema[t] != nil {
			continue
		}
		tags := c03topTags(t)
		if len(tags) == 0 {
			continue
		}
		var cands []*c03schema
		seen := map[*c03schema]bool{}
		for _, s := range allSchemas {
			if seen[s] {
				continue
			}
			seen[s] = true
			props, _ := s.root["properties"].(map[string]interface{})
			all := true
			for _, tg := range tags {
				if _, ok := props[tg]; !ok {
					all = false
				}
			}
			if all {
				cands = append(cands, s)
			}
		}
		if len(cands) == 1 {
			x.rootSchema[t] = cands[0]
		}
	}
	var ds []string
	for t, s := range x.rootSchema {
		ds = append(ds, t.Obj().Pkg().Name()+"."+t.Obj().Name()+"<-"+s.name)
	}
	sort.Strings(ds)
	c.Note("unmarshal targets paired with JSON schema constants: %s", strings.Join(ds, ", "))
}

// schemaOfValue: the SSA value is (a conversion of) one of the schema constants. go/ssa folds the constant into a
// *ssa.Const, so the constant object is recovered from the syntax of the call through TypesInfo.Uses.
func (x *c03ctx) schemaOfValue(v ssa.Value, f *ssa.Function) *c03schema {
	k, ok := v.(*ssa.Const)
	if !ok || k.Value == nil || k.Value.Kind() != constant.String {
		return nil
	}
	val := constant.StringVal(k.Value)
	for _, s := range x.sortedSchemas() {
		if constant.StringVal(s.obj.Val()) == val {
			return s
		}
	}
	return nil
}

func (x *c03ctx) sortedSchemas() []*c03schema {
	var out []*c03schema
	for _, s := range x.schemas {
		out = append(out, s)
	}
	sort.Slice(out, func(i, j int) bool { return out[i].name < out[j].name })
	return out
}

// schemaConstraint checks a constraint on a declaration field against every schema the field is validated by.
// kind: "minlen" (string minLength / array minItems >= n, required), "present" (required, non-null), "min" (minimum >= n if present)
func (x *c03ctx) schemaConstraint(fld *types.Var, kind string, n int64) (bool, string) {
	var roots []*types.Named
	for t := range x.rootSchema {
		roots = append(roots, t)
	}
	sort.Slice(roots, func(i, j int) bool { return roots[i].String() < roots[j].String() })
	found := 0
	var oks []string
	for _, t := range roots {
		paths := c03fieldPaths(t, fld)
		if len(paths) == 0 {
			continue
		}
		s := x.rootSchema[t]
		for _, p := range paths {
			found++
			hits, ok := s.lookup(p)
			if !ok {
				return false, fmt.Sprintf("%s does not describe /%s", s.name, strings.Join(p, "/"))
			}
			var good bool
			var why string
			switch kind {
			case "minlen":
				jt, kw := "string", "minLength"
				if _, isSl := fld.Type().Underlying().(*types.Slice); isSl {
					jt, kw = "array", "minItems"
				}
				good, why = c03requireMin(hits, kw, float64(n), jt, true)
			case "present":
				good, why = c03requirePresent(hits)
			case "min":
				good, why = c03requireMin(hits, "minimum", float64(n), "", false)
			}
			if !good {
				return false, fmt.Sprintf("%s at /%s: %s", s.name, strings.Join(p, "/"), why)
			}
			oks = append(oks, s.name+" /"+strings.Join(p, "/"))
		}
	}
	if found == 0 {
		return false, "field " + fld.Name() + " is not part of a type unmarshalled from a JSON-schema-validated document"
	}
	oks = c03uniq(oks)
	if len(oks) > 3 {
		oks = append(oks[:3], "...")
	}
	return true, "constraint read back from " + strings.Join(oks, "; ")
}

// c03flow: one constant that can reach a discriminator store, with whether `fld != nil` (on the object whose
// discriminator is stored) is established where the constant is chosen.
type c03flow struct {
	k       string
	guarded bool
	where   string
}

// constFlows: the constants that value v can carry, each with the facts under which it is chosen. cls are the
// clauses valid where v is produced, base is the term (in that frame) of the object being discriminated. Constants
// may flow through phis and through the results of repository functions (`d.kind = d.inferKind()`), whose parameter
// bound to the base object becomes the base inside the callee.
func (x *c03ctx) constFlows(v ssa.Value, cls []c03clause, base *c03term, fld *types.Var, where string, depth int) ([]c03flow, bool) {
	if depth > 4 {
		return nil, false
	}
	switch y := v.(type) {
	case *ssa.Const:
		if y.Value == nil {
			return nil, false
		}
		g := c03goal{kind: "notnil", t: &c03term{op: "field", fld: fld, args: []*c03term{base}}}
		ok, _, _, _ := x.e.decideLocal(g, x.e.expand(cls, 0))
		return []c03flow{{k: y.Value.ExactString(), guarded: ok, where: where}}, true
	case *ssa.ChangeType:
		return x.constFlows(y.X, cls, base, fld, where, depth)
	case *ssa.Convert:
		return x.constFlows(y.X, cls, base, fld, where, depth)
	case *ssa.Phi:
		var out []c03flow
		pb := y.Block()
		for i, ed := range y.Edges {
			p := pb.Preds[i]
			pcls := x.e.factsAtBlock(p)
			if ifi, ok := p.Instrs[len(p.Instrs)-1].(*ssa.If); ok && len(p.Succs) == 2 && p.Succs[0] != p.Succs[1] {
				if a, ok := x.e.atomOf(ifi.Cond, p.Succs[0] == pb); ok {
					pcls = append(pcls, c03clause{atoms: []c03atom{a}})
				}
			}
			fl, ok := x.constFlows(ed, pcls, base, fld, where, depth+1)
			if !ok {
				return nil, false
			}
			out = append(out, fl...)
		}
		return out, true
	case *ssa.Call:
		g := y.Call.StaticCallee()
		if g == nil || g.Blocks == nil || g.Signature.Results().Len() != 1 {
			return nil, false
		}
		if p := core.FuncPkg(g); p == nil || !core.InRepo(p) {
			return nil, false
		}
		// which parameter of g is the base object?
		var pbase *c03term
		for i, a := range y.Call.Args {
			if c03eq(x.e.termOf(a), base) && i < len(g.Params) {
				pbase = x.e.termOf(g.Params[i])
			}
		}
		var out []c03flow
		for _, b := range g.Blocks {
			rt, ok := b.Instrs[len(b.Instrs)-1].(*ssa.Return)
			if !ok {
				continue
			}
			bb := pbase
			if bb == nil {
				bb = &c03term{op: "val", name: "<object not passed to " + g.String() + ">"}
			}
			fl, ok := x.constFlows(rt.Results[0], x.e.factsAtBlock(b), bb, fld, core.FuncKey(g), depth+1)
			if !ok {
				return nil, false
			}
			out = append(out, fl...)
		}
		return out, len(out) > 0
	}
	return nil, false
}

// discStores: every store into the discriminator field, with the constants it can store.
func (x *c03ctx) discFlows(disc, fld *types.Var) ([]c03flow, string) {
	var out []c03flow
	for _, f := range x.c.RepoFunctions() {
		if core.FuncPkg(f) != disc.Pkg() {
			continue
		}
		for _, b := range f.Blocks {
			for _, in := range b.Instrs {
				st, ok := in.(*ssa.Store)
				if !ok {
					continue
				}
				fa, ok := st.Addr.(*ssa.FieldAddr)
				if !ok || core.FieldOfAddr(fa) != disc {
					continue
				}
				fl, ok := x.constFlows(st.Val, x.e.factsAtBlock(st.Block()), x.e.termOf(fa.X), fld, core.FuncKey(f), 0)
				if !ok {
					return nil, "discriminator " + disc.Name() + " stored with a value that is not a constant (directly, through a phi or through a function returning constants) in " + core.FuncKey(f)
				}
				out = append(out, fl...)
			}
		}
	}
	return out, ""
}

// storeGuard: if every constant K that reaches a store into discriminator field `disc` is chosen under a fact
// `fld != nil` on the same object, then disc == K implies fld != nil.
func (x *c03ctx) storeGuard(disc *types.Var, k string, fld *types.Var) (bool, string) {
	flows, why := x.discFlows(disc, fld)
	if why != "" {
		return false, why
	}
	n := 0
	for _, fl := range flows {
		if fl.k != k {
			continue
		}
		n++
		if !fl.guarded {
			return false, fmt.Sprintf("%s = %s chosen in %s without a dominating %s != nil", disc.Name(), k, fl.where, fld.Name())
		}
	}
	if n == 0 {
		return false, "no store of " + k + " into " + disc.Name()
	}
	return true, fmt.Sprintf("%s == %s is only ever stored under %s != nil (%d store(s))", disc.Name(), k, fld.Name(), n)
}

// provePtrViaDiscriminator: prove `field(base, fld) != nil` from a dominating `field(base, disc) == K` fact (here or in
// the callers) plus the store-guard invariant.
func (x *c03ctx) provePtrViaDiscriminator(base *c03term, fld *types.Var, at ssa.Instruction) (bool, string) {
	owner, ok := c03ownerStruct(fld)
	if !ok {
		return false, ""
	}
	for i := 0; i < owner.NumFields(); i++ {
		disc := owner.Field(i)
		b, isB := disc.Type().Underlying().(*types.Basic)
		if !isB || b.Info()&types.IsString == 0 || disc.Exported() {
			continue
		}
		// candidate constants: all constants stored to disc under fld != nil
		for _, k := range x.discConstants(disc, fld) {
			if ok, how := x.storeGuard(disc, k, fld); ok {
				g := c03goal{kind: "atom", atom: c03atom{kind: "eq", t: &c03term{op: "field", fld: disc, args: []*c03term{base}}, cst: k, pos: true}}
				g.t = g.atom.t
				if pr := x.e.prove(g, at, 0); pr.ok {
					return true, how + "; " + pr.how
				}
			}
		}
	}
	return false, ""
}

var c03ownerCache = map[*types.Var]*types.Struct{}

func c03ownerStruct(fld *types.Var) (*types.Struct, bool) {
	if s, ok := c03ownerCache[fld]; ok {
		return s, s != nil
	}
	if fld.Pkg() == nil {
		return nil, false
	}
	sc := fld.Pkg().Scope()
	for _, n := range sc.Names() {
		tn, ok := sc.Lookup(n).(*types.TypeName)
		if !ok {
			continue
		}
		st, ok := tn.Type().Underlying().(*types.Struct)
		if !ok {
			continue
		}
		for i := 0; i < st.NumFields(); i++ {
			if st.Field(i) == fld {
				c03ownerCache[fld] = st
				return st, true
			}
		}
	}
	c03ownerCache[fld] = nil
	return nil, false
}

func (x *c03ctx) discConstants(disc, fld *types.Var) []string {
	flows, _ := x.discFlows(disc, fld)
	set := map[string]bool{}
	for _, fl := range flows {
		set[fl.k] = true
	}
	var out []string
	for k := range set {
		out = append(out, k)
	}
	sort.Strings(out)
	return out
}

func c03isOptionalScalarPtr(t types.Type) bool {
	p, ok := t.Underlying().(*types.Pointer)
	if !ok {
		return false
	}
	_, isB := p.Elem().Underlying().(*types.Basic)
	return isB
}

// c03schemaFieldOf: the value is (a conversion of) a load of a struct field; returns the field.
func c03fieldOfValue(v ssa.Value) *types.Var {
	for i := 0; i < 6; i++ {
		switch y := v.(type) {
		case *ssa.Convert:
			v = y.X
		case *ssa.ChangeType:
			v = y.X
		case *ssa.UnOp:
			if y.Op == token.MUL {
				if fa, ok := y.X.(*ssa.FieldAddr); ok {
					return core.FieldOfAddr(fa)
				}
			}
			return nil
		case *ssa.Field:
			return core.FieldOfField(y)
		default:
			return nil
		}
	}
	return nil
}

func (x *c03ctx) runK5() {
	c := x.c
	e := x.e
	for _, f := range x.fns {
		for _, b := range f.Blocks {
			for _, in := range b.Instrs {
				switch y := in.(type) {
				case *ssa.IndexAddr, *ssa.Lookup:
					var X, I ssa.Value
					if ia, ok := in.(*ssa.IndexAddr); ok {
						X, I = ia.X, ia.Index
						if _, isSl := X.Type().Underlying().(*types.Slice); !isSl {
							continue
						}
					} else {
						lk := in.(*ssa.Lookup)
						X, I = lk.X, lk.Index
						if bt, isB := X.Type().Underlying().(*types.Basic); !isB || bt.Info()&types.IsString == 0 {
							continue
						}
					}
					k, isK := c03intConst(I)
					if !isK {
						continue
					}
					xt := e.termOf(X)
					what := xt.pretty()
					if fld := c03fieldOfValue(X); fld != nil {
						what = fld.Name()
					} else if call, ok := X.(*ssa.Call); ok {
						if o := core.CalleeObj(call); o != nil {
							what = "result of " + core.FuncName(o)
						} else {
							what = "call result"
						}
					} else if p, ok := X.(*ssa.Parameter); ok {
						what = "parameter " + p.Name()
					} else if xt.op == "val" {
						what = "local value"
					}
					key := fmt.Sprintf("%s indexes %s[%d]", core.FuncKey(f), what, k)
					pos := core.InstrPos(in)
					g := c03goal{kind: "range", t: &c03term{op: "len", args: []*c03term{xt}}, lo: k + 1, hi: math.MaxInt64}
					pr := e.prove(g, in, 0)
					if pr.ok {
						c.OK("K5", key, pos, "length guard: "+pr.how)
						continue
					}
					why := "constant index without a dominating length guard (" + pr.how + ")"
					if fld := c03fieldOfValue(X); fld != nil {
						ok, how := x.schemaConstraint(fld, "minlen", k+1)
						if ok {
							c.OK("K5", key, pos, how)
							continue
						}
						why += "; JSON schema: " + how
					}
					if call, ok := X.(*ssa.Call); ok && core.IsCallTo(call, "reflect", "Value.Call") {
						if ok, how := x.callResultArity(call, k); ok {
							c.OK("K5", key, pos, how)
							continue
						} else {
							why += "; " + how
						}
					}
					x.settle("K5", key, in, c03reviewedK5, why)
				case *ssa.UnOp:
					if y.Op != token.MUL {
						continue
					}
					fld := c03fieldOfValue(y.X)
					if fld == nil || !c03isOptionalScalarPtr(fld.Type()) {
						continue
					}
					if _, isLoad := y.X.(*ssa.UnOp); !isLoad {
						if _, isF := y.X.(*ssa.Field); !isF {
							continue
						}
					}
					owner := ""
					var base *c03term
					pt := e.termOf(y.X)
					if pt.op == "field" {
						base = pt.args[0]
					}
					if st, ok := c03ownerStruct(fld); ok {
						_ = st
					}
					if u, ok := y.X.(*ssa.UnOp); ok {
						if fa, ok := u.X.(*ssa.FieldAddr); ok {
							if n := core.NamedOf(fa.X.Type()); n != nil {
								owner = n.Obj().Name() + "."
							}
						}
					} else if fv, ok := y.X.(*ssa.Field); ok {
						if n := core.NamedOf(fv.X.Type()); n != nil {
							owner = n.Obj().Name() + "."
						}
					}
					key := core.FuncKey(f) + " dereferences optional " + owner + fld.Name()
					pos := core.InstrPos(in)
					pr := e.prove(c03goal{kind: "notnil", t: pt}, in, 0)
					if pr.ok {
						c.OK("K5", key, pos, "nil guard: "+pr.how)
						continue
					}
					why := "optional declaration field dereferenced without a dominating nil test (" + pr.how + ")"
					if ld, ok := y.X.(*ssa.UnOp); ok {
						if ok, how := e.nonNilOnAllPaths(ld); ok {
							c.OK("K5", key, pos, how)
							continue
						}
					}
					if base != nil {
						if ok, how := x.provePtrViaDiscriminator(base, fld, in); ok {
							c.OK("K5", key, pos, "discriminator invariant: "+how)
							continue
						}
					}
					if ok, how := x.schemaConstraint(fld, "present", 0); ok {
						c.OK("K5", key, pos, how)
						continue
					} else {
						why += "; JSON schema: " + how
					}
					x.settle("K5", key, in, c03reviewedK5, why)
				}
			}
		}
	}
	x.flush("K5", c03reviewedK5)
	c.Floor("K5", 60, "constant-index and optional-pointer dereference sites")
	x.runK5table()
}

// callResultArity: results := fn.Call(...); results[k] needs NumOut() > k: static func type, or a load-time
// validator that rejects NumOut() != n on the function looked up by the same declaration field.
func (x *c03ctx) callResultArity(call *ssa.Call, k int64) (bool, string) {
	cc := call.Common()
	recv := cc.Args[0]
	if st, _ := x.staticReflType(recv, 0); st != nil {
		if sig, ok := st.Underlying().(*types.Signature); ok {
			if int64(sig.Results().Len()) > k {
				return true, fmt.Sprintf("Call on a function of static type with %d results", sig.Results().Len())
			}
			return false, fmt.Sprintf("static function type has only %d result(s)", sig.Results().Len())
		}
	}
	// fn = ValueOf(m[decl.F]): a load-time validator must bound NumOut() of TypeOf(m[decl.F])
	rt := x.e.termOf(recv)
	if rt.op != "call" || rt.name != "reflect.ValueOf" || len(rt.args) != 1 {
		return false, "the called function value is not reflect.ValueOf(f)"
	}
	nt := &c03term{op: "invoke", name: "(reflect.Type).NumOut", args: []*c03term{{op: "call", name: "reflect.TypeOf", args: rt.args}}}
	g := c03goal{kind: "atom", atom: c03atom{kind: "cmp", t: nt, op: token.GTR, k: k, pos: true}}
	g.t = nt
	if ok, v := c03validatedDecide(g, x.valid); ok {
		return true, fmt.Sprintf("Call returns NumOut() values and the load-time validator %s rejects the schema unless %s", core.FuncKey(v.fn), v.atom.pretty())
	}
	return false, "no load-time validator bounds NumOut() of the called function"
}

// c03rejects: every path from block b ends in a return whose last (error) result is non-nil, without a loop.
// c03eng0 is the fact engine of the current run (used by c03rejects for `return err` under `err != nil`).
var c03eng0 *c03eng

func c03rejects(b *ssa.BasicBlock) bool {
	seen := map[*ssa.BasicBlock]bool{}
	var walk func(b *ssa.BasicBlock) bool
	walk = func(b *ssa.BasicBlock) bool {
		if seen[b] {
			return false
		}
		seen[b] = true
		switch last := b.Instrs[len(b.Instrs)-1].(type) {
		case *ssa.Return:
			if len(last.Results) == 0 {
				return false
			}
			r := last.Results[len(last.Results)-1]
			if !types.Identical(r.Type(), types.Universe.Lookup("error").Type()) {
				return false
			}
			if c03nonNilError(r, 0) {
				return true
			}
			// `if err != nil { return ..., err }`: the returned value is known to be non-nil on this path
			if c03eng0 != nil {
				g := c03goal{kind: "notnil", t: c03eng0.termOf(r)}
				if ok, _, _, _ := c03eng0.decideLocal(g, c03eng0.factsAtBlock(b)); ok {
					return true
				}
			}
			return false
		case *ssa.Panic:
			return false
		}
		if len(b.Succs) == 0 {
			return false
		}
		for _, s := range b.Succs {
			if !walk(s) {
				return false
			}
		}
		return true
	}
	return walk(b)
}

func c03nonNilError(v ssa.Value, d int) bool {
	if d > 4 {
		return false
	}
	switch y := v.(type) {
	case *ssa.MakeInterface:
		return true
	case *ssa.Call:
		if o := core.CalleeObj(y); o != nil && o.Pkg() != nil {
			switch o.Pkg().Path() + "." + o.Name() {
			case "fmt.Errorf", "errors.New":
				return true
			}
			// repo helper returning fmt.Errorf/errors.New on every path (FmtErr)
			if f := y.Call.StaticCallee(); f != nil && f.Blocks != nil {
				all := true
				n := 0
				for _, b := range f.Blocks {
					if rt, ok := b.Instrs[len(b.Instrs)-1].(*ssa.Return); ok && len(rt.Results) > 0 {
						n++
						if !c03nonNilError(rt.Results[len(rt.Results)-1], d+1) {
							all = false
						}
					}
				}
				return all && n > 0
			}
		}
	case *ssa.Phi:
		for _, ed := range y.Edges {
			if !c03nonNilError(ed, d+1) {
				return false
			}
		}
		return len(y.Edges) > 0
	}
	return false
}

// K5 table: declaration fields whose JSON-schema bound guards presence or progress.
type c03schemaRow struct {
	pkg, typ, field string
	kind            string
	n               int64
	why             string
}

var c03schemaRows = []c03schemaRow{
	{"extensions/omniv21/fileformat/flatfile/csv", "RecordDecl", "Rows", "min", 1, "rows() == 0 would let ReadAndMatch match without consuming a line (no progress)"},
	{"extensions/omniv21/fileformat/flatfile/fixedlength", "EnvelopeDecl", "Rows", "min", 1, "rows() == 0 would let ReadAndMatch match without consuming a line (no progress)"},
	{"extensions/omniv21/fileformat/fixedlength", "EnvelopeDecl", "ByRows", "min", 1, "by_rows == 0 would produce envelopes without consuming a line (no progress)"},
	{"extensions/omniv21/fileformat/fixedlength", "ColumnDecl", "StartPos", "min", 1, "start_pos is 1-based; documented to be >= 1 by the schema"},
	{"extensions/omniv21/fileformat/flatfile/csv", "ColumnDecl", "Index", "min", 1, "1-based column index"},
	{"extensions/omniv21/fileformat/flatfile/csv", "RecordDecl", "Min", "min", 0, "negative min occurs"},
	{"extensions/omniv21/fileformat/edi", "SegDecl", "Min", "min", 0, "negative min occurs"},
}

func (x *c03ctx) runK5table() {
	c := x.c
	for _, r := range c03schemaRows {
		key := "schema constraint for " + r.pkg + "." + r.typ + "." + r.field + " (" + r.kind + fmt.Sprintf(" %d)", r.n)
		p := c.Pkg(r.pkg)
		var fld *types.Var
		if p != nil {
			if tn, ok := p.Types.Scope().Lookup(r.typ).(*types.TypeName); ok {
				if st, ok := tn.Type().Underlying().(*types.Struct); ok {
					for i := 0; i < st.NumFields(); i++ {
						if st.Field(i).Name() == r.field {
							fld = st.Field(i)
						}
					}
				}
			}
		}
		if fld == nil {
			c.Unresolved("K5t", r.pkg+"."+r.typ+"."+r.field, "declaration field not found")
			continue
		}
		ok, how := x.schemaConstraint(fld, r.kind, r.n)
		c.Check(ok, "K5t", key, fld.Pos(), how, r.why+": "+how)
	}
	// every pointer-to-struct field (with a json tag) of a type that a schema-validated document is unmarshalled into
	// is dereferenced by the validators/readers without a nil test: it must be required (and not null) in the schema.
	var roots []*types.Named
	for t := range x.rootSchema {
		roots = append(roots, t)
	}
	sort.Slice(roots, func(i, j int) bool { return roots[i].String() < roots[j].String() })
	for _, t := range roots {
		st, ok := t.Underlying().(*types.Struct)
		if !ok {
			continue
		}
		for i := 0; i < st.NumFields(); i++ {
			f := st.Field(i)
			pt, isPtr := f.Type().Underlying().(*types.Pointer)
			if !isPtr {
				continue
			}
			if _, isSt := pt.Elem().Underlying().(*types.Struct); !isSt {
				continue
			}
			if _, has := reflect.StructTag(st.Tag(i)).Lookup("json"); !has {
				continue
			}
			key := "schema constraint for " + core.Rel(t.Obj().Pkg().Path()) + "." + t.Obj().Name() + "." + f.Name() + " (present 0)"
			ok, how := x.schemaConstraint(f, "present", 0)
			c.Check(ok, "K5t", key, f.Pos(), how, "the declaration root is dereferenced by the format's validator and reader without a nil test: "+how)
		}
	}
	// FINAL_OUTPUT must exist: the map of declarations is indexed with the constant without a found-test
	for _, s := range x.sortedSchemas() {
		if !strings.HasSuffix(s.name, "JSONSchemaTransformDeclarations") {
			continue
		}
		hits, ok := s.lookup([]string{"transform_declarations", "FINAL_OUTPUT"})
		good, why := false, "path not described"
		if ok {
			good, why = c03requirePresent(hits)
		}
		c.Check(good, "K5t", "schema constraint for transform_declarations.FINAL_OUTPUT (present)", s.obj.Pos(),
			"required on the whole path in "+s.name, "ValidateTransformDeclarations dereferences ctx.Decls[FINAL_OUTPUT] without a found-test: "+why)
	}
	c.Floor("K5t", 10, "schema-constraint table rows")
}

// ---------------------------------------------------------------- K6 closed JSON token kinds

func (x *c03ctx) runK6() {
	c := x.c
	// (a) no repository function calls UseNumber at all
	for _, f := range c.RepoFunctions() {
		for _, ci := range core.Calls(f) {
			if core.IsCallTo(ci, "encoding/json", "Decoder.UseNumber") {
				c.Bad("K6", core.FuncKey(f)+" calls json.Decoder.UseNumber", core.InstrPos(ci),
					"with UseNumber the decoder yields json.Number tokens: the closed token-kind switch of the JSON stream reader (default: v.(string)) panics on the first number")
			}
		}
	}
	// (b) every json.Decoder created in reachable repository code is confined: it is stored into an unexported field
	// or used as a receiver only; the field is only read as the receiver of Token/More/Decode/Buffered/InputOffset.
	allowed := map[string]bool{"Decoder.Token": true, "Decoder.More": true, "Decoder.Decode": true, "Decoder.Buffered": true, "Decoder.InputOffset": true}
	isRecvOfAllowed := func(v ssa.Value, u ssa.Instruction) bool {
		ci, ok := u.(ssa.CallInstruction)
		if !ok {
			return false
		}
		o := core.CalleeObj(ci)
		if o == nil || o.Pkg() == nil || o.Pkg().Path() != "encoding/json" || !allowed[core.FuncName(o)] {
			return false
		}
		return len(ci.Common().Args) > 0 && ci.Common().Args[0] == v
	}
	fields := map[*types.Var]bool{}
	n := 0
	for _, f := range x.fns {
		for _, ci := range core.Calls(f) {
			if !core.IsCallTo(ci, "encoding/json", "NewDecoder") {
				continue
			}
			n++
			key := core.FuncKey(f) + " creates a json.Decoder"
			okAll := true
			why := ""
			// the decoder value, and — if an unexported constructor helper just returns it — the helper's results
			work := []ssa.Value{ci.Value()}
			for steps := 0; len(work) > 0 && steps < 8; steps++ {
				v := work[0]
				work = work[1:]
				for _, u := range core.Referrers(v) {
					if _, dbg := u.(*ssa.DebugRef); dbg {
						continue
					}
					if st, ok := u.(*ssa.Store); ok && st.Val == v {
						if fa, ok := st.Addr.(*ssa.FieldAddr); ok {
							if fld := core.FieldOfAddr(fa); fld != nil && !fld.Exported() {
								fields[fld] = true
								continue
							}
						}
					}
					if isRecvOfAllowed(v, u) {
						continue
					}
					if rt, ok := u.(*ssa.Return); ok && len(rt.Results) == 1 {
						h := rt.Parent()
						if o := h.Object(); o != nil && !o.Exported() && h.Parent() == nil && len(x.e.callers[h]) > 0 {
							followed := true
							for _, cs := range x.e.callers[h] {
								cv := cs.Value()
								if cv == nil || cs.Common().StaticCallee() != h {
									followed = false
									break
								}
								work = append(work, cv)
							}
							if followed {
								continue
							}
						}
					}
					okAll = false
					why = "the decoder escapes through " + u.String()
				}
			}
			c.Check(okAll, "K6", key, core.InstrPos(ci), "decoder confined to an unexported field / local receiver", "json.Decoder escapes the reader, so a UseNumber call elsewhere cannot be excluded: "+why)
		}
	}
	for _, f := range c.RepoFunctions() {
		for _, b := range f.Blocks {
			for _, in := range b.Instrs {
				fa, ok := in.(*ssa.FieldAddr)
				if !ok || !fields[core.FieldOfAddr(fa)] {
					continue
				}
				for _, u := range core.Referrers(fa) {
					ld, ok := u.(*ssa.UnOp)
					if !ok {
						if st, ok := u.(*ssa.Store); ok && st.Addr == ssa.Value(fa) {
							continue
						}
						c.Bad("K6", core.FuncKey(f)+" takes the address of the decoder field "+core.FieldOfAddr(fa).Name(), core.InstrPos(in), "decoder field escapes")
						continue
					}
					for _, uu := range core.Referrers(ld) {
						if _, dbg := uu.(*ssa.DebugRef); dbg {
							continue
						}
						o := ""
						if ci, ok := uu.(ssa.CallInstruction); ok {
							if ob := core.CalleeObj(ci); ob != nil {
								o = core.FuncName(ob)
							}
						}
						key := core.FuncKey(f) + " uses the JSON decoder: " + o
						if isRecvOfAllowed(ld, uu) {
							n++
							c.OK("K6", key, core.InstrPos(uu), "token kinds are closed (json.Delim, bool, float64, string, nil): UseNumber is never called on this decoder; the assertions on the tokens are K3 obligations")
						} else {
							c.Bad("K6", key, core.InstrPos(uu), "the decoder is used other than as receiver of Token/More/Decode/Buffered: UseNumber on it cannot be excluded")
						}
					}
				}
			}
		}
	}
	if n == 0 {
		c.Unresolved("K6", "json.Decoder", "no json.NewDecoder / Token consumer found in reachable repository code")
	}
	c.Floor("K6", 2, "json.NewDecoder in NewJSONStreamReader and its Token consumer")
}

// ---------------------------------------------------------------- K7 bounded template recursion

// K7: in the load set, every recursion cycle among repository functions must be bounded by the (finite) schema
// document, except cycles through a function that re-enters a *named* declaration (map lookup of declarations by a
// string taken from the declaration = template reference): such a function must reach its recursive call only
// through the rejecting duplicate test on the reference stack.
func (x *c03ctx) runK7() {
	c := x.c
	n := 0
	for _, f := range x.fns {
		if !x.load[f] {
			continue
		}
		// template-expansion function: looks up a map[string]*D by a string loaded through a pointer field of *D and
		// then (transitively) calls itself with a D derived from the lookup result.
		var lookups []*ssa.Lookup
		for _, b := range f.Blocks {
			for _, in := range b.Instrs {
				lk, ok := in.(*ssa.Lookup)
				if !ok {
					continue
				}
				mt, ok := lk.X.Type().Underlying().(*types.Map)
				if !ok {
					continue
				}
				if core.NamedOf(mt.Elem()) == nil || !core.InRepo(core.NamedOf(mt.Elem()).Obj().Pkg()) {
					continue
				}
				// key derived from a declaration field (not a constant)
				if _, isConst := lk.Index.(*ssa.Const); isConst {
					continue
				}
				kt := x.e.termOf(lk.Index)
				isDeclKey := false
				kt.walk(func(s *c03term) {
					if s.op == "field" && s.fld.Pkg() == core.NamedOf(mt.Elem()).Obj().Pkg() {
						isDeclKey = true
					}
				})
				if isDeclKey {
					lookups = append(lookups, lk)
				}
			}
		}
		if len(lookups) == 0 {
			continue
		}
		// recursive calls: call sites in f whose callee can reach f again within the repository
		for _, ci := range core.Calls(f) {
			rec := false
			for _, g := range c.Callees(ci) {
				if x.reachesWithinRepo(g, f) {
					rec = true
				}
			}
			if !rec {
				continue
			}
			n++
			key := core.FuncKey(f) + " re-enters a named declaration via " + ci.Common().String()[:c03min(40, len(ci.Common().String()))]
			key = core.FuncKey(f) + " expands a referenced declaration recursively"
			// must-pass: the call is dominated by the false edge of a duplicate test whose true edge rejects, and the test
			// is on a value that includes the looked-up name appended to a stack parameter.
			ok, how := x.cycleTestDominates(f, ci, lookups)
			c.Check(ok, "K7", key, core.InstrPos(ci), how, "recursive template expansion without a dominating rejecting duplicate/cycle test on the reference stack: "+how+" — a schema whose templates reference each other would recurse until the stack overflows")
		}
	}
	if n == 0 {
		c.Unresolved("K7", "template expansion function", "no load-set function re-enters a named declaration recursively (validateTemplate expected)")
	}
	c.Floor("K7", 1, "validateTemplate -> validateDecl recursion")
	h5StackThreaded(c)
	// K8 bounded Reads: every error a hierarchical reader's Read can return is terminal (NIL, io.EOF or the reader's own
	// fatal type) — a continuable error returned WITHOUT consuming the offending unit would make every later Read fail
	// the same way (unbounded per-record failures on a finite input). Shares the error-class analysis with C05 R05c.
	if er := ecResolve(c, "K8"); er.ok {
		x := &c05ctx{c: c, r: er, e: ecNewEngine(er)}
		x.resolveHierarchical()
		x.ruleClassesAs("K8")
	}
	c.Floor("K8", 3, "csv2, fixedlength2, edi")
	c03LoopsExitOnError(c)
	c.Floor("K9", 5, "token/line/record fetch loops of the readers")
}

func c03min(a, b int) int {
	if a < b {
		return a
	}
	return b
}

func (x *c03ctx) reachesWithinRepo(from, to *ssa.Function) bool {
	seen := map[*ssa.Function]bool{}
	work := []*ssa.Function{from}
	cg := x.c.CallGraph()
	for len(work) > 0 {
		f := work[len(work)-1]
		work = work[:len(work)-1]
		if f == to {
			return true
		}
		if seen[f] {
			continue
		}
		seen[f] = true
		if p := core.FuncPkg(f); p == nil || !core.InRepo(p) {
			continue
		}
		if n := cg.Nodes[f]; n != nil {
			for _, ed := range n.Out {
				work = append(work, ed.Callee.Func)
			}
		}
	}
	return false
}

// cycleTestDominates: the recursive call is dominated by the false edge of `if dup(stack') { return err }` where
// stack' = append(copy(stackParam), name) is the stack passed on to the recursive call and name is the lookup key.
func (x *c03ctx) cycleTestDominates(f *ssa.Function, rec ssa.CallInstruction, lookups []*ssa.Lookup) (bool, string) {
	// the stack argument of the recursive call: a []string argument
	var stackArg ssa.Value
	for _, a := range rec.Common().Args {
		if sl, ok := a.Type().Underlying().(*types.Slice); ok {
			if b, ok := sl.Elem().Underlying().(*types.Basic); ok && b.Kind() == types.String {
				stackArg = a
			}
		}
	}
	if stackArg == nil {
		return false, "the recursive call passes no reference stack"
	}
	// stackArg must be an append(..., key) where key is the looked-up name
	okAppend := false
	if call, ok := stackArg.(*ssa.Call); ok {
		if bi, ok := call.Call.Value.(*ssa.Builtin); ok && bi.Name() == "append" && len(call.Call.Args) == 2 {
			// second arg is a slice of a new array holding the key
			if sl, ok := call.Call.Args[1].(*ssa.Slice); ok {
				if al, ok := sl.X.(*ssa.Alloc); ok {
					for _, u := range core.Referrers(al) {
						if ia, ok := u.(*ssa.IndexAddr); ok {
							for _, uu := range core.Referrers(ia) {
								if st, ok := uu.(*ssa.Store); ok {
									for _, lk := range lookups {
										if st.Val == lk.Index {
											okAppend = true
										}
									}
								}
							}
						}
					}
				}
			}
		}
	}
	if !okAppend {
		return false, "the stack passed to the recursive call is not the incoming stack extended by the referenced name"
	}
	// a dominating If on a bool call taking stackArg, whose true edge rejects
	for d := rec.Block(); d != nil; d = d.Idom() {
		for _, p := range d.Preds {
			ifi, ok := p.Instrs[len(p.Instrs)-1].(*ssa.If)
			if !ok || !p.Dominates(rec.Block()) {
				continue
			}
			cond := ifi.Cond
			pol := true
			if u, ok := cond.(*ssa.UnOp); ok && u.Op == token.NOT {
				cond, pol = u.X, false
			}
			// `if dup(stack)` or `if err := check(stack, ...); err != nil`
			errForm := false
			if bo, ok := cond.(*ssa.BinOp); ok && (bo.Op == token.NEQ || bo.Op == token.EQL) {
				var other ssa.Value
				switch {
				case core.IsNilConst(bo.Y):
					other = bo.X
				case core.IsNilConst(bo.X):
					other = bo.Y
				}
				if other != nil {
					if ex, ok := other.(*ssa.Extract); ok {
						other = ex.Tuple
					}
					if _, ok := other.(*ssa.Call); ok {
						cond, errForm = other, true
						if bo.Op == token.EQL {
							pol = !pol
						}
					}
				}
			}
			call, ok := cond.(*ssa.Call)
			if !ok {
				continue
			}
			argIdx := -1
			for i, a := range call.Call.Args {
				if a == stackArg {
					argIdx = i
				}
			}
			if argIdx < 0 {
				continue
			}
			rej, cont := p.Succs[0], p.Succs[1]
			if !pol {
				rej, cont = cont, rej
			}
			if !c03rejects(rej) || !(cont == rec.Block() || cont.Dominates(rec.Block())) {
				continue
			}
			callee := call.Call.StaticCallee()
			if callee != nil && !errForm && c03isDupTest(callee) {
				return true, "dominated by the rejecting duplicate test " + callee.String() + " on the stack extended by the referenced name"
			}
			if callee != nil && errForm && c03errorsOnDup(callee, argIdx) {
				return true, "dominated by the check " + callee.String() + " (returns an error exactly on the branch of a duplicate test of the stack extended by the referenced name)"
			}
			return false, "the test on the reference stack (" + call.Call.String() + ") is not recognised as a duplicate test"
		}
	}
	return false, "no dominating test of the extended reference stack whose positive outcome returns an error"
}

// c03errorsOnDup: helper(stack, ...) error: contains `if dup(stackParam) { return <non-nil error> }` (the rejecting
// branch returns an error on every path) with dup a duplicate test.
func c03errorsOnDup(f *ssa.Function, paramIdx int) bool {
	if f.Blocks == nil || paramIdx >= len(f.Params) {
		return false
	}
	for _, b := range f.Blocks {
		ifi, ok := b.Instrs[len(b.Instrs)-1].(*ssa.If)
		if !ok || len(b.Succs) != 2 {
			continue
		}
		cond := ifi.Cond
		pol := true
		if u, ok := cond.(*ssa.UnOp); ok && u.Op == token.NOT {
			cond, pol = u.X, false
		}
		call, ok := cond.(*ssa.Call)
		if !ok {
			continue
		}
		callee := call.Call.StaticCallee()
		if callee == nil || !c03isDupTest(callee) {
			continue
		}
		uses := false
		for _, a := range call.Call.Args {
			if a == ssa.Value(f.Params[paramIdx]) {
				uses = true
			}
		}
		rej := b.Succs[0]
		if !pol {
			rej = b.Succs[1]
		}
		if uses && c03rejects(rej) && b.Dominates(rej) {
			return true
		}
	}
	return false
}

// c03isDupTest: func([]string) bool that returns true only after finding an element already seen: it contains a
// map update/lookup (or nested comparison loop) over the elements and returns a constant true inside the loop.
func c03isDupTest(f *ssa.Function) bool {
	if f.Blocks == nil || f.Signature.Results().Len() != 1 {
		return false
	}
	hasLookup, retTrueInLoop, retFalseEnd := false, false, false
	for _, b := range f.Blocks {
		for _, in := range b.Instrs {
			switch y := in.(type) {
			case *ssa.Lookup:
				if _, ok := y.X.Type().Underlying().(*types.Map); ok {
					hasLookup = true
				}
			case *ssa.Return:
				if k, ok := y.Results[0].(*ssa.Const); ok && k.Value != nil && k.Value.Kind() == constant.Bool {
					if constant.BoolVal(k.Value) {
						retTrueInLoop = true
					} else {
						retFalseEnd = true
					}
				}
			}
		}
	}
	return hasLookup && retTrueInLoop && retFalseEnd
}

// ---------------------------------------------------------------- debug dump

func (x *c03ctx) dump() {
	npk := map[string]int{}
	for _, f := range x.fns {
		npk[core.FuncPkg(f).Path()]++
		if core.IsCLIOrSample(core.FuncPkg(f)) {
			fmt.Printf("REACHFN %s\n", core.FuncKey(f))
		}
	}
	var ks []string
	for k := range npk {
		ks = append(ks, k)
	}
	sort.Strings(ks)
	for _, k := range ks {
		fmt.Printf("REACH %s %d\n", k, npk[k])
	}
}
