package rules

import (
	"fmt"
	"go/token"
	"go/types"
	"strings"

	"golang.org/x/tools/go/ssa"

	"omnilint/core"
)

func init() {
	register(&RuleSet{
		Prop:  "C12",
		Title: "Node trees stay structurally sound and pooled nodes are never aliased",
		Explanation: "R12a who-may-write: every SSA store (field, whole-struct) to idr.Node's link fields (Parent, FirstChild, LastChild, PrevSibling, NextSibling) and ID in the whole repository must be inside reset, AddChild, RemoveAndReleaseTree or a helper of package idr they call (those are the functions whose effect R12b/R12g verify); " +
			"R12b blank-on-reuse: the reset function stores every field of Node on every path, links/data with zero values and ID with the result of the atomic counter function; " +
			"R12c the ID counter variable is only ever the address operand of sync/atomic calls; " +
			"R12d every nodePool.Put(x) is dominated by reset(x); pool New returns a reset node; pool Get only inside idr; no field of a node is read after the same value was released in that function; " +
			"R12e typestate: every RemoveAndReleaseTree(e) whose operand is loaded from a holder field is followed on every path by an overwrite of that field before it is read again or the function returns; Release(n)-style methods clear each holder field (guarded by n == H or unconditionally) before releasing, in the method itself or in a method of the same receiver it calls with the node bound on every path before the release; " +
			"R12f every AddChild(p, c): c is a node that was created in the same function (or produced by a node-building function) and is attached at most once per creation; a parameter of an unexported helper that is only called statically is judged at every call site, and the call site counts as the attachment; " +
			"R12g shape check of the link surgery: AddChild and RemoveAndReleaseTree are abstractly interpreted over all well-formed sibling lists of up to 4 children (every position), and the resulting abstract heap must satisfy the doubly-linked-list invariant.",
		NotDecided: "cursor fields (cur/root) and stale stack-entry pointers after a release (O1/O2 in DESIGN.md) are argued, not checked; trees built by caller-supplied readers; lists longer than the bound of R12g (the surgery only touches n, its parent and its two neighbours, so the bound covers every aliasing case).",
		Trusted:    append([]string{"sync.Pool and sync/atomic are synchronised as documented"}, commonTrusted...),
		Run:        runC12,
	})
	control(Control{ID: "c12-reader-patches-link", Prop: "C12", File: "idr/xmlreader.go",
		Old: "\tsp.cur = sp.cur.Parent\n\t\t\t}", New: "\tsp.cur = sp.cur.Parent\n\t\t\t\tsp.cur.LastChild.NextSibling = nil\n\t\t\t}",
		Rule: "R12a", Substr: "XMLStreamReader", Why: "a reader patches a sibling link itself"})
	control(Control{ID: "c12-reset-forgets-field", Prop: "C12", File: "idr/node.go",
		Old: "\tn.FormatSpecific = nil\n}", New: "}", Rule: "R12b", Substr: "FormatSpecific", Why: "reset leaves FormatSpecific of the previous owner"})
	control(Control{ID: "c12-plain-counter", Prop: "C12", File: "idr/node.go",
		Old: "return atomic.AddInt64(&nodeID, 1)", New: "nodeID++\n\treturn atomic.LoadInt64(&nodeID)", Rule: "R12c", Substr: "nodeID", Why: "non-atomic ID counter"})
	control(Control{ID: "c12-put-before-reset", Prop: "C12", File: "idr/node.go",
		Old: "\tn.reset()\n\tnodePool.Put(n)", New: "\tnodePool.Put(n)\n\tn.reset()", Rule: "R12d", Substr: "recycle", Why: "node visible in pool before it is reset"})
	control(Control{ID: "c12-next-after-recycle", Prop: "C12", File: "idr/node.go",
		Old: "\t\tnext := c.NextSibling\n\t\trecycle(c)\n\t\tc = next", New: "\t\trecycle(c)\n\t\tc = c.NextSibling", Rule: "R12d", Substr: "recycle", Why: "sibling link read after the child was reset"})
	control(Control{ID: "c12-release-forgets-holder", Prop: "C12", File: "extensions/omniv21/fileformat/edi/reader.go",
		Old: "\tif r.target == n {\n\t\tr.target = nil\n\t}\n\tidr.RemoveAndReleaseTree(n)", New: "\tidr.RemoveAndReleaseTree(n)",
		Rule: "R12e", Substr: "ediReader).Release", Why: "Release leaves a dangling target"})
	control(Control{ID: "c12-reject-keeps-holder", Prop: "C12", File: "idr/jsonreader.go",
		Old: "\tRemoveAndReleaseTree(sp.stream)\n\tsp.stream = nil\n\treturn nil", New: "\tRemoveAndReleaseTree(sp.stream)\n\treturn nil",
		Rule: "R12e", Substr: "JSONStreamReader).wrapUpCurAndTargetCheck", Why: "rejected candidate released but still referenced"})
	control(Control{ID: "c12-addchild-drops-prev", Prop: "C12", File: "idr/node.go",
		Old: "\t\tn.PrevSibling = parent.LastChild\n", New: "", Rule: "R12g", Substr: "AddChild", Why: "AddChild leaves PrevSibling of an appended node unset"})
	control(Control{ID: "c12-remove-first-keeps-prev", Prop: "C12", File: "idr/node.go",
		Old: "\t\t\tn.NextSibling.PrevSibling = nil\n", New: "", Rule: "R12g", Substr: "RemoveAndReleaseTree", Why: "new first child keeps a PrevSibling to the released node"})
}

type c12roles struct {
	idr       *types.Package
	node      *types.Named
	nodeSt    *types.Struct
	links     map[*types.Var]bool
	idField   *types.Var
	addChild  *ssa.Function
	remove    *ssa.Function
	resetFns  []*ssa.Function
	counterFn *ssa.Function
	counterG  *ssa.Global
	pools     []*ssa.Global
	ctx       *core.Ctx
	j1idx     *j1CallIndex
}

func isPtrToNamed(t types.Type, n *types.Named) bool {
	p, ok := t.(*types.Pointer)
	if !ok {
		return false
	}
	return types.Identical(p.Elem(), n)
}

// nodeAPIFunc: a free function of package idr or a method of Node itself (the node API proper), as opposed
// to methods of readers/navigators and to every function outside package idr.
func (r *c12roles) nodeAPIFunc(f *ssa.Function) bool {
	for f.Parent() != nil {
		f = f.Parent()
	}
	if core.FuncPkg(f) != r.idr {
		return false
	}
	if f.Synthetic != "" {
		return f.Name() == "init"
	}
	if recv := f.Signature.Recv(); recv != nil {
		return isPtrToNamed(recv.Type(), r.node) || types.Identical(recv.Type(), r.node)
	}
	return true
}

func resolveC12(c *core.Ctx) *c12roles {
	r := &c12roles{links: map[*types.Var]bool{}, ctx: c}
	p := c.Pkg("idr")
	if p == nil {
		c.Unresolved("R12", "package idr", "package idr not found")
		return nil
	}
	r.idr = p.Types
	obj, _ := p.Types.Scope().Lookup("Node").(*types.TypeName)
	if obj == nil {
		c.Unresolved("R12", "type idr.Node", "exported type Node not found")
		return nil
	}
	r.node = obj.Type().(*types.Named)
	st, ok := r.node.Underlying().(*types.Struct)
	if !ok {
		c.Unresolved("R12", "type idr.Node", "Node is not a struct")
		return nil
	}
	r.nodeSt = st
	for i := 0; i < st.NumFields(); i++ {
		f := st.Field(i)
		if isPtrToNamed(f.Type(), r.node) {
			r.links[f] = true
		}
		if f.Name() == "ID" {
			r.idField = f
		}
	}
	if len(r.links) < 5 || r.idField == nil {
		c.Unresolved("R12", "Node link/ID fields", fmt.Sprintf("found %d *Node-typed fields and ID=%v", len(r.links), r.idField != nil))
		return nil
	}
	c.SSA()
	r.addChild = c.Func("idr", "AddChild")
	r.remove = c.Func("idr", "RemoveAndReleaseTree")
	if r.addChild == nil || r.remove == nil {
		c.Unresolved("R12", "idr.AddChild/RemoveAndReleaseTree", "exported node API not found")
		return nil
	}
	// reset function(s): methods on *Node without further parameters that store Node.ID of their receiver.
	for _, f := range c.RepoFunctions() {
		if core.FuncPkg(f) != r.idr || f.Signature.Recv() == nil || len(f.Params) != 1 || !isPtrToNamed(f.Params[0].Type(), r.node) {
			continue
		}
		for _, w := range core.Writes(f) {
			if w.Kind == "field" && w.Field == r.idField && w.Root == f.Params[0] {
				r.resetFns = append(r.resetFns, f)
				break
			}
		}
	}
	// pools: package-level vars of type sync.Pool in idr
	sp := c.SSAPkg("idr")
	for _, m := range sp.Members {
		if g, ok := m.(*ssa.Global); ok {
			if n := core.NamedOf(g.Type()); n != nil && n.Obj().Pkg() != nil && n.Obj().Pkg().Path() == "sync" && n.Obj().Name() == "Pool" {
				r.pools = append(r.pools, g)
			}
		}
	}
	return r
}

func isAtomicCall(ci ssa.CallInstruction) bool {
	o := core.CalleeObj(ci)
	return o != nil && o.Pkg() != nil && o.Pkg().Path() == "sync/atomic"
}

func runC12(c *core.Ctx) {
	r := resolveC12(c)
	if r == nil {
		return
	}
	fns := c.RepoFunctions()

	// ---------------- R12a who-may-write
	writers := map[string]int{}
	allowed := c12AllowedWriters(r)
	for _, f := range fns {
		for _, w := range core.Writes(f) {
			hit := ""
			switch {
			case w.Kind == "field" && w.Owner != nil && types.Identical(w.Owner, r.node) && (r.links[w.Field] || w.Field == r.idField):
				hit = "Node." + w.Field.Name()
			case w.Kind == "struct" && w.Owner != nil && types.Identical(w.Owner, r.node):
				hit = "*Node (whole struct)"
			}
			if hit == "" {
				continue
			}
			key := core.FuncKey(f) + " writes " + hit
			if allowed[f] {
				writers[core.FuncKey(f)]++
				c.OK("R12a", key, w.Pos, "store inside reset / AddChild / RemoveAndReleaseTree (or a helper they call, covered by the shape check R12g)")
			} else {
				c.Bad("R12a", key, w.Pos, "link/ID field of idr.Node written outside reset, AddChild, RemoveAndReleaseTree and their helpers: tree surgery that the shape check does not cover")
			}
		}
	}
	c.Floor("R12a", 8, "stores in reset, AddChild, RemoveAndReleaseTree")
	c.Note("R12a writers: %v", writers)

	c12PoolRules(c, r, fns, allowed, "R12b", "R12c", "R12d")

	runR12e(c, r, fns)
	runR12f(c, r, fns)
	runR12g(c, r)
}

// c12PoolRules: reset exhaustiveness/blankness (rb), atomic-only ID counter (rc), pool discipline and
// use-after-release (rd). Shared with C13 (pools are semantically invisible only if a recycled node is blank).
func c12PoolRules(c *core.Ctx, r *c12roles, fns []*ssa.Function, allowed map[*ssa.Function]bool, rb, rc, rd string) {
	// ---------------- R12b reset is exhaustive and blank
	if len(r.resetFns) != 1 {
		c.Unresolved(rb, "reset function", fmt.Sprintf("expected exactly one *Node method storing Node.ID, found %d", len(r.resetFns)))
	} else {
		reset := r.resetFns[0]
		recv := reset.Params[0]
		var rets []*ssa.Return
		for _, b := range reset.Blocks {
			for _, in := range b.Instrs {
				if rt, ok := in.(*ssa.Return); ok {
					rets = append(rets, rt)
				}
			}
		}
		for i := 0; i < r.nodeSt.NumFields(); i++ {
			fld := r.nodeSt.Field(i)
			key := core.FuncKey(reset) + " resets Node." + fld.Name()
			var stores []core.WriteSite
			for _, w := range core.Writes(reset) {
				if w.Kind == "field" && w.Field == fld && w.Root == recv && len(w.Chain) == 1 {
					stores = append(stores, w)
				}
				// whole-struct form `*n = Node{...}`: every field is stored, with the literal's value or zero
				if w.Kind == "struct" && w.Root == recv && len(w.Chain) == 0 {
					ws := w
					ws.Val = structLiteralField(w.Val, i)
					stores = append(stores, ws)
				}
			}
			if len(stores) == 0 {
				c.Bad(rb, key, reset.Pos(), "reset does not store this field: a recycled node would carry the previous owner's value")
				continue
			}
			okAll := true
			for _, rt := range rets {
				dom := false
				for _, s := range stores {
					if core.Dominates(s.Instr, rt) {
						dom = true
					}
				}
				if !dom {
					okAll = false
				}
			}
			if !okAll {
				c.Bad(rb, key, stores[0].Pos, "field is not stored on every path through reset")
				continue
			}
			last := stores[len(stores)-1]
			if fld == r.idField {
				call, ok := last.Val.(*ssa.Call)
				var cf *ssa.Function
				if ok {
					cf = call.Call.StaticCallee()
				}
				if cf == nil || !returnsAtomicAdd(cf, r) {
					c.Bad(rb, key, last.Pos, "ID is not the result of the atomic counter function")
					continue
				}
				r.counterFn = cf
				c.OK(rb, key, last.Pos, "ID = "+core.FuncKey(cf)+"() (atomic counter)")
			} else if last.Val == nil || core.IsZeroConst(last.Val) {
				c.OK(rb, key, last.Pos, "stored with the zero value")
			} else {
				c.Bad(rb, key, last.Pos, "field reset to a non-zero value: fresh nodes would not be blank")
			}
		}
	}
	c.Floor(rb, 9, "fields of idr.Node")

	// ---------------- R12c counter only through sync/atomic
	if r.counterG == nil {
		c.Unresolved(rc, "ID counter variable", "could not identify the package-level counter behind Node.ID")
	} else {
		n := 0
		for _, f := range fns {
			for _, b := range f.Blocks {
				for _, in := range b.Instrs {
					for _, op := range in.Operands(nil) {
						if *op != ssa.Value(r.counterG) {
							continue
						}
						n++
						key := core.FuncKey(f) + " uses " + r.counterG.Name()
						if ci, ok := in.(ssa.CallInstruction); ok && isAtomicCall(ci) {
							c.OK(rc, key, core.InstrPos(in), "address passed to sync/atomic")
						} else if st, ok := in.(*ssa.Store); ok && st.Addr == r.counterG && f.Name() == "init" && f.Synthetic != "" {
							c.OK(rc, key, core.InstrPos(in), "package initialiser (happens before any goroutine can use the package)")
						} else {
							c.Bad(rc, key, core.InstrPos(in), "plain (non-atomic) access to the node ID counter: two goroutines could obtain equal IDs")
						}
					}
				}
			}
		}
		if n == 0 {
			c.Unresolved(rc, "uses of ID counter", "no use found")
		}
	}
	c.Floor(rc, 1, "atomic.AddInt64(&nodeID)")

	// ---------------- R12d pool discipline
	if len(r.pools) == 0 {
		c.Unresolved(rd, "node pool", "no package-level sync.Pool in package idr")
	}
	for _, f := range fns {
		for _, ci := range core.Calls(f) {
			putArg, isPut := poolPutArg(ci)
			isGet := poolGetCall(ci)
			if !isPut && !isGet {
				continue
			}
			// which pool? direct calls name it; wrapper calls are resolved through the wrapper's own direct call
			isNodePool := false
			poolOf := func(cj ssa.CallInstruction) bool {
				if !(isPoolCall(cj, "Put") || isPoolCall(cj, "Get")) {
					return false
				}
				for _, g := range r.pools {
					if cj.Common().Args[0] == ssa.Value(g) {
						return true
					}
				}
				return false
			}
			if poolOf(ci) {
				isNodePool = true
			} else if cf := ci.Common().StaticCallee(); cf != nil && cf.Blocks != nil {
				for _, cj := range core.Calls(cf) {
					if poolOf(cj) {
						isNodePool = true
					}
				}
			}
			if !isNodePool {
				continue
			}
			name := "Pool.Get"
			if isPut {
				name = "Pool.Put"
			}
			key := core.FuncKey(f) + " " + name
			if core.FuncPkg(f) != r.idr || !r.nodeAPIFunc(f) {
				c.Bad(rd, key, core.InstrPos(ci), "node pool used outside the node API")
				continue
			}
			if !isPut {
				// the result may only be type-asserted (or returned by a one-hop wrapper)
				okUse := true
				if v := ci.Value(); v != nil {
					for _, u := range core.Referrers(v) {
						switch u.(type) {
						case *ssa.TypeAssert, *ssa.DebugRef, *ssa.Return:
						case *ssa.Store:
							// CreateNode initialises Type/Data on the obtained node: stores THROUGH it are fine, storing it is not
							if st := u.(*ssa.Store); st.Val == v {
								okUse = false
							}
						case *ssa.FieldAddr:
						default:
							okUse = false
						}
					}
				}
				c.Check(okUse, rd, key, core.InstrPos(ci), "pool result only type-asserted to *Node", "pool result used other than through a *Node assertion")
				continue
			}
			arg := core.Unwrap(putArg, true)
			// a one-hop wrapper's own Put of its parameter is judged at the wrapper's call sites
			if isPoolCall(ci, "Put") {
				if p, isParam := arg.(*ssa.Parameter); isParam && p.Parent() == f && len(f.Blocks) <= 2 && len(f.Params) == 1 {
					callers := 0
					for _, g := range fns {
						for _, cj := range core.Calls(g) {
							if cj.Common().StaticCallee() == f {
								callers++
							}
						}
					}
					if callers > 0 {
						continue
					}
				}
			}
			dominated := false
			for _, cj := range core.Calls(f) {
				cf := cj.Common().StaticCallee()
				if cf == nil || cj == ci {
					continue
				}
				for _, rf := range r.resetFns {
					if cf == rf && len(cj.Common().Args) > 0 && cj.Common().Args[0] == arg && core.Dominates(cj, ci) {
						dominated = true
					}
				}
			}
			c.Check(dominated, rd, key, core.InstrPos(ci), "Put is dominated by reset of the same node",
				"node handed to the pool without a dominating reset of the same value: another goroutine may Get it while it still carries links/data")
		}
	}
	// pool New: every function value stored into a node pool's New field returns a node that was reset.
	for _, f := range fns {
		if core.FuncPkg(f) != r.idr {
			continue
		}
		for _, b := range f.Blocks {
			for _, in := range b.Instrs {
				mc, ok := in.(*ssa.MakeClosure)
				var fnv *ssa.Function
				if ok {
					fnv, _ = mc.Fn.(*ssa.Function)
				}
				if fnv == nil {
					continue
				}
				// is it used as sync.Pool.New ?
				usedAsNew := false
				for _, u := range core.Referrers(mc) {
					if st, ok := u.(*ssa.Store); ok {
						if fa, ok := st.Addr.(*ssa.FieldAddr); ok {
							if fld := core.FieldOfAddr(fa); fld != nil && fld.Name() == "New" && fld.Pkg() != nil && fld.Pkg().Path() == "sync" {
								usedAsNew = true
							}
						}
					}
				}
				if !usedAsNew {
					continue
				}
				key := core.FuncKey(f) + " Pool.New"
				c.Check(returnsResetNode(fnv, r, 0), rd, key, core.InstrPos(in), "New returns a node that passed through reset", "pool New returns a node that was not reset (no ID)")
			}
		}
	}
	// the allocator keeps no unsynchronised package-level state: no plain store rooted at a package-level variable in
	// the node API outside package initialisers
	for _, f := range fns {
		if core.FuncPkg(f) != r.idr || !r.nodeAPIFunc(f) || (f.Synthetic != "" && f.Name() == "init") {
			continue
		}
		for _, w := range core.Writes(f) {
			if w.Global == nil || !core.InRepo(w.Global.Pkg.Pkg) {
				continue
			}
			// allowed: functions only reachable from package init (resetNodePool) are recognised by having no node parameter
			// and storing a whole sync.Pool value
			if n := core.NamedOf(w.Global.Type()); n != nil && n.Obj().Pkg() != nil && n.Obj().Pkg().Path() == "sync" {
				continue
			}
			c.Bad(rc, core.FuncKey(f)+" writes package state "+w.Global.Name(), w.Pos, "the node allocator writes package-level state without sync/atomic or sync.Pool: two goroutines acquiring nodes at the same time can be handed the same node or ID")
		}
	}
	// pool New may also be a plain function value (not a closure)
	// use-after-release inside one function
	for _, f := range fns {
		for _, ci := range core.Calls(f) {
			cf := ci.Common().StaticCallee()
			if cf == nil {
				continue
			}
			isRelease := cf == r.remove || (core.FuncPkg(cf) == r.idr && r.nodeAPIFunc(cf) && releases(cf, r, 0))
			if !isRelease || len(ci.Common().Args) == 0 {
				continue
			}
			v := ci.Common().Args[0]
			key := core.FuncKey(f) + " after " + cf.Name()
			bad := token.NoPos
			what := ""
			vDef, _ := v.(ssa.Instruction)
			core.WalkAfter(ci, func(in ssa.Instruction) bool {
				if vDef != nil && in == vDef {
					return false // the SSA value is redefined (loop back edge): a different runtime node
				}
				flag := func(w string) {
					if !bad.IsValid() {
						bad, what = core.InstrPos(in), w
					}
				}
				switch x := in.(type) {
				case *ssa.FieldAddr:
					if x.X == v && !(cf != r.remove && allowed[f] && isOnlyStored(x)) {
						flag("a field of the released node is accessed")
					}
				case *ssa.Store:
					if x.Val == v {
						flag("the released node is stored")
					}
				case *ssa.Return:
					for _, rv := range x.Results {
						if rv == v {
							flag("the released node is returned")
						}
					}
				case ssa.CallInstruction:
					for _, a := range x.Common().Args {
						if a == v {
							flag("the released node is passed to " + x.Common().String())
						}
					}
				}
				return true
			})
			if bad.IsValid() {
				c.Bad(rd, key, bad, what+" after the call that returned it to the pool")
			} else {
				c.OK(rd, key, core.InstrPos(ci), "no use of the released value after the release")
			}
		}
	}
	c.Floor(rd, 10, "Put, Get, New and release sites")

}

func isOnlyStored(fa *ssa.FieldAddr) bool {
	for _, u := range core.Referrers(fa) {
		st, ok := u.(*ssa.Store)
		if !ok || st.Addr != fa {
			return false
		}
	}
	return true
}

// returnsAtomicAdd: the function returns the result of a sync/atomic call on a package-level variable.
func returnsAtomicAdd(f *ssa.Function, r *c12roles) bool {
	ok := false
	for _, b := range f.Blocks {
		for _, in := range b.Instrs {
			rt, isRet := in.(*ssa.Return)
			if !isRet || len(rt.Results) != 1 {
				continue
			}
			call, isCall := rt.Results[0].(*ssa.Call)
			if !isCall || !isAtomicCall(call) || len(call.Call.Args) == 0 {
				return false
			}
			g, isG := call.Call.Args[0].(*ssa.Global)
			if !isG {
				return false
			}
			r.counterG = g
			ok = true
		}
	}
	return ok
}

// returnsResetNode: every return of f yields a value that is dominated by a reset call on it, or the
// result of a call to a function for which that holds.
func returnsResetNode(f *ssa.Function, r *c12roles, depth int) bool {
	if depth > 3 || f.Blocks == nil {
		return false
	}
	any := false
	for _, b := range f.Blocks {
		for _, in := range b.Instrs {
			rt, ok := in.(*ssa.Return)
			if !ok || len(rt.Results) != 1 {
				continue
			}
			any = true
			v := core.Unwrap(rt.Results[0], true)
			if call, ok := v.(*ssa.Call); ok {
				if cf := call.Call.StaticCallee(); cf != nil && returnsResetNode(cf, r, depth+1) {
					continue
				}
				return false
			}
			dom := false
			for _, cj := range core.Calls(f) {
				cf := cj.Common().StaticCallee()
				for _, rf := range r.resetFns {
					if cf == rf && len(cj.Common().Args) > 0 && cj.Common().Args[0] == v && core.Dominates(cj, rt) {
						dom = true
					}
				}
			}
			if !dom {
				return false
			}
			// and it must be a fresh allocation of this call, not a slot of shared storage
			if _, fresh := v.(*ssa.Alloc); !fresh {
				return false
			}
		}
	}
	return any
}

// releases: f (a node API function) resets/pools its first parameter.
func releases(f *ssa.Function, r *c12roles, depth int) bool {
	if depth > 3 || len(f.Params) == 0 {
		return false
	}
	for _, ci := range core.Calls(f) {
		cf := ci.Common().StaticCallee()
		if cf == nil || len(ci.Common().Args) == 0 {
			continue
		}
		if ci.Common().Args[0] != ssa.Value(f.Params[0]) {
			continue
		}
		for _, rf := range r.resetFns {
			if cf == rf {
				return true
			}
		}
		if cf != f && core.FuncPkg(cf) == r.idr && releases(cf, r, depth+1) {
			return true
		}
	}
	return false
}

// ---------------------------------------------------------------- R12e

// holderLoad: v is a load of a *Node-typed struct field (x.H); returns the field address.
func holderLoad(v ssa.Value, r *c12roles) *ssa.FieldAddr {
	u, ok := v.(*ssa.UnOp)
	if !ok || u.Op != token.MUL {
		return nil
	}
	fa, ok := u.X.(*ssa.FieldAddr)
	if !ok {
		return nil
	}
	fld := core.FieldOfAddr(fa)
	if fld == nil || !isPtrToNamed(fld.Type(), r.node) {
		return nil
	}
	if n := core.FieldOwner(fa); n != nil && types.Identical(n, r.node) {
		return nil // a link of a node, not a holder in a reader
	}
	return fa
}

func runR12e(c *core.Ctx, r *c12roles, fns []*ssa.Function) {
	runR12eAs(c, r, fns, "R12e")
	c.Floor("R12e", 15, "RemoveAndReleaseTree call sites in readers")
}

func runR12eAs(c *core.Ctx, r *c12roles, fns []*ssa.Function, rule string) {
	// holder fields per struct type: *Node fields whose loaded value is passed to RemoveAndReleaseTree
	// somewhere or returned by a method named Read of that type.
	holders := map[*types.Named]map[*types.Var]bool{}
	addHolder := func(fa *ssa.FieldAddr) {
		n := core.FieldOwner(fa)
		if n == nil {
			return
		}
		if holders[n] == nil {
			holders[n] = map[*types.Var]bool{}
		}
		holders[n][core.FieldOfAddr(fa)] = true
	}
	for _, f := range fns {
		if r.nodeAPIFunc(f) {
			continue
		}
		for _, ci := range core.Calls(f) {
			if ra := releaseArg(ci, r, 0); ra != nil {
				if fa := holderLoad(ra, r); fa != nil {
					if _, isParamBase := fa.X.(*ssa.Parameter); isParamBase {
						addHolder(fa)
					}
				}
			}
		}
		if f.Name() == "Read" && f.Signature.Recv() != nil {
			for _, b := range f.Blocks {
				for _, in := range b.Instrs {
					if rt, ok := in.(*ssa.Return); ok && len(rt.Results) > 0 {
						if fa := holderLoad(rt.Results[0], r); fa != nil {
							if _, isParamBase := fa.X.(*ssa.Parameter); isParamBase {
								addHolder(fa)
							}
						}
					}
				}
			}
		}
	}
	for _, f := range fns {
		if r.nodeAPIFunc(f) {
			continue
		}
		for _, ci := range core.Calls(f) {
			arg := releaseArg(ci, r, 0)
			if arg == nil {
				continue
			}
			key := core.FuncKey(f) + " releases "
			if fa := holderLoad(arg, r); fa != nil {
				fld := core.FieldOfAddr(fa)
				key += "holder " + fld.Name()
				// every path after the call: store to same field before any load of it / return
				var badPos token.Pos
				why := ""
				var dfs func(b *ssa.BasicBlock, start int, seen map[*ssa.BasicBlock]bool)
				dfs = func(b *ssa.BasicBlock, start int, seen map[*ssa.BasicBlock]bool) {
					for i := start; i < len(b.Instrs); i++ {
						switch x := b.Instrs[i].(type) {
						case *ssa.Store:
							if core.SameValue(x.Addr, fa) {
								return // overwritten on this path
							}
						case *ssa.UnOp:
							if x.Op == token.MUL && core.SameValue(x.X, fa) && !badPos.IsValid() {
								badPos, why = core.InstrPos(x), "holder read again before being overwritten"
								return
							}
						case *ssa.Return:
							if !badPos.IsValid() {
								badPos, why = core.InstrPos(x), "function returns with the holder still referencing the released node"
							}
							return
						case ssa.CallInstruction:
							// a call to a method of the same receiver may read the holder
							if cf := x.Common().StaticCallee(); cf != nil && releaseArg(x, r, 0) == nil && readsField(cf, fld, 0) && !badPos.IsValid() {
								badPos, why = core.InstrPos(x), "calls "+core.FuncKey(cf)+" which reads the holder, before it is overwritten"
								return
							}
						}
					}
					for _, s := range b.Succs {
						if !seen[s] {
							seen[s] = true
							dfs(s, 0, seen)
						}
					}
				}
				dfs(ci.Block(), core.InstrIndex(ci)+1, map[*ssa.BasicBlock]bool{})
				if badPos.IsValid() {
					c.Bad(rule, key, badPos, why+": a released (pooled) node stays reachable from the reader")
				} else {
					c.OK(rule, key, core.InstrPos(ci), "holder overwritten on every path after the release")
				}
				continue
			}
			if p, ok := arg.(*ssa.Parameter); ok && f.Signature.Recv() != nil && len(f.Params) >= 2 {
				key += "parameter " + p.Name()
				recvT := core.NamedOf(f.Params[0].Type())
				hs := holders[recvT]
				if len(hs) == 0 {
					c.OK(rule, key, core.InstrPos(ci), "receiver type has no holder field")
					continue
				}
				for fld := range hs {
					k2 := key + " holder " + fld.Name()
					if clearsHolder(f, p, fld, ci) {
						c.OK(rule, k2, core.InstrPos(ci), "holder cleared (guarded by comparison with the parameter, or unconditionally) before the release")
					} else {
						c.Bad(rule, k2, core.InstrPos(ci), "Release does not clear holder field "+fld.Name()+" when it refers to the released node")
					}
				}
				continue
			}
			// local value: the use-after-release walk of R12d covers it (no store/return/use afterwards)
			key += "local"
			c.OK(rule, key, core.InstrPos(ci), "released local: later uses are excluded by the R12d use-after-release walk")
		}
	}
}

// readsField: function (transitively, depth-limited, static callees) loads the given field.
func readsField(f *ssa.Function, fld *types.Var, depth int) bool {
	if depth > 4 || f.Blocks == nil {
		return false
	}
	for _, b := range f.Blocks {
		for _, in := range b.Instrs {
			switch x := in.(type) {
			case *ssa.FieldAddr:
				if core.FieldOfAddr(x) == fld {
					for _, u := range core.Referrers(x) {
						if _, isStore := u.(*ssa.Store); !isStore {
							return true
						}
					}
				}
			case ssa.CallInstruction:
				if cf := x.Common().StaticCallee(); cf != nil && cf != f && core.FuncPkg(cf) == core.FuncPkg(f) && readsField(cf, fld, depth+1) {
					return true
				}
			}
		}
	}
	return false
}

// clearsHolder: before `release`, f stores nil into recv.fld either unconditionally (dominating) or on
// the true edge of `param == recv.fld` (either operand order), with that test dominating the release.
func clearsHolder(f *ssa.Function, p *ssa.Parameter, fld *types.Var, release ssa.Instruction) bool {
	return clearsHolderDepth(f, p, fld, release, 0)
}

// clearsHolderDepth: the clearing may also sit in a method of the same receiver that is called, with the
// parameter bound, on every path before the release (clearsHolderViaHelper).
func clearsHolderDepth(f *ssa.Function, p *ssa.Parameter, fld *types.Var, release ssa.Instruction, depth int) bool {
	return clearsHolderLocal(f, p, fld, release) || clearsHolderViaHelper(f, p, fld, release, depth)
}

func clearsHolderLocal(f *ssa.Function, p *ssa.Parameter, fld *types.Var, release ssa.Instruction) bool {
	// the release sits on an edge on which the parameter is known to differ from the holder: nothing to clear
	for _, b := range f.Blocks {
		ifi, ok := b.Instrs[len(b.Instrs)-1].(*ssa.If)
		if !ok {
			continue
		}
		bo, ok := ifi.Cond.(*ssa.BinOp)
		if !ok || !(bo.Op == token.EQL || bo.Op == token.NEQ) {
			continue
		}
		isFld := func(v ssa.Value) bool {
			u, ok := v.(*ssa.UnOp)
			if !ok || u.Op != token.MUL {
				return false
			}
			a, ok := u.X.(*ssa.FieldAddr)
			return ok && core.FieldOfAddr(a) == fld && a.X == ssa.Value(f.Params[0])
		}
		if !((bo.X == ssa.Value(p) && isFld(bo.Y)) || (bo.Y == ssa.Value(p) && isFld(bo.X))) {
			continue
		}
		idx := 0 // edge on which they differ
		if bo.Op == token.EQL {
			idx = 1
		}
		s := b.Succs[idx]
		if len(s.Preds) == 1 && s.Dominates(release.Block()) && b.Succs[0] != b.Succs[1] {
			return true
		}
	}
	for _, b := range f.Blocks {
		for _, in := range b.Instrs {
			st, ok := in.(*ssa.Store)
			if !ok || !core.IsNilConst(st.Val) {
				continue
			}
			fa, ok := st.Addr.(*ssa.FieldAddr)
			if !ok || core.FieldOfAddr(fa) != fld || fa.X != ssa.Value(f.Params[0]) {
				continue
			}
			if core.Dominates(st, release) {
				return true
			}
			// guarded form: st's block is the true successor of an If on (p == load fld)
			for _, pred := range b.Preds {
				ifi, ok := pred.Instrs[len(pred.Instrs)-1].(*ssa.If)
				if !ok || pred.Succs[0] != b {
					continue
				}
				bo, ok := ifi.Cond.(*ssa.BinOp)
				if !ok || bo.Op != token.EQL {
					continue
				}
				isFld := func(v ssa.Value) bool {
					u, ok := v.(*ssa.UnOp)
					if !ok || u.Op != token.MUL {
						return false
					}
					a, ok := u.X.(*ssa.FieldAddr)
					return ok && core.FieldOfAddr(a) == fld && a.X == ssa.Value(f.Params[0])
				}
				if (bo.X == ssa.Value(p) && isFld(bo.Y)) || (bo.Y == ssa.Value(p) && isFld(bo.X)) {
					if core.Dominates(ifi, release) && len(b.Preds) == 1 {
						return true
					}
				}
			}
		}
	}
	return false
}

// ---------------------------------------------------------------- R12f

func runR12f(c *core.Ctx, r *c12roles, fns []*ssa.Function) {
	helpers := j1AttachHelpers(r, fns)
	for _, f := range fns {
		if r.nodeAPIFunc(f) {
			continue
		}
		attached := map[ssa.Value]int{}
		for _, ci := range core.Calls(f) {
			cf := ci.Common().StaticCallee()
			if cf == nil || ci.Common().IsInvoke() {
				continue
			}
			var child ssa.Value
			key := core.FuncKey(f) + " AddChild"
			if cf == r.addChild {
				child = ci.Common().Args[1]
			} else if idxs := helpers[cf]; len(idxs) == 1 {
				// a call of an attaching helper is an attachment of the argument in this function
				for j := range idxs {
					if j < len(ci.Common().Args) {
						child = ci.Common().Args[j]
					}
				}
				key = core.FuncKey(f) + " AddChild via " + cf.Name()
			} else if len(idxs) > 1 {
				c.Unknown("R12f", core.FuncKey(f)+" AddChild via "+cf.Name(), core.InstrPos(ci), "helper attaches more than one of its parameters")
				continue
			}
			if child == nil {
				continue
			}
			src, ok := freshNodeSource(child, r, 0)
			if !ok {
				c.Bad("R12f", key, core.InstrPos(ci), "attached child is not a node freshly created (or built) in this function: "+src+" — a node that may already have a parent would end up in two sibling lists")
				continue
			}
			attached[child]++
			if attached[child] > 1 {
				c.Bad("R12f", key, core.InstrPos(ci), "the same created node value is attached twice")
				continue
			}
			c.OK("R12f", key, core.InstrPos(ci), "child is "+src)
		}
	}
	c.Floor("R12f", 20, "AddChild call sites in readers")
}

// freshNodeSource classifies the origin of the child operand.
func freshNodeSource(v ssa.Value, r *c12roles, depth int) (string, bool) {
	if depth > 6 {
		return "too deep", false
	}
	switch x := v.(type) {
	case *ssa.Call:
		cf := x.Call.StaticCallee()
		if cf == nil {
			// interface call returning a node (RecReader.ReadAndMatch): builder by contract of the interface
			if x.Call.IsInvoke() {
				return "result of interface method " + x.Call.Method.Name(), true
			}
			return "dynamic call", false
		}
		if core.InRepo(core.FuncPkg(cf)) && returnsNode(cf, r) && buildsFresh(cf, r, depth+1) {
			return "result of " + core.FuncKey(cf), true
		}
		return "result of " + core.FuncKey(cf) + " (not a node-building function)", false
	case *ssa.Extract:
		return freshNodeSource(x.Tuple, r, depth+1)
	case *ssa.Phi:
		desc := []string{}
		for _, e := range x.Edges {
			if core.IsNilConst(e) {
				continue
			}
			d, ok := freshNodeSource(e, r, depth+1)
			if !ok {
				return d, false
			}
			desc = append(desc, d)
		}
		return strings.Join(desc, " | "), len(desc) > 0
	case *ssa.UnOp:
		if x.Op == token.MUL {
			// load of a field/local: walk backwards from the load; on every path the nearest store to a
			// structurally equal address must store a fresh node; reaching the entry, or a call that may
			// write the field, without such a store makes the origin unknown.
			return lastStoresFresh(x, r, depth)
		}
	case *ssa.Parameter:
		// parameter of an unexported helper that is only called statically: it is exactly the argument at
		// each call site; judge the freshness there (the call site also counts as the attachment, runR12f).
		g := x.Parent()
		cs, why := r.privateHelperCallers(g)
		if cs == nil {
			return "parameter " + x.Name() + " (" + why + ")", false
		}
		j := paramIndex(g, x)
		for _, ci := range cs {
			if j < 0 || j >= len(ci.Common().Args) {
				return "parameter " + x.Name(), false
			}
			if d, ok := freshNodeSource(ci.Common().Args[j], r, depth+1); !ok {
				return "parameter " + x.Name() + ", which is at the call in " + core.FuncKey(ci.Parent()) + ": " + d, false
			}
		}
		return fmt.Sprintf("parameter %s of a helper whose %d call site(s) all pass a fresh node", x.Name(), len(cs)), true
	}
	return fmt.Sprintf("%T", v), false
}

func returnsNode(f *ssa.Function, r *c12roles) bool {
	res := f.Signature.Results()
	for i := 0; i < res.Len(); i++ {
		if isPtrToNamed(res.At(i).Type(), r.node) {
			return true
		}
	}
	return false
}

// buildsFresh: every non-nil *Node result of f is itself a freshly created node: f is a creation function
// of package idr (no *Node parameter, no receiver), or all its returns are fresh by freshNodeSource.
func buildsFresh(f *ssa.Function, r *c12roles, depth int) bool {
	if depth > 6 || f.Blocks == nil {
		return false
	}
	if core.FuncPkg(f) == r.idr && f.Signature.Recv() == nil {
		hasNodeParam := false
		for _, p := range f.Params {
			if isPtrToNamed(p.Type(), r.node) {
				hasNodeParam = true
			}
		}
		if !hasNodeParam {
			return true
		}
	}
	res := f.Signature.Results()
	for _, b := range f.Blocks {
		for _, in := range b.Instrs {
			rt, ok := in.(*ssa.Return)
			if !ok {
				continue
			}
			for i, v := range rt.Results {
				if !isPtrToNamed(res.At(i).Type(), r.node) || core.IsNilConst(v) {
					continue
				}
				if _, ok := freshNodeSource(v, r, depth+1); !ok {
					return false
				}
			}
		}
	}
	return true
}

func lastStoresFresh(load *ssa.UnOp, r *c12roles, depth int) (string, bool) {
	var fld *types.Var
	if fa, ok := load.X.(*ssa.FieldAddr); ok {
		fld = core.FieldOfAddr(fa)
	}
	seen := map[*ssa.BasicBlock]bool{}
	why := ""
	var back func(b *ssa.BasicBlock, from int) bool
	back = func(b *ssa.BasicBlock, from int) bool {
		for i := from; i >= 0; i-- {
			switch x := b.Instrs[i].(type) {
			case *ssa.Store:
				if core.SameValue(x.Addr, load.X) {
					if d, ok := freshNodeSource(x.Val, r, depth+1); !ok {
						why = "location last assigned " + d
						return false
					}
					return true
				}
			case ssa.CallInstruction:
				if fld != nil {
					if cf := x.Common().StaticCallee(); cf != nil && core.InRepo(core.FuncPkg(cf)) && writesField(cf, fld, 0) {
						why = "location may be rewritten by " + core.FuncKey(cf)
						return false
					}
				}
			}
		}
		if len(b.Preds) == 0 {
			why = "location not assigned on a path from the function entry"
			return false
		}
		for _, p := range b.Preds {
			if seen[p] {
				continue
			}
			seen[p] = true
			if !back(p, len(p.Instrs)-1) {
				return false
			}
		}
		return true
	}
	if back(load.Block(), core.InstrIndex(load)-1) {
		return "location assigned a fresh node on every path", true
	}
	return why, false
}

// writesField: f (transitively over static repo callees, depth-limited) stores to the field.
func writesField(f *ssa.Function, fld *types.Var, depth int) bool {
	if depth > 4 || f.Blocks == nil {
		return false
	}
	for _, w := range core.Writes(f) {
		if w.Field == fld && w.Kind == "field" {
			return true
		}
	}
	for _, ci := range core.Calls(f) {
		if cf := ci.Common().StaticCallee(); cf != nil && cf != f && core.InRepo(core.FuncPkg(cf)) && writesField(cf, fld, depth+1) {
			return true
		}
	}
	return false
}

// releaseArg: if ci releases a node — RemoveAndReleaseTree(x), an interface call Release(x) on a *Node, or a
// static call of a Release-style method that hands its parameter to one of those — returns x.
func releaseArg(ci ssa.CallInstruction, r *c12roles, depth int) ssa.Value {
	cc := ci.Common()
	if cc.IsInvoke() {
		if cc.Method.Name() == "Release" && len(cc.Args) == 1 && isPtrToNamed(cc.Args[0].Type(), r.node) {
			return cc.Args[0]
		}
		return nil
	}
	cf := cc.StaticCallee()
	if cf == nil {
		return nil
	}
	if cf == r.remove {
		return cc.Args[0]
	}
	if depth > 2 || cf.Blocks == nil || cf.Signature.Recv() == nil || len(cf.Params) != 2 || !isPtrToNamed(cf.Params[1].Type(), r.node) || !core.InRepo(core.FuncPkg(cf)) {
		return nil
	}
	for _, cj := range core.Calls(cf) {
		if a := releaseArg(cj, r, depth+1); a != nil && a == ssa.Value(cf.Params[1]) {
			return cc.Args[1]
		}
	}
	return nil
}

// c12AllowedWriters: reset, AddChild, RemoveAndReleaseTree and the node-API helpers they (statically) call.
func c12AllowedWriters(r *c12roles) map[*ssa.Function]bool {
	allowed := map[*ssa.Function]bool{}
	var grow func(f *ssa.Function)
	grow = func(f *ssa.Function) {
		if f == nil || allowed[f] || core.FuncPkg(f) != r.idr || !r.nodeAPIFunc(f) {
			return
		}
		allowed[f] = true
		for _, ci := range core.Calls(f) {
			grow(ci.Common().StaticCallee())
		}
	}
	grow(r.addChild)
	grow(r.remove)
	for _, rf := range r.resetFns {
		grow(rf)
	}
	return allowed
}

// structLiteralField: v is the value stored by `*p = T{...}` (a load of the literal's temporary, or a zero constant);
// returns the value the literal assigns to field index i, or nil when the field is left at its zero value.
func structLiteralField(v ssa.Value, i int) ssa.Value {
	u, ok := v.(*ssa.UnOp)
	if !ok || u.Op != token.MUL {
		return nil
	}
	a, ok := u.X.(*ssa.Alloc)
	if !ok {
		return nil
	}
	var val ssa.Value
	for _, r := range core.Referrers(a) {
		fa, ok := r.(*ssa.FieldAddr)
		if !ok || fa.Field != i {
			continue
		}
		for _, r2 := range core.Referrers(fa) {
			if st, ok := r2.(*ssa.Store); ok && st.Addr == ssa.Value(fa) {
				val = st.Val
			}
		}
	}
	return val
}
