package rules

import (
	"go/constant"
	"go/token"
	"go/types"

	"golang.org/x/tools/go/ssa"

	"omnilint/core"
)

// Shared by R19c (empty-input edge) and R19e (constant "" only on the empty-input edge): the emptiness tests of a
// string value, whatever their spelling — `p == ""`, `p != ""`, `len(p) == 0` and its variants, or a repository
// predicate applied to p (`isSet(p)`, `!isBlank(p)`) whose body is proven to decide exactly "p is empty".

// h1EmptyTest: an If that decides whether the string is empty, and the successor on which it IS empty.
type h1EmptyTest struct {
	ifi      *ssa.If
	empty    *ssa.BasicBlock
	nonEmpty *ssa.BasicBlock
}

func h1IsStringType(t types.Type) bool {
	bt, ok := t.Underlying().(*types.Basic)
	return ok && bt.Info()&types.IsString != 0
}

func h1IsEmptyStringConst(v ssa.Value) bool {
	k, ok := v.(*ssa.Const)
	return ok && k.Value != nil && k.Value.Kind() == constant.String && constant.StringVal(k.Value) == ""
}

// h1BoolMeaning: what the boolean value v says about the string p. known=false: nothing. emptyWhenTrue: v == true
// iff p is empty (false: v == true iff p is not empty).
func h1BoolMeaning(v ssa.Value, p ssa.Value, depth int) (emptyWhenTrue, known bool) {
	if depth > 4 {
		return false, false
	}
	switch x := v.(type) {
	case *ssa.UnOp:
		if x.Op == token.NOT {
			e, ok := h1BoolMeaning(x.X, p, depth+1)
			return !e, ok
		}
	case *ssa.BinOp:
		if x.Op == token.EQL || x.Op == token.NEQ {
			if (x.X == p && h1IsEmptyStringConst(x.Y)) || (x.Y == p && h1IsEmptyStringConst(x.X)) {
				return x.Op == token.EQL, true
			}
		}
		isLen := func(w ssa.Value) bool {
			cl, ok := w.(*ssa.Call)
			if !ok {
				return false
			}
			bi, ok := cl.Call.Value.(*ssa.Builtin)
			return ok && bi.Name() == "len" && len(cl.Call.Args) == 1 && cl.Call.Args[0] == p
		}
		if nz, zs, ok := a5LenTest(x, isLen); ok && zs >= 0 && nz >= 0 && nz != zs {
			// Succs[0] is the true edge: zeroSucc == 0 means "true iff len == 0"
			return zs == 0, true
		}
	case *ssa.Call:
		if x.Call.IsInvoke() {
			return false, false
		}
		g := x.Call.StaticCallee()
		if g == nil {
			return false, false
		}
		for i, a := range x.Call.Args {
			if a != p {
				continue
			}
			if e, ok := h1EmptyPredicate(g, i, depth+1); ok {
				return e, true
			}
		}
	}
	return false, false
}

// h1EmptyPredicate: g is a side-effect free repository function with the single result bool whose every return says
// the same thing about the emptiness of its parameter number i: either an expression that h1BoolMeaning understands,
// or a boolean constant in a block that an emptiness test of the parameter dominates.
func h1EmptyPredicate(g *ssa.Function, i int, depth int) (emptyWhenTrue, ok bool) {
	if g == nil || g.Blocks == nil || depth > 4 || i >= len(g.Params) || !core.InRepo(core.FuncPkg(g)) {
		return false, false
	}
	res := g.Signature.Results()
	if res.Len() != 1 {
		return false, false
	}
	if bt, isB := res.At(0).Type().Underlying().(*types.Basic); !isB || bt.Kind() != types.Bool {
		return false, false
	}
	p := g.Params[i]
	if !h1IsStringType(p.Type()) {
		return false, false
	}
	// no effects: only loads-free value computations, builtin len and nested predicates
	for _, b := range g.Blocks {
		for _, in := range b.Instrs {
			switch y := in.(type) {
			case *ssa.BinOp, *ssa.UnOp, *ssa.Phi, *ssa.If, *ssa.Jump, *ssa.Return, *ssa.DebugRef:
				if u, isU := y.(*ssa.UnOp); isU && u.Op != token.NOT {
					return false, false
				}
			case *ssa.Call:
				if bi, isBi := y.Call.Value.(*ssa.Builtin); isBi && bi.Name() == "len" {
					continue
				}
				if _, known := h1BoolMeaning(y, p, depth+1); !known {
					return false, false
				}
			default:
				return false, false
			}
		}
	}
	tests := h1EmptyTestsDepth(p, depth+1)
	first := true
	for _, rt := range c19Returns(g) {
		if len(rt.Results) != 1 {
			return false, false
		}
		var e, known bool
		if k, isK := rt.Results[0].(*ssa.Const); isK && k.Value != nil && k.Value.Kind() == constant.Bool {
			val := constant.BoolVal(k.Value)
			for _, t := range tests {
				if len(t.empty.Preds) == 1 && (t.empty == rt.Block() || t.empty.Dominates(rt.Block())) {
					e, known = val, true
				} else if len(t.nonEmpty.Preds) == 1 && (t.nonEmpty == rt.Block() || t.nonEmpty.Dominates(rt.Block())) {
					e, known = !val, true
				}
				if known {
					break
				}
			}
		} else {
			e, known = h1BoolMeaning(rt.Results[0], p, depth+1)
		}
		if !known {
			return false, false
		}
		if first {
			emptyWhenTrue, first = e, false
		} else if emptyWhenTrue != e {
			return false, false
		}
	}
	if first {
		return false, false
	}
	return emptyWhenTrue, true
}

// h1EmptyTests: the If instructions in p's function that branch on a value deciding the emptiness of p, in a
// deterministic order (direct comparisons first, then len tests, then predicates; each by block index).
func h1EmptyTests(p ssa.Value) []h1EmptyTest { return h1EmptyTestsDepth(p, 0) }

func h1EmptyTestsDepth(p ssa.Value, depth int) []h1EmptyTest {
	if p == nil || !h1IsStringType(p.Type()) {
		return nil
	}
	var f *ssa.Function
	switch x := p.(type) {
	case *ssa.Parameter:
		f = x.Parent()
	case ssa.Instruction:
		f = x.Parent()
	}
	if f == nil {
		return nil
	}
	var direct, viaLen, viaPred []h1EmptyTest
	for _, b := range f.Blocks {
		if len(b.Instrs) == 0 {
			continue
		}
		ifi, ok := b.Instrs[len(b.Instrs)-1].(*ssa.If)
		if !ok {
			continue
		}
		e, known := h1BoolMeaning(ifi.Cond, p, depth)
		if !known {
			continue
		}
		t := h1EmptyTest{ifi: ifi, empty: b.Succs[0], nonEmpty: b.Succs[1]}
		if !e {
			t.empty, t.nonEmpty = b.Succs[1], b.Succs[0]
		}
		// classify by the innermost deciding value
		c := ifi.Cond
		for {
			if u, isU := c.(*ssa.UnOp); isU && u.Op == token.NOT {
				c = u.X
				continue
			}
			break
		}
		switch y := c.(type) {
		case *ssa.BinOp:
			if y.X == p || y.Y == p {
				direct = append(direct, t)
			} else {
				viaLen = append(viaLen, t)
			}
		default:
			viaPred = append(viaPred, t)
		}
	}
	return append(append(direct, viaLen...), viaPred...)
}

// h1AllocStores: the stores into the local cell a or into a field / element of it.
func h1AllocStores(a *ssa.Alloc) []*ssa.Store {
	var out []*ssa.Store
	addrs := []ssa.Value{a}
	seen := map[ssa.Value]bool{a: true}
	for i := 0; i < len(addrs); i++ {
		for _, r := range core.Referrers(addrs[i]) {
			switch y := r.(type) {
			case *ssa.FieldAddr:
				if y.X == addrs[i] && !seen[y] {
					seen[y] = true
					addrs = append(addrs, y)
				}
			case *ssa.IndexAddr:
				if y.X == addrs[i] && !seen[y] {
					seen[y] = true
					addrs = append(addrs, y)
				}
			case *ssa.Store:
				if y.Addr == addrs[i] {
					out = append(out, y)
				}
			}
		}
	}
	return out
}

// h1AddrPath: addr as a path of field numbers (-1 for an element) below a local cell.
func h1AddrPath(addr ssa.Value) (*ssa.Alloc, []int, bool) {
	var rev []int
	for {
		switch x := addr.(type) {
		case *ssa.Alloc:
			path := make([]int, len(rev))
			for i := range rev {
				path[i] = rev[len(rev)-1-i]
			}
			return x, path, true
		case *ssa.FieldAddr:
			rev = append(rev, x.Field)
			addr = x.X
		case *ssa.IndexAddr:
			rev = append(rev, -1)
			addr = x.X
		default:
			return nil, nil, false
		}
	}
}

// h1PathsOverlap: one path is a prefix of the other (the two addresses share storage).
func h1PathsOverlap(a, b []int) bool {
	n := len(a)
	if len(b) < n {
		n = len(b)
	}
	for i := 0; i < n; i++ {
		if a[i] != b[i] {
			return false
		}
	}
	return true
}
