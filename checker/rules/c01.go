package rules

import (
	"fmt"
	"go/types"
	"strings"

	"golang.org/x/tools/go/ssa"

	"omnilint/core"
)

func init() {
	register(&RuleSet{
		Prop:  "C01",
		Title: "Read/RawRecord result-stream contract",
		Explanation: "R01a–c transition table: the Transform implementation's Read and RawRecord (loop-free SSA) are executed by a finite-domain abstract interpreter on every point of {stored error nil / ErrTransformFailed / other} × {stored raw record nil / set} × {ingester ok / error∧continuable / error∧¬continuable, the error itself of ErrTransformFailed or another type}, the ingester's methods being the only uninterpreted calls; each row is checked against the contract: " +
			"R01a a stored non-ErrTransformFailed error is returned again unchanged with no ingester call and no state change, otherwise the ingester is read exactly once, a continuable error is returned as ErrTransformFailed, a non-continuable one unchanged, and exactly the returned error value is latched; " +
			"R01b the returned bytes are nil whenever the error is non-nil and are the ingester's bytes otherwise; " +
			"R01c the raw record is stored only on success and cleared otherwise, and RawRecord returns (nil, last error) / (nil, fresh 'call Read first' error) / (stored record, nil) without changing state; " +
			"R01d every built-in format reader's IsContinuableError is abstractly interpreted on ⟨io.EOF⟩, ⟨its fatal types, discovered from the type tests in the predicate⟩, ⟨ErrTransformFailed⟩, ⟨plain error⟩: false on io.EOF, at least one fatal type, and every typed error that the error-class analysis (A3) says the reader's Read can return is classified non-continuable by that same reader; the built-in ingester's predicate is true on ErrTransformFailed and otherwise equals the reader's answer; " +
			"R01e in every built-in Ingester.Read the []byte result of each return is nil or the first result of encoding/json.Marshal.",
		NotDecided: "which reader failures deserve to be continuable (only io.EOF, the reader's fatal types and — via C16 — input I/O failures are pinned); UTF-8 validity of the bytes is inherited from encoding/json.Marshal; caller-supplied ingesters and format readers are covered by R01a–c only; the abstract rows say nothing about an ingester that violates its own interface contract (e.g. returns a nil error with a nil raw record).",
		Trusted:    append([]string{"encoding/json.Marshal returns valid UTF-8 JSON", "errors.New / fmt.Errorf return non-nil errors of a type not declared in the repository"}, commonTrusted...),
		Run:        runC01,
	})
	control(Control{ID: "c01-latch-ignores-etf", Prop: "C01", File: "transform.go",
		Old: "if o.lastErr != nil && !errs.IsErrTransformFailed(o.lastErr) {", New: "if o.lastErr != nil {",
		Rule: "R01a", Substr: "transform).Read [lastErr=ETF", Why: "a per-record failure becomes terminal"})
	control(Control{ID: "c01-latch-inverted", Prop: "C01", File: "transform.go",
		Old: "if o.lastErr != nil && !errs.IsErrTransformFailed(o.lastErr) {", New: "if o.lastErr != nil && errs.IsErrTransformFailed(o.lastErr) {",
		Rule: "R01a", Substr: "transform).Read [lastErr=other", Why: "a fatal error is not terminal: the ingester is read again"})
	control(Control{ID: "c01-store-raw-error", Prop: "C01", File: "transform.go",
		Old: "\t\t\terr = errs.ErrTransformFailed(err.Error())\n", New: "\t\t\to.lastErr = err\n\t\t\treturn nil, errs.ErrTransformFailed(err.Error())\n",
		Rule: "R01a", Substr: "ingester=cont/other]", Why: "the continuable error is latched raw (becomes terminal on the next Read) while the caller saw ErrTransformFailed"})
	control(Control{ID: "c01-bytes-on-error", Prop: "C01", File: "transform.go",
		Old: "\t\ttransformed = nil\n", New: "", Rule: "R01b", Substr: "transform).Read", Why: "bytes returned together with an error"})
	control(Control{ID: "c01-rawrecord-clears-error", Prop: "C01", File: "transform.go",
		Old: "\tif o.lastErr != nil {\n\t\treturn nil, o.lastErr\n\t}\n\tif o.lastRawRecord == nil {", New: "\tif o.lastErr != nil {\n\t\terr := o.lastErr\n\t\to.lastErr = nil\n\t\treturn nil, err\n\t}\n\tif o.lastRawRecord == nil {",
		Rule: "R01c", Substr: "transform).RawRecord", Why: "RawRecord un-latches the terminal error"})
	control(Control{ID: "c01-raw-kept-on-failure", Prop: "C01", File: "transform.go",
		Old: "\t} else {\n\t\to.lastRawRecord = nil\n\t}\n", New: "\t}\n", Rule: "R01c", Substr: "transform).Read", Why: "stale raw record survives a failed Read"})
	control(Control{ID: "c01-json-eof-continuable", Prop: "C01", File: "extensions/omniv21/fileformat/json/reader.go",
		Old: "return !IsErrNodeReadingFailed(err) && err != io.EOF", New: "return !IsErrNodeReadingFailed(err)",
		Rule: "R01d", Substr: "fileformat/json.reader", Why: "io.EOF classified continuable: EOF would be wrapped into ErrTransformFailed forever"})
	control(Control{ID: "c01-predicate-wrong-type", Prop: "C01", File: "extensions/omniv21/fileformat/flatfile/csv/reader.go",
		Old: "\tcase ErrInvalidCSV:\n", New: "\tcase flatfile.ErrUnexpectedData:\n",
		Rule: "R01d", Substr: "flatfile/csv.reader", Why: "IsErrInvalidCSV asserts another type: the reader's own fatal error becomes continuable"})
	control(Control{ID: "c01-ingester-drops-etf", Prop: "C01", File: "extensions/omniv21/ingester.go",
		Old: "return errs.IsErrTransformFailed(err) || g.reader.IsContinuableError(err)", New: "return g.reader.IsContinuableError(err)",
		Rule: "R01d", Substr: "omniv21.ingester", Why: "transform failures depend on the reader's classification"})
	control(Control{ID: "c01-bytes-not-from-marshal", Prop: "C01", File: "extensions/omniv21/ingester.go",
		Old: "\ttransformed, err := json.Marshal(result)\n\treturn &g.rawRecord, transformed, err", New: "\t_, err = json.Marshal(result)\n\treturn &g.rawRecord, []byte(idr.JSONify2(n)), err",
		Rule: "R01e", Substr: "omniv21.ingester).Read", Why: "record bytes not produced by json.Marshal"})
}

func runC01(c *core.Ctx) {
	r := ecResolve(c, "R01")
	if !r.ok {
		return
	}
	e := ecNewEngine(r)

	// ---------------- R01a–c
	impls := c01ResolveImpl(c, r)
	if len(impls) == 0 {
		c.Unresolved("R01a", "Transform implementation", "no named type of package omniparser implements Transform")
	}
	for _, im := range impls {
		c01CheckTransform(c, r, im)
	}
	c.Floor("R01a", 30, "rows of the Read transition table")
	c.Floor("R01b", 30, "rows of the Read transition table")
	c.Floor("R01c", 26, "Read rows that reach the ingester + 6 RawRecord rows")

	// ---------------- R01d
	c01Classification(c, r, e)
	c.Floor("R01d", 38, "7 readers × (EOF, fatal type, ETF, plain, Read classes) + ingester")

	// ---------------- R01e
	c01FreshBytes(c, r, "R01e")
	c.Floor("R01e", 3, "returns of the built-in Ingester.Read")
}

// c01FreshBytes: the record bytes handed out by every built-in Ingester.Read are nil or a fresh json.Marshal result
// (shared with C10: a reused output buffer would make earlier results change when later records are read).
func c01FreshBytes(c *core.Ctx, r *ecRoles, rule string) {
	for _, ig := range r.ingesters {
		sig := ig.Read.Signature
		bi := -1
		for i := 0; i < sig.Results().Len(); i++ {
			if sl, ok := sig.Results().At(i).Type().Underlying().(*types.Slice); ok {
				if b, ok := sl.Elem().Underlying().(*types.Basic); ok && b.Kind() == types.Byte {
					bi = i
				}
			}
		}
		if bi < 0 {
			c.Unresolved(rule, "[]byte result of "+core.FuncKey(ig.Read), "no []byte result")
			continue
		}
		for _, rt := range ecReturns(ig.Read) {
			key := core.FuncKey(ig.Read) + " returns bytes"
			why, ok := c01BytesProvenance(rt.Results[bi], map[ssa.Value]bool{})
			c.Check(ok, rule, key, core.InstrPos(rt), why, "returned []byte is neither nil nor the result of encoding/json.Marshal: "+why)
			// nil bytes are the failure shape: they must come with a non-nil error (a (nil, nil) result is neither a record nor a failure)
			if k, isK := rt.Results[bi].(*ssa.Const); isK && k.IsNil() {
				errRes := rt.Results[len(rt.Results)-1]
				c.Check(!core.IsNilConst(errRes), rule, core.FuncKey(ig.Read)+" returns nil bytes only with an error", core.InstrPos(rt), "nil bytes are returned together with an error value",
					"nil record bytes are returned together with a nil error: Transform.Read hands the caller (nil, nil), which is neither a record (valid JSON), nor a per-record failure, nor a terminal error")
			}
			// the encoder's error travels with its bytes: a failed Marshal must not be reported as success
			if ex, isEx := rt.Results[bi].(*ssa.Extract); isEx && ok {
				errRes := rt.Results[len(rt.Results)-1]
				ex2, isEx2 := errRes.(*ssa.Extract)
				paired := isEx2 && ex2.Tuple == ex.Tuple && ex2.Index == 1
				c.Check(paired, rule, core.FuncKey(ig.Read)+" returns encoder error", core.InstrPos(rt), "the error result of json.Marshal is returned together with its bytes",
					"the bytes come from json.Marshal but its error is not the returned error: a record whose encoding fails (NaN/Inf float) would be reported as (nil, nil) — neither a record nor a failure")
			}
		}
	}
}

func c01BytesProvenance(v ssa.Value, seen map[ssa.Value]bool) (string, bool) {
	if seen[v] {
		return "φ cycle", true
	}
	seen[v] = true
	switch x := v.(type) {
	case *ssa.Const:
		if x.IsNil() {
			return "nil", true
		}
	case *ssa.Extract:
		if call, ok := x.Tuple.(*ssa.Call); ok && x.Index == 0 && core.IsCallTo(call, "encoding/json", "Marshal") {
			return "json.Marshal result", true
		}
	case *ssa.Phi:
		for _, ed := range x.Edges {
			if why, ok := c01BytesProvenance(ed, seen); !ok {
				return why, false
			}
		}
		return "φ of nil / json.Marshal results", true
	}
	return fmt.Sprintf("value %s (%T)", v.Name(), v), false
}

// c01Classification: R01d.
func c01Classification(c *core.Ctx, r *ecRoles, e *ecEngine) {
	if len(r.readers) < 7 {
		c.Unresolved("R01d", "built-in format readers", fmt.Sprintf("expected the 7 built-in implementors of fileformat.FormatReader, found %d", len(r.readers)))
	}
	for _, rd := range r.readers {
		pos := rd.IsCont.Pos()
		key := rd.Key + ".IsContinuableError"
		// ⟨io.EOF⟩
		res, known, why := e.evalCont(rd, ecInput{Dyn: r.plainDyn, EOF: true}, nil)
		switch {
		case !known:
			c.Unknown("R01d", key+" ⟨io.EOF⟩", pos, "predicate not decidable on io.EOF: "+why)
		default:
			c.Check(!res, "R01d", key+" ⟨io.EOF⟩", pos, "io.EOF is non-continuable", "io.EOF is classified continuable: Transform.Read would wrap the end of input into ErrTransformFailed forever")
		}
		// fatal types discovered from the predicate
		fatal, cands := e.fatalTypes(rd)
		fatalSet := map[*types.Named]bool{}
		for _, n := range fatal {
			fatalSet[n] = true
			c.OK("R01d", key+" ⟨"+ecTypeKey(n)+"⟩", pos, "fatal type of this reader (asserted in the predicate, classified non-continuable)")
		}
		if len(fatal) == 0 {
			var cs []string
			for _, n := range cands {
				cs = append(cs, ecTypeKey(n))
			}
			c.Bad("R01d", key+" fatal type", pos, fmt.Sprintf("the predicate classifies no repository error type as non-continuable (types tested: %v): the reader has no way to end the transform", cs))
		}
		// ⟨ErrTransformFailed⟩ and ⟨plain⟩ must be decidable
		for _, in := range []struct {
			name string
			in   ecInput
		}{{"ErrTransformFailed", ecInput{Dyn: r.etf}}, {"plain error", ecInput{Dyn: r.plainDyn}}} {
			res, known, why := e.evalCont(rd, in.in, nil)
			if !known {
				c.Unknown("R01d", key+" ⟨"+in.name+"⟩", pos, "predicate not decidable: "+why)
			} else {
				c.OK("R01d", key+" ⟨"+in.name+"⟩", pos, fmt.Sprintf("decided: continuable=%v", res))
			}
		}
		// cross-check with A3: every typed error Read can return is non-continuable for this reader
		set := e.readSet(rd)
		rkey := rd.Key + ".Read classes"
		bad := []string{}
		undecided := []string{}
		for _, el := range set.sorted() {
			switch el.Kind {
			case ecFATAL:
				res, known, why := e.evalCont(rd, ecInput{Dyn: el.T}, nil)
				if !known {
					undecided = append(undecided, el.String()+": "+why)
				} else if res {
					bad = append(bad, el.String())
				}
			case ecTOP, ecIFACE, ecPARAM:
				undecided = append(undecided, el.String())
			}
		}
		switch {
		case len(bad) > 0:
			c.Bad("R01d", rkey, rd.Read.Pos(), fmt.Sprintf("Read can return %s which this reader's IsContinuableError classifies as continuable (Read classes %s): a corrupted-input error of this type would be retried forever", strings.Join(bad, ", "), set))
		case len(undecided) > 0:
			c.Unknown("R01d", rkey, rd.Read.Pos(), fmt.Sprintf("error classes of Read not fully resolved: %s", strings.Join(undecided, "; ")))
		default:
			c.OK("R01d", rkey, rd.Read.Pos(), "every typed error in "+set.String()+" is non-continuable for this reader")
		}
	}
	if len(r.ingesters) == 0 {
		c.Unresolved("R01d", "built-in ingester", "no non-sample implementor of schemahandler.Ingester")
	}
	for _, ig := range r.ingesters {
		pos := ig.IsCont.Pos()
		key := ig.Key + ".IsContinuableError"
		for _, readerSays := range []bool{true, false} {
			for _, in := range []struct {
				name string
				in   ecInput
			}{{"ErrTransformFailed", ecInput{Dyn: r.etf}}, {"plain error", ecInput{Dyn: r.plainDyn}}, {"io.EOF", ecInput{Dyn: r.plainDyn, EOF: true}}} {
				asked := false
				var argTok *ecTok
				hook := func(m *ecMachine, call ssa.CallInstruction, callee *types.Func, recv ecV, args []ecV) (ecV, bool) {
					if callee != nil && call.Common().IsInvoke() && callee.Name() == "IsContinuableError" && len(args) == 1 {
						asked = true
						if args[0].K == ecvTok {
							argTok = args[0].Tok
						}
						return ecBoolV(readerSays), true
					}
					return ecV{}, false
				}
				cons := fmt.Sprintf("%s ⟨%s⟩ reader says %v", key, in.name, readerSays)
				res, known, why := e.evalCont(ig, in.in, hook)
				if !known {
					c.Unknown("R01d", cons, pos, "predicate not decidable: "+why)
					continue
				}
				_ = argTok
				if in.name == "ErrTransformFailed" {
					c.Check(res, "R01d", cons, pos, "ErrTransformFailed is continuable", "the ingester must classify its own ErrTransformFailed as continuable whatever the reader says")
				} else {
					c.Check(res == readerSays && asked, "R01d", cons, pos, "delegates to the format reader",
						fmt.Sprintf("for errors other than ErrTransformFailed the ingester must answer what the format reader answers; got %v (reader asked=%v)", res, asked))
				}
			}
		}
	}
}
