package rules

import (
	"fmt"
	"go/token"
	"go/types"
	"strings"

	"golang.org/x/tools/go/ssa"

	"omnilint/core"
)

// Rules added after seeds C19-3, C19-5 and C19-6 were missed.
//
// R19e output provenance: a string that a date-time function returns together with a nil error (or, for a helper
// without an error result, any string it returns) must be data-dependent on an instant (a time.Time value) — the only
// exception is the constant "" on the true edge of an `input == ""` test of one of the function's own string
// parameters (the documented empty-in/empty-out case, whose position R19c checks). A constant answer on any other
// edge — e.g. behind a test of the instant itself — replaces a valid instant of the domain by a fixed text.
//
// R19f no instant-shifting primitive: (time.Time).Add / AddDate / Truncate / Round applied to an instant that does
// not derive from time.Now() moves the instant; the repository binds and converts zones with time.Date
// (times.OverwriteTZ), (time.Time).In (times.ConvertTZ) and time.Unix only. A hand-made offset shift (In(loc) then
// Add(-offset)) reads the offset at the wrong instant around DST transitions.
//
// R19g no run-time mutable package state: the result must be a function of the arguments (and, for zone names, of the
// keyed caches). A date-time function that READS a package-level variable which some function other than a package
// initialiser writes (plain store, sync/atomic Store/Swap/Add/CompareAndSwap, atomic.Value.Store) depends on what
// other goroutines / earlier calls left there.

func c19Extra(c *core.Ctx, fns []*ssa.Function) {
	c19Provenance(c, fns)
	c19Shifts(c, fns)
	c19MutableGlobals(c, fns)
	c19ValueDependentChoice(c, fns)
}

// c19DependsOnInstant: the backward data slice of v (inside its function) reaches a value of type time.Time.
func c19DependsOnInstant(v ssa.Value, seen map[ssa.Value]bool) bool {
	if v == nil || seen[v] {
		return false
	}
	seen[v] = true
	if c19ValHasTime(v.Type()) {
		return true
	}
	switch x := v.(type) {
	case *ssa.Const, *ssa.Global, *ssa.Function, *ssa.Builtin:
		return false
	case *ssa.Parameter, *ssa.FreeVar:
		return false
	case *ssa.UnOp:
		if x.Op == token.MUL {
			// load of a local cell, or of a field / element of one (a small struct built from the instant and handed
			// on by value): follow the stores into the storage that the load reads
			if a, path, ok := h1AddrPath(x.X); ok {
				for _, st := range h1AllocStores(a) {
					if _, sp, ok := h1AddrPath(st.Addr); ok && h1PathsOverlap(path, sp) && c19DependsOnInstant(st.Val, seen) {
						return true
					}
				}
				return false
			}
		}
	}
	if in, ok := v.(ssa.Instruction); ok {
		for _, op := range in.Operands(nil) {
			if *op != nil && c19DependsOnInstant(*op, seen) {
				return true
			}
		}
	}
	return false
}

func c19ValHasTime(t types.Type) bool {
	if c19IsTime(t) {
		return true
	}
	if p, ok := t.Underlying().(*types.Pointer); ok && c19IsTime(p.Elem()) {
		return true
	}
	if tp, ok := t.(*types.Tuple); ok {
		for i := 0; i < tp.Len(); i++ {
			if c19IsTime(tp.At(i).Type()) {
				return true
			}
		}
	}
	return false
}

// c19EmptyInputEdge: block b is dominated by the empty successor of an emptiness test of a string parameter p of the
// function: `p == ""` / `len(p) == 0`, their negations, or a repository predicate proven to decide exactly that
// (h1EmptyTests).
func c19EmptyInputEdge(b *ssa.BasicBlock) bool {
	f := b.Parent()
	for _, p := range f.Params {
		for _, t := range h1EmptyTests(p) {
			edge := t.empty
			if edge == nil || len(edge.Preds) != 1 {
				continue
			}
			if edge == b || edge.Dominates(b) {
				return true
			}
		}
	}
	return false
}

func c19Provenance(c *core.Ctx, fns []*ssa.Function) {
	for _, f := range fns {
		res := f.Signature.Results()
		if res.Len() == 0 {
			continue
		}
		bt, ok := res.At(0).Type().Underlying().(*types.Basic)
		if !ok || bt.Info()&types.IsString == 0 {
			continue
		}
		hasErr := res.Len() >= 2 && c19IsError(res.At(res.Len()-1).Type())
		fk := core.FuncKey(f)
		for _, rt := range c19Returns(f) {
			if hasErr && !core.IsNilConst(rt.Results[res.Len()-1]) {
				continue // error return: R19c
			}
			key := fk + " returned text"
			// leaves of the phi tree, each with the block that selects it
			type leaf struct {
				v ssa.Value
				b *ssa.BasicBlock
			}
			var leaves []leaf
			seenPhi := map[*ssa.Phi]bool{}
			var expand func(v ssa.Value, b *ssa.BasicBlock)
			expand = func(v ssa.Value, b *ssa.BasicBlock) {
				if p, ok := v.(*ssa.Phi); ok && !seenPhi[p] {
					seenPhi[p] = true
					for i, e := range p.Edges {
						expand(e, p.Block().Preds[i])
					}
					return
				}
				leaves = append(leaves, leaf{v, b})
			}
			expand(rt.Results[0], rt.Block())
			bad := ""
			for _, l := range leaves {
				if c19DependsOnInstant(l.v, map[ssa.Value]bool{}) {
					continue
				}
				if k, ok := l.v.(*ssa.Const); ok && k.Value != nil && k.Value.ExactString() == `""` && hasErr && c19EmptyInputEdge(l.b) {
					continue
				}
				bad = l.v.String()
				if k, ok := l.v.(*ssa.Const); ok && k.Value != nil {
					bad = "the constant " + k.Value.ExactString()
				}
				break
			}
			if bad == "" {
				c.OK("R19e", key, core.InstrPos(rt), "every text returned without an error derives from the instant, or is \"\" on the empty-input edge")
			} else {
				c.Bad("R19e", key, core.InstrPos(rt), "returns "+bad+" without an error on an edge that is not the empty-input edge, and the text does not derive from the instant: a valid instant of the domain is replaced by a fixed answer")
			}
		}
	}
	c.Floor("R19e", 7, "non-error returns of the formatter, the four conversions and now()")
}

func c19Shifts(c *core.Ctx, fns []*ssa.Function) {
	n := 0
	for _, f := range fns {
		for _, ci := range core.Calls(f) {
			o := core.CalleeObj(ci)
			if o == nil || o.Pkg() == nil || o.Pkg().Path() != "time" {
				continue
			}
			sig := o.Type().(*types.Signature)
			if sig.Recv() == nil || !c19IsTime(sig.Recv().Type()) {
				continue
			}
			switch o.Name() {
			case "Add", "AddDate", "Truncate", "Round":
			default:
				continue
			}
			n++
			key := core.FuncKey(f) + " (time.Time)." + o.Name()
			args := ci.Common().Args
			if len(args) > 0 && c19FromNowOnly(args[0], map[ssa.Value]bool{}) {
				c.OK("R19f", key, core.InstrPos(ci), "receiver derives from time.Now() only")
				continue
			}
			c.Bad("R19f", key, core.InstrPos(ci), "(time.Time)."+o.Name()+" moves a parsed instant; zone binding/conversion in this repository is done with time.Date (times.OverwriteTZ), (time.Time).In (times.ConvertTZ) and time.Unix — a hand-made shift (e.g. by a zone offset read at another instant) does not preserve the instant around DST transitions")
		}
	}
	c.Note("R19f: %d instant-shifting call(s) in the date-time functions (expected 0 on the pinned tree; positive control: seeded C19-3)", n)
}

// c19GlobalMutators: package-level variables of the repository that some non-initialiser function writes.
func c19GlobalMutators(c *core.Ctx) map[*ssa.Global]string {
	out := map[*ssa.Global]string{}
	isInit := func(f *ssa.Function) bool {
		for g := f; g != nil; g = g.Parent() {
			if g.Synthetic != "" && g.Name() == "init" {
				return true
			}
			if strings.HasPrefix(g.Name(), "init#") && g.Signature.Recv() == nil {
				return true
			}
		}
		return false
	}
	for _, f := range c.RepoFunctions() {
		if isInit(f) {
			continue
		}
		for _, w := range core.Writes(f) {
			if w.Global != nil && core.InRepo(w.Global.Pkg.Pkg) {
				if _, ok := out[w.Global]; !ok {
					out[w.Global] = core.FuncKey(f)
				}
			}
		}
		for _, ci := range core.Calls(f) {
			o := core.CalleeObj(ci)
			if o == nil || o.Pkg() == nil || o.Pkg().Path() != "sync/atomic" {
				continue
			}
			name := o.Name()
			if !(strings.HasPrefix(name, "Store") || strings.HasPrefix(name, "Swap") || strings.HasPrefix(name, "Add") || strings.HasPrefix(name, "CompareAndSwap") ||
				strings.HasPrefix(name, "And") || strings.HasPrefix(name, "Or")) {
				continue
			}
			args := ci.Common().Args
			if len(args) == 0 {
				continue
			}
			_, root := core.TraceAddr(args[0])
			if g, ok := root.(*ssa.Global); ok && core.InRepo(g.Pkg.Pkg) {
				if _, ok := out[g]; !ok {
					out[g] = core.FuncKey(f) + " (sync/atomic " + core.FuncName(o) + ")"
				}
			}
		}
	}
	return out
}

func c19MutableGlobals(c *core.Ctx, fns []*ssa.Function) {
	mut := c19GlobalMutators(c)
	// scope: the date-time functions and the repository functions they call statically
	scope := map[*ssa.Function]bool{}
	var add func(f *ssa.Function, d int)
	add = func(f *ssa.Function, d int) {
		if f == nil || scope[f] || f.Blocks == nil || d > 6 || !core.InRepo(core.FuncPkg(f)) {
			return
		}
		scope[f] = true
		for _, ci := range core.Calls(f) {
			add(ci.Common().StaticCallee(), d+1)
		}
		for _, af := range f.AnonFuncs {
			add(af, d+1)
		}
	}
	for _, f := range fns {
		add(f, 0)
	}
	nUses := 0
	for _, f := range core.SortedFuncs(scope) {
		done := map[*ssa.Global]bool{}
		for _, b := range f.Blocks {
			for _, in := range b.Instrs {
				for _, op := range in.Operands(nil) {
					g, ok := (*op).(*ssa.Global)
					if !ok || !core.InRepo(g.Pkg.Pkg) || strings.HasSuffix(g.Name(), "$guard") {
						continue
					}
					// is this use a read?
					read := false
					switch x := in.(type) {
					case *ssa.UnOp:
						read = x.Op == token.MUL
					case *ssa.Store:
						read = x.Val == ssa.Value(g)
					case ssa.CallInstruction:
						o := core.CalleeObj(x)
						if o != nil && o.Pkg() != nil && o.Pkg().Path() == "sync/atomic" {
							n := o.Name()
							read = strings.HasPrefix(n, "Load") || ((strings.HasPrefix(n, "Add") || strings.HasPrefix(n, "Swap") || strings.HasPrefix(n, "CompareAndSwap")) && x.Value() != nil && len(core.Referrers(x.Value())) > 0)
						} else {
							read = true
						}
					default:
						read = true // address taken: field/index access of the variable
					}
					if !read || done[g] {
						continue
					}
					done[g] = true
					nUses++
					key := core.FuncKey(f) + " reads global " + g.Name()
					if el := g.Type().(*types.Pointer).Elem(); externRefOK(el) || externRefOK(types.NewPointer(el)) {
						c.OK("R19g", key, core.InstrPos(in), "keyed cache / pool object")
						continue
					}
					if w, isMut := mut[g]; isMut {
						c.Bad("R19g", key, core.InstrPos(in), "the date-time functions read package-level variable "+g.Name()+", which "+w+" writes after package initialisation: the result depends on what earlier calls or other goroutines left there, not on the arguments alone")
					} else {
						c.OK("R19g", key, core.InstrPos(in), "written by package initialisers only")
					}
				}
			}
		}
	}
	c.Note("R19g: %d function(s) in the date-time call tree, %d package-level variable read(s) (expected 0 mutable on the pinned tree; positive control: seeded C19-6)", len(scope), nUses)
}

// R19i no value-dependent choice between computations: which conversion steps are applied is decided by the
// arguments that configure the call (unit, zone names, layout flags), by what the parser reports about the text
// (SmartParse's zone flag) and by errors — never by the instant itself or by the magnitude of the epoch number. An If
// whose condition derives from a time.Time value or from the parsed epoch integer, and whose two edges can both reach a
// return without an error, selects between two different answers for inputs that the property treats alike (seed C19-7:
// zone flag cleared when the parsed location is UTC; seed C19-9: 12-digit SECOND epochs re-read as milliseconds). A
// value test whose one edge only leads to error returns (a range check) is not reported.
func c19ValueDependentChoice(c *core.Ctx, fns []*ssa.Function) {
	n := 0
	for _, f := range fns {
		res := f.Signature.Results()
		hasErr := res.Len() >= 1 && c19IsError(res.At(res.Len()-1).Type())
		var tainted func(v ssa.Value, seen map[ssa.Value]bool, d int) bool
		tainted = func(v ssa.Value, seen map[ssa.Value]bool, d int) bool {
			if v == nil || seen[v] || d > 16 {
				return false
			}
			seen[v] = true
			if c19IsTime(v.Type()) {
				return true
			}
			switch x := v.(type) {
			case *ssa.Const, *ssa.Global, *ssa.Parameter, *ssa.FreeVar, *ssa.Function, *ssa.Builtin:
				return false
			case *ssa.Extract:
				if call, ok := x.Tuple.(*ssa.Call); ok {
					if o := core.CalleeObj(call); o != nil && o.Pkg() != nil && o.Pkg().Path() == "strconv" && strings.HasPrefix(o.Name(), "Parse") && x.Index == 0 {
						if bt, ok := x.Type().Underlying().(*types.Basic); ok && bt.Info()&types.IsNumeric != 0 {
							return true // the epoch number
						}
					}
					if c19IsError(x.Type()) {
						return false
					}
					// other results of a call: derived from its arguments
					for _, a := range call.Call.Args {
						if tainted(a, seen, d+1) {
							return true
						}
					}
					return false
				}
				return tainted(x.Tuple, seen, d+1)
			case *ssa.UnOp:
				if x.Op == token.MUL {
					if a, ok := x.X.(*ssa.Alloc); ok {
						for _, r := range core.Referrers(a) {
							if st, ok := r.(*ssa.Store); ok && st.Addr == a && tainted(st.Val, seen, d+1) {
								return true
							}
						}
					}
					return false
				}
				return tainted(x.X, seen, d+1)
			case *ssa.Call:
				if c19IsError(x.Type()) {
					return false
				}
				args := x.Call.Args
				for _, a := range args {
					if tainted(a, seen, d+1) {
						return true
					}
				}
				return false
			}
			if in, ok := v.(ssa.Instruction); ok {
				for _, op := range in.Operands(nil) {
					if *op != nil && tainted(*op, seen, d+1) {
						return true
					}
				}
			}
			return false
		}
		// can a block reach a return that carries no error?
		okReturn := map[*ssa.BasicBlock]bool{}
		for _, rt := range c19Returns(f) {
			if !hasErr || core.IsNilConst(rt.Results[res.Len()-1]) {
				okReturn[rt.Block()] = true
			} else if _, isConst := rt.Results[res.Len()-1].(*ssa.Const); !isConst {
				// error value not syntactically nil: may be nil through a phi
				if p, ok := rt.Results[res.Len()-1].(*ssa.Phi); ok {
					for _, e := range p.Edges {
						if core.IsNilConst(e) {
							okReturn[rt.Block()] = true
						}
					}
				}
			}
		}
		reachesOK := func(b *ssa.BasicBlock) bool {
			for x := range core.ReachableBlocks(b, nil) {
				if okReturn[x] {
					return true
				}
			}
			return false
		}
		for _, b := range f.Blocks {
			if len(b.Instrs) == 0 {
				continue
			}
			ifi, ok := b.Instrs[len(b.Instrs)-1].(*ssa.If)
			if !ok {
				continue
			}
			n++
			if !tainted(ifi.Cond, map[ssa.Value]bool{}, 0) {
				continue
			}
			key := core.FuncKey(f) + " chooses by the instant's value"
			if reachesOK(b.Succs[0]) && reachesOK(b.Succs[1]) {
				c.Bad("R19i", key, core.InstrPos(ifi), "this branch condition derives from the parsed instant / epoch number, and both edges can reach a successful return: two inputs that differ only in the instant they denote are taken through different conversion steps (zone binding, unit scaling), so the instant is not preserved for one of them")
			} else {
				c.OK("R19i", key, core.InstrPos(ifi), "value test whose other edge only leads to error returns (range check)")
			}
		}
	}
	c.OK("R19i", "branch conditions of the date-time functions", 0, fmt.Sprintf("%d branch condition(s) inspected: none derives from a time.Time value or the parsed epoch number unless reported", n))
}
