package rules

import (
	"golang.org/x/tools/go/ssa"

	"omnilint/core"
)

// Cursor bookkeeping moved into small methods of the reader (benign 92): push(child) = AddChild(cur, child); cur = child,
// pop() = cur = cur.Parent. The roles are recognised by what the method does with the cursor field, and a call of a
// push-like method counts as a cursor advance exactly where a freshly created node is passed for the stored parameter.

// j2BoundAdvanceStore: inside an inlined helper, the store puts a parameter into the cursor whose binding on the inline
// stack is a freshly created node.
func j2BoundAdvanceStore(e *c04Env, r *c04Reader, w *c04Walker, st *ssa.Store) bool {
	v, ok := c04StoreTo(st, r.cur)
	if !ok {
		return false
	}
	if _, isParam := v.(*ssa.Parameter); !isParam {
		return false
	}
	return e.isCreation(w.resolve(v))
}

// j2PushParam: f is a method of the reader that stores one of its parameters into the cursor field (directly, or by
// handing it to another such method), and contains neither a candidate check nor a token fetch. Returns the index
// of that parameter in f.Params, or -1.
func j2PushParam(e *c04Env, r *c04Reader, f *ssa.Function, depth int) int {
	if f == nil || !e.isMethodOf(r, f) || depth > 3 || f.Blocks == nil {
		return -1
	}
	if e.containsCheck(r, f) || e.consumesFn(f) {
		return -1
	}
	idx := func(v ssa.Value) int {
		for i, p := range f.Params {
			if ssa.Value(p) == v {
				return i
			}
		}
		return -1
	}
	for _, b := range f.Blocks {
		for _, in := range b.Instrs {
			if v, ok := c04StoreTo(in, r.cur); ok {
				if i := idx(v); i >= 0 {
					return i
				}
			}
			if ci, ok := in.(ssa.CallInstruction); ok {
				cf := c04Callee(ci)
				if cf == nil || cf == f {
					continue
				}
				if k := j2PushParam(e, r, cf, depth+1); k >= 0 && k < len(ci.Common().Args) && !ci.Common().IsInvoke() {
					if i := idx(ci.Common().Args[k]); i >= 0 {
						return i
					}
				}
			}
		}
	}
	return -1
}

// j2PushCall: the call hands a freshly created node to a push-like method: the cursor advances onto a fresh node here.
func j2PushCall(e *c04Env, r *c04Reader, in ssa.Instruction) bool {
	ci, ok := in.(ssa.CallInstruction)
	if !ok || ci.Common().IsInvoke() {
		return false
	}
	k := j2PushParam(e, r, c04Callee(ci), 0)
	return k >= 0 && k < len(ci.Common().Args) && e.isCreation(ci.Common().Args[k])
}

// j2AdvanceHelper is advanceHelper with push calls counted as advance stores.
func j2AdvanceHelper(e *c04Env, r *c04Reader, f *ssa.Function, depth int) bool {
	if f == nil || !e.isMethodOf(r, f) || depth > 3 || f.Blocks == nil {
		return false
	}
	if e.containsCheck(r, f) || e.consumesFn(f) {
		return false
	}
	for _, b := range f.Blocks {
		for _, in := range b.Instrs {
			if e.advanceStore(r, in) || j2PushCall(e, r, in) {
				return true
			}
			if ci, ok := in.(ssa.CallInstruction); ok {
				if cf := c04Callee(ci); cf != f && j2AdvanceHelper(e, r, cf, depth+1) {
					return true
				}
			}
		}
	}
	return false
}

// j2AdvanceSite: the instruction advances the cursor onto a fresh node (store, push call, or advance helper call).
func j2AdvanceSite(e *c04Env, r *c04Reader, in ssa.Instruction) bool {
	if e.advanceStore(r, in) || j2PushCall(e, r, in) {
		return true
	}
	if ci, ok := in.(ssa.CallInstruction); ok {
		return j2AdvanceHelper(e, r, c04Callee(ci), 0)
	}
	return false
}

// j2AttachSite: attachSite, except that neither a push-like method nor a helper that advances through one is an
// attach-without-advance.
func j2AttachSite(e *c04Env, r *c04Reader, in ssa.Instruction) bool {
	if ci, ok := in.(ssa.CallInstruction); ok {
		if cf := c04Callee(ci); cf != nil && cf != e.addChild {
			if j2PushParam(e, r, cf, 0) >= 0 || j2AdvanceHelper(e, r, cf, 0) {
				return false
			}
		}
	}
	return e.attachSite(r, in)
}

// j2RestoreSite: the cursor is moved to its parent, directly or by a method of the reader that does nothing else with
// the cursor (pop()).
func j2RestoreSite(e *c04Env, r *c04Reader, in ssa.Instruction) bool {
	if e.restoreStore(r, in) {
		return true
	}
	ci, ok := in.(ssa.CallInstruction)
	if !ok {
		return false
	}
	cf := c04Callee(ci)
	if cf == nil || !e.isMethodOf(r, cf) || cf.Blocks == nil {
		return false
	}
	found := false
	for _, b := range cf.Blocks {
		for _, in2 := range b.Instrs {
			if e.restoreStore(r, in2) {
				found = true
			}
		}
	}
	return found
}

// j2RemoveSites: the instructions through which function f removes the tree of the holder: direct
// RemoveAndReleaseTree(holder) calls, and calls of reader methods (one level, no parameters besides the receiver
// involved) that do it. For a helper the remove call inside it is returned as well, so that its own control
// conditions can be judged.
func j2RemoveSites(e *c04Env, r *c04Reader, f *ssa.Function) (sites []ssa.CallInstruction, inner map[ssa.CallInstruction][]ssa.CallInstruction) {
	inner = map[ssa.CallInstruction][]ssa.CallInstruction{}
	direct := func(g *ssa.Function) []ssa.CallInstruction {
		var out []ssa.CallInstruction
		for _, ci := range core.Calls(g) {
			if c04Callee(ci) == e.remove && len(ci.Common().Args) > 0 && c04IsLoadOf(ci.Common().Args[0], r.holder) {
				out = append(out, ci)
			}
		}
		return out
	}
	for _, ci := range core.Calls(f) {
		cf := c04Callee(ci)
		switch {
		case cf == nil:
		case cf == e.remove:
			if len(ci.Common().Args) > 0 && c04IsLoadOf(ci.Common().Args[0], r.holder) {
				sites = append(sites, ci)
			}
		case cf != f && e.isMethodOf(r, cf) && cf.Blocks != nil && !r.wrapFn[cf] && !r.checkFn[cf] &&
			len(f.Params) > 0 && len(ci.Common().Args) > 0 && !ci.Common().IsInvoke() && ci.Common().Args[0] == ssa.Value(f.Params[0]):
			if in := direct(cf); len(in) > 0 {
				sites = append(sites, ci)
				inner[ci] = in
			}
		}
	}
	return
}
