package rules

import (
	"fmt"
	"go/constant"
	"go/token"
	"go/types"
	"math/big"
	"sort"
	"strings"

	"golang.org/x/tools/go/ssa"

	"omnilint/core"
)

func init() {
	register(&RuleSet{
		Prop:  "C19",
		Title: "Date-time functions preserve the instant and invert each other",
		Explanation: "Scope: the functions of the custom-function packages in which a time.Time value occurs. " +
			"R19a no partial primitive: every epoch-extracting method call on time.Time is inventoried; (time.Time).UnixNano (undefined outside years 1678-2262) and instant differences ((time.Time).Sub, time.Since, time.Until: time.Duration saturates at +-292 years) are rejected unless their operands derive from time.Now() only; " +
			"R19b no overflowing arithmetic between instant and epoch number: in every function that converts between time.Time and an epoch number, each integer *, +, -, << is checked by interval analysis over SSA (strconv.Parse* results span their full type, (time.Time).Unix() spans the property's domain years 0-9999 +- 1 day, Nanosecond() is [0,1e9), %, / and comparison guards against constants narrow) and must not be able to leave its type; a time.Unix(x/k, ns) call must derive ns from x%k of the same x and k (no truncation of the epoch number); " +
			"R19c error-out / empty-in (scope: the date-time functions, their callers and their fallible helpers in the custom-function packages): every call that yields (value, error) has its error tested, no use of the value is reachable before the test or on the non-nil edge, every return reachable from the non-nil edge carries a non-nil error, every return with a non-nil error carries only zero values (never a formatted time; a single-exit return is judged per incoming edge: error known nil, or zero values), and every exported function returns (\"\", nil) on the `input == \"\"` edge, which dominates the parse of that input; a function may instead hand up the untouched (value, error) tuple of one call (`return g(...)`) when g is itself checked by this rule or every caller of the function is known and checked, and an exported function may leave the empty-input test to the helper whose tuple it returns that way; " +
			"R19d unit dispatch is closed: the exported functions (or the lookup helper they hand the unit to) are run abstractly with the unit parameter fixed to each constant it is compared with / each constant key of the table it is looked up in (comma-ok), and to none of them: the constants are exactly SECOND and MILLISECOND, each is accepted on some path, both directions use the same set, and with an unknown unit every return after the first comparison is (\"\", non-nil error). " +
			"R19e output provenance: a text returned without an error is data-dependent on an instant (time.Time value), or is the constant \"\" on the true edge of an `input == \"\"` test of an own string parameter; " +
			"R19f no instant-shifting primitive ((time.Time).Add/AddDate/Truncate/Round) on an instant that does not derive from time.Now(); " +
			"R19g the date-time call tree reads no package-level variable that a non-initialiser function writes (plain store or sync/atomic Store/Swap/Add/CompareAndSwap): the result is a function of the arguments and the keyed caches only.",
		NotDecided: "whether the instant is preserved: the layouts of the smart parser, overwrite-vs-convert zone logic, DST and leap handling are delegated to time and go-corelib/times; the scale factors themselves (1000, 1e6) are not related to the unit names; epoch strings outside the int64 seconds that time.Unix can represent.",
		Trusted: append([]string{"time.Parse / times.SmartParse only produce years 0-9999 (the property's domain), so (time.Time).Unix() of a parsed value lies in [-62167305600, 253402387199]",
			"(time.Time).Unix, UnixMilli, UnixMicro, Nanosecond and time.Unix are total on that domain; (time.Time).UnixNano is not"}, commonTrusted...),
		Run: runC19,
	})
	control(Control{ID: "c19-unixnano-reintroduced", Prop: "C19", File: "customfuncs/datetime.go",
		Old: "t.Unix()*1000+int64(t.Nanosecond())/int64(time.Millisecond)", New: "t.UnixNano()/int64(time.Millisecond)",
		Rule: "R19a", Substr: "DateTimeToEpoch", Why: "F11 re-introduced: UnixNano overflows outside 1678-2262"})
	control(Control{ID: "c19-duration-since-epoch", Prop: "C19", File: "customfuncs/datetime.go",
		Old: "t.Unix()*1000+int64(t.Nanosecond())/int64(time.Millisecond)", New: "t.Sub(time.Unix(0, 0)).Milliseconds()",
		Rule: "R19a", Substr: "Time.Sub", Why: "Duration saturates at +-292 years: wrong epoch outside 1678-2262"})
	control(Control{ID: "c19-scaling-reintroduced", Prop: "C19", File: "customfuncs/datetime.go",
		Old: "t = time.Unix(n/1000, (n%1000)*int64(time.Millisecond))", New: "t = time.Unix(0, n*int64(time.Millisecond))",
		Rule: "R19b", Substr: "EpochToDateTimeRFC3339", Why: "F11 re-introduced: n*1e6 overflows int64 outside 1678-2262"})
	control(Control{ID: "c19-remainder-dropped", Prop: "C19", File: "customfuncs/datetime.go",
		Old: "t = time.Unix(n/1000, (n%1000)*int64(time.Millisecond))", New: "t = time.Unix(n/1000, 0)",
		Rule: "R19b", Substr: "time.Unix split", Why: "sub-second part dropped: pre-1970 instants with a fraction move to the next second"})
	control(Control{ID: "c19-formatted-time-on-error", Prop: "C19", File: "customfuncs/datetime.go",
		Old:  "\tif err != nil {\n\t\treturn \"\", err\n\t}\n\tswitch unit {\n\tcase epochUnitMilliseconds:",
		New:  "\tif err != nil {\n\t\treturn rfc3339(t, false), err\n\t}\n\tswitch unit {\n\tcase epochUnitMilliseconds:",
		Rule: "R19c", Substr: "DateTimeToEpoch", Why: "a (zero) time is formatted and returned on the parse-error edge"})
	control(Control{ID: "c19-zone-error-dropped", Prop: "C19", File: "customfuncs/datetime.go",
		Old: "\t\tif err != nil {\n\t\t\treturn time.Time{}, false, err\n\t\t}\n\t}\n\treturn t, hasTZ, nil", New: "\t}\n\treturn t, hasTZ, nil",
		Rule: "R19c", Substr: "parseDateTime", Why: "zone-lookup error ignored: the zero time is formatted instead"})
	control(Control{ID: "c19-empty-input-parsed", Prop: "C19", File: "customfuncs/datetime.go",
		Old: "\tif epoch == \"\" {\n\t\treturn \"\", nil\n\t}\n", New: "",
		Rule: "R19c", Substr: "EpochToDateTimeRFC3339", Why: "empty input no longer yields empty output"})
	control(Control{ID: "c19-unit-default-removed", Prop: "C19", File: "customfuncs/datetime.go",
		Old:  "\tdefault:\n\t\treturn \"\", fmt.Errorf(\"unknown epoch unit '%s'\", unit)\n\t}\n\treturn rfc3339(t.In(loc), true), nil",
		New:  "\t}\n\treturn rfc3339(t.In(loc), true), nil",
		Rule: "R19d", Substr: "EpochToDateTimeRFC3339", Why: "an unknown unit silently yields year 1"})
	control(Control{ID: "c19-unit-case-added", Prop: "C19", File: "customfuncs/datetime.go",
		Old:  "\tcase epochUnitSeconds:\n\t\treturn strconv.FormatInt(t.Unix(), 10), nil",
		New:  "\tcase epochUnitSeconds, \"MINUTE\":\n\t\treturn strconv.FormatInt(t.Unix(), 10), nil",
		Rule: "R19d", Substr: "DateTimeToEpoch", Why: "the two directions no longer accept the same units"})
}

var c19ScopePkgs = []string{"customfuncs", "extensions/omniv21/customfuncs"}

// public schema surface: the unit names of dateTimeToEpoch / epochToDateTimeRFC3339
var c19Units = []string{"MILLISECOND", "SECOND"}

func c19IsTime(t types.Type) bool {
	n, ok := types.Unalias(t).(*types.Named)
	return ok && n.Obj().Pkg() != nil && n.Obj().Pkg().Path() == "time" && n.Obj().Name() == "Time"
}

func c19IsError(t types.Type) bool {
	n, ok := types.Unalias(t).(*types.Named)
	return ok && n.Obj().Pkg() == nil && n.Obj().Name() == "error"
}

func c19HasTime(f *ssa.Function) bool {
	has := func(t types.Type) bool {
		if c19IsTime(t) {
			return true
		}
		if tp, ok := t.(*types.Tuple); ok {
			for i := 0; i < tp.Len(); i++ {
				if c19IsTime(tp.At(i).Type()) {
					return true
				}
			}
		}
		return false
	}
	for _, p := range f.Params {
		if has(p.Type()) {
			return true
		}
	}
	for _, b := range f.Blocks {
		for _, in := range b.Instrs {
			if v, ok := in.(ssa.Value); ok && has(v.Type()) {
				return true
			}
		}
	}
	return false
}

func runC19(c *core.Ctx) {
	c.SSA()
	scope := map[*types.Package]bool{}
	for _, rel := range c19ScopePkgs {
		if p := c.Pkg(rel); p != nil {
			scope[p.Types] = true
		}
	}
	if len(scope) == 0 {
		c.Unresolved("R19", "custom function packages", "none of "+strings.Join(c19ScopePkgs, ", ")+" is loaded")
		return
	}
	var fns []*ssa.Function
	for _, f := range c.RepoFunctions() {
		if scope[core.FuncPkg(f)] && f.Synthetic == "" && c19HasTime(f) {
			fns = append(fns, f)
		}
	}
	if len(fns) == 0 {
		c.Unresolved("R19", "date-time functions", "no function of the custom-function packages handles a time.Time")
		return
	}
	var names []string
	for _, f := range fns {
		names = append(names, core.FuncKey(f))
	}
	c.Note("date-time functions in scope: %s", strings.Join(names, ", "))

	c19Primitives(c, fns)
	c19Arithmetic(c, fns)
	c19ErrorEdges(c, fns)
	c19UnitDispatch(c, fns)
	c19Extra(c, fns)
}

// ---------------------------------------------------------------- R19a

// c19FromNowOnly: the time value derives from time.Now() only (through time.Time -> time.Time methods, phis).
func c19FromNowOnly(v ssa.Value, seen map[ssa.Value]bool) bool {
	if seen[v] {
		return true
	}
	seen[v] = true
	switch x := v.(type) {
	case *ssa.Call:
		o := core.CalleeObj(x)
		if o == nil || o.Pkg() == nil || o.Pkg().Path() != "time" {
			return false
		}
		if core.FuncName(o) == "Now" {
			return true
		}
		if sig := o.Type().(*types.Signature); sig.Recv() != nil && c19IsTime(sig.Recv().Type()) && len(x.Call.Args) > 0 {
			switch o.Name() {
			case "UTC", "Local", "In", "Round", "Truncate":
				return c19FromNowOnly(x.Call.Args[0], seen)
			}
		}
		return false
	case *ssa.Phi:
		for _, e := range x.Edges {
			if !c19FromNowOnly(e, seen) {
				return false
			}
		}
		return true
	}
	return false
}

func c19Primitives(c *core.Ctx, fns []*ssa.Function) {
	for _, f := range fns {
		for _, ci := range core.Calls(f) {
			o := core.CalleeObj(ci)
			if o == nil || o.Pkg() == nil || o.Pkg().Path() != "time" {
				continue
			}
			sig := o.Type().(*types.Signature)
			// instant differences: time.Duration saturates at +-292 years, so t.Sub(u) / time.Since(t) / time.Until(t)
			// is a partial primitive on an unbounded instant, whatever Duration accessor is applied afterwards
			if fn := core.FuncName(o); fn == "Time.Sub" || fn == "Since" || fn == "Until" {
				key := core.FuncKey(f) + " time." + fn
				bounded := true
				for _, a := range ci.Common().Args {
					if c19IsTime(a.Type()) && !c19FromNowOnly(a, map[ssa.Value]bool{}) {
						bounded = false
					}
				}
				if bounded {
					c.OK("R19a", key, core.InstrPos(ci), "difference of instants that derive from time.Now(): far inside +-292 years")
				} else {
					c.Bad("R19a", key, core.InstrPos(ci), "the difference of two instants is a time.Duration, which saturates at +-292 years: for instants of the property's domain (years 1-9999) the result, and every Seconds/Milliseconds/Nanoseconds read from it, is wrong outside roughly 1678-2262")
				}
				continue
			}
			if sig.Recv() == nil || !c19IsTime(sig.Recv().Type()) {
				continue
			}
			if !strings.HasPrefix(o.Name(), "Unix") && o.Name() != "Nanosecond" {
				continue
			}
			key := core.FuncKey(f) + " (time.Time)." + o.Name()
			switch o.Name() {
			case "UnixNano":
				if len(ci.Common().Args) > 0 && c19FromNowOnly(ci.Common().Args[0], map[ssa.Value]bool{}) {
					c.OK("R19a", key, core.InstrPos(ci), "receiver is time.Now(): inside 1678-2262")
				} else {
					c.Bad("R19a", key, core.InstrPos(ci), "UnixNano is undefined (int64 overflow) for instants outside years 1678-2262, which the property's domain (years 1-9999) includes")
				}
			case "Unix", "UnixMilli", "UnixMicro", "Nanosecond":
				c.OK("R19a", key, core.InstrPos(ci), "total on years 1-9999")
			default:
				c.Unknown("R19a", key, core.InstrPos(ci), "epoch-extracting method not in the rule's table of total/partial primitives")
			}
		}
	}
	c.Floor("R19a", 2, "epoch extraction in the instant -> epoch direction (t.Unix(), t.Nanosecond())")
}

// ---------------------------------------------------------------- R19b interval analysis

type c19iv struct{ lo, hi *big.Int }

func c19Big(x int64) *big.Int { return big.NewInt(x) }

func c19TypeRange(t types.Type, sizes types.Sizes) (c19iv, bool) {
	b, ok := t.Underlying().(*types.Basic)
	if !ok || b.Info()&types.IsInteger == 0 {
		return c19iv{}, false
	}
	bits := uint(sizes.Sizeof(t) * 8)
	one := big.NewInt(1)
	if b.Info()&types.IsUnsigned != 0 {
		hi := new(big.Int).Lsh(one, bits)
		return c19iv{big.NewInt(0), hi.Sub(hi, one)}, true
	}
	hi := new(big.Int).Lsh(one, bits-1)
	lo := new(big.Int).Neg(hi)
	return c19iv{lo, new(big.Int).Sub(hi, one)}, true
}

func (a c19iv) within(b c19iv) bool { return a.lo.Cmp(b.lo) >= 0 && a.hi.Cmp(b.hi) <= 0 }
func (a c19iv) String() string      { return fmt.Sprintf("[%s, %s]", a.lo.String(), a.hi.String()) }
func c19Union(a, b c19iv) c19iv {
	r := c19iv{a.lo, a.hi}
	if b.lo.Cmp(r.lo) < 0 {
		r.lo = b.lo
	}
	if b.hi.Cmp(r.hi) > 0 {
		r.hi = b.hi
	}
	return r
}
func c19Meet(a, b c19iv) c19iv {
	r := c19iv{a.lo, a.hi}
	if b.lo.Cmp(r.lo) > 0 {
		r.lo = b.lo
	}
	if b.hi.Cmp(r.hi) < 0 {
		r.hi = b.hi
	}
	if r.lo.Cmp(r.hi) > 0 { // infeasible: keep a point so that arithmetic stays defined
		r.hi = r.lo
	}
	return r
}

type c19eval struct {
	c     *core.Ctx
	sizes types.Sizes
	depth int
}

// Unix seconds of years 0..9999, widened by one day for zone shifts.
var (
	c19UnixLo = c19Big(-62167219200 - 86400)
	c19UnixHi = c19Big(253402300799 + 86400)
)

// raw computes the (unclamped) mathematical interval of an integer operation; ok=false when the value is not an
// integer or nothing is known (then the caller uses the type's range).
func (e *c19eval) interval(v ssa.Value, at *ssa.BasicBlock, seen map[ssa.Value]bool) c19iv {
	full, isInt := c19TypeRange(v.Type(), e.sizes)
	if !isInt {
		return c19iv{big.NewInt(0), big.NewInt(0)}
	}
	if seen[v] || len(seen) > 200 {
		return full
	}
	seen[v] = true
	defer delete(seen, v)
	r := full
	switch x := v.(type) {
	case *ssa.Const:
		if x.Value != nil && x.Value.Kind() == constant.Int {
			if bi, ok := new(big.Int).SetString(x.Value.ExactString(), 10); ok {
				r = c19iv{bi, bi}
			}
		}
	case *ssa.Convert:
		if _, ok := c19TypeRange(x.X.Type(), e.sizes); ok {
			in := e.interval(x.X, at, seen)
			if in.within(full) {
				r = in
			}
		}
	case *ssa.ChangeType:
		r = e.interval(x.X, at, seen)
	case *ssa.Phi:
		first := true
		for i, ed := range x.Edges {
			iv := e.interval(ed, x.Block().Preds[i], seen)
			if first {
				r, first = iv, false
			} else {
				r = c19Union(r, iv)
			}
		}
	case *ssa.Extract:
		if call, ok := x.Tuple.(*ssa.Call); ok {
			if o := core.CalleeObj(call); o != nil && o.Pkg() != nil && o.Pkg().Path() == "strconv" {
				switch o.Name() {
				case "ParseInt", "ParseUint":
					// the bitSize argument bounds the result
					if len(call.Call.Args) == 3 {
						if k, ok := call.Call.Args[2].(*ssa.Const); ok && k.Value != nil {
							if bs, ok := constant.Int64Val(k.Value); ok && bs > 0 && bs < 64 {
								one := big.NewInt(1)
								if o.Name() == "ParseUint" {
									hi := new(big.Int).Lsh(one, uint(bs))
									r = c19Meet(full, c19iv{big.NewInt(0), hi.Sub(hi, one)})
								} else {
									hi := new(big.Int).Lsh(one, uint(bs-1))
									r = c19Meet(full, c19iv{new(big.Int).Neg(hi), new(big.Int).Sub(hi, one)})
								}
							}
						}
					}
				}
			}
		}
	case *ssa.Call:
		if o := core.CalleeObj(x); o != nil && o.Pkg() != nil && o.Pkg().Path() == "time" {
			if sig := o.Type().(*types.Signature); sig.Recv() != nil && c19IsTime(sig.Recv().Type()) {
				switch o.Name() {
				case "Unix":
					r = c19iv{c19UnixLo, c19UnixHi}
				case "UnixMilli":
					r = c19iv{new(big.Int).Mul(c19UnixLo, c19Big(1000)), new(big.Int).Mul(c19UnixHi, c19Big(1000))}
				case "UnixMicro":
					r = c19iv{new(big.Int).Mul(c19UnixLo, c19Big(1000000)), new(big.Int).Mul(c19UnixHi, c19Big(1000000))}
				case "Nanosecond":
					r = c19iv{c19Big(0), c19Big(999999999)}
				case "Second", "Minute":
					r = c19iv{c19Big(0), c19Big(59)}
				case "Hour":
					r = c19iv{c19Big(0), c19Big(23)}
				}
			}
		}
		if b, ok := x.Call.Value.(*ssa.Builtin); ok && (b.Name() == "len" || b.Name() == "cap") {
			r = c19iv{c19Big(0), full.hi}
		}
	case *ssa.BinOp:
		if m, ok := e.binop(x, at, seen); ok && m.within(full) {
			r = m
		}
	}
	return e.refine(v, r, at)
}

// binop returns the mathematical (unbounded) interval of an integer BinOp.
func (e *c19eval) binop(x *ssa.BinOp, at *ssa.BasicBlock, seen map[ssa.Value]bool) (c19iv, bool) {
	if _, ok := c19TypeRange(x.X.Type(), e.sizes); !ok {
		return c19iv{}, false
	}
	a := e.interval(x.X, at, seen)
	b := e.interval(x.Y, at, seen)
	corners := func(op func(p, q *big.Int) *big.Int) c19iv {
		vals := []*big.Int{op(a.lo, b.lo), op(a.lo, b.hi), op(a.hi, b.lo), op(a.hi, b.hi)}
		r := c19iv{vals[0], vals[0]}
		for _, v := range vals[1:] {
			r = c19Union(r, c19iv{v, v})
		}
		return r
	}
	switch x.Op {
	case token.ADD:
		return c19iv{new(big.Int).Add(a.lo, b.lo), new(big.Int).Add(a.hi, b.hi)}, true
	case token.SUB:
		return c19iv{new(big.Int).Sub(a.lo, b.hi), new(big.Int).Sub(a.hi, b.lo)}, true
	case token.MUL:
		return corners(func(p, q *big.Int) *big.Int { return new(big.Int).Mul(p, q) }), true
	case token.SHL:
		if b.lo.Sign() < 0 || b.hi.Cmp(c19Big(128)) > 0 {
			return c19iv{}, false
		}
		return corners(func(p, q *big.Int) *big.Int { return new(big.Int).Lsh(p, uint(q.Int64())) }), true
	case token.QUO:
		// divisor interval must not contain 0; truncated division is monotone in the dividend for a fixed
		// divisor sign, so the corners bound it
		if b.lo.Sign() <= 0 && b.hi.Sign() >= 0 {
			return c19iv{}, false
		}
		return corners(func(p, q *big.Int) *big.Int { return new(big.Int).Quo(p, q) }), true
	case token.REM:
		if b.lo.Sign() <= 0 && b.hi.Sign() >= 0 {
			return c19iv{}, false
		}
		m := new(big.Int).Abs(b.lo)
		if h := new(big.Int).Abs(b.hi); h.Cmp(m) > 0 {
			m = h
		}
		m = new(big.Int).Sub(m, big.NewInt(1))
		r := c19iv{new(big.Int).Neg(m), m}
		if a.lo.Sign() >= 0 {
			r.lo = big.NewInt(0)
		}
		if a.hi.Sign() <= 0 {
			r.hi = big.NewInt(0)
		}
		return r, true
	}
	return c19iv{}, false
}

// refine narrows the interval of v at block `at` by the comparisons against constants whose outcome is fixed
// there (the block is only reachable through one edge of the If).
func (e *c19eval) refine(v ssa.Value, r c19iv, at *ssa.BasicBlock) c19iv {
	for b := at; b != nil && b.Idom() != nil; b = b.Idom() {
		p := b.Idom()
		if len(b.Preds) != 1 || b.Preds[0] != p || len(p.Instrs) == 0 {
			continue
		}
		ifi, ok := p.Instrs[len(p.Instrs)-1].(*ssa.If)
		if !ok || p.Succs[0] == p.Succs[1] {
			continue
		}
		bo, ok := ifi.Cond.(*ssa.BinOp)
		if !ok {
			continue
		}
		truth := p.Succs[0] == b
		op := bo.Op
		var k *ssa.Const
		switch {
		case bo.X == v:
			k, _ = bo.Y.(*ssa.Const)
		case bo.Y == v:
			k, _ = bo.X.(*ssa.Const)
			switch op { // mirror
			case token.LSS:
				op = token.GTR
			case token.GTR:
				op = token.LSS
			case token.LEQ:
				op = token.GEQ
			case token.GEQ:
				op = token.LEQ
			}
		}
		if k == nil || k.Value == nil || k.Value.Kind() != constant.Int {
			continue
		}
		kv, ok := new(big.Int).SetString(k.Value.ExactString(), 10)
		if !ok {
			continue
		}
		if !truth { // negate
			switch op {
			case token.LSS:
				op = token.GEQ
			case token.GEQ:
				op = token.LSS
			case token.GTR:
				op = token.LEQ
			case token.LEQ:
				op = token.GTR
			case token.EQL:
				op = token.NEQ
			case token.NEQ:
				op = token.EQL
			}
		}
		one := big.NewInt(1)
		switch op {
		case token.LSS:
			r = c19Meet(r, c19iv{r.lo, new(big.Int).Sub(kv, one)})
		case token.LEQ:
			r = c19Meet(r, c19iv{r.lo, kv})
		case token.GTR:
			r = c19Meet(r, c19iv{new(big.Int).Add(kv, one), r.hi})
		case token.GEQ:
			r = c19Meet(r, c19iv{kv, r.hi})
		case token.EQL:
			r = c19Meet(r, c19iv{kv, kv})
		}
	}
	return r
}

// c19IsEpochFunc: the function converts between time.Time and epoch numbers.
func c19IsEpochFunc(f *ssa.Function) bool {
	for _, ci := range core.Calls(f) {
		o := core.CalleeObj(ci)
		if o == nil || o.Pkg() == nil || o.Pkg().Path() != "time" || !strings.HasPrefix(o.Name(), "Unix") {
			continue
		}
		return true
	}
	return false
}

func c19Arithmetic(c *core.Ctx, fns []*ssa.Function) {
	ev := &c19eval{c: c, sizes: c.Pkgs[0].TypesSizes}
	nEpoch := 0
	for _, f := range fns {
		if !c19IsEpochFunc(f) {
			continue
		}
		nEpoch++
		for _, b := range f.Blocks {
			for _, in := range b.Instrs {
				bo, ok := in.(*ssa.BinOp)
				if !ok {
					continue
				}
				switch bo.Op {
				case token.MUL, token.ADD, token.SUB, token.SHL:
				default:
					continue
				}
				full, isInt := c19TypeRange(bo.Type(), ev.sizes)
				if !isInt {
					continue
				}
				key := fmt.Sprintf("%s %s %s", core.FuncKey(f), bo.Type().String(), bo.Op.String())
				m, ok := ev.binop(bo, b, map[ssa.Value]bool{})
				if !ok {
					c.Unknown("R19b", key, core.InstrPos(bo), "operand range could not be bounded")
					continue
				}
				a := ev.interval(bo.X, b, map[ssa.Value]bool{})
				bb := ev.interval(bo.Y, b, map[ssa.Value]bool{})
				detail := fmt.Sprintf("%s %s %s = %s", a, bo.Op, bb, m)
				if m.within(full) {
					c.OK("R19b", key, core.InstrPos(bo), "cannot leave "+bo.Type().String()+": "+detail)
				} else {
					c.Bad("R19b", key, core.InstrPos(bo), "can overflow "+bo.Type().String()+" for inputs of the property's domain: "+detail+" (an operand that comes from parsing must be reduced with / or % before it is scaled)")
				}
			}
		}
	}
	c19Split(c, fns)
	if nEpoch < 2 {
		c.Unresolved("R19b", "epoch conversion functions", fmt.Sprintf("expected both conversion directions, found %d function(s) calling time.Unix*/(time.Time).Unix*", nEpoch))
	}
	c.Floor("R19b", 3, "scaling arithmetic of both directions, time.Unix split")
}

// c19Split: an epoch number that is divided by a constant to obtain the seconds argument of time.Unix must hand the
// remainder of the same division to the nanoseconds argument (otherwise the sub-second part is dropped, which also
// moves instants before 1970 into the next second because / truncates towards zero).
func c19Split(c *core.Ctx, fns []*ssa.Function) {
	for _, f := range fns {
		for _, ci := range core.Calls(f) {
			if !core.IsCallTo(ci, "time", "Unix") || len(ci.Common().Args) != 2 {
				continue
			}
			key := core.FuncKey(f) + " time.Unix split"
			// divisions on the derivation of the seconds argument
			type div struct {
				x ssa.Value
				k string
			}
			var divs []div
			seen := map[ssa.Value]bool{}
			var walkSec func(v ssa.Value)
			walkSec = func(v ssa.Value) {
				if seen[v] {
					return
				}
				seen[v] = true
				switch x := v.(type) {
				case *ssa.Phi:
					for _, e := range x.Edges {
						walkSec(e)
					}
				case *ssa.Convert:
					walkSec(x.X)
				case *ssa.BinOp:
					if k, ok := x.Y.(*ssa.Const); ok && x.Op == token.QUO && k.Value != nil {
						divs = append(divs, div{x.X, k.Value.ExactString()})
					}
				}
			}
			walkSec(ci.Common().Args[0])
			if len(divs) == 0 {
				c.OK("R19b", key, core.InstrPos(ci), "seconds argument is not a quotient: nothing is cut off")
				continue
			}
			// remainders on the derivation of the nanoseconds argument
			rems := map[string]bool{}
			seen = map[ssa.Value]bool{}
			var walkNs func(v ssa.Value)
			walkNs = func(v ssa.Value) {
				if seen[v] {
					return
				}
				seen[v] = true
				switch x := v.(type) {
				case *ssa.Phi:
					for _, e := range x.Edges {
						walkNs(e)
					}
				case *ssa.Convert:
					walkNs(x.X)
				case *ssa.BinOp:
					if k, ok := x.Y.(*ssa.Const); ok && x.Op == token.REM && k.Value != nil {
						rems[fmt.Sprintf("%p/%s", x.X, k.Value.ExactString())] = true
					}
					walkNs(x.X)
					walkNs(x.Y)
				}
			}
			walkNs(ci.Common().Args[1])
			good := true
			for _, d := range divs {
				if !rems[fmt.Sprintf("%p/%s", d.x, d.k)] {
					good = false
				}
			}
			c.Check(good, "R19b", key, core.InstrPos(ci), "seconds = x / k and nanoseconds derive from x % k of the same x and k",
				"the seconds argument is a quotient x / k but the nanoseconds argument does not derive from x % k: the sub-second part of the epoch is dropped (and instants before 1970 with a fractional part land in the next second)")
		}
	}
}

// ---------------------------------------------------------------- R19c

func c19Returns(f *ssa.Function) []*ssa.Return {
	var out []*ssa.Return
	for _, b := range f.Blocks {
		if len(b.Instrs) == 0 {
			continue
		}
		if rt, ok := b.Instrs[len(b.Instrs)-1].(*ssa.Return); ok {
			out = append(out, rt)
		}
	}
	return out
}

// c19PhiClosure: v and every Phi (transitively) fed by it.
func c19PhiClosure(v ssa.Value) map[ssa.Value]bool {
	set := map[ssa.Value]bool{}
	var add func(x ssa.Value)
	add = func(x ssa.Value) {
		if set[x] {
			return
		}
		set[x] = true
		for _, u := range core.Referrers(x) {
			if p, ok := u.(*ssa.Phi); ok {
				add(p)
			}
		}
	}
	add(v)
	return set
}

type c19test struct {
	ifi            *ssa.If
	nonNil, nilOut *ssa.BasicBlock
}

// c19NilTests: the If instructions that compare a value of the set against nil.
func c19NilTests(set map[ssa.Value]bool) []c19test {
	var out []c19test
	var vals []ssa.Value
	for v := range set {
		vals = append(vals, v)
	}
	sort.Slice(vals, func(i, j int) bool { return vals[i].Pos() < vals[j].Pos() })
	done := map[*ssa.If]bool{}
	for _, v := range vals {
		for _, u := range core.Referrers(v) {
			bo, ok := u.(*ssa.BinOp)
			if !ok || (bo.Op != token.NEQ && bo.Op != token.EQL) {
				continue
			}
			if !(core.IsNilConst(bo.X) || core.IsNilConst(bo.Y)) {
				continue
			}
			for _, uu := range core.Referrers(bo) {
				ifi, ok := uu.(*ssa.If)
				if !ok || done[ifi] {
					continue
				}
				done[ifi] = true
				blk := ifi.Block()
				if bo.Op == token.NEQ {
					out = append(out, c19test{ifi, blk.Succs[0], blk.Succs[1]})
				} else {
					out = append(out, c19test{ifi, blk.Succs[1], blk.Succs[0]})
				}
			}
		}
	}
	return out
}

func c19ErrorEdges(c *core.Ctx, fns []*ssa.Function) {
	// the date-time functions, their callers and their fallible helpers inside the custom-function packages
	// (a body split into helpers keeps every piece in scope)
	fns = c19ErrScope(c, fns)
	pairs := c19NewPairs(c, fns)
	{
		var names []string
		for _, f := range fns {
			names = append(names, core.FuncKey(f))
		}
		c.Note("R19c scope (date-time functions, their callers and fallible helpers): %s", strings.Join(names, ", "))
	}
	// --- sinks: string parameters that are parsed into an instant / epoch number
	type psink struct {
		f *ssa.Function
		i int
	}
	inputParam := map[psink]bool{}
	sinkArg := func(ci ssa.CallInstruction) []int {
		o := core.CalleeObj(ci)
		if o == nil || o.Pkg() == nil {
			return nil
		}
		switch o.Pkg().Path() + "." + core.FuncName(o) {
		case "time.Parse", "time.ParseInLocation":
			return []int{1}
		case "github.com/jf-tech/go-corelib/times.SmartParse", "strconv.ParseInt", "strconv.ParseUint", "strconv.ParseFloat", "strconv.Atoi":
			return []int{0}
		}
		if cf := ci.Common().StaticCallee(); cf != nil {
			var out []int
			for i := range cf.Params {
				if inputParam[psink{cf, i}] {
					out = append(out, i)
				}
			}
			return out
		}
		return nil
	}
	for changed := true; changed; {
		changed = false
		for _, f := range fns {
			for _, ci := range core.Calls(f) {
				for _, ai := range sinkArg(ci) {
					if ai >= len(ci.Common().Args) {
						continue
					}
					if p, ok := ci.Common().Args[ai].(*ssa.Parameter); ok {
						for i, fp := range f.Params {
							if fp == p && !inputParam[psink{f, i}] {
								inputParam[psink{f, i}] = true
								changed = true
							}
						}
					}
				}
			}
		}
	}

	// emptyEdge decides "empty input yields empty output" for the input parameter number i of f: f returns ("", nil)
	// on the `p == ""` edge of a test that dominates every parse of p - or f hands p, untested, to helpers only whose
	// result tuple it returns untouched (`return g(p, ...)`) and which themselves satisfy this for that parameter.
	var emptyEdge func(f *ssa.Function, i int, depth int) (how string, okPos token.Pos, bad string, badPos token.Pos)
	emptyEdge = func(f *ssa.Function, i int, depth int) (how string, okPos token.Pos, bad string, badPos token.Pos) {
		p := f.Params[i]
		last := f.Signature.Results().Len() - 1
		var test *ssa.If
		var emptySucc *ssa.BasicBlock
		// `p == ""`, `len(p) == 0`, their negations, or a repository predicate that decides exactly that (isSet(p))
		if ts := h1EmptyTests(p); len(ts) > 0 {
			test, emptySucc = ts[0].ifi, ts[0].empty
		}
		if test == nil {
			noTest := "no `" + p.Name() + " == \"\"` test: empty input is parsed (and fails) instead of yielding empty output"
			// delegation: every parse of p is a tail call `return g(..., p, ...)` of a helper that does the test
			n := 0
			var via []string
			for _, ci := range core.Calls(f) {
				for _, ai := range sinkArg(ci) {
					if ai >= len(ci.Common().Args) || ci.Common().Args[ai] != ssa.Value(p) {
						continue
					}
					call, isCall := ci.(*ssa.Call)
					g := ci.Common().StaticCallee()
					if !isCall || g == nil || g.Blocks == nil || ai >= len(g.Params) || !inputParam[psink{g, ai}] || !c19ErrSig(g) || depth > 3 || !c19TailCall(call) {
						return "", token.NoPos, noTest, f.Pos()
					}
					if g.Signature.Results().Len() != f.Signature.Results().Len() {
						return "", token.NoPos, noTest, f.Pos()
					}
					if _, _, b, bp := emptyEdge(g, ai, depth+1); b != "" {
						return "", token.NoPos, "the input is handed to " + core.FuncKey(g) + " untested, and there: " + b, bp
					}
					n++
					via = append(via, core.FuncKey(g))
				}
			}
			if n == 0 {
				return "", token.NoPos, noTest, f.Pos()
			}
			return "the input goes, untested, only into " + strings.Join(via, ", ") + " whose result is returned untouched; there: (\"\", nil) on the empty edge, and the test dominates the parse", f.Pos(), "", token.NoPos
		}
		bad, badPos = "", core.InstrPos(test)
		for blk := range core.ReachableBlocks(emptySucc, nil) {
			for _, in := range blk.Instrs {
				if rt, ok := in.(*ssa.Return); ok {
					if !(core.IsNilConst(rt.Results[last]) && core.IsZeroConst(rt.Results[0])) && bad == "" {
						bad, badPos = "the empty-input edge does not return (\"\", nil)", core.InstrPos(rt)
					}
				}
				if _, ok := in.(ssa.CallInstruction); ok && bad == "" {
					bad, badPos = "the empty-input edge does work before returning", core.InstrPos(in)
				}
			}
		}
		for _, ci := range core.Calls(f) {
			for _, ai := range sinkArg(ci) {
				if ai < len(ci.Common().Args) && ci.Common().Args[ai] == ssa.Value(p) && !core.Dominates(test, ci) && bad == "" {
					bad, badPos = "the input is parsed on a path that has not tested it for emptiness", core.InstrPos(ci)
				}
			}
		}
		if bad != "" {
			return "", token.NoPos, bad, badPos
		}
		return "(\"\", nil) on the empty edge; the test dominates the parse", core.InstrPos(test), "", token.NoPos
	}

	for _, f := range fns {
		res := f.Signature.Results()
		if res.Len() < 2 || !c19IsError(res.At(res.Len()-1).Type()) {
			continue
		}
		fk := core.FuncKey(f)
		rets := c19Returns(f)
		last := res.Len() - 1

		// --- A. shape of the returns
		for _, rt := range rets {
			if core.IsNilConst(rt.Results[last]) {
				continue
			}
			how, bad := pairs.returnOK(f, rt)
			c.Check(bad == "", "R19c", fk+" return with error", core.InstrPos(rt), how,
				bad+": a value (formatted time) is returned together with a non-nil error")
		}

		// --- B. every (value, error) producing call
		for _, ci := range core.Calls(f) {
			call, ok := ci.(*ssa.Call)
			if !ok {
				continue
			}
			tp, ok := call.Type().(*types.Tuple)
			if !ok || tp.Len() < 2 || !c19IsError(tp.At(tp.Len()-1).Type()) {
				continue
			}
			o := core.CalleeObj(call)
			cname := "dynamic call"
			if o != nil {
				cname = core.ObjKey(o)
			}
			key := fk + " error of " + cname
			var errX *ssa.Extract
			var vals []*ssa.Extract
			for _, u := range core.Referrers(call) {
				if ex, ok := u.(*ssa.Extract); ok {
					if ex.Index == tp.Len()-1 {
						errX = ex
					} else {
						vals = append(vals, ex)
					}
				}
			}
			if errX == nil {
				c.Bad("R19c", key, core.InstrPos(call), "the error result is discarded: a failed parse/zone lookup continues with a zero value")
				continue
			}
			errSet := c19PhiClosure(errX)
			tests := c19NilTests(errSet)
			// real uses of the value components
			valSet := map[ssa.Value]bool{}
			spill := map[ssa.Instruction]bool{}
			for _, ex := range vals {
				for v := range c19PhiClosure(ex) {
					valSet[v] = true
				}
			}
			// `return g(...)`: the untested error leaves the function together with the values of the same call
			handedUp := map[*ssa.Return]bool{}
			handedBy := ""
			if len(tests) == 0 {
				rets, ok, foreign := c19HandedUp(f, call, errSet, valSet)
				if !ok {
					c.Bad("R19c", key, core.InstrPos(call), "the error result is never compared with nil")
					continue
				}
				if foreign {
					// next to the call's own values the return carries values that do not stem from the call: only the
					// callers (every one of them known and checked to test the error first) can vouch for the tuple
					if pairs.callersTest(f) {
						handedBy = pairs.callersVouch(f)
					}
				} else {
					handedBy = pairs.responsible(f, call)
				}
				if handedBy == "" {
					c.Bad("R19c", key, core.InstrPos(call), "the error result is never compared with nil: it is handed up together with the value, but neither is the tuple produced by a function this rule checks nor are all callers of "+fk+" known and checked")
					continue
				}
				handedUp = rets
			}
			barrier := map[*ssa.BasicBlock]bool{}
			for _, t := range tests {
				barrier[t.ifi.Block()] = true
			}
			// a value parked in a local variable of the function (struct-typed results are spilled) is used where
			// the variable is read, not where it is parked
			for changed := true; changed; {
				changed = false
				for v := range valSet {
					for _, u := range core.Referrers(v) {
						st, ok := u.(*ssa.Store)
						if !ok || st.Val != v || spill[st] {
							continue
						}
						al, ok := st.Addr.(*ssa.Alloc)
						if !ok || al.Heap {
							continue
						}
						spill[st] = true
						changed = true
						var addrs []ssa.Value
						addrs = append(addrs, al)
						for i := 0; i < len(addrs); i++ {
							for _, r := range core.Referrers(addrs[i]) {
								switch y := r.(type) {
								case *ssa.FieldAddr:
									addrs = append(addrs, y)
								case *ssa.IndexAddr:
									addrs = append(addrs, y)
								case *ssa.UnOp:
									if y.Op == token.MUL {
										valSet[y] = true
									}
								}
							}
						}
					}
				}
			}
			isUse := func(in ssa.Instruction) bool {
				switch in.(type) {
				case *ssa.Phi, *ssa.DebugRef, *ssa.Extract:
					return false
				}
				if spill[in] {
					return false
				}
				if rt, ok := in.(*ssa.Return); ok && handedUp[rt] {
					return false
				}
				for _, op := range in.Operands(nil) {
					if *op != nil && valSet[*op] {
						return true
					}
				}
				return false
			}
			bad, badPos := "", token.NoPos
			// (i) before the test: walk from the call, test blocks are barriers (their own instructions are still
			// visited up to the If)
			core.WalkAfter(call, func(in ssa.Instruction) bool {
				if isUse(in) && bad == "" {
					bad, badPos = "a value of the call is used before its error is tested", core.InstrPos(in)
				}
				if ifi, ok := in.(*ssa.If); ok && barrier[ifi.Block()] {
					return false
				}
				return true
			})
			// (ii) on the non-nil edge
			for _, t := range tests {
				for blk := range core.ReachableBlocks(t.nonNil, nil) {
					for _, in := range blk.Instrs {
						if isUse(in) && bad == "" {
							bad, badPos = "a value of the call is used on the edge where its error is non-nil", core.InstrPos(in)
						}
						if rt, ok := in.(*ssa.Return); ok && core.IsNilConst(rt.Results[last]) && bad == "" {
							bad, badPos = "a return with a nil error is reachable from the edge where the error is non-nil", core.InstrPos(in)
						}
					}
				}
			}
			switch {
			case bad != "":
				c.Bad("R19c", key, badPos, bad)
			case handedBy != "":
				c.OK("R19c", key, core.InstrPos(call), "values and error are used only by returns that hand the tuple up untouched: "+handedBy)
			default:
				c.OK("R19c", key, core.InstrPos(call), "tested; values used only on the nil edge; the non-nil edge returns the error")
			}
		}

		// --- C. empty input
		if f.Object() == nil || !f.Object().Exported() {
			continue
		}
		for i, p := range f.Params {
			if !inputParam[psink{f, i}] {
				continue
			}
			key := fk + " empty input " + p.Name()
			how, okPos, bad, badPos := emptyEdge(f, i, 0)
			if bad != "" {
				c.Bad("R19c", key, badPos, bad)
			} else {
				c.OK("R19c", key, okPos, how)
			}
		}
	}
	c.Floor("R19c", 25, "11 fallible calls, 4 empty-input edges, 13 error returns")
}

// ---------------------------------------------------------------- R19d

// c19MapKeys: the constant string keys of a map value that is a literal built in this function, the result of a
// parameterless repository function that returns such a literal, or a package-level map assigned once from a literal
// in the package initialiser and otherwise only indexed. nil if the key set is not a static fact.
func c19MapKeys(v ssa.Value, fns []*ssa.Function, depth int) []string {
	if depth > 2 {
		return nil
	}
	fromLiteral := func(mm *ssa.MakeMap, allowReturn bool) []string {
		var keys []string
		for _, u := range core.Referrers(mm) {
			switch x := u.(type) {
			case *ssa.MapUpdate:
				k, ok := x.Key.(*ssa.Const)
				if !ok || x.Map != ssa.Value(mm) || k.Value == nil || k.Value.Kind() != constant.String {
					return nil
				}
				keys = append(keys, constant.StringVal(k.Value))
			case *ssa.Lookup, *ssa.DebugRef:
			case *ssa.Return:
				if !allowReturn {
					return nil
				}
			case *ssa.Store:
				if _, isG := x.Addr.(*ssa.Global); !isG {
					return nil
				}
			default:
				return nil
			}
		}
		sort.Strings(keys)
		return keys
	}
	switch x := v.(type) {
	case *ssa.MakeMap:
		return fromLiteral(x, false)
	case *ssa.Call:
		g := x.Call.StaticCallee()
		if g == nil || g.Blocks == nil || !core.InRepo(core.FuncPkg(g)) {
			return nil
		}
		rets := c19Returns(g)
		if len(rets) != 1 || len(rets[0].Results) != 1 {
			return nil
		}
		if mm, ok := rets[0].Results[0].(*ssa.MakeMap); ok {
			return fromLiteral(mm, true)
		}
		return c19MapKeys(rets[0].Results[0], fns, depth+1)
	case *ssa.UnOp:
		g, ok := x.X.(*ssa.Global)
		if !ok || x.Op != token.MUL {
			return nil
		}
		var lit *ssa.MakeMap
		for _, f := range fns {
			_ = f
		}
		// every use of the global in its package: one store of a literal in init, loads that are only indexed
		if g.Pkg == nil {
			return nil
		}
		for _, mem := range g.Pkg.Members {
			fn, ok := mem.(*ssa.Function)
			if !ok {
				continue
			}
			all := append([]*ssa.Function{fn}, fn.AnonFuncs...)
			for _, h := range all {
				for _, b := range h.Blocks {
					for _, in := range b.Instrs {
						uses := false
						for _, op := range in.Operands(nil) {
							if *op == ssa.Value(g) {
								uses = true
							}
						}
						if !uses {
							continue
						}
						switch y := in.(type) {
						case *ssa.Store:
							mm, ok := y.Val.(*ssa.MakeMap)
							if !ok || lit != nil || !(h.Synthetic != "" && h.Name() == "init") {
								return nil
							}
							lit = mm
						case *ssa.UnOp:
							for _, u := range core.Referrers(y) {
								switch u.(type) {
								case *ssa.Lookup, *ssa.DebugRef:
								default:
									return nil
								}
							}
						default:
							return nil
						}
					}
				}
			}
		}
		if lit == nil {
			return nil
		}
		return fromLiteral(lit, false)
	}
	return nil
}

// c19disp is the unit dispatch found for one string parameter.
type c19disp struct {
	fn        *ssa.Function // function in which the dispatch happens (the conversion function or a lookup helper)
	cases     []string
	undecided string
	first     token.Pos
	run       func(assign string) []*ssa.Return
	via       string
}

// c19Dispatch finds the dispatch on parameter p of f: comparisons with string constants and comma-ok lookups in a table
// with constant keys, in f itself or in a helper of the scope that is handed p unchanged.
func c19Dispatch(f *ssa.Function, p *ssa.Parameter, scope map[*types.Package]bool, fns []*ssa.Function, depth int) *c19disp {
	if f.Blocks == nil || depth > 2 {
		return nil
	}
	tests := map[*ssa.If]func(assign string) bool{} // true edge taken?
	caseSet := map[string]bool{}
	d := &c19disp{fn: f, first: token.NoPos}
	var mark func(v ssa.Value, pred func(string) bool, depth int)
	mark = func(v ssa.Value, pred func(string) bool, dd int) {
		if dd > 3 {
			return
		}
		for _, uu := range core.Referrers(v) {
			switch y := uu.(type) {
			case *ssa.If:
				tests[y] = pred
				if !d.first.IsValid() || core.InstrPos(y) < d.first {
					d.first = core.InstrPos(y)
				}
			case *ssa.UnOp:
				if y.Op == token.NOT {
					mark(y, func(a string) bool { return !pred(a) }, dd+1)
				}
			}
		}
	}
	for _, u := range core.Referrers(p) {
		switch x := u.(type) {
		case *ssa.BinOp:
			if x.Op != token.EQL && x.Op != token.NEQ {
				continue
			}
			other := x.Y
			if x.Y == ssa.Value(p) {
				other = x.X
			}
			k, ok := other.(*ssa.Const)
			if !ok || k.Value == nil || k.Value.Kind() != constant.String || constant.StringVal(k.Value) == "" {
				continue
			}
			val, eq := constant.StringVal(k.Value), x.Op == token.EQL
			n := len(tests)
			mark(x, func(a string) bool { return (a == val) == eq }, 0)
			if len(tests) > n {
				caseSet[val] = true
			}
		case *ssa.Lookup:
			if x.Index != ssa.Value(p) {
				continue
			}
			if _, isMap := x.X.Type().Underlying().(*types.Map); !isMap {
				continue
			}
			keys := c19MapKeys(x.X, fns, 0)
			if keys == nil {
				d.undecided = "the unit is looked up in a table whose key set is not a static fact"
				continue
			}
			if !x.CommaOk {
				d.undecided = "the unit is looked up without a comma-ok test: an unknown unit yields the zero entry"
				continue
			}
			inKeys := map[string]bool{}
			for _, k := range keys {
				inKeys[k] = true
			}
			for _, uu := range core.Referrers(x) {
				if ex, ok := uu.(*ssa.Extract); ok && ex.Index == 1 {
					n := len(tests)
					mark(ex, func(a string) bool { return inKeys[a] }, 0)
					if len(tests) > n {
						for _, k := range keys {
							caseSet[k] = true
						}
					}
				}
			}
		}
	}
	if len(tests) == 0 && d.undecided == "" {
		// delegated to a helper that receives p unchanged
		for _, u := range core.Referrers(p) {
			call, ok := u.(*ssa.Call)
			if !ok {
				continue
			}
			h := call.Call.StaticCallee()
			if h == nil || h.Blocks == nil || !scope[core.FuncPkg(h)] || len(h.Params) != len(call.Call.Args) {
				continue
			}
			for i, a := range call.Call.Args {
				if a != ssa.Value(p) {
					continue
				}
				if sub := c19Dispatch(h, h.Params[i], scope, fns, depth+1); sub != nil {
					sub.via = core.FuncKey(h)
					return sub
				}
			}
		}
		return nil
	}
	for k := range caseSet {
		d.cases = append(d.cases, k)
	}
	sort.Strings(d.cases)
	// abstract run of the function with p fixed to `assign` ("" = none of the constants): the returns that are
	// reachable after at least one test of p has been decided
	d.run = func(assign string) []*ssa.Return {
		type st struct {
			b      *ssa.BasicBlock
			passed bool
		}
		seen := map[st]bool{}
		var out []*ssa.Return
		var walk func(s st)
		walk = func(s st) {
			if seen[s] {
				return
			}
			seen[s] = true
			last := s.b.Instrs[len(s.b.Instrs)-1]
			switch x := last.(type) {
			case *ssa.Return:
				if s.passed {
					out = append(out, x)
				}
			case *ssa.If:
				if t, ok := tests[x]; ok {
					taken := 1
					if t(assign) {
						taken = 0
					}
					walk(st{s.b.Succs[taken], true})
					return
				}
				walk(st{s.b.Succs[0], s.passed})
				walk(st{s.b.Succs[1], s.passed})
			default:
				for _, nx := range s.b.Succs {
					walk(st{nx, s.passed})
				}
			}
		}
		walk(st{f.Blocks[0], false})
		sort.Slice(out, func(i, j int) bool { return out[i].Pos() < out[j].Pos() })
		return out
	}
	return d
}

func c19UnitDispatch(c *core.Ctx, fns []*ssa.Function) {
	scope := map[*types.Package]bool{}
	for _, f := range fns {
		scope[core.FuncPkg(f)] = true
	}
	type found struct {
		f     *ssa.Function
		cases []string
	}
	var all []found
	for _, f := range fns {
		if f.Parent() != nil || f.Object() == nil || !f.Object().Exported() {
			continue
		}
		res := f.Signature.Results()
		if res.Len() < 2 || !c19IsError(res.At(res.Len()-1).Type()) {
			continue
		}
		for _, p := range f.Params {
			if b, ok := p.Type().Underlying().(*types.Basic); !ok || b.Info()&types.IsString == 0 {
				continue
			}
			d := c19Dispatch(f, p, scope, fns, 0)
			if d == nil {
				continue
			}
			key := core.FuncKey(f) + " dispatch on " + p.Name()
			via := ""
			if d.via != "" {
				via = " (in " + d.via + ")"
			}
			if d.undecided != "" {
				c.Unknown("R19d", key+" cases", d.first, d.undecided+via)
				all = append(all, found{f, nil})
				continue
			}
			dres := d.fn.Signature.Results()
			if dres.Len() < 2 || !c19IsError(dres.At(dres.Len()-1).Type()) {
				c.Unknown("R19d", key+" cases", d.first, "the helper that dispatches on the unit does not return an error"+via)
				all = append(all, found{f, nil})
				continue
			}
			last := dres.Len() - 1
			// (1) case set: exactly the documented units, each of which is accepted on some path
			okCases := strings.Join(d.cases, ",") == strings.Join(c19Units, ",")
			why := "cases are " + strings.Join(d.cases, ", ") + ", expected exactly " + strings.Join(c19Units, ", ")
			if okCases {
				for _, cs := range d.cases {
					accepted := false
					for _, rt := range d.run(cs) {
						if core.IsNilConst(rt.Results[last]) {
							accepted = true
						}
					}
					if !accepted {
						okCases, why = false, "unit "+cs+" is tested for but never converted"
					}
				}
			}
			c.Check(okCases, "R19d", key+" cases", d.first, "cases "+strings.Join(d.cases, ", ")+via, why+via)
			all = append(all, found{f, d.cases})
			// (2) default: with a unit that equals none of the constants every return after the dispatch is (zero, error)
			rets := d.run("")
			bad, badPos := "", token.NoPos
			for _, rt := range rets {
				zero := true
				for i := 0; i < last; i++ {
					if !core.IsZeroConst(rt.Results[i]) {
						zero = false
					}
				}
				if (core.IsNilConst(rt.Results[last]) || !zero) && bad == "" {
					bad, badPos = "an unknown unit does not end in (\"\", error): it is converted as if it were a known unit", core.InstrPos(rt)
				}
			}
			if len(rets) == 0 {
				bad, badPos = "no return after the unit dispatch", d.first
			}
			if bad != "" {
				c.Bad("R19d", key+" default", badPos, bad+via)
			} else {
				c.OK("R19d", key+" default", core.InstrPos(rets[0]), "unknown unit returns (\"\", error)"+via)
			}
		}
	}
	if len(all) == 2 {
		if all[0].cases != nil && all[1].cases != nil {
			same := strings.Join(all[0].cases, ",") == strings.Join(all[1].cases, ",")
			c.Check(same, "R19d", "unit sets of "+core.FuncKey(all[0].f)+" and "+core.FuncKey(all[1].f)+" agree", all[0].f.Pos(),
				"same unit set in both directions", "the two conversion directions accept different units")
		}
	} else {
		c.Unresolved("R19d", "unit dispatches", fmt.Sprintf("expected a unit dispatch in each of the two conversion directions, found %d", len(all)))
	}
	c.Floor("R19d", 5, "2 case sets, 2 defaults, agreement")
}
