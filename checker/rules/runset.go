package rules

import (
	"go/types"
	"sort"

	"golang.org/x/tools/go/ssa"

	"omnilint/core"
)

// Shared analysis A1: the run set (functions reachable from NewTransform / Read / RawRecord / Raw /
// Checksum, plus the built-in custom functions that are only reachable through reflect.Value.Call) and
// the load set (reachable from NewSchema).

type entrySets struct {
	runRoots  []*ssa.Function
	loadRoots []*ssa.Function
	run       map[*ssa.Function]bool
	load      map[*ssa.Function]bool
	builtins  []*ssa.Function // built-in custom funcs (reflection callees)
}

// implementersIn returns the named types of package p (T or *T) implementing iface, sorted.
func implementersIn(p *types.Package, iface *types.Interface) []types.Type {
	var out []types.Type
	names := p.Scope().Names()
	sort.Strings(names)
	for _, n := range names {
		tn, ok := p.Scope().Lookup(n).(*types.TypeName)
		if !ok || tn.IsAlias() {
			continue
		}
		if _, isIface := tn.Type().Underlying().(*types.Interface); isIface {
			continue
		}
		if types.Implements(tn.Type(), iface) {
			out = append(out, tn.Type())
		} else if types.Implements(types.NewPointer(tn.Type()), iface) {
			out = append(out, types.NewPointer(tn.Type()))
		}
	}
	return out
}

func lookupIface(p *types.Package, name string) *types.Interface {
	if p == nil {
		return nil
	}
	tn, ok := p.Scope().Lookup(name).(*types.TypeName)
	if !ok {
		return nil
	}
	i, _ := tn.Type().Underlying().(*types.Interface)
	return i
}

func methodFn(c *core.Ctx, t types.Type, name string) *ssa.Function {
	n := core.NamedOf(t)
	if n == nil || n.Obj().Pkg() == nil {
		return nil
	}
	return c.MethodOfPkg(n.Obj().Pkg(), n.Obj().Name(), name)
}

// builtinCustomFuncs: function values stored (as interface values) into package-level map literals of
// the two custom-func packages — the callees of the reflect.Value.Call site.
func builtinCustomFuncs(c *core.Ctx) []*ssa.Function {
	var out []*ssa.Function
	for _, rel := range []string{"customfuncs", "extensions/omniv21/customfuncs"} {
		sp := c.SSAPkg(rel)
		if sp == nil {
			continue
		}
		in := sp.Func("init")
		if in == nil {
			continue
		}
		for _, b := range in.Blocks {
			for _, i := range b.Instrs {
				if mu, ok := i.(*ssa.MapUpdate); ok {
					if mi, ok := mu.Value.(*ssa.MakeInterface); ok {
						if f, ok := mi.X.(*ssa.Function); ok {
							out = append(out, f)
						}
					}
				}
			}
		}
	}
	return out
}

var entryCache = map[*core.Ctx]*entrySets{}

// entries resolves the entry points by role and computes both sets. Returns nil (after reporting an
// unresolved anchor under rule) if a role cannot be resolved.
func entries(c *core.Ctx, rule string) *entrySets {
	if e, ok := entryCache[c]; ok {
		return e
	}
	c.SSA()
	root := c.Pkg("")
	if root == nil {
		c.Unresolved(rule, "root package", "package "+core.Mod+" not loaded")
		return nil
	}
	e := &entrySets{}
	schemaI := lookupIface(root.Types, "Schema")
	transformI := lookupIface(root.Types, "Transform")
	if schemaI == nil || transformI == nil {
		c.Unresolved(rule, "Schema/Transform interfaces", "exported interfaces not found in the root package")
		return nil
	}
	for _, t := range implementersIn(root.Types, schemaI) {
		if f := methodFn(c, t, "NewTransform"); f != nil {
			e.runRoots = append(e.runRoots, f)
		}
	}
	for _, t := range implementersIn(root.Types, transformI) {
		for _, m := range []string{"Read", "RawRecord"} {
			if f := methodFn(c, t, m); f != nil {
				e.runRoots = append(e.runRoots, f)
			}
		}
	}
	if len(e.runRoots) < 3 {
		c.Unresolved(rule, "Schema/Transform implementations", "expected NewTransform, Read and RawRecord implementations in the root package")
		return nil
	}
	// RawRecord implementations (Raw, Checksum) anywhere in the repo
	if shp := c.Pkg("schemahandler"); shp != nil {
		if rrI := lookupIface(shp.Types, "RawRecord"); rrI != nil {
			for _, p := range c.Pkgs {
				if core.IsCLIOrSample(p.Types) {
					continue
				}
				for _, t := range implementersIn(p.Types, rrI) {
					for _, m := range []string{"Raw", "Checksum"} {
						if f := methodFn(c, t, m); f != nil {
							e.runRoots = append(e.runRoots, f)
						}
					}
				}
			}
		}
	}
	e.builtins = builtinCustomFuncs(c)
	if len(e.builtins) < 10 {
		c.Unresolved(rule, "built-in custom funcs", "fewer than 10 function values found in the CustomFuncs map literals")
		return nil
	}
	if f := c.Func("", "NewSchema"); f != nil {
		e.loadRoots = append(e.loadRoots, f)
	} else {
		c.Unresolved(rule, "NewSchema", "exported function not found")
		return nil
	}
	e.run = c.Reachable(append(append([]*ssa.Function{}, e.runRoots...), e.builtins...), nil)
	e.load = c.Reachable(e.loadRoots, nil)
	entryCache[c] = e
	nRun, nLoad := 0, 0
	for f := range e.run {
		if core.InRepo(core.FuncPkg(f)) {
			nRun++
		}
	}
	for f := range e.load {
		if core.InRepo(core.FuncPkg(f)) {
			nLoad++
		}
	}
	c.Stats["run_set_functions"] = len(e.run)
	c.Stats["run_set_repo_functions"] = nRun
	c.Stats["load_set_repo_functions"] = nLoad
	return e
}

// repoFuncsIn returns the repository functions of a set, sorted.
func repoFuncsIn(set map[*ssa.Function]bool) []*ssa.Function {
	var out []*ssa.Function
	for f := range set {
		if f.Blocks != nil && core.InRepo(core.FuncPkg(f)) {
			out = append(out, f)
		}
	}
	sort.Slice(out, func(i, j int) bool {
		a, b := core.FuncKey(out[i]), core.FuncKey(out[j])
		if a != b {
			return a < b
		}
		return out[i].Pos() < out[j].Pos()
	})
	return out
}
