package rules

import (
	"golang.org/x/tools/go/ssa"

	"omnilint/core"
)

// g5Builder: a function that produces (part of) the converter's result for the converted node: the converter itself or a
// helper of package idr the converter (or another builder) hands its node to and whose result it returns.
type g5Builder struct {
	fn   *ssa.Function
	node ssa.Value // the *Node parameter of fn that is bound to the converted node
}

// g5HelperFor: call is a call to a function of package idr with a body that receives `node` in its only *Node parameter;
// returns that function and its node parameter.
func g5HelperFor(r *c08roles, call *ssa.Call, node ssa.Value) (*ssa.Function, ssa.Value) {
	cf := c08RepoCallee(call)
	if cf == nil || cf.Blocks == nil || core.FuncPkg(cf) != r.idr {
		return nil, nil
	}
	np := c08NodeParam(cf, r.node)
	if np < 0 || np >= len(call.Call.Args) || call.Call.Args[np] != node {
		return nil, nil
	}
	return cf, cf.Params[np]
}

// g5Builders: the converter k (node parameter #np) and, transitively, every helper whose result a builder returns for
// the same node ("case isArray(n): return ctx.childElemsToArray(n)").
func g5Builders(r *c08roles, k *ssa.Function, np int) []g5Builder {
	out := []g5Builder{{k, k.Params[np]}}
	seen := map[*ssa.Function]bool{k: true}
	for i := 0; i < len(out); i++ {
		b := out[i]
		for _, rt := range ecReturns(b.fn) {
			if len(rt.Results) != 1 {
				continue
			}
			call, ok := core.Unwrap(rt.Results[0], true).(*ssa.Call)
			if !ok {
				continue
			}
			cf, node := g5HelperFor(r, call, b.node)
			if cf == nil || seen[cf] {
				continue
			}
			seen[cf] = true
			out = append(out, g5Builder{cf, node})
		}
	}
	return out
}

// g5OnlyContainers: every return of fn hands out a []interface{} or a map[string]interface{} (behind interface boxing):
// fn builds containers and cannot be the scalar branch of the converter.
func g5OnlyContainers(fn *ssa.Function) bool {
	n := 0
	for _, rt := range ecReturns(fn) {
		if len(rt.Results) != 1 {
			return false
		}
		t := core.Unwrap(rt.Results[0], true).Type()
		if !c08IsIfaceSlice(t) && !c08IsIfaceMap(t) {
			return false
		}
		n++
	}
	return n > 0
}
