package rules

import (
	"go/token"
	"go/types"
	"sort"

	"golang.org/x/tools/go/ssa"

	"omnilint/core"
)

// j1CallIndex: who calls a repository function, and whether the function can also be reached by something
// other than a static call (used as a value, bound, or invoked through an interface method of the same name).
type j1CallIndex struct {
	callers map[*ssa.Function][]ssa.CallInstruction
	escaped map[*ssa.Function]bool
	invoked map[string]bool // pkgpath.name of interface methods invoked anywhere
}

func (r *c12roles) callIndex() *j1CallIndex {
	if r.j1idx != nil {
		return r.j1idx
	}
	ix := &j1CallIndex{callers: map[*ssa.Function][]ssa.CallInstruction{}, escaped: map[*ssa.Function]bool{}, invoked: map[string]bool{}}
	r.j1idx = ix
	if r.ctx == nil {
		return ix
	}
	var ops []*ssa.Value
	for f := range r.ctx.AllFunctions() {
		for _, b := range f.Blocks {
			for _, in := range b.Instrs {
				var calleeOp ssa.Value
				if ci, ok := in.(ssa.CallInstruction); ok {
					cc := ci.Common()
					if cc.IsInvoke() {
						if m := cc.Method; m != nil && m.Pkg() != nil {
							ix.invoked[m.Pkg().Path()+"."+m.Name()] = true
						} else if m != nil {
							ix.invoked["."+m.Name()] = true
						}
					} else if g := cc.StaticCallee(); g != nil {
						if _, direct := cc.Value.(*ssa.Function); direct {
							calleeOp = cc.Value
							ix.callers[g] = append(ix.callers[g], ci)
						}
					}
				}
				ops = in.Operands(ops[:0])
				skipped := false
				for _, op := range ops {
					if op == nil || *op == nil {
						continue
					}
					g, ok := (*op).(*ssa.Function)
					if !ok {
						continue
					}
					if calleeOp != nil && !skipped && *op == calleeOp {
						skipped = true // the callee position of a direct call
						continue
					}
					ix.escaped[g] = true
				}
			}
		}
	}
	for g, cs := range ix.callers {
		sort.SliceStable(cs, func(i, j int) bool {
			a, b := core.FuncKey(cs[i].Parent()), core.FuncKey(cs[j].Parent())
			if a != b {
				return a < b
			}
			return cs[i].Pos() < cs[j].Pos()
		})
		ix.callers[g] = cs
	}
	return ix
}

// privateHelperCallers: f is an unexported, named repository function/method that is only ever called
// statically (never used as a value, never reachable through an interface method of its name) and has at
// least one caller: returns its call sites. Its parameters are then exactly the arguments at those sites.
func (r *c12roles) privateHelperCallers(f *ssa.Function) ([]ssa.CallInstruction, string) {
	if f == nil || f.Parent() != nil || f.Synthetic != "" || f.Blocks == nil {
		return nil, "not a declared function"
	}
	if p := core.FuncPkg(f); p == nil || !core.InRepo(p) {
		return nil, "not a repository function"
	}
	if token.IsExported(f.Name()) {
		return nil, "exported: callers outside the repository may pass any node"
	}
	ix := r.callIndex()
	if ix.escaped[f] {
		return nil, "function is used as a value"
	}
	if f.Signature.Recv() != nil {
		p := core.FuncPkg(f)
		if ix.invoked[p.Path()+"."+f.Name()] || ix.invoked["."+f.Name()] {
			return nil, "a method of this name is invoked through an interface"
		}
	}
	cs := ix.callers[f]
	if len(cs) == 0 {
		return nil, "no static caller"
	}
	return cs, ""
}

func paramIndex(f *ssa.Function, p *ssa.Parameter) int {
	for i, q := range f.Params {
		if q == p {
			return i
		}
	}
	return -1
}

// j1AttachHelpers: unexported helpers (only called statically) that hand one of their parameters to
// AddChild as the child, directly or through another such helper: helper -> parameter indexes.
func j1AttachHelpers(r *c12roles, fns []*ssa.Function) map[*ssa.Function]map[int]bool {
	out := map[*ssa.Function]map[int]bool{}
	for round := 0; round < 4; round++ {
		changed := false
		for _, f := range fns {
			if r.nodeAPIFunc(f) {
				continue
			}
			for _, ci := range core.Calls(f) {
				cf := ci.Common().StaticCallee()
				if cf == nil || ci.Common().IsInvoke() {
					continue
				}
				var children []ssa.Value
				if cf == r.addChild {
					children = append(children, ci.Common().Args[1])
				} else if idxs := out[cf]; idxs != nil {
					for j := range idxs {
						if j < len(ci.Common().Args) {
							children = append(children, ci.Common().Args[j])
						}
					}
				}
				for _, ch := range children {
					p, ok := ch.(*ssa.Parameter)
					if !ok || p.Parent() != f {
						continue
					}
					if cs, _ := r.privateHelperCallers(f); cs == nil {
						continue
					}
					j := paramIndex(f, p)
					if j < 0 || out[f][j] {
						continue
					}
					if out[f] == nil {
						out[f] = map[int]bool{}
					}
					out[f][j] = true
					changed = true
				}
			}
		}
		if !changed {
			break
		}
	}
	return out
}

// clearsHolderViaHelper: before `release`, f calls (on every path: the call dominates the release) a method g
// of the same receiver with the released parameter p bound to g's parameter q, and g clears the holder
// (recv.fld = nil unconditionally, or guarded by q == recv.fld) before each of its returns.
func clearsHolderViaHelper(f *ssa.Function, p *ssa.Parameter, fld *types.Var, release ssa.Instruction, depth int) bool {
	if depth > 3 {
		return false
	}
	for _, ci := range core.Calls(f) {
		cc := ci.Common()
		g := cc.StaticCallee()
		if g == nil || cc.IsInvoke() || g == f || g.Blocks == nil || g.Signature.Recv() == nil || len(cc.Args) != len(g.Params) || len(cc.Args) < 2 {
			continue
		}
		if cc.Args[0] != ssa.Value(f.Params[0]) {
			continue // another object's holder
		}
		in, ok := ci.(ssa.Instruction)
		if !ok || !core.Dominates(in, release) {
			continue
		}
		for j := 1; j < len(cc.Args); j++ {
			if cc.Args[j] != ssa.Value(p) {
				continue
			}
			q := g.Params[j]
			nret, all := 0, true
			for _, b := range g.Blocks {
				for _, gi := range b.Instrs {
					rt, ok := gi.(*ssa.Return)
					if !ok {
						continue
					}
					nret++
					if !clearsHolderDepth(g, q, fld, rt, depth+1) {
						all = false
					}
				}
			}
			if nret > 0 && all {
				return true
			}
		}
	}
	return false
}
