package rules

// C03 helpers (round H5):
//
//   - K1: the name of a panic's guard is independent of whether the guard is spelt as a call of a predicate helper
//     (`if !inRange(i, 0, len(s)-1)`) or as the comparison the helper computes (`if i < 0 || i >= len(s)`): a guard that
//     is the truth value of a side-effect free repository predicate is named by the (single) clause over the predicate's
//     parameters that the result implies, in the caller's terms, and integer comparisons are named in a normal form in
//     which `x > y-1` reads `x >= y`. The name only selects the reviewed entry; a condition that is necessary for the
//     panic is what the reviewed argument refutes, so naming by it accepts nothing the argument does not cover.
//   - K7: the recursive validator is found by role - the function (or, if the assignment sits in a helper, the nearest
//     caller carrying the reference stack) that assigns the field the result-cache key reads - where the key may be
//     computed by a helper of the evaluation function (return values are followed).

import (
	"go/token"
	"go/types"
	"sort"

	"golang.org/x/tools/go/ssa"

	"omnilint/core"
)

// ---------------------------------------------------------------- K1 guard names

// h5normName: integer comparisons `b1+o1 op b2+o2` between two different non-constant terms in the form without
// offset where the offsets differ by one (`x > y-1` = `x >= y`, `x <= y-1` = `x < y`, `x >= y+1` = `x > y`,
// `x < y+1` = `x <= y`); everything else stays as it is.
func h5normName(a c03atom) c03atom {
	a = c03normAtom(a)
	if a.kind != "rel" || a.t == nil || a.u == nil {
		return a
	}
	b1, o1 := c03linear(a.t)
	b2, o2 := c03linear(a.u)
	if b1 == nil || b2 == nil || !c03isSmall(o1) || !c03isSmall(o2) {
		return a
	}
	d := o2 - o1 // b1 op b2 + d
	op := a.op
	switch {
	case d == 0:
	case d == -1 && op == token.GTR:
		op = token.GEQ
	case d == -1 && op == token.LEQ:
		op = token.LSS
	case d == 1 && op == token.GEQ:
		op = token.GTR
	case d == 1 && op == token.LSS:
		op = token.LEQ
	default:
		return a
	}
	return c03atom{kind: "rel", t: b1, u: b2, op: op, pos: true}
}

func h5normInner(inner []c03atom) []c03atom {
	out := make([]c03atom, 0, len(inner))
	for _, a := range inner {
		out = append(out, h5normName(a))
	}
	return out
}

// h5sumInner: the guard is `pred(args)` / `!pred(args)` for a repository observer whose result (a computed truth
// value: `return a && b`) implies exactly one clause over its parameters: that clause, in the caller's terms.
func (e *c03eng) h5sumInner(inner []c03atom) []c03atom {
	if len(inner) != 1 {
		return inner
	}
	a := inner[0]
	if a.kind != "true" || a.t == nil {
		return inner
	}
	ct, idx := a.t, -1
	if a.t.op == "extract" && len(a.t.args) == 1 {
		ct, idx = a.t.args[0], a.t.idx
	}
	if ct.op != "call" {
		return inner
	}
	f := e.byKey[ct.name]
	if f == nil || f.Blocks == nil || !core.InRepo(core.FuncPkg(f)) || len(e.writeSet(f)) > 0 {
		return inner
	}
	var st, sf []c03clause
	if idx >= 0 {
		st, sf = e.summaryAt(f, idx)
	} else {
		st, sf = e.summary(f)
	}
	src := st
	if !a.pos {
		src = sf
	}
	if len(src) != 1 || len(src[0].atoms) == 0 {
		return inner
	}
	var out []c03atom
	for _, sa := range src[0].atoms {
		if !sa.paramRooted() {
			return inner
		}
		b, ok := sa.subst(ct.args)
		if !ok {
			return inner
		}
		out = append(out, b)
	}
	return out
}

// h5guardNames: the alternative names of a guard, most literal first.
func (x *c03ctx) h5guardNames(inner []c03atom) []string {
	raw := c03descOf(inner)
	names := []string{raw}
	add := func(in []c03atom) {
		d := c03descOf(in)
		for _, n := range names {
			if n == d {
				return
			}
		}
		names = append(names, d)
	}
	inl := x.e.inlineInner(inner, 0)
	sum := x.e.h5sumInner(inner)
	add(inl)
	add(sum)
	add(h5normInner(inner))
	add(h5normInner(inl))
	add(h5normInner(sum))
	return names
}

// ---------------------------------------------------------------- K7 recursive validator by role

// h5keySources: keySources, additionally following the results of repository functions the key is computed by
// (`cacheKey = transformCacheKey(n, decl)`).
func h5keySources(v ssa.Value, fn *ssa.Function, out map[*types.Var]bool) {
	seen := map[ssa.Value]bool{}
	keySources(v, fn, seen, out)
	done := map[*ssa.Function]bool{}
	for round := 0; round < 4; round++ {
		var calls []*ssa.Call
		for sv := range seen {
			if c, ok := sv.(*ssa.Call); ok {
				calls = append(calls, c)
			}
		}
		sort.Slice(calls, func(i, j int) bool { return calls[i].Pos() < calls[j].Pos() })
		progress := false
		for _, c := range calls {
			g := c.Call.StaticCallee()
			if g == nil || g.Blocks == nil || done[g] || !core.InRepo(core.FuncPkg(g)) {
				continue
			}
			done[g] = true
			progress = true
			for _, b := range g.Blocks {
				if rt, ok := b.Instrs[len(b.Instrs)-1].(*ssa.Return); ok {
					for _, r := range rt.Results {
						if isString(r.Type()) {
							keySources(r, g, seen, out)
						}
					}
				}
			}
		}
		if !progress {
			break
		}
	}
}

func h5stackParam(f *ssa.Function) int {
	idx := -1
	for i, p := range f.Params {
		if sl, ok := p.Type().Underlying().(*types.Slice); ok && isString(sl.Elem()) {
			idx = i
		}
	}
	return idx
}

// h5StackThreaded: K7 part two (see c03StackThreaded): every call of the recursive validator passes a reference stack
// that derives from the caller's own stack parameter. The validator is the function that assigns the declaration hash
// and carries the reference stack; when the assignment sits in a helper without the stack (`computeDeclHash(decl)`),
// it is the helper's caller that carries it.
func h5StackThreaded(c *core.Ctx) {
	r := c13Resolve(c, "K7")
	if r == nil {
		return
	}
	srcs := map[*types.Var]bool{}
	h5keySources(r.lookup.Index, r.parseNode, srcs)
	var writers []*ssa.Function
	for _, f := range c.RepoFunctions() {
		if core.FuncPkg(f) != r.tp {
			continue
		}
		for _, w := range core.Writes(f) {
			if w.Kind == "field" && w.Field != nil && !w.Field.Exported() && srcs[w.Field] && isString(w.Field.Type()) {
				writers = append(writers, f)
				break
			}
		}
	}
	// static callers inside the package
	callersOf := func(g *ssa.Function) []*ssa.Function {
		var out []*ssa.Function
		seen := map[*ssa.Function]bool{}
		for _, f := range c.RepoFunctions() {
			if core.FuncPkg(f) != r.tp || f == g || seen[f] {
				continue
			}
			for _, ci := range core.Calls(f) {
				if ci.Common().StaticCallee() == g {
					seen[f] = true
					out = append(out, f)
					break
				}
			}
		}
		return out
	}
	cands := map[*ssa.Function]bool{}
	var order []*ssa.Function
	for _, w := range writers {
		level := []*ssa.Function{w}
		visited := map[*ssa.Function]bool{w: true}
		for depth := 0; depth < 3 && len(level) > 0; depth++ {
			var next []*ssa.Function
			found := false
			for _, g := range level {
				if h5stackParam(g) >= 0 {
					if !cands[g] {
						cands[g] = true
						order = append(order, g)
					}
					found = true
					continue
				}
				for _, up := range callersOf(g) {
					if !visited[up] {
						visited[up] = true
						next = append(next, up)
					}
				}
			}
			if found {
				break
			}
			level = next
		}
	}
	if len(writers) == 0 {
		c.Unresolved("K7", "recursive validator", "function assigning the declaration hash not found")
		return
	}
	if len(order) == 0 {
		c.Unresolved("K7", "reference stack parameter", "the validator has no []string parameter")
		return
	}
	sort.Slice(order, func(i, j int) bool { return core.FuncKey(order[i]) < core.FuncKey(order[j]) })
	n := 0
	for _, validator := range order {
		stackIdx := h5stackParam(validator)
		for _, f := range c.RepoFunctions() {
			if core.FuncPkg(f) != r.tp {
				continue
			}
			// f's own stack parameter (if any)
			var own *ssa.Parameter
			if i := h5stackParam(f); i >= 0 {
				own = f.Params[i]
			}
			for _, ci := range core.Calls(f) {
				if ci.Common().StaticCallee() != validator {
					continue
				}
				n++
				key := core.FuncKey(f) + " passes reference stack"
				arg := ci.Common().Args[stackIdx]
				switch {
				case own != nil && derivesFromParam(arg, own, 0):
					c.OK("K7", key, core.InstrPos(ci), "the stack derives from the caller's own stack parameter")
				case own == nil && isFreshStringSlice(arg):
					c.OK("K7", key, core.InstrPos(ci), "root call: the stack starts with the root declaration's name")
				default:
					c.Bad("K7", key, core.InstrPos(ci), "the recursive validator is called with a reference stack that does not derive from the caller's stack: a template cycle through this edge is not detected and NewSchema recurses until the stack overflows")
				}
			}
		}
	}
	if n == 0 {
		c.Unresolved("K7", "validator call sites", "none found")
	}
}
