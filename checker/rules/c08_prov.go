package rules

// Provenance engine shared by the C06 and C08 rule sets ("no transformation between the library reader and the node").
//
// c08Prov answers, for an SSA value v, "which values is v a verbatim copy (or verbatim part) of?". It walks BACKWARDS
// from v through conveyance steps only — Phi, conversions among string/[]byte/[]rune, interface boxing and type
// assertions, struct field selection, slice/array/string element selection, sub-slicing (bounds are NOT examined),
// append/copy, loads from locals, loads from struct fields (field based: every store to that field anywhere in the
// repository, matched by access path), parameters (call-site sensitive when the call is on the resolution stack,
// otherwise every static call site) and results of repository functions — keeping the ACCESS PATH that leads from the
// origin to v. Everything else (a call to a function outside the repository that receives the data, string
// concatenation, arithmetic, map lookups, map iteration) ends the walk with a term that names the transformation.
//
// The result is a set of terms. The rule decides which terms it accepts; a term of kind xform/opaque is never accepted.

import (
	"fmt"
	"go/token"
	"go/types"
	"sort"
	"strings"

	"golang.org/x/tools/go/ssa"

	"omnilint/core"
)

// c08Sel is one step of an access path.
type c08Sel struct {
	F    *types.Var // struct field
	Elem bool       // element of a slice/array/string, value of a map
	As   types.Type // dynamic type asserted
	Sub  bool       // sub-slice of a string / []byte / []rune (bounds not examined)
}

func (s c08Sel) String() string {
	switch {
	case s.F != nil:
		return "." + s.F.Name()
	case s.Elem:
		return "[]"
	case s.As != nil:
		return "(" + types.TypeString(s.As, func(p *types.Package) string { return p.Name() }) + ")"
	case s.Sub:
		return "[:]"
	}
	return "?"
}

func (s c08Sel) key() string {
	switch {
	case s.F != nil:
		return fmt.Sprintf("f%p", s.F)
	case s.Elem:
		return "e"
	case s.As != nil:
		return "a" + types.TypeString(s.As, nil)
	case s.Sub:
		return "s"
	}
	return "?"
}

func c08SameSel(a, b c08Sel) bool {
	if a.F != nil || b.F != nil {
		return a.F == b.F
	}
	if a.Elem || b.Elem {
		return a.Elem && b.Elem
	}
	if a.Sub || b.Sub {
		return a.Sub && b.Sub
	}
	return a.As != nil && b.As != nil && types.Identical(a.As, b.As)
}

func c08PathString(p []c08Sel) string {
	var b strings.Builder
	for _, s := range p {
		b.WriteString(s.String())
	}
	return b.String()
}

func c08PathKey(p []c08Sel) string {
	var b strings.Builder
	for _, s := range p {
		b.WriteString(s.key())
		b.WriteByte('/')
	}
	return b.String()
}

func c08Prepend(s c08Sel, p []c08Sel) []c08Sel {
	out := make([]c08Sel, 0, len(p)+1)
	out = append(out, s)
	return append(out, p...)
}

func c08Concat(a, b []c08Sel) []c08Sel {
	out := make([]c08Sel, 0, len(a)+len(b))
	out = append(out, a...)
	return append(out, b...)
}

// c08Term is one origin of a value.
type c08Term struct {
	Kind string // src, const, zero, field, param, xform, lookup, maprange, global, opaque
	Root string
	Path string
	Call *ssa.Call // for src / xform terms produced by a call
	Pos  token.Pos
}

func (t c08Term) String() string {
	if t.Path != "" {
		return t.Kind + ":" + t.Root + t.Path
	}
	return t.Kind + ":" + t.Root
}

// c08Terms is a set of terms keyed by their rendering.
type c08Terms map[string]c08Term

func (ts c08Terms) List() []string {
	var out []string
	for k := range ts {
		out = append(out, k)
	}
	sort.Strings(out)
	return out
}

func (ts c08Terms) String() string { return "{" + strings.Join(ts.List(), ", ") + "}" }

// Bad returns the terms that no rule can accept (transformations and unresolved origins).
func (ts c08Terms) Bad() []string {
	var out []string
	for _, k := range ts.List() {
		switch ts[k].Kind {
		case "xform", "opaque", "maprange", "lookup", "global":
			out = append(out, k)
		}
	}
	return out
}

// Kinds returns the renderings of the terms of the given kind.
func (ts c08Terms) Kinds(kind string) []string {
	var out []string
	for _, k := range ts.List() {
		if ts[k].Kind == kind {
			out = append(out, k)
		}
	}
	return out
}

type c08Store struct {
	fn     *ssa.Function
	chain  []c08Sel // outermost first, from root
	root   ssa.Value
	val    ssa.Value
	valPre []c08Sel // selectors applied to val before the remaining query path
	local  bool     // root is a non-escaping local
}

// c08Prov is the resolver.
type c08Prov struct {
	c *core.Ctx
	// IsSource names a call (to a function outside the repository, or any call the rule wants to stop at) as an origin.
	IsSource func(call *ssa.Call) (string, bool)
	// StopParam ends the walk at a parameter (API boundary) with a param term.
	StopParam func(p *ssa.Parameter) (string, bool)
	// LeafField ends the walk at a load of a (declaration) field.
	LeafField func(f *types.Var) (string, bool)
	// Lookup, when set, may accept a map lookup and name it; otherwise lookups are transformations.
	Lookup func(l *ssa.Lookup) (string, bool)
	// Transparent marks functions outside the repository whose result is a verbatim copy of argument i.
	Transparent func(o *types.Func) (arg int, ok bool)
	// OnSlice, when set, is told every sub-slicing of a textual value that lies on a resolved data path.
	OnSlice func(s *ssa.Slice)

	stores   []c08Store
	byField  map[*types.Var][]int
	byRoot   map[ssa.Value][]int
	byWhole  map[string][]int // stores of a whole struct through a pointer with empty chain: by struct type string
	ownerOf  map[*types.Var]string
	callers  map[*ssa.Function][]*ssa.Call
	copiesTo map[ssa.Value][]int // copy() stores by traced root (for MakeSlice roots)
	budget   int
}

// c08AddrChain follows an address back to its root, collecting selectors (outermost first).
func c08AddrChain(addr ssa.Value) (chain []c08Sel, root ssa.Value) {
	var rev []c08Sel
	v := addr
	for i := 0; i < 64; i++ {
		switch x := v.(type) {
		case *ssa.FieldAddr:
			rev = append(rev, c08Sel{F: core.FieldOfAddr(x)})
			v = x.X
			continue
		case *ssa.IndexAddr:
			rev = append(rev, c08Sel{Elem: true})
			v = x.X
			continue
		case *ssa.UnOp:
			if x.Op == token.MUL {
				v = x.X
				continue
			}
		case *ssa.Slice:
			v = x.X
			continue
		case *ssa.ChangeType:
			v = x.X
			continue
		}
		break
	}
	for i := len(rev) - 1; i >= 0; i-- {
		chain = append(chain, rev[i])
	}
	return chain, v
}

func c08IsLocal(root ssa.Value) bool {
	a, ok := root.(*ssa.Alloc)
	return ok && !a.Heap
}

func c08NewProv(c *core.Ctx) *c08Prov {
	p := &c08Prov{c: c, byField: map[*types.Var][]int{}, byRoot: map[ssa.Value][]int{}, byWhole: map[string][]int{},
		ownerOf: map[*types.Var]string{}, callers: map[*ssa.Function][]*ssa.Call{}, copiesTo: map[ssa.Value][]int{}}
	add := func(s c08Store) {
		idx := len(p.stores)
		s.local = c08IsLocal(s.root)
		p.stores = append(p.stores, s)
		p.byRoot[s.root] = append(p.byRoot[s.root], idx)
		if s.local {
			return
		}
		for _, sel := range s.chain {
			if sel.F != nil {
				p.byField[sel.F] = append(p.byField[sel.F], idx)
			}
		}
		if len(s.chain) == 0 {
			if st, ok := s.val.Type().Underlying().(*types.Struct); ok {
				k := types.TypeString(s.val.Type(), nil)
				p.byWhole[k] = append(p.byWhole[k], idx)
				for i := 0; i < st.NumFields(); i++ {
					p.ownerOf[st.Field(i)] = k
				}
			}
		}
	}
	for _, f := range c.RepoFunctions() {
		for _, b := range f.Blocks {
			for _, in := range b.Instrs {
				switch x := in.(type) {
				case *ssa.Store:
					ch, root := c08AddrChain(x.Addr)
					add(c08Store{fn: f, chain: ch, root: root, val: x.Val})
				case *ssa.MapUpdate:
					ch, root := c08AddrChain(x.Map)
					add(c08Store{fn: f, chain: append(ch, c08Sel{Elem: true}), root: root, val: x.Value})
				case *ssa.Call:
					if bn, ok := x.Call.Value.(*ssa.Builtin); ok && bn.Name() == "copy" && len(x.Call.Args) == 2 {
						ch, root := c08AddrChain(x.Call.Args[0])
						idx := len(p.stores)
						add(c08Store{fn: f, chain: append(ch, c08Sel{Elem: true}), root: root, val: x.Call.Args[1], valPre: []c08Sel{{Elem: true}}})
						p.copiesTo[root] = append(p.copiesTo[root], idx)
					}
					if cf := x.Call.StaticCallee(); cf != nil && cf.Blocks != nil {
						p.callers[cf] = append(p.callers[cf], x)
					}
				}
			}
		}
	}
	return p
}

type c08state struct {
	out  c08Terms
	seen map[string]bool
}

func (st *c08state) add(t c08Term) { st.out[t.String()] = t }

// Resolve returns the origins of v (as seen under the call stack ctx, outermost first; nil = any caller).
func (p *c08Prov) Resolve(v ssa.Value, ctx []*ssa.Call) c08Terms {
	return p.ResolvePath(v, nil, ctx)
}

// ResolvePath returns the origins of the part `path` of v.
func (p *c08Prov) ResolvePath(v ssa.Value, path []c08Sel, ctx []*ssa.Call) c08Terms {
	st := &c08state{out: c08Terms{}, seen: map[string]bool{}}
	p.budget = 40000
	p.val(st, v, path, ctx, 0)
	return st.out
}

func (p *c08Prov) enter(st *c08state, kind string, v ssa.Value, path []c08Sel, ctx []*ssa.Call, depth int) bool {
	p.budget--
	if p.budget < 0 || depth > 80 || len(path) > 14 {
		st.add(c08Term{Kind: "opaque", Root: "resolution budget exceeded"})
		return false
	}
	var cb strings.Builder
	for _, c := range ctx {
		fmt.Fprintf(&cb, "%p,", c)
	}
	k := fmt.Sprintf("%s|%p|%s|%s", kind, v, c08PathKey(path), cb.String())
	if st.seen[k] {
		return false
	}
	st.seen[k] = true
	return true
}

func c08IsPointer(t types.Type) bool {
	_, ok := t.Underlying().(*types.Pointer)
	return ok
}

func c08Textual(t types.Type) bool {
	switch u := t.Underlying().(type) {
	case *types.Basic:
		return u.Info()&types.IsString != 0
	case *types.Slice:
		if b, ok := u.Elem().Underlying().(*types.Basic); ok {
			return b.Kind() == types.Byte || b.Kind() == types.Uint8 || b.Kind() == types.Rune || b.Kind() == types.Int32
		}
	}
	return false
}

func c08FuncName(f *ssa.Function) string {
	if f == nil {
		return "<dynamic>"
	}
	return core.Rel(f.String())
}

func c08CalleeName(call *ssa.Call) string {
	if call.Call.IsInvoke() {
		return "invoke " + call.Call.Method.FullName()
	}
	if bn, ok := call.Call.Value.(*ssa.Builtin); ok {
		return "builtin " + bn.Name()
	}
	if o := core.CalleeObj(call); o != nil {
		return core.Rel(o.FullName())
	}
	if f := call.Call.StaticCallee(); f != nil {
		return c08FuncName(f)
	}
	return "dynamic call"
}

// val resolves the part `path` of value v. For pointer-typed v the path applies to the pointee.
func (p *c08Prov) val(st *c08state, v ssa.Value, path []c08Sel, ctx []*ssa.Call, depth int) {
	if !p.enter(st, "v", v, path, ctx, depth) {
		return
	}
	switch x := v.(type) {
	case *ssa.Const:
		switch {
		case x.IsNil():
			st.add(c08Term{Kind: "const", Root: "nil"})
		case x.Value == nil:
			st.add(c08Term{Kind: "const", Root: "zero"})
		default:
			st.add(c08Term{Kind: "const", Root: x.Value.ExactString()})
		}
	case *ssa.Phi:
		for _, e := range x.Edges {
			p.val(st, e, path, ctx, depth+1)
		}
	case *ssa.Convert:
		if c08Textual(x.Type()) && c08Textual(x.X.Type()) {
			p.val(st, x.X, path, ctx, depth+1)
			return
		}
		if types.Identical(x.Type().Underlying(), x.X.Type().Underlying()) {
			p.val(st, x.X, path, ctx, depth+1)
			return
		}
		st.add(c08Term{Kind: "xform", Root: fmt.Sprintf("conversion %s <- %s", x.Type(), x.X.Type()), Pos: x.Pos()})
	case *ssa.ChangeType:
		p.val(st, x.X, path, ctx, depth+1)
	case *ssa.ChangeInterface:
		p.val(st, x.X, path, ctx, depth+1)
	case *ssa.MakeInterface:
		if len(path) > 0 && path[0].As != nil {
			if _, isIface := path[0].As.Underlying().(*types.Interface); !isIface && !types.Identical(path[0].As, x.X.Type()) {
				return // this boxing cannot satisfy the assertion on the path
			}
			p.val(st, x.X, path[1:], ctx, depth+1)
			return
		}
		p.val(st, x.X, path, ctx, depth+1)
	case *ssa.TypeAssert:
		if x.CommaOk {
			st.add(c08Term{Kind: "opaque", Root: "tuple of a type assertion used as a value"})
			return
		}
		p.val(st, x.X, c08Prepend(c08Sel{As: x.AssertedType}, path), ctx, depth+1)
	case *ssa.Extract:
		switch t := x.Tuple.(type) {
		case *ssa.TypeAssert:
			if x.Index == 0 {
				p.val(st, t.X, c08Prepend(c08Sel{As: t.AssertedType}, path), ctx, depth+1)
			} else {
				st.add(c08Term{Kind: "xform", Root: "ok flag of a type assertion"})
			}
		case *ssa.Call:
			p.callResult(st, t, x.Index, path, ctx, depth+1)
		case *ssa.Lookup:
			if x.Index == 0 {
				p.lookup(st, t, path, ctx, depth)
			} else {
				st.add(c08Term{Kind: "xform", Root: "ok flag of a map lookup"})
			}
		case *ssa.Next:
			what := "map iteration"
			if t.IsString {
				what = "string iteration"
			}
			st.add(c08Term{Kind: "maprange", Root: what, Pos: x.Pos()})
		default:
			st.add(c08Term{Kind: "opaque", Root: fmt.Sprintf("extract from %T", x.Tuple)})
		}
	case *ssa.Call:
		p.callResult(st, x, 0, path, ctx, depth+1)
	case *ssa.UnOp:
		if x.Op == token.MUL {
			p.obj(st, x.X, path, ctx, depth+1)
			return
		}
		st.add(c08Term{Kind: "xform", Root: "operator " + x.Op.String(), Pos: x.Pos()})
	case *ssa.BinOp:
		what := "operator " + x.Op.String()
		if x.Op == token.ADD && c08Textual(x.Type()) {
			what = "string concatenation"
		}
		st.add(c08Term{Kind: "xform", Root: what, Pos: x.Pos()})
	case *ssa.Field:
		p.val(st, x.X, c08Prepend(c08Sel{F: core.FieldOfField(x)}, path), ctx, depth+1)
	case *ssa.Index:
		p.val(st, x.X, c08Prepend(c08Sel{Elem: true}, path), ctx, depth+1)
	case *ssa.Lookup:
		if _, isMap := x.X.Type().Underlying().(*types.Map); isMap {
			p.lookup(st, x, path, ctx, depth)
			return
		}
		p.val(st, x.X, c08Prepend(c08Sel{Elem: true}, path), ctx, depth+1) // byte of a string
	case *ssa.Slice:
		if c08IsPointer(x.X.Type()) {
			p.obj(st, x.X, path, ctx, depth+1)
		} else {
			if c08Textual(x.X.Type()) && p.OnSlice != nil {
				p.OnSlice(x)
			}
			if c08Textual(x.X.Type()) && !(len(path) > 0 && path[0].Sub) {
				path = c08Prepend(c08Sel{Sub: true}, path) // a part of the text (one marker for any number of cuts)
			}
			p.val(st, x.X, path, ctx, depth+1)
		}
	case *ssa.MakeSlice:
		p.fresh(st, x, path, ctx, depth)
	case *ssa.Parameter:
		p.param(st, x, path, ctx, depth)
	case *ssa.Alloc, *ssa.FieldAddr, *ssa.IndexAddr:
		p.obj(st, v, path, ctx, depth+1)
	case *ssa.Global:
		st.add(c08Term{Kind: "global", Root: x.String()})
	case *ssa.FreeVar:
		st.add(c08Term{Kind: "opaque", Root: "captured variable " + x.Name()})
	default:
		st.add(c08Term{Kind: "opaque", Root: fmt.Sprintf("%T", v)})
	}
}

func (p *c08Prov) lookup(st *c08state, l *ssa.Lookup, path []c08Sel, ctx []*ssa.Call, depth int) {
	if p.Lookup != nil {
		if name, ok := p.Lookup(l); ok {
			key := p.ResolvePathKeep(l.Index, nil, ctx)
			st.add(c08Term{Kind: "table", Root: name + "[" + strings.Join(key.List(), ",") + "]", Pos: l.Pos()})
			return
		}
	}
	st.add(c08Term{Kind: "lookup", Root: "map lookup", Pos: l.Pos()})
}

// ResolvePathKeep is ResolvePath without resetting the budget (nested use).
func (p *c08Prov) ResolvePathKeep(v ssa.Value, path []c08Sel, ctx []*ssa.Call) c08Terms {
	st := &c08state{out: c08Terms{}, seen: map[string]bool{}}
	p.val(st, v, path, ctx, 0)
	return st.out
}

// fresh: a make([]T, n) value: its elements are what copy()/indexed stores put there.
func (p *c08Prov) fresh(st *c08state, m *ssa.MakeSlice, path []c08Sel, ctx []*ssa.Call, depth int) {
	for len(path) > 0 && path[0].Sub {
		path = path[1:]
	}
	if len(path) == 0 {
		path = []c08Sel{{Elem: true}} // the content of a slice is its elements
	}
	found := false
	for _, i := range p.byRoot[m] {
		s := p.stores[i]
		if rest, ok := c08Match(s.chain, path); ok {
			found = true
			p.val(st, s.val, c08Concat(s.valPre, rest), ctx, depth+1)
		}
	}
	if !found {
		st.add(c08Term{Kind: "zero", Root: "fresh slice"})
	}
}

// c08Match: chain (of a store, from the root) against a query path from the same root: they must agree on the
// overlap and the store must not be deeper than the query. Returns the remaining query path.
func c08Match(chain, path []c08Sel) ([]c08Sel, bool) {
	j := 0
	for i := range chain {
		for j < len(path) && path[j].Sub && !chain[i].Sub {
			j++ // a sub-slice of the stored text: transparent for matching
		}
		if j >= len(path) || !c08SameSel(chain[i], path[j]) {
			return nil, false
		}
		j++
	}
	return path[j:], true
}

func (p *c08Prov) param(st *c08state, x *ssa.Parameter, path []c08Sel, ctx []*ssa.Call, depth int) {
	if p.StopParam != nil {
		if name, ok := p.StopParam(x); ok {
			st.add(c08Term{Kind: "param", Root: name, Path: c08PathString(path)})
			return
		}
	}
	if c08IsPointer(x.Type()) && len(path) > 0 && path[0].F != nil {
		// heap object reached through a pointer parameter: every store to that field
		p.fieldBased(st, path, depth)
		return
	}
	fn := x.Parent()
	idx := -1
	for i, fp := range fn.Params {
		if fp == x {
			idx = i
		}
	}
	if n := len(ctx); n > 0 && ctx[n-1].Call.StaticCallee() == fn && idx >= 0 && idx < len(ctx[n-1].Call.Args) {
		p.val(st, ctx[n-1].Call.Args[idx], path, ctx[:n-1], depth+1)
		return
	}
	cs := p.callers[fn]
	if len(cs) == 0 || idx < 0 {
		st.add(c08Term{Kind: "opaque", Root: "parameter " + x.Name() + " of " + c08FuncName(fn) + " (no static call site)"})
		return
	}
	for _, call := range cs {
		if idx < len(call.Call.Args) {
			p.val(st, call.Call.Args[idx], path, nil, depth+1)
		}
	}
}

func (p *c08Prov) callResult(st *c08state, call *ssa.Call, idx int, path []c08Sel, ctx []*ssa.Call, depth int) {
	if bn, ok := call.Call.Value.(*ssa.Builtin); ok {
		switch bn.Name() {
		case "append":
			for _, a := range call.Call.Args {
				p.val(st, a, path, ctx, depth+1)
			}
		default:
			st.add(c08Term{Kind: "xform", Root: "builtin " + bn.Name(), Pos: call.Pos()})
		}
		return
	}
	if p.IsSource != nil {
		if name, ok := p.IsSource(call); ok {
			st.add(c08Term{Kind: "src", Root: fmt.Sprintf("%s#%d", name, idx), Path: c08PathString(path), Call: call, Pos: call.Pos()})
			return
		}
	}
	cf := call.Call.StaticCallee()
	if cf == nil || cf.Blocks == nil || !core.InRepo(core.FuncPkg(cf)) {
		if o := core.CalleeObj(call); o != nil && p.Transparent != nil && !call.Call.IsInvoke() {
			if ai, ok := p.Transparent(o); ok && ai < len(call.Call.Args) {
				p.val(st, call.Call.Args[ai], path, ctx, depth+1)
				return
			}
		}
		st.add(c08Term{Kind: "xform", Root: "result of " + c08CalleeName(call), Call: call, Pos: call.Pos()})
		return
	}
	if len(ctx) > 10 {
		st.add(c08Term{Kind: "opaque", Root: "call depth"})
		return
	}
	n := 0
	for _, b := range cf.Blocks {
		for _, in := range b.Instrs {
			if rt, ok := in.(*ssa.Return); ok && idx < len(rt.Results) {
				n++
				c2 := append(append([]*ssa.Call{}, ctx...), call)
				p.val(st, rt.Results[idx], path, c2, depth+1)
			}
		}
	}
	if n == 0 {
		st.add(c08Term{Kind: "opaque", Root: "no return in " + c08FuncName(cf)})
	}
}

// obj resolves the part `path` of the object that pointer value ptr points to.
func (p *c08Prov) obj(st *c08state, ptr ssa.Value, path []c08Sel, ctx []*ssa.Call, depth int) {
	if !p.enter(st, "o", ptr, path, ctx, depth) {
		return
	}
	switch x := ptr.(type) {
	case *ssa.FieldAddr:
		f := core.FieldOfAddr(x)
		if f != nil && p.LeafField != nil {
			if name, ok := p.LeafField(f); ok {
				st.add(c08Term{Kind: "field", Root: name, Path: c08PathString(path)})
				return
			}
		}
		p.obj(st, x.X, c08Prepend(c08Sel{F: f}, path), ctx, depth+1)
	case *ssa.IndexAddr:
		if c08IsPointer(x.X.Type()) {
			p.obj(st, x.X, c08Prepend(c08Sel{Elem: true}, path), ctx, depth+1)
		} else {
			p.val(st, x.X, c08Prepend(c08Sel{Elem: true}, path), ctx, depth+1)
		}
	case *ssa.Alloc:
		p.alloc(st, x, path, ctx, depth)
	case *ssa.Phi:
		for _, e := range x.Edges {
			p.obj(st, e, path, ctx, depth+1)
		}
	case *ssa.ChangeType:
		p.obj(st, x.X, path, ctx, depth+1)
	case *ssa.Parameter:
		if len(path) > 0 && path[0].F != nil {
			p.fieldBased(st, path, depth)
			return
		}
		p.param(st, x, path, ctx, depth)
	case *ssa.Global:
		st.add(c08Term{Kind: "global", Root: x.String(), Path: c08PathString(path)})
	default:
		// a pointer obtained from memory or from a call: the object is on the heap
		if len(path) > 0 && path[0].F != nil {
			p.fieldBased(st, path, depth)
			return
		}
		if u, ok := ptr.(*ssa.UnOp); ok && u.Op == token.MUL {
			// pointer loaded from somewhere: resolve the pointer value, the path applies to its pointee
			p.obj(st, u.X, path, ctx, depth+1)
			return
		}
		st.add(c08Term{Kind: "opaque", Root: fmt.Sprintf("memory behind %T", ptr)})
	}
}

// alloc: content of an allocation of the current function: what the function stored into it (flow-insensitive);
// an escaping allocation additionally receives every field-based store of the repository.
func (p *c08Prov) alloc(st *c08state, al *ssa.Alloc, path []c08Sel, ctx []*ssa.Call, depth int) {
	found := false
	for _, i := range p.byRoot[al] {
		s := p.stores[i]
		if rest, ok := c08Match(s.chain, path); ok {
			found = true
			p.val(st, s.val, c08Concat(s.valPre, rest), ctx, depth+1)
		}
	}
	if al.Heap && len(path) > 0 && path[0].F != nil {
		if p.fieldStores(st, path, depth) {
			found = true
		}
	}
	if !found {
		st.add(c08Term{Kind: "zero", Root: "never stored"})
	}
}

// fieldBased: the object lives on the heap; use every store in the repository that can hit path.
func (p *c08Prov) fieldBased(st *c08state, path []c08Sel, depth int) {
	if !p.fieldStores(st, path, depth) {
		st.add(c08Term{Kind: "opaque", Root: "field " + path[0].String() + " is never stored"})
	}
}

func (p *c08Prov) fieldStores(st *c08state, path []c08Sel, depth int) bool {
	if !p.enter(st, "f", nil, path, nil, depth) {
		return true
	}
	found := false
	seen := map[int]bool{}
	for j := 0; j < len(path); j++ {
		f := path[j].F
		if f == nil {
			continue
		}
		for _, i := range p.byField[f] {
			s := p.stores[i]
			// alignment: the store chain contains f at position k; chain[k:] must agree with path[j:]
			for k := range s.chain {
				if s.chain[k].F != f {
					continue
				}
				if j > 0 && k > 0 {
					// both have context before f: it must agree as far as both go
					agree := true
					for a, b := j-1, k-1; a >= 0 && b >= 0; a, b = a-1, b-1 {
						if !c08SameSel(path[a], s.chain[b]) {
							agree = false
							break
						}
					}
					if !agree {
						continue
					}
				}
				rest, ok := c08Match(s.chain[k:], path[j:])
				if !ok {
					continue
				}
				key := i*64 + j
				if seen[key] {
					continue
				}
				seen[key] = true
				found = true
				p.val(st, s.val, c08Concat(s.valPre, rest), nil, depth+1)
			}
		}
		// whole-struct stores through a pointer to the struct that owns f
		if owner, ok := p.ownerOf[f]; ok {
			for _, i := range p.byWhole[owner] {
				s := p.stores[i]
				found = true
				p.val(st, s.val, path[j:], nil, depth+1)
			}
		}
	}
	return found
}
