package rules

// Forward value flow (A5, forward direction) specialised for borrowed buffers: which values may alias the internal
// buffer of a decoder (bufio.Reader line, bufio.Scanner token, reused csv record), where they travel (slicing, struct
// and slice construction, Phi, Extract, calls into repository functions, returns) and where they are stored.
// Heap is abstracted per struct field (types.Var identity); locals per Alloc.

import (
	"fmt"
	"go/token"
	"go/types"
	"sort"
	"strings"

	"golang.org/x/tools/go/ssa"

	"omnilint/core"
)

type c09toks map[string]bool

func (t c09toks) list() []string {
	var out []string
	for k := range t {
		out = append(out, k)
	}
	sort.Strings(out)
	return out
}

// c09Source is one borrow-source call site.
type c09Source struct {
	Call   *ssa.Call
	Fn     *ssa.Function
	Callee string
	Index  int // result index that is borrowed
}

// c09Event is one store of a borrowed value into memory that is not a local of the storing function.
type c09Event struct {
	Fn     *ssa.Function
	Instr  ssa.Instruction
	Fields []*types.Var // field chain from the root inwards
	Toks   []string     // provenance tokens of the chain fields ("fld:Owner.name")
	Addr   ssa.Value    // the address written
	Root   ssa.Value
	Val    ssa.Value
	Prov   c09toks
	Kind   string // field, global, unknown
	Why    string
}

type c09Taint struct {
	c        *core.Ctx
	fns      []*ssa.Function
	tv       map[ssa.Value]c09toks
	tf       map[*types.Var]c09toks
	tret     map[*ssa.Function]map[int]c09toks
	sources  map[*ssa.Call]*c09Source
	events   map[ssa.Instruction]*c09Event
	unknown  map[ssa.Instruction]string
	copies   map[*ssa.Convert]bool // string(borrowed) conversions
	changed  bool
	reuseCSV map[*types.Package]bool
	impls    map[*types.Func][]*ssa.Function
	holdMemo map[types.Type]int
	gen      int
}

// packages whose functions neither retain nor publish their slice arguments (pure libraries); a result of
// reference type is still assumed to alias the argument.
var c09PurePkgs = map[string]bool{
	"bytes": true, "strings": true, "unicode": true, "unicode/utf8": true, "regexp": true, "fmt": true, "strconv": true,
	"errors": true, "sort": true, "math": true,
	"github.com/jf-tech/go-corelib/strs": true, "github.com/jf-tech/go-corelib/maths": true,
}

func c09CanRef(t types.Type) bool { return c09canRef(t, 0) }

func c09canRef(t types.Type, d int) bool {
	if d > 6 {
		return true
	}
	switch x := t.Underlying().(type) {
	case *types.Basic:
		return x.Kind() == types.UnsafePointer
	case *types.Slice, *types.Pointer, *types.Map, *types.Chan, *types.Signature, *types.Interface:
		return true
	case *types.Struct:
		for i := 0; i < x.NumFields(); i++ {
			if c09canRef(x.Field(i).Type(), d+1) {
				return true
			}
		}
		return false
	case *types.Array:
		return c09canRef(x.Elem(), d+1)
	case *types.Tuple:
		for i := 0; i < x.Len(); i++ {
			if c09canRef(x.At(i).Type(), d+1) {
				return true
			}
		}
		return false
	}
	return true
}

func c09NewTaint(c *core.Ctx) *c09Taint {
	t := &c09Taint{c: c, tv: map[ssa.Value]c09toks{}, tf: map[*types.Var]c09toks{}, tret: map[*ssa.Function]map[int]c09toks{},
		sources: map[*ssa.Call]*c09Source{}, events: map[ssa.Instruction]*c09Event{}, unknown: map[ssa.Instruction]string{},
		copies: map[*ssa.Convert]bool{}, reuseCSV: map[*types.Package]bool{}, impls: map[*types.Func][]*ssa.Function{}, holdMemo: map[types.Type]int{}}
	for _, f := range c.RepoFunctions() {
		if core.IsCLIOrSample(core.FuncPkg(f)) {
			continue
		}
		t.fns = append(t.fns, f)
	}
	// csv.Reader.ReuseRecord set (to anything but constant false) in a package: its csv reads are borrow sources
	for _, f := range t.fns {
		for _, w := range core.Writes(f) {
			if w.Kind == "field" && w.Field != nil && w.Field.Name() == "ReuseRecord" && w.Field.Pkg() != nil && w.Field.Pkg().Path() == "encoding/csv" {
				if k, ok := w.Val.(*ssa.Const); ok && k.Value != nil && k.Value.ExactString() == "false" {
					continue
				}
				t.reuseCSV[core.FuncPkg(f)] = true
			}
		}
	}
	return t
}

// sourceIndex: the borrowed result index if the call is a borrow source, else -1.
func (t *c09Taint) sourceIndex(call *ssa.Call) (int, string) {
	o := core.CalleeObj(call)
	if o == nil || o.Pkg() == nil {
		return -1, ""
	}
	name := o.Pkg().Path() + "." + core.FuncName(o)
	switch name {
	case "github.com/jf-tech/go-corelib/ios.ByteReadLine", "bufio.Reader.ReadLine", "bufio.Reader.ReadSlice", "bufio.Reader.Peek", "bufio.Scanner.Bytes":
		return 0, name
	case "encoding/csv.Reader.Read":
		if t.reuseCSV[core.FuncPkg(call.Parent())] {
			return 0, name + " (ReuseRecord)"
		}
	}
	return -1, ""
}

func (t *c09Taint) add(v ssa.Value, toks c09toks) {
	if v == nil || len(toks) == 0 {
		return
	}
	m := t.tv[v]
	if m == nil {
		m = c09toks{}
		t.tv[v] = m
	}
	for k := range toks {
		if !m[k] {
			m[k] = true
			t.changed = true
		}
	}
}

func (t *c09Taint) addField(f *types.Var, toks c09toks) {
	if f == nil || len(toks) == 0 {
		return
	}
	m := t.tf[f]
	if m == nil {
		m = c09toks{}
		t.tf[f] = m
		t.gen++
	}
	for k := range toks {
		if !m[k] {
			m[k] = true
			t.changed = true
		}
	}
}

func (t *c09Taint) addRet(f *ssa.Function, i int, toks c09toks) {
	if len(toks) == 0 {
		return
	}
	if t.tret[f] == nil {
		t.tret[f] = map[int]c09toks{}
	}
	m := t.tret[f][i]
	if m == nil {
		m = c09toks{}
		t.tret[f][i] = m
	}
	for k := range toks {
		if !m[k] {
			m[k] = true
			t.changed = true
		}
	}
}

func c09FieldTok(f *types.Var, owner *types.Named) string {
	if owner != nil {
		return "fld:" + owner.Obj().Name() + "." + f.Name()
	}
	return "fld:" + f.Name()
}

// holds: the (struct/array) type contains, by value, a borrow-holding field; returns the tokens.
func (t *c09Taint) holds(ty types.Type, d int) c09toks {
	if d > 4 {
		return nil
	}
	switch x := ty.Underlying().(type) {
	case *types.Struct:
		var out c09toks
		for i := 0; i < x.NumFields(); i++ {
			f := x.Field(i)
			if t.tf[f] != nil {
				if out == nil {
					out = c09toks{}
				}
				out[c09FieldTok(f, core.NamedOf(ty))] = true
			}
			switch f.Type().Underlying().(type) {
			case *types.Struct, *types.Array:
				for k := range t.holds(f.Type(), d+1) {
					if out == nil {
						out = c09toks{}
					}
					out[k] = true
				}
			}
		}
		return out
	case *types.Array:
		return t.holds(x.Elem(), d+1)
	}
	return nil
}

// c09AddrRoot strips field/element steps (not loads) from an address; slice-valued IndexAddr bases are followed to the
// variable the slice was loaded from. Returns the field chain (root inwards), the root and whether the chain is exact.
func c09AddrRoot(addr ssa.Value) (fields []*types.Var, root ssa.Value, ok bool) {
	ok = true
	for i := 0; i < 32; i++ {
		switch x := addr.(type) {
		case *ssa.FieldAddr:
			fields = append([]*types.Var{core.FieldOfAddr(x)}, fields...)
			addr = x.X
		case *ssa.IndexAddr:
			if _, isPtr := x.X.Type().Underlying().(*types.Pointer); isPtr {
				addr = x.X
				continue
			}
			// slice value: where does the slice live?
			switch y := x.X.(type) {
			case *ssa.UnOp:
				if y.Op == token.MUL {
					addr = y.X
					continue
				}
				return fields, x.X, false
			case *ssa.Slice:
				addr = y.X
				if _, isPtr := y.X.Type().Underlying().(*types.Pointer); !isPtr {
					if u, ok2 := y.X.(*ssa.UnOp); ok2 && u.Op == token.MUL {
						addr = u.X
						continue
					}
					return fields, y.X, false
				}
			default:
				return fields, x.X, false
			}
		default:
			return fields, addr, ok
		}
	}
	return fields, addr, false
}

// Run iterates the transfer functions to a fixpoint.
func (t *c09Taint) Run() {
	for round := 0; round < 40; round++ {
		t.changed = false
		for _, f := range t.fns {
			t.function(f)
		}
		if !t.changed {
			return
		}
	}
	t.unknown[t.fns[0].Blocks[0].Instrs[0]] = "taint propagation did not converge"
}

func (t *c09Taint) tok(v ssa.Value) c09toks { return t.tv[v] }

func (t *c09Taint) function(f *ssa.Function) {
	for _, b := range f.Blocks {
		for _, in := range b.Instrs {
			t.instr(f, in)
		}
	}
}

func (t *c09Taint) methodImpls(m *types.Func, recv types.Type) []*ssa.Function {
	if r, ok := t.impls[m]; ok {
		return r
	}
	var out []*ssa.Function
	iface, _ := recv.Underlying().(*types.Interface)
	for _, g := range t.fns {
		o, ok := g.Object().(*types.Func)
		if !ok || o.Name() != m.Name() || g.Signature.Recv() == nil {
			continue
		}
		if iface != nil && !types.Implements(g.Signature.Recv().Type(), iface) {
			continue
		}
		out = append(out, g)
	}
	t.impls[m] = out
	return out
}

func (t *c09Taint) instr(f *ssa.Function, in ssa.Instruction) {
	switch x := in.(type) {
	case *ssa.Phi:
		for _, e := range x.Edges {
			t.add(x, t.tok(e))
		}
	case *ssa.Slice:
		t.add(x, t.tok(x.X))
	case *ssa.ChangeType:
		t.add(x, t.tok(x.X))
	case *ssa.ChangeInterface:
		t.add(x, t.tok(x.X))
	case *ssa.MakeInterface:
		t.add(x, t.tok(x.X))
	case *ssa.TypeAssert:
		if c09CanRef(x.Type()) {
			t.add(x, t.tok(x.X))
		}
	case *ssa.Convert:
		if tk := t.tok(x.X); len(tk) > 0 {
			if !c09CanRef(x.Type()) {
				t.copies[x] = true // string(b): copying conversion
			} else if _, fromString := x.X.Type().Underlying().(*types.Basic); !fromString {
				t.add(x, tk)
			}
		}
	case *ssa.Field:
		if c09CanRef(x.Type()) {
			t.add(x, t.tok(x.X))
		}
	case *ssa.Index:
		if c09CanRef(x.Type()) {
			t.add(x, t.tok(x.X))
		}
	case *ssa.Lookup:
		if c09CanRef(x.Type()) {
			t.add(x, t.tok(x.X))
		}
	case *ssa.Extract:
		if call, ok := x.Tuple.(*ssa.Call); ok {
			t.callResult(call, x.Index, x)
			return
		}
		if c09CanRef(x.Type()) {
			t.add(x, t.tok(x.Tuple))
		}
	case *ssa.Next:
		t.add(x, t.tok(x.Iter))
	case *ssa.Range:
		t.add(x, t.tok(x.X))
	case *ssa.FieldAddr:
		fld := core.FieldOfAddr(x)
		if fld != nil && c09CanRef(fld.Type()) {
			t.add(x, t.tok(x.X))
		}
		if fld != nil && t.tf[fld] != nil {
			if _, root, _ := c09AddrRoot(x); !c09IsLocal(root) {
				t.add(x, c09toks{c09FieldTok(fld, core.FieldOwner(x)): true})
			}
		}
	case *ssa.IndexAddr:
		if c09CanRef(x.Type().Underlying().(*types.Pointer).Elem()) {
			t.add(x, t.tok(x.X))
		}
	case *ssa.UnOp:
		if x.Op != token.MUL {
			return
		}
		if c09CanRef(x.Type()) {
			t.add(x, t.tok(x.X))
			if _, root, _ := c09AddrRoot(x.X); !c09IsLocal(root) {
				t.add(x, t.holds(x.Type(), 0))
			}
		}
	case *ssa.Store:
		t.store(f, x)
	case *ssa.MapUpdate:
		tk := c09toks{}
		for k := range t.tok(x.Value) {
			tk[k] = true
		}
		for k := range t.tok(x.Key) {
			tk[k] = true
		}
		if len(tk) == 0 {
			return
		}
		switch m := x.Map.(type) {
		case *ssa.MakeMap:
			t.add(m, tk)
		case *ssa.UnOp:
			fields, root, ok := c09AddrRoot(m.X)
			if c09IsLocal(root) {
				t.add(root, tk)
			} else {
				t.event(f, x, fields, root, x.Value, tk, ok)
			}
		default:
			t.unknown[x] = "borrowed value put into a map of unknown provenance"
		}
	case *ssa.Send:
		if len(t.tok(x.X)) > 0 {
			t.unknown[x] = "borrowed value sent on a channel"
		}
	case *ssa.MakeClosure:
		fn, _ := x.Fn.(*ssa.Function)
		for i, bnd := range x.Bindings {
			if tk := t.tok(bnd); len(tk) > 0 {
				t.add(x, tk)
				if fn != nil && i < len(fn.FreeVars) {
					t.add(fn.FreeVars[i], tk)
				}
			}
		}
	case *ssa.Return:
		for i, r := range x.Results {
			t.addRet(f, i, t.tok(r))
		}
	case *ssa.Go:
		t.call(f, x, nil)
		for _, a := range x.Call.Args {
			if len(t.tok(a)) > 0 {
				t.unknown[x] = "borrowed value handed to a goroutine"
			}
		}
	case *ssa.Defer:
		t.call(f, x, nil)
	case *ssa.Call:
		t.call(f, x, x)
		if _, isTuple := x.Type().(*types.Tuple); !isTuple {
			t.callResult(x, 0, x)
		}
	}
}

func c09IsLocal(root ssa.Value) bool {
	switch root.(type) {
	case *ssa.Alloc, *ssa.MakeSlice, *ssa.MakeMap:
		return true
	}
	return false
}

func (t *c09Taint) store(f *ssa.Function, st *ssa.Store) {
	tk := t.tok(st.Val)
	if len(tk) == 0 {
		return
	}
	fields, root, ok := c09AddrRoot(st.Addr)
	if c09IsLocal(root) {
		t.add(root, tk)
		return
	}
	t.event(f, st, fields, root, st.Val, tk, ok)
}

// c09ChainToks: the provenance tokens of the fields on an address chain.
func c09ChainToks(addr ssa.Value) []string {
	var out []string
	for i := 0; i < 32 && addr != nil; i++ {
		switch x := addr.(type) {
		case *ssa.FieldAddr:
			out = append(out, c09FieldTok(core.FieldOfAddr(x), core.FieldOwner(x)))
			addr = x.X
		case *ssa.IndexAddr:
			addr = x.X
		case *ssa.UnOp:
			addr = x.X
		case *ssa.Slice:
			addr = x.X
		default:
			return out
		}
	}
	return out
}

func (t *c09Taint) event(f *ssa.Function, in ssa.Instruction, fields []*types.Var, root ssa.Value, val ssa.Value, tk c09toks, exact bool) {
	t.eventAt(f, in, nil, fields, root, val, tk, exact)
}

func (t *c09Taint) eventAt(f *ssa.Function, in ssa.Instruction, addr ssa.Value, fields []*types.Var, root ssa.Value, val ssa.Value, tk c09toks, exact bool) {
	ev := t.events[in]
	if ev == nil {
		ev = &c09Event{Fn: f, Instr: in, Fields: fields, Root: root, Val: val, Prov: c09toks{}}
		switch y := in.(type) {
		case *ssa.Store:
			ev.Addr = y.Addr
		case *ssa.MapUpdate:
			ev.Addr = y.Map
		default:
			ev.Addr = addr
		}
		ev.Toks = c09ChainToks(ev.Addr)
		t.events[in] = ev
		t.changed = true
	}
	for k := range tk {
		if !ev.Prov[k] {
			ev.Prov[k] = true
			t.changed = true
		}
	}
	switch {
	case len(fields) == 0:
		if _, isG := root.(*ssa.Global); isG {
			ev.Kind, ev.Why = "global", "borrowed value stored in a package-level variable"
		} else {
			ev.Kind, ev.Why = "unknown", "borrowed value stored through a plain pointer"
		}
		if g, ok := root.(*ssa.Global); ok {
			t.add(g, tk)
		}
	case !exact:
		ev.Kind, ev.Why = "unknown", "borrowed value stored into a slice whose home could not be determined"
		for _, fl := range fields {
			t.addField(fl, tk)
		}
	default:
		ev.Kind = "field"
		if _, isG := root.(*ssa.Global); isG {
			ev.Kind, ev.Why = "global", "borrowed value stored in a package-level variable"
		}
		// heap abstraction: the innermost field written holds borrowed data; outer fields hold it by value through
		// the `holds` rule
		t.addField(fields[len(fields)-1], tk)
	}
}

// call propagates argument taint into callees and flags unknown retention.
func (t *c09Taint) call(f *ssa.Function, ci ssa.CallInstruction, val *ssa.Call) {
	cc := ci.Common()
	args := cc.Args
	anyTainted := false
	for _, a := range args {
		if len(t.tok(a)) > 0 {
			anyTainted = true
		}
	}
	if cc.IsInvoke() && len(t.tok(cc.Value)) > 0 {
		anyTainted = true
	}
	if bi, ok := cc.Value.(*ssa.Builtin); ok {
		if val == nil {
			return
		}
		switch bi.Name() {
		case "append":
			t.add(val, t.tok(args[0]))
			if len(args) > 1 {
				if sl, ok := args[1].Type().Underlying().(*types.Slice); ok && c09CanRef(sl.Elem()) {
					t.add(val, t.tok(args[1]))
				}
			}
		case "copy":
			// element-wise store of the source's elements into the destination's backing array
			sl, ok := args[1].Type().Underlying().(*types.Slice)
			tk := t.tok(args[1])
			if !ok || !c09CanRef(sl.Elem()) || len(tk) == 0 {
				return
			}
			dst := args[0]
			for {
				if s2, ok := dst.(*ssa.Slice); ok {
					dst = s2.X
					continue
				}
				break
			}
			switch d := dst.(type) {
			case *ssa.UnOp:
				if d.Op == token.MUL {
					fields, root, exact := c09AddrRoot(d.X)
					if c09IsLocal(root) {
						t.add(root, tk)
					} else {
						t.eventAt(f, ci, d.X, fields, root, args[1], tk, exact)
					}
					return
				}
			case *ssa.MakeSlice, *ssa.Alloc:
				t.add(d, tk)
				return
			}
			t.unknown[ci] = "slice of borrowed references copied into a slice whose home could not be determined"
		}
		return
	}
	if !anyTainted {
		return
	}
	var callees []*ssa.Function
	if cf := cc.StaticCallee(); cf != nil {
		callees = []*ssa.Function{cf}
	} else if cc.IsInvoke() {
		callees = t.methodImpls(cc.Method, cc.Value.Type())
		if len(callees) == 0 {
			if cc.Method.Pkg() != nil && c09PurePkgs[cc.Method.Pkg().Path()] {
				return
			}
			t.unknown[ci] = "borrowed value passed to interface method " + cc.Method.FullName() + " with no implementation in the repository"
			return
		}
		for _, g := range callees {
			// receiver + args
			if len(g.Params) == len(args)+1 {
				t.add(g.Params[0], t.tok(cc.Value))
				for i, a := range args {
					t.add(g.Params[i+1], t.tok(a))
				}
			}
		}
		return
	} else {
		// closure / function value
		if mc, ok := cc.Value.(*ssa.MakeClosure); ok {
			if fn, ok := mc.Fn.(*ssa.Function); ok {
				callees = []*ssa.Function{fn}
			}
		}
		if len(callees) == 0 {
			t.unknown[ci] = "borrowed value passed to a dynamically called function"
			return
		}
	}
	for _, g := range callees {
		if g.Blocks == nil || !core.InRepo(core.FuncPkg(g)) {
			p := core.FuncPkg(g)
			if p == nil && g.Object() != nil {
				p = g.Object().Pkg()
			}
			if p != nil && (c09PurePkgs[p.Path()]) {
				continue
			}
			if si, _ := t.sourceIndex2(ci); si {
				continue
			}
			t.unknown[ci] = "borrowed value passed to " + g.String() + ", which is not known to leave its argument alone"
			continue
		}
		for i, a := range args {
			if i < len(g.Params) {
				t.add(g.Params[i], t.tok(a))
			}
		}
	}
}

func (t *c09Taint) sourceIndex2(ci ssa.CallInstruction) (bool, string) {
	if call, ok := ci.(*ssa.Call); ok {
		i, n := t.sourceIndex(call)
		return i >= 0, n
	}
	return false, ""
}

// callResult computes the taint of result idx of a call, recorded on value `on` (the call itself or its Extract).
func (t *c09Taint) callResult(call *ssa.Call, idx int, on ssa.Value) {
	if _, ok := call.Call.Value.(*ssa.Builtin); ok {
		return
	}
	if si, name := t.sourceIndex(call); si >= 0 {
		if t.sources[call] == nil {
			t.sources[call] = &c09Source{Call: call, Fn: call.Parent(), Callee: name, Index: si}
		}
		if si == idx {
			t.add(on, c09toks{"src:" + core.FuncKey(call.Parent()) + " " + name: true})
		}
		return
	}
	if !c09CanRef(on.Type()) {
		return
	}
	cc := call.Call
	var callees []*ssa.Function
	if cf := cc.StaticCallee(); cf != nil {
		callees = []*ssa.Function{cf}
	} else if cc.IsInvoke() {
		callees = t.methodImpls(cc.Method, cc.Value.Type())
	} else if mc, ok := cc.Value.(*ssa.MakeClosure); ok {
		if fn, ok := mc.Fn.(*ssa.Function); ok {
			callees = []*ssa.Function{fn}
		}
	}
	for _, g := range callees {
		if g.Blocks != nil && core.InRepo(core.FuncPkg(g)) {
			if m := t.tret[g]; m != nil {
				t.add(on, m[idx])
			}
			continue
		}
		// external: a result of reference type may alias any borrowed argument
		for _, a := range cc.Args {
			t.add(on, t.tok(a))
		}
	}
	if len(callees) == 0 {
		for _, a := range cc.Args {
			t.add(on, t.tok(a))
		}
	}
}

// ---------------------------------------------------------------- structural equality of SSA values

func c09Same(a, b ssa.Value) bool { return c09same(a, b, 0) }

func c09same(a, b ssa.Value, d int) bool {
	if a == b {
		return true
	}
	if d > 10 || a == nil || b == nil {
		return false
	}
	switch x := a.(type) {
	case *ssa.Const:
		y, ok := b.(*ssa.Const)
		if !ok || (x.Value == nil) != (y.Value == nil) {
			return false
		}
		return x.Value == nil || x.Value.ExactString() == y.Value.ExactString()
	case *ssa.FieldAddr:
		y, ok := b.(*ssa.FieldAddr)
		return ok && x.Field == y.Field && types.Identical(x.X.Type(), y.X.Type()) && c09same(x.X, y.X, d+1)
	case *ssa.IndexAddr:
		y, ok := b.(*ssa.IndexAddr)
		return ok && c09same(x.X, y.X, d+1) && c09same(x.Index, y.Index, d+1)
	case *ssa.UnOp:
		y, ok := b.(*ssa.UnOp)
		return ok && x.Op == y.Op && c09same(x.X, y.X, d+1)
	case *ssa.BinOp:
		y, ok := b.(*ssa.BinOp)
		return ok && x.Op == y.Op && c09same(x.X, y.X, d+1) && c09same(x.Y, y.Y, d+1)
	case *ssa.Call:
		y, ok := b.(*ssa.Call)
		if !ok {
			return false
		}
		bx, ok1 := x.Call.Value.(*ssa.Builtin)
		by, ok2 := y.Call.Value.(*ssa.Builtin)
		return ok1 && ok2 && bx.Name() == by.Name() && (bx.Name() == "len" || bx.Name() == "cap") && c09same(x.Call.Args[0], y.Call.Args[0], d+1)
	}
	return false
}

func c09EventKey(ev *c09Event) string {
	var names []string
	for _, f := range ev.Fields {
		names = append(names, f.Name())
	}
	dst := strings.Join(names, ".")
	if dst == "" {
		dst = fmt.Sprintf("%T", ev.Root)
		if g, ok := ev.Root.(*ssa.Global); ok {
			dst = "global " + g.Name()
		}
	}
	return core.FuncKey(ev.Fn) + " stores borrowed data into " + dst
}
