package rules

import (
	"fmt"
	"go/token"
	"go/types"
	"sort"
	"strings"

	"golang.org/x/tools/go/ssa"

	"omnilint/core"
)

// Stale element pointers. p := &x.f[i] points into the backing array of slice field f; x.f = append(x.f, e) may move
// the slice to a new array, after which a write through p is lost and a read through p is stale. The explicit
// declaration stacks of the hierarchical readers (grown by the push function, element pointers handed out by the
// stack-top accessor) are the instance that matters: a lost write leaves the real stack entry without its node.
//
// Rule: in every library function, for every element pointer p of a slice-of-struct field f that is grown somewhere
// (p = IndexAddr on a load of f, or the result of a function that returns such pointers), no load/store through p (or
// an address derived from p), and no hand-over of p, is reachable from a call that may grow f without passing
// through the definition of p again.

type staleEnv struct {
	c       *core.Ctx
	growers map[*types.Var]map[*ssa.Function]bool // field -> functions that may (transitively) grow it
	retPtr  map[*ssa.Function]*types.Var          // functions returning element pointers of a field
}

// elemPtrField: v is &load(x.f)[i] for a slice-of-struct field f.
func elemPtrField(v ssa.Value) *types.Var {
	ia, ok := v.(*ssa.IndexAddr)
	if !ok {
		return nil
	}
	ld, ok := ia.X.(*ssa.UnOp)
	if !ok || ld.Op != token.MUL {
		return nil
	}
	fa, ok := ld.X.(*ssa.FieldAddr)
	if !ok {
		return nil
	}
	fv := fieldVarOf(fa)
	if fv == nil {
		return nil
	}
	sl, ok := fv.Type().Underlying().(*types.Slice)
	if !ok {
		return nil
	}
	if _, ok := sl.Elem().Underlying().(*types.Struct); !ok {
		return nil
	}
	return fv
}

func newStaleEnv(c *core.Ctx) *staleEnv {
	e := &staleEnv{c: c, growers: map[*types.Var]map[*ssa.Function]bool{}, retPtr: map[*ssa.Function]*types.Var{}}
	fns := c.RepoFunctions()
	// direct growers: store to field f of append(load f, ...)
	for _, f := range fns {
		for _, b := range f.Blocks {
			for _, in := range b.Instrs {
				st, ok := in.(*ssa.Store)
				if !ok {
					continue
				}
				fa, ok := st.Addr.(*ssa.FieldAddr)
				if !ok {
					continue
				}
				fv := fieldVarOf(fa)
				if fv == nil {
					continue
				}
				call, ok := st.Val.(*ssa.Call)
				if !ok {
					continue
				}
				if b, ok := call.Call.Value.(*ssa.Builtin); !ok || b.Name() != "append" {
					continue
				}
				if e.growers[fv] == nil {
					e.growers[fv] = map[*ssa.Function]bool{}
				}
				e.growers[fv][f] = true
			}
		}
	}
	// transitive callers (repository functions only)
	cg := c.CallGraph()
	for _, set := range e.growers {
		work := []*ssa.Function{}
		for f := range set {
			work = append(work, f)
		}
		for len(work) > 0 {
			f := work[len(work)-1]
			work = work[:len(work)-1]
			n := cg.Nodes[f]
			if n == nil {
				continue
			}
			for _, in := range n.In {
				cf := in.Caller.Func
				if cf == nil || set[cf] || !core.InRepo(core.FuncPkg(cf)) {
					continue
				}
				set[cf] = true
				work = append(work, cf)
			}
		}
	}
	// functions returning element pointers (fixpoint over wrappers)
	for changed := true; changed; {
		changed = false
		for _, f := range fns {
			if _, done := e.retPtr[f]; done || f.Signature.Results().Len() != 1 {
				continue
			}
			if _, ok := f.Signature.Results().At(0).Type().Underlying().(*types.Pointer); !ok {
				continue
			}
			var fld *types.Var
			ok := true
			n := 0
			for _, b := range f.Blocks {
				for _, in := range b.Instrs {
					rt, isRet := in.(*ssa.Return)
					if !isRet {
						continue
					}
					v := rt.Results[0]
					if core.IsNilConst(v) {
						continue
					}
					var fv *types.Var
					if fv = elemPtrField(v); fv == nil {
						if call, isCall := v.(*ssa.Call); isCall {
							if cf := call.Call.StaticCallee(); cf != nil {
								fv = e.retPtr[cf]
							}
						}
					}
					if fv == nil || (fld != nil && fld != fv) {
						ok = false
					}
					fld = fv
					n++
				}
			}
			if ok && fld != nil && n > 0 {
				e.retPtr[f] = fld
				changed = true
			}
		}
	}
	return e
}

// ptrField: the slice field v points into, if v is an element pointer.
func (e *staleEnv) ptrField(v ssa.Value) *types.Var {
	if fv := elemPtrField(v); fv != nil {
		return fv
	}
	if call, ok := v.(*ssa.Call); ok {
		if cf := call.Call.StaticCallee(); cf != nil {
			return e.retPtr[cf]
		}
	}
	return nil
}

func (e *staleEnv) mayGrow(in ssa.Instruction, fv *types.Var) bool {
	set := e.growers[fv]
	if set == nil {
		return false
	}
	switch x := in.(type) {
	case ssa.CallInstruction:
		if _, isDefer := x.(*ssa.Defer); isDefer {
			return false
		}
		for _, cf := range e.c.Callees(x) {
			if set[cf] {
				return true
			}
		}
	case *ssa.Store:
		if fa, ok := x.Addr.(*ssa.FieldAddr); ok && fieldVarOf(fa) == fv {
			if call, ok := x.Val.(*ssa.Call); ok {
				if b, ok := call.Call.Value.(*ssa.Builtin); ok && b.Name() == "append" {
					return true
				}
			}
		}
	}
	return false
}

// derefUses: instructions that read or write through p or an address derived from it, or hand p over.
func derefUses(p ssa.Value) []ssa.Instruction {
	var out []ssa.Instruction
	seen := map[ssa.Value]bool{}
	var walk func(a ssa.Value)
	walk = func(a ssa.Value) {
		if seen[a] {
			return
		}
		seen[a] = true
		for _, r := range core.Referrers(a) {
			switch x := r.(type) {
			case *ssa.FieldAddr:
				walk(x)
			case *ssa.IndexAddr:
				if x.X == a {
					walk(x)
				}
			case *ssa.Phi:
				walk(x)
			case *ssa.DebugRef:
			case *ssa.BinOp, *ssa.If:
				// comparing the pointer (p == nil) does not dereference it
			default:
				out = append(out, r)
			}
		}
	}
	walk(p)
	return out
}

// reachesAvoiding: is `to` reachable from just after `from` without executing `avoid`?
func reachesAvoiding(from, to, avoid ssa.Instruction) bool {
	idx := func(in ssa.Instruction) int {
		for i, x := range in.Block().Instrs {
			if x == in {
				return i
			}
		}
		return -1
	}
	fb, fi := from.Block(), idx(from)
	tb, ti := to.Block(), idx(to)
	var ab *ssa.BasicBlock
	ai := -1
	if avoid != nil && avoid.Block() != nil {
		ab, ai = avoid.Block(), idx(avoid)
	}
	// scan rest of the starting block
	scan := func(b *ssa.BasicBlock, start int) (hit, blocked bool) {
		for i := start; i < len(b.Instrs); i++ {
			if b == ab && i == ai {
				return false, true
			}
			if b == tb && i == ti {
				return true, false
			}
		}
		return false, false
	}
	if hit, blocked := scan(fb, fi+1); hit {
		return true
	} else if blocked {
		return false
	}
	seen := map[*ssa.BasicBlock]bool{}
	work := append([]*ssa.BasicBlock{}, fb.Succs...)
	for len(work) > 0 {
		b := work[len(work)-1]
		work = work[:len(work)-1]
		if seen[b] {
			continue
		}
		seen[b] = true
		hit, blocked := scan(b, 0)
		if hit {
			return true
		}
		if blocked {
			continue
		}
		work = append(work, b.Succs...)
	}
	return false
}

func staleElemPointers(c *core.Ctx, rule string, pkgs ...string) {
	e := newStaleEnv(c)
	var flds []string
	for fv := range e.growers {
		flds = append(flds, fv.Name())
	}
	sort.Strings(flds)
	nPtr := 0
	for _, f := range c.RepoFunctions() {
		p := core.FuncPkg(f)
		if p == nil || core.IsCLIOrSample(p) {
			continue
		}
		rel := core.Rel(p.Path())
		ok := len(pkgs) == 0
		for _, want := range pkgs {
			if rel == want || strings.HasPrefix(rel, want+"/") {
				ok = true
			}
		}
		if !ok {
			continue
		}
		// candidate pointers: values + parameters of element-pointer type are not tracked (no field known)
		for _, b := range f.Blocks {
			for _, in := range b.Instrs {
				v, isVal := in.(ssa.Value)
				if !isVal {
					continue
				}
				fv := e.ptrField(v)
				if fv == nil || e.growers[fv] == nil {
					continue
				}
				nPtr++
				key := fmt.Sprintf("%s element pointer into %s", core.FuncKey(f), fv.Name())
				uses := derefUses(v)
				var badUse, badGrow ssa.Instruction
				for _, gb := range f.Blocks {
					for _, g := range gb.Instrs {
						if g == in || !e.mayGrow(g, fv) {
							continue
						}
						if !reachesAvoiding(in, g, in) {
							continue
						}
						for _, u := range uses {
							if u == g {
								continue // the pointer (or a field read through it) is an argument of the growing call itself
							}
							if reachesAvoiding(g, u, in) {
								badUse, badGrow = u, g
								break
							}
						}
						if badUse != nil {
							break
						}
					}
					if badUse != nil {
						break
					}
				}
				if badUse != nil {
					c.Bad(rule, key, core.InstrPos(badUse), fmt.Sprintf("the pointer obtained at %s is used (%s) after %s, which may append to %s and move its backing array: a write through the old pointer is lost, a read is stale",
						c.Position(core.InstrPos(in)), badUse.String(), c.Position(core.InstrPos(badGrow)), fv.Name()))
				} else {
					c.OK(rule, key, core.InstrPos(in), fmt.Sprintf("%d uses, none reachable from a call that may grow %s without re-obtaining the pointer", len(uses), fv.Name()))
				}
			}
		}
	}
	c.Note("%s: grown slice-of-struct fields: %s; %d element pointers inspected", rule, strings.Join(flds, ", "), nPtr)
}
